#!/usr/bin/env python3
"""usage: tools/addfixed.py <property> <commit> <what failed> <fingerprint> [<fingerprint>...]
Appends 'fixed' entries (which suppress nothing) to /verif/known_findings.json."""
import json, sys
prop, commit, what, fps = sys.argv[1], sys.argv[2], sys.argv[3], sys.argv[4:]
p = '/verif/known_findings.json'
k = json.load(open(p))
for i, fp in enumerate(fps):
    if any(e['property'] == prop and e['fingerprint'] == fp and e.get('commit') == commit for e in k['findings']):
        continue
    w = what if i == 0 else 'same defect, other observation: ' + what
    k['findings'].append({"property": prop, "fingerprint": fp, "status": "fixed", "commit": commit,
                          "what": "fixed: property=%s %s %s" % (prop, commit, w)})
json.dump(k, open(p, 'w'), indent=1, ensure_ascii=False)
print(len(k['findings']), 'entries')

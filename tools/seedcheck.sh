#!/bin/bash
# usage: tools/seedcheck.sh <patch.diff> <ID> [quick|thorough]
# Runs one registered check against /repo's tree WITH the given change, without touching /repo:
# the changed files are taken from a scratch worktree and handed to bin/check as a source overlay
# (VERIF_MUT_OVERLAY), which is what `git -C /repo apply` would make the check see. Evidence and
# replay files of the real tree are preserved. Prints DETECTED / MISSED and the log path.
set -u
patch=$(readlink -f "$1"); id="$2"; tier="${3:-quick}"
wt=$(mktemp -d /tmp/sc-XXXXXX); rmdir "$wt"
ov=$(mktemp -d /tmp/scov-XXXXXX)
git -C /repo worktree add -q "$wt" HEAD || exit 2
cleanup() { git -C /repo worktree remove --force "$wt" 2>/dev/null; rm -rf "$wt" "$ov"; }
trap cleanup EXIT
(cd "$wt" && git apply "$patch") || { echo "patch does not apply"; exit 2; }
python3 - "$wt" "$ov" <<'E'
import json,subprocess,sys,os,shutil
wt,ov=sys.argv[1],sys.argv[2]
files=subprocess.run(['git','-C',wt,'status','--porcelain'],capture_output=True,text=True).stdout.splitlines()
rep={}
for l in files:
    f=l[3:].strip()
    if not f.endswith('.go'): continue
    dst=os.path.join(ov,f.replace('/','__'))
    if os.path.exists(os.path.join(wt,f)):
        shutil.copy(os.path.join(wt,f),dst); rep['/repo/'+f]=dst
    else:
        rep['/repo/'+f]=''
json.dump({'Replace':rep},open(os.path.join(ov,'ov.json'),'w'))
print('overlay:',list(rep))
E
V=/verif
mkdir -p "$V/.seedlogs" "$V/.build"
# one run per check id at a time (several seed runs may be going on in parallel: they share the
# mutated binary, the evidence file and the replay directory of the check)
exec 8>"$V/.build/seedcheck-$id.lock"
flock 8
log="$V/.seedlogs/$(basename "$(dirname "$patch")")-$id-$tier.log"
cp "$V/evidence/$id.json" "$ov/evidence.bak" 2>/dev/null
ls "$V/replays/$id" 2>/dev/null | sort > "$ov/replays.before"
VERIF_MUT_OVERLAY="$ov/ov.json" "$V/bin/check" "$id" --tier "$tier" > "$log" 2>&1
rc=$?
[ -f "$ov/evidence.bak" ] && cp "$ov/evidence.bak" "$V/evidence/$id.json"
ls "$V/replays/$id" 2>/dev/null | sort > "$ov/replays.after"
for f in $(comm -13 "$ov/replays.before" "$ov/replays.after"); do rm -f "$V/replays/$id/$f"; done
(cd "$V" && git checkout -q -- "replays/$id" 2>/dev/null)
n=$(grep -c '^VIOLATION' "$log")
if [ $rc -eq 1 ] && [ "$n" -gt 0 ]; then echo "DETECTED id=$id tier=$tier violations=$n log=$log"; grep -m3 'fingerprint' "$log" | cut -c1-200
elif [ $rc -eq 0 ]; then echo "MISSED id=$id tier=$tier log=$log"
else echo "ERROR rc=$rc id=$id tier=$tier log=$log"; tail -5 "$log"; fi

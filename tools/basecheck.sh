#!/bin/bash
# usage: tools/basecheck.sh
# Runs the repository's own test suite (hooks OFF: no build tag) on /repo HEAD in a scratch worktree and
# compares the result with the 867 stable tests of BASELINE.json (failing packages are retried: several
# use fixed TCP ports or wall-clock slots). Prints "BASELINE suite=PASS|FAIL".
set -u
export GOFLAGS=-mod=mod GOPROXY=off GOSUMDB=off GOTOOLCHAIN=local
wt=$(mktemp -d /tmp/bc-XXXXXX); rmdir "$wt"
git -C /repo worktree add -q "$wt" HEAD || exit 2
cleanup() { git -C /repo worktree remove --force "$wt" 2>/dev/null; rm -rf "$wt"; }
trap cleanup EXIT
cd "$wt" || exit 2
go build ./... || { echo "BASELINE build=FAIL"; exit 1; }
go test -json -vet=off -count=1 -timeout 25m ./... > "$wt/.suite.json" 2>/dev/null
cmp() { python3 - "$1" "$2" <<'P'
import json,sys
sp=set(json.load(open('/root/.vp/BASELINE.json'))['stable_pass'])
todo=set(open(sys.argv[2]).read().split()) if sys.argv[2]!='-' else sp
res={}
for l in open(sys.argv[1]):
    try: e=json.loads(l)
    except Exception: continue
    if e.get('Test') and e['Action'] in ('pass','fail','skip'): res[e['Package']+'::'+e['Test']]=e['Action']
for t in sorted(todo):
    if res.get(t)!='pass': print(t)
P
}
cmp "$wt/.suite.json" - > "$wt/.todo.txt"
for attempt in 1 2 3 4; do
  [ -s "$wt/.todo.txt" ] || break
  echo "attempt $attempt: $(wc -l < "$wt/.todo.txt") stable tests not passing yet; retrying their packages"
  sleep $((attempt*10))
  : > "$wt/.retry.json"
  for pkg in $(cut -d: -f1 "$wt/.todo.txt" | sort -u); do
    rel=${pkg#github.com/LemoFoundationLtd/lemochain-core}
    go test -json -vet=off -count=1 -timeout 25m ".$rel" >> "$wt/.retry.json" 2>/dev/null
  done
  cmp "$wt/.retry.json" "$wt/.todo.txt" > "$wt/.todo2.txt"; mv "$wt/.todo2.txt" "$wt/.todo.txt"
done
if [ -s "$wt/.todo.txt" ]; then cat "$wt/.todo.txt"; echo "BASELINE suite=FAIL head=$(git -C /repo log -1 --format=%h)"; exit 1; fi
echo "BASELINE suite=PASS head=$(git -C /repo log -1 --format=%h) (867 stable tests)"

#!/usr/bin/env python3
"""Rewrites section 13 of /verif/DESIGN.md from seeded/*/meta.json, seeded/REVFIX.md and the notes below."""
import json, glob, os, subprocess, re

STRENGTHENED = [
 ("C01-A", "C01: 'discard candidates in a nearly full block' variant: the block must equal the one mined from exactly the packaged transactions and be accepted (sound form; what FITS may depend on discarded candidates, which is only counted)"),
 ("C05-B", "chainkit menu (C01, C05): a transfer to self and a contract that CALLs itself with value (sender == recipient of a value transfer)"),
 ("C05-C", "chainkit menu (C01, C05): create-oog-deposit, a value-carrying contract creation whose constructor succeeds but whose gas limit (55400) lies inside the code-deposit window (intrinsic 54320 + constructor < limit < + 15 bytes x 200 gas): the conservation monitor's 'amount moved iff the transaction succeeded' now sees the ErrCodeStoreOutOfGas path (session 4; before, only C16 caught this seed)"),
 ("C04-B", "C04: restart-centred scenario rst ({empty block, T, box(T,U), U} at two instants + restart, one to two levels deeper than lin)"),
 ("C03-D", "C03: two reduced-alphabet scenarios one level deeper: a fork off the MIDDLE of a path that becomes stable in one step, head on the fork"),
 ("C06-C", "C06: tamper 'gasPayer field emptied on the wire' (nil pointer in the encoding; the accessor answers the sender)"),
 ("C16-C", "C16: boundary-operand programs: every memory / copy / size-taking instruction with operands around 2^32, 2^63, 2^64, 2^256-1, alone and behind a call that leaves return data"),
 ("C04-C", "C04: pruning scenario on 3 deputies (the payload on sibling forks, a confirm that makes one branch stable and prunes the other, the payload offered again)"),
 ("C02-D", "C04: the restart-centred scenario also at the last second of the window (edge of the 30-minute reload horizon of the replay cache)"),
 ("C01-D", "C01 phase 1: a rejected sibling that carries OTHER transactions and is refused only after execution and Finalise (flipped version root)"),
 ("C16-D", "C16: the term-reward precompile on top of earlier settings (one negative) under all 6 controlled map iteration orders (source overlay pass maprange on chain/vm/contracts.go)"),
 ("C11-C, C11-D", "C11: phases R (work the miner rolls back: boxes with failing later sub-transactions, gas limit reached inside a box, reverting value flows) and T (term boundaries: rewards and refunds crossing the vote step of voting receivers), built by the C11 extension; genuine defect d76a359 found on the way"),
 ("C17-C", "C17: scenario sCopy with SecureTrie.Copy() in the alphabet: the copy must keep the content it had when it was taken (reads and root) whatever is written to the original afterwards"),
 ("C18-D", "C19: 16th scenario insert || confirms-of-other-fork (InsertBlock of a transaction-carrying block on the head || a confirm package that makes the sibling-fork block stable): the pool content after a confirm-driven fork switch is under the sequential-reference oracle"),
 ("C13-C", "C13: schedule phase drives the real (*Miner).schedule / mine timer / retry timer under the virtual clock with deputy counts that differ across the term change (built by the C13 extension after this seed)"),
 ("C15-A", "C15: fault menu on the node's WRITES (write error, remote closed, write deadline) for every request that makes the node answer; oracle: Run returns, the server forgets the connection, the same id is welcome again"),
 ("C15-B", "C15: seq/block-cache family: every block sequence of length <= 4 that drives the orphan cache and the evil-deputy list"),
 ("C19-B", "C19: the store pointer announced as a logical variable (scheduling points at the unlocked read-modify-write of a stable block's record); scenario batch-task || confirms-for-stable-ancestor"),
 ("C19-A", "C19: scenario confirms || confirms-same-signer (two encodings of one deputy's signature, block one signer short)"),
 ("C08-B", "C08: the os shim logs a write where the bytes actually go (O_APPEND ignores the seek position)"),
 ("C07 (side remark of the C07 seeding agent)", "C07: fourth oracle (the block equals the one the surviving events alone produce) + zero-root scenarios; genuine defect 620fa26 found"),
 ("C04 (side remark of the C04 seeding agent)", "C04: multi-signature payload under permuted / padded signature lists and a box carrying one payload twice; genuine defects: b92245c fixed, signature-list replay open"),
]

def table():
    rows = []
    for p in sorted(glob.glob('/verif/seeded/*/meta.json')):
        m = json.load(open(p))
        v = m.get('verified_in_scratch_worktree', {})
        ver = 'suite %s, demo %s/%s' % (v.get('suite', '?'), v.get('demo_with_change', '?'), v.get('demo_without_change', '?')) if v else 'not re-verified'
        caught = ', '.join(m.get('caught_by', [])) or '**missed**'
        note = m.get('note', '')
        rows.append('| %s | %s | %s | %s | %s | %s%s |' % (m['name'], m['breaks_property'], ', '.join(m.get('files_changed', [])), (m.get('needs_to_manifest') or '').replace('|', '/'), ver, caught, (' — ' + note) if note else ''))
    return '\n'.join(['| seed | property | files | needs, in order to manifest | re-verified (suite with change, demo with/without) | caught by |', '|---|---|---|---|---|---|'] + rows)

def main():
    p = '/verif/DESIGN.md'
    s = open(p).read()
    i = s.index('## 13. Seeded changes')
    metas = [json.load(open(f)) for f in glob.glob('/verif/seeded/*/meta.json')]
    n = len(metas); caught = sum(1 for m in metas if m.get('caught_by')); quick = sum(1 for m in metas if any('(quick)' in c for c in m.get('caught_by', [])))
    out = '''## 13. Seeded changes

Independent sub-agents, given only the text of one property and their own scratch worktree of /repo
(nothing from /verif; the prompt is `tools/seed_prompt.tmpl`), each produced two property-breaking changes
that compile and keep the existing tests passing, with a demonstration that fails with the change and
passes without it; they were asked for changes that need something specific to manifest (an interleaving, a
crash point, a multi-step history, an unusual input, two cooperating sites). Round 1 (A, B) covered all 20
properties; round 2 (C, D; the agents were told which sites round 1 had used) covered the 15 properties
whose checks existed before this session. Each change was re-verified by `tools/seedverify.sh` (scratch
worktree of /repo HEAD outside /repo and /verif: applies, builds, the 867 stable tests pass, the
demonstration fails with / passes without the change) and then run against the checks with
`tools/seedcheck.sh` (the changed files are handed to `bin/check` as a source overlay - what the check
would see after `git -C /repo apply` - so that /repo itself stays untouched while other work builds against
it). Kept changes live in `seeded/<name>/` (`patch.diff`, `demo/`, the agent's `AGENT_README.md`,
`verify.log`, `meta.json`: which property, what it needs in order to manifest, what was run, which check
reported what).

Result: %d seeded changes, %d caught (%d by a quick tier), %d missed.

%s

### 13.1 Checks that were strengthened because a seeded change was missed (or after a side remark)

| seed | what was added |
|---|---|
%s

Seeds still missed, and why they were left: see the `note` in their `meta.json` (shown in the table above).

### 13.2 Reverse of every fix commit

Every `fix:` commit was reverted alone (reverse diff through the source overlay, `tools/revfix.sh`) and its
check run: it must report the defect again. Measured in this session for the fixes that existed at its
start (later fixes were measured by the builders who proposed them: `mc/props/<id>/REPORT.md`,
`FIXED_FINGERPRINTS.json` of C08 and C10, the C15 / C19 / C20 detection tables).

%s
''' % (n, caught, quick, n - caught, table(), '\n'.join('| %s | %s |' % x for x in STRENGTHENED), open('/verif/seeded/REVFIX.md').read())
    open(p, 'w').write(s[:i] + out)

main()

#!/usr/bin/env python3
"""usage: tools/seedrun.py <seed name> <property> <check ids, comma separated> ["what it needs to manifest"]

Runs the named registered checks (quick; thorough where quick misses) against /repo's tree with the
seeded change applied as a source overlay (tools/seedcheck.sh) and (re)writes seeded/<name>/meta.json:
which property the change breaks, what it needs in order to manifest, what was run, what each check
reported. The result of tools/seedverify.sh (suite / demonstration) is taken from verify.log."""
import json, os, re, subprocess, sys

name, prop, checks = sys.argv[1], sys.argv[2], sys.argv[3].split(',')
needs = sys.argv[4] if len(sys.argv) > 4 else None
d = os.path.join('/verif/seeded', name)
metap = os.path.join(d, 'meta.json')
meta = json.load(open(metap)) if os.path.exists(metap) else {}
meta['name'] = name
meta['breaks_property'] = prop
if needs:
    meta['needs_to_manifest'] = needs
patch = open(os.path.join(d, 'patch.diff')).read()
meta['files_changed'] = sorted(set(re.findall(r'^\+\+\+ b/(\S+)', patch, re.M)))
meta['made_by'] = 'independent sub-agent given only the property text and a scratch worktree of /repo (nothing from /verif)'
vl = os.path.join(d, 'verify.log')
if os.path.exists(vl):
    res = [l for l in open(vl).read().splitlines() if l.startswith('RESULT')]
    if res:
        meta['verified_in_scratch_worktree'] = dict(kv.split('=') for kv in res[-1].split()[1:])
        meta['verified_with'] = 'tools/seedverify.sh seeded/%s (scratch worktree of /repo HEAD: git apply, go build ./..., full test suite compared with the 867 stable tests of BASELINE.json, demonstration with and without the change)' % name
runs = [r for r in meta.get('runs', []) if r['check'] not in checks]
for c in checks:
    for tier in ('quick', 'thorough'):
        out = subprocess.run(['/verif/tools/seedcheck.sh', os.path.join(d, 'patch.diff'), c, tier], capture_output=True, text=True).stdout
        verdict = 'ERROR'
        for l in out.splitlines():
            if l.startswith(('DETECTED', 'MISSED', 'ERROR')):
                verdict = l.split()[0]
        log = '/verif/.seedlogs/%s-%s-%s.log' % (name, c, tier)
        fps = []
        if os.path.exists(log):
            fps = [l.split('fingerprint:', 1)[1].strip() for l in open(log).read().splitlines() if 'fingerprint:' in l]
        runs.append({'check': c, 'tier': tier, 'cmd': 'tools/seedcheck.sh seeded/%s/patch.diff %s %s' % (name, c, tier), 'result': verdict, 'violations': len(fps), 'fingerprints': fps[:6]})
        print(name, c, tier, verdict, len(fps))
        if verdict == 'DETECTED':
            break
meta['runs'] = runs
meta['caught_by'] = sorted({'%s (%s)' % (r['check'], r['tier']) for r in runs if r['result'] == 'DETECTED'})
json.dump(meta, open(metap, 'w'), indent=1)

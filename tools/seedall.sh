#!/bin/bash
# usage: tools/seedall.sh [seed names...]   (default: every seeded/* whose verify.log has no RESULT line)
# Re-verifies seeded changes one after the other in scratch worktrees (tools/seedverify.sh).
cd /verif || exit 2
names=("$@")
if [ ${#names[@]} -eq 0 ]; then
  for d in seeded/*/; do n=$(basename "$d"); grep -q '^RESULT' "$d/verify.log" 2>/dev/null || names+=("$n"); done
fi
for n in "${names[@]}"; do
  echo "=== $n $(date +%T)"
  nice -n 5 tools/seedverify.sh "seeded/$n" 2>&1 | grep -E '^(RESULT|changed|suite|attempt)'
done

#!/bin/bash
# usage: tools/seedverify.sh <dir with patch.diff and demo/> [test packages...]
# Confirms, in a scratch worktree of /repo outside /repo and /verif, that a seeded change
#   (1) applies and builds, (2) keeps the repository's stable baseline tests passing,
#   (3) makes its demonstration fail, and (4) the demonstration passes without it.
# Prints a summary and writes <dir>/verify.log. The worktree is removed at the end.
set -u
export GOFLAGS=-mod=mod GOPROXY=off GOSUMDB=off GOTOOLCHAIN=local
d=$(readlink -f "$1"); shift
wt=$(mktemp -d /tmp/sv-XXXXXX); rmdir "$wt"
log="$d/verify.log"; : > "$log"
git -C /repo worktree add -q "$wt" HEAD || exit 2
cleanup() { git -C /repo worktree remove --force "$wt" 2>/dev/null; rm -rf "$wt"; }
trap cleanup EXIT
cd "$wt" || exit 2
if ! git apply --check "$d/patch.diff" 2>>"$log"; then echo "RESULT apply=FAIL"; exit 1; fi
git apply "$d/patch.diff"
changed=$(git diff --name-only | tr '\n' ' ')
echo "changed files: $changed" | tee -a "$log"
if ! go build ./... >>"$log" 2>&1; then echo "RESULT build=FAIL"; exit 1; fi
# (2) baseline: full suite, then compare with the stable_pass list; failures are retried once per package
go test -json -vet=off -count=1 -timeout 25m ./... > "$wt/.suite.json" 2>>"$log"
python3 - "$wt/.suite.json" > "$wt/.missing.txt" <<'E'
import json,sys
sp=set(json.load(open('/root/.vp/BASELINE.json'))['stable_pass'])
res={}
for l in open(sys.argv[1]):
    try: e=json.loads(l)
    except Exception: continue
    if e.get('Test') and e['Action'] in ('pass','fail','skip'): res[e['Package']+'::'+e['Test']]=e['Action']
for t in sorted(sp):
    if res.get(t)!='pass': print(t)
E
suite=PASS
# stable tests that did not pass are retried per package, up to 4 times (several packages use fixed
# TCP ports or wall-clock slots and fail on their own on a busy machine)
cp "$wt/.missing.txt" "$wt/.todo.txt"
for attempt in 1 2 3 4; do
  [ -s "$wt/.todo.txt" ] || break
  echo "attempt $attempt: $(wc -l < "$wt/.todo.txt") stable tests not passing yet; retrying their packages" | tee -a "$log"
  sleep $((attempt*15))
  : > "$wt/.retry.json"
  for pkg in $(cut -d: -f1 "$wt/.todo.txt" | sort -u); do
    rel=${pkg#github.com/LemoFoundationLtd/lemochain-core}
    go test -json -vet=off -count=1 -timeout 25m ".$rel" >> "$wt/.retry.json" 2>>"$log"
  done
  python3 - "$wt/.retry.json" "$wt/.todo.txt" > "$wt/.todo2.txt" <<'E2'
import json,sys
res={}
for l in open(sys.argv[1]):
    try: e=json.loads(l)
    except Exception: continue
    if e.get('Test') and e['Action'] in ('pass','fail','skip'): res[e['Package']+'::'+e['Test']]=e['Action']
for t in open(sys.argv[2]).read().split():
    if res.get(t)!='pass': print(t)
E2
  mv "$wt/.todo2.txt" "$wt/.todo.txt"
done
if [ -s "$wt/.todo.txt" ]; then suite=FAIL; cat "$wt/.todo.txt" | tee -a "$log"; fi
echo "suite with change: $suite" | tee -a "$log"
# (3)/(4) demonstration
demo_with=NA; demo_without=NA
if [ -d "$d/demo" ]; then
  (cd "$d/demo" && find . -type f) | while read f; do mkdir -p "$wt/$(dirname "$f")"; cp "$d/demo/$f" "$wt/$f"; done
  pk=$( (cd "$d/demo" && find . -name '*.go' -printf '%h\n') | sort -u)
  run_demo() {
    rc=0
    for p in $pk; do
      if ls "$wt/$p"/*_test.go >/dev/null 2>&1 && (cd "$d/demo/$p" && ls *_test.go >/dev/null 2>&1); then
        names=$(cd "$d/demo/$p" && grep -ho '^func Test[A-Za-z0-9_]*' *_test.go | sed 's/func //' | paste -sd'|')
        go test -vet=off -count=1 -timeout 10m -run "^($names)\$" "./$p" >>"$log" 2>&1 || rc=1
      else
        go run "./$p" >>"$log" 2>&1 || rc=1
      fi
    done
    return $rc
  }
  echo "--- demo WITH change" >> "$log"
  if run_demo; then demo_with=PASS; else demo_with=FAIL; fi
  git apply -R "$d/patch.diff"
  echo "--- demo WITHOUT change" >> "$log"
  if run_demo; then demo_without=PASS; else demo_without=FAIL; fi
fi
echo "RESULT apply=OK build=OK suite=$suite demo_with_change=$demo_with demo_without_change=$demo_without" | tee -a "$log"

#!/bin/bash
# usage: tools/commit-own.sh "<message>" <path>...
# Commits only the given paths of /verif (serialised with a lock so that several people working in
# parallel on different harnesses do not collide on git's index). Never use plain `git commit -a` here.
set -u
msg="$1"; shift
cd /verif || exit 2
exec 9>/verif/.git/verif-commit.lock
flock -w 120 9 || { echo "could not get the commit lock"; exit 1; }
git add -- "$@" || exit 1
if git diff --cached --quiet -- "$@"; then echo "nothing to commit for: $*"; exit 0; fi
git commit -q -m "$msg" -- "$@" && git log --oneline -1

#!/bin/bash
# usage: tools/revfix.sh <fix commit> <check id> [tier]
# Runs a check against /repo's tree with ONE fix commit reverted (reverse diff handed over as a source
# overlay by tools/seedcheck.sh; /repo is not touched). The check must report the defect again.
set -u
c="$1"; id="$2"; tier="${3:-quick}"
d=$(mktemp -d /tmp/revfix-XXXXXX)
mkdir -p "$d/rev-$c"
git -C /repo diff "$c" "$c~1" -- . ':!*_test.go' > "$d/rev-$c/patch.diff"
out=$(/verif/tools/seedcheck.sh "$d/rev-$c/patch.diff" "$id" "$tier" 2>&1)
echo "$c $id $tier :: $(echo "$out" | grep -E '^(DETECTED|MISSED|ERROR|patch does not apply)' | head -1)"
echo "$out" | grep -A1 -m2 'fingerprint' | cut -c1-220
rm -rf "$d"

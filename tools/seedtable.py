#!/usr/bin/env python3
"""Prints the markdown table of DESIGN.md section 13 from seeded/*/meta.json."""
import json, glob, os
rows = []
for p in sorted(glob.glob('/verif/seeded/*/meta.json')):
    m = json.load(open(p))
    v = m.get('verified_in_scratch_worktree', {})
    ver = 'suite %s, demo %s/%s' % (v.get('suite', '?'), v.get('demo_with_change', '?'), v.get('demo_without_change', '?')) if v else 'pending'
    caught = ', '.join(m.get('caught_by', [])) or '**missed**'
    rows.append('| %s | %s | %s | %s | %s | %s |' % (m['name'], m['breaks_property'], ', '.join(m.get('files_changed', [])), m.get('needs_to_manifest', '').replace('|', '/'), ver, caught))
print('| seed | property | files | needs, in order to manifest | re-verified (suite with change, demo with/without) | caught by |')
print('|---|---|---|---|---|---|')
print('\n'.join(rows))

#!/usr/bin/env python3
"""Regenerates /verif/MANIFEST.json from the table below and validates it against the schema."""
import json, subprocess, sys

BASELINE = json.load(open('/root/.vp/BASELINE.json'))

# id -> (level, technique, text, note, design_ref)   (only for properties with a built check)
CHECKS = {
 "C07": ("model_checking",
         "explicit-state BFS over event histories on the real account.Manager (implementation as transition function), twin-instance reference model",
         "Every history of SafeAccount setters / Snapshot / RevertToSnapshot(i) / reads / end-of-block up to the stated depth over 13 scenario alphabets is executed on the real journal; after every revert the full getter observation and journal length are compared with a twin instance stopped at the snapshot, after end-of-block the published logs are redone on a fresh manager and compared with execution; panics are violations. States are de-duplicated on a raw dump that includes caches and version counters.",
         "Alphabet restricted to sequences the system can produce (code written once, no double self-destruct, asset sub-records only on existing assets, candidate keys only rewritten when present); depth bound 4 (broad) / 7 (narrow) quick, 6 / 9 thorough; in-memory event list not compared (undoAddEvent is a deliberate no-op).",
         "DESIGN.md section 4 C07"),
 "C03": ("model_checking",
         "explicit-state BFS over message-delivery histories on a real node (chain.BlockChain + DPoVP over a real ChainDatabase); engine goroutines gated through a generated source overlay",
         "Every delivery order (up to the depth bound) of the blocks of a pre-mined tree and of confirm packets drawn from a token set (valid, duplicate, re-encoded, second-nonce, outsider, wrong-hash, two-signature packets, confirms carried in block bodies), plus the engine's own background tasks released as events, is executed on a fresh real node in 6 scenarios (1/3/4 deputies; chain, siblings, fork; observer and deputy). After every event: stable height monotone, new stable descends from the old one, stable blocks by height never change; at the end of every history: the stable block is signed by >= ceil(2n/3) distinct deputy node ids (recovered from header signature and stored confirms), head descends from stable.",
         "Block tree shapes and token alphabet are fixed (see evidence rule); depth 4 quick / 5 thorough; gated tasks released oldest-first; MineBlock by the node itself is not an event yet.",
         "DESIGN.md section 4 C03"),
 "C04": ("model_checking",
         "explicit-state BFS over block/restart/pool/mine histories on real nodes; blocks built by the real assembler in a block factory; per-branch ledger of signed payloads as reference model",
         "Every history up to the depth bound of factory-built blocks (menu: T, T with re-encoded signature, box(T,U), T twice, T plus box, early-expiring V; at instants around the expiration window and the replay-cache pruning horizon; on any held parent by two different deputies), node restarts, and pool/mine/sibling-block events on a node that is a deputy, is run on fresh real nodes. After every history every branch of the node's chain is scanned: each signed payload (signing hash + signer set, incl. box sub-transactions) at most once, every executed tx inside [exp-1800, exp]; an honest block whose payloads are only on another fork must be accepted.",
         "Depth 3 (linear/fork) and 4 (miner) quick, 4/4/5 thorough; one payload family T/U/V; single-deputy chain for the time-window scenario.",
         "DESIGN.md section 4 C04"),
 "C13": ("exploration",
         "exhaustive grid enumeration of the real scheduling functions against a 25-line reference rotation",
         "Full grid of deputy counts (1..7 quick, 1..17 thorough) x list variants x slot lengths x 16 heights around term boundaries x every parent miner (incl. non-deputies) x every target deputy x every second of 3 rounds with ms offsets {-1,0,1,500,999} plus slot edges after 10^3 and 10^6 rounds: GetCorrectMiner/VerifyMiner agree with the reference and accept exactly one deputy; distance functions are inverse; the window a deputy computes (GetNextMineWindow + miner.getSleepTime) is its earliest slot not yet ended; every whole-second stamp inside it is accepted for that deputy only.",
         "TermDuration=10, InterimDuration=3; a mid-term parent that is not a deputy is recorded, not asserted; header times below 10^7 s (where GetCorrectMiner panics by design of its ms guard) are outside the statement's 'instants not before the parent'.",
         "DESIGN.md section 4 C13"),
 "C02": ("exploration",
         "exhaustive enumeration of a mutation-operator table x signing modes on real nodes, reference validity predicate + honest re-execution by the block factory, before/after snapshot comparison",
         "Every single mutation operator (52 operators over parent, miner, roots, height, gas, time, extra, transactions, change logs, deputy list) x 6 signing modes (kept, re-signed by the miner / another deputy / an outsider, junk, empty) x {roots recomputed or not} on 7 (chain state, valid candidate block) pairs (fresh, 3-block chain, two forks, after a stable advance; on head and on inner / short-fork parents), thorough: all pairs of operators from different groups. accepted => validRef (parent known, height, time window, extra, signed by the reference-rotation deputy with its miner address, tx windows and replays, equality with an honest re-execution by the factory); rejected => (head, stable, stored blocks + confirm counts, watched accounts at head, pool, tx-guard answers) unchanged; a panic is a violation.",
         "3 genesis deputies, 10 s slots, observer node, wall clock far later than honest block times (the now+1 s tolerance edge is not enumerated); gasLimit and extra are the miner's free choices; snapshot-height candidate blocks not yet enumerated.",
         "DESIGN.md section 4 C02"),
 "C01": ("exploration",
         "bounded exhaustive enumeration of ordered transaction lists on real miner and validator paths; cross-node differential oracle (miner vs restarted validator vs fresh validator with other prior history vs redo of the change logs)",
         "Every ordered list without repeats of length <= 2 (quick) / <= 3 (thorough) over a 25-transaction menu covering all 11 tx types (valid, failing, reverting, self-destructing, value-forwarding, box-wrapped, gas-payer, multi-signature, contract-creating / calling) is mined by the real BlockAssembler.MineBlock on a prefix state; with each of 4 discard-only candidates inserted at every position the mined block must be bit-identical; a validator whose data directory was copied and reopened (process restart) and a fresh validator that has just executed and rejected a corrupted sibling must accept the block and hold the same account data, field for field, for all touched + watched addresses; redoing the published logs must give the attributes redo defines.",
         "Single deputy, one prefix state; Go map iteration order is not enumerated (runs use whatever order the runtime picks); the store's background writer is quiesced between blocks (its races are C08/C19's subject).",
         "DESIGN.md section 4 C01"),
 "C05": ("exploration",
         "bounded exhaustive enumeration of ordered transaction lists on the real miner path with a conservation monitor as invariant",
         "Every ordered list without repeats of length <= 2 (quick) / <= 3 (thorough) over the 25-transaction menu is mined on the prefix state; on every block: sum of all balance changes == -(burns); the income address receives exactly what the gas payers are charged; per-tx gasUsed <= gasLimit and header.GasUsed is the sum; no negative balance; for single-transaction blocks a failed tx moves nothing but its fee and the payer pays exactly gasUsed x gasPrice (+ at most the amount).",
         "Ordinary heights only: term rewards, deposit refunds at term boundaries and reward settings are not enumerated yet; the only burner in the menu is the contract that self-destructs to itself.",
         "DESIGN.md section 4 C05"),
 "C18": ("model_checking",
         "explicit-state BFS of operation sequences against a set model (part A) and preemption-bounded exhaustive interleaving exploration under a controlled scheduler with co-enabledness race check and brute-force linearizability (part B), both on the real TxPool",
         "Part A: every sequence up to depth 4 (quick) / 5 (thorough) of AddTx/AddTxs/GetTxs/DelTxs over 5 plain transactions and 2 overlapping boxes with pool capacity 2 (growth and gc reached), expirations and monotone selection times, on the real pool next to a reference model that is agnostic only where the statement is open (box deletion vs. sub-transactions pooled on their own). Part B: 8 scenarios of 2-3 threads x 1-2 operations on overlapping transactions, every interleaving with <= 2 (thorough 3) preemptions; scheduling points at the pool mutex and at every read/write of txs, hashIndexMap and cap (generated source overlay); each complete schedule: call/return history linearizable w.r.t. the model, no two threads co-enabled on conflicting accesses, no deadlock, no panic.",
         "Order of GetTxs results not asserted; AddTx refusing is never a violation; the engine-level fork-switch clause (pool vs. old/new fork transactions) is exercised in C04's miner scenario only.",
         "DESIGN.md section 4 C18"),
}

NOT_YET = "check not built yet in this round (design in DESIGN.md section 4); no technique switch intended"
ALL = ["C%02d" % i for i in range(1, 21)]

m = {
 "version": 1,
 "setup_cmd": "bin/setup",
 "hooks": {
  "guard": "verif",
  "enable": "go build -tags verif (bin/check adds a generated -overlay for harnesses that need instrumented sync/go/time call sites)",
  "baseline_off_cmd": BASELINE["cmd"],
  "source_commits": [l.split()[0] for l in subprocess.run(["git", "-C", "/repo", "log", "--format=%h %s"], capture_output=True, text=True).stdout.splitlines() if l.split(' ', 1)[1].startswith("verif:")],
  "add_only": True,
 },
 "engines": [
  {"name": "E1 controlled scheduler", "path": "mc/sched/sched.go", "serves_properties": ["C18"], "kind_free_text": "cooperative scheduler over real goroutines (sync/atomic call sites rewritten by mc/instr into mc/vsync, mc/vatomic), preemption-bounded DFS, lock ownership modelled by address, deadlock detection, data-race check by co-enabled conflicting announced accesses"},
  {"name": "E4 bounded exhaustive enumeration", "path": "mc/props/*/main.go + mc/core/core.go (RunShards)", "serves_properties": sorted(k for k, v in CHECKS.items() if v[0] == "exploration"), "kind_free_text": "exhaustive generators over stated finite domains (grids, operator tables, ordered lists), sharded over worker processes"},
  {"name": "E2 explicit-state BFS", "path": "mc/core/bfs.go", "serves_properties": sorted(k for k, v in CHECKS.items() if v[0] == "model_checking"), "kind_free_text": "breadth-first search over event histories executed on the real objects; state = history, successor = fresh instance + replay + one event; canonical-key de-duplication; subprocess workers"},
 ],
 "checks": [],
 "not_applicable": [],
 "notes": "Fix commits in /repo (message prefix 'fix:') and open findings are listed in /verif/known_findings.json; see DESIGN.md.",
}
for pid in ALL:
    if pid in CHECKS:
        level, tech, text, note, ref = CHECKS[pid]
        m["checks"].append({
            "property_id": pid,
            "quick_cmd": "bin/check %s --tier quick" % pid,
            "thorough_cmd": "bin/check %s --tier thorough" % pid,
            "evidence_file": "/verif/evidence/%s.json" % pid,
            "replay_cmd_template": "bin/check %s --replay {path}" % pid,
            "engine": "mc/props/%s" % pid.lower(),
            "level_claimed": {"category": level, "text": text, "design_ref": ref},
            "level_note": note,
            "technique": tech,
        })
    else:
        m["not_applicable"].append({"property_id": pid, "reason": NOT_YET})
json.dump(m, open('/verif/MANIFEST.json', 'w'), indent=1)
try:
    import jsonschema
    jsonschema.validate(m, json.load(open('/root/.vp/MANIFEST.schema.json')))
    print("MANIFEST.json valid;", len(m["checks"]), "checks")
except ImportError:
    print("jsonschema not importable here; run with python3-vt")

#!/usr/bin/env python3
"""Regenerates /verif/MANIFEST.json from the table below and validates it against the schema."""
import json, subprocess, sys

BASELINE = json.load(open('/root/.vp/BASELINE.json'))

# id -> (level, technique, text, note, design_ref)   (only for properties with a built check)
CHECKS = {
 "C07": ("model_checking",
         "explicit-state BFS over event histories on the real account.Manager (implementation as transition function), twin-instance reference model",
         "Every history of SafeAccount setters / Snapshot / RevertToSnapshot(i) / reads / end-of-block up to the stated depth over 13 scenario alphabets is executed on the real journal; after every revert the full getter observation and journal length are compared with a twin instance stopped at the snapshot, after end-of-block the published logs are redone on a fresh manager and compared with execution; panics are violations. States are de-duplicated on a raw dump that includes caches and version counters.",
         "Alphabet restricted to sequences the system can produce (code written once, no double self-destruct, asset sub-records only on existing assets, candidate keys only rewritten when present); depth bound 4 (broad) / 7 (narrow) quick, 6 / 9 thorough; in-memory event list not compared (undoAddEvent is a deliberate no-op).",
         "DESIGN.md section 4 C07"),
 "C03": ("model_checking",
         "explicit-state BFS over message-delivery histories on a real node (chain.BlockChain + DPoVP over a real ChainDatabase); engine goroutines gated through a generated source overlay",
         "Every delivery order (up to the depth bound) of the blocks of a pre-mined tree and of confirm packets drawn from a token set (valid, duplicate, re-encoded, second-nonce, outsider, wrong-hash, two-signature packets, confirms carried in block bodies), plus the engine's own background tasks released as events, is executed on a fresh real node in 6 scenarios (1/3/4 deputies; chain, siblings, fork; observer and deputy). After every event: stable height monotone, new stable descends from the old one, stable blocks by height never change; at the end of every history: the stable block is signed by >= ceil(2n/3) distinct deputy node ids (recovered from header signature and stored confirms), head descends from stable.",
         "Block tree shapes and token alphabet are fixed (see evidence rule); depth 4 quick / 5 thorough; gated tasks released oldest-first; MineBlock by the node itself is not an event yet.",
         "DESIGN.md section 4 C03"),
 "C04": ("model_checking",
         "explicit-state BFS over block/restart/pool/mine histories on real nodes; blocks built by the real assembler in a block factory; per-branch ledger of signed payloads as reference model",
         "Every history up to the depth bound of factory-built blocks (menu: T, T with re-encoded signature, T with an outsider's signature appended, box(T,U), an early-expiring box around T, T twice, T plus box, early-expiring V; at instants around the expiration window - one second too early, first and last second, one second late - and the replay-cache pruning horizon; on any held parent by two different deputies), node restarts, and pool/mine/sibling-block events on a node that is a deputy, is run on fresh real nodes. After every history every branch of the node's chain is scanned: each signed payload (= signing hash, which covers sender, content and expiration; incl. box sub-transactions) at most once, every executed tx inside [exp-1800, exp]; an honest block whose payloads are only on another fork must be accepted.",
         "Depth 3 (linear/fork) and 4 (miner) quick, 4/4/5 thorough; one payload family T/U/V, all from plain accounts: multi-signature senders (reordered or reduced signature lists give other tx hashes) are not enumerated; single-deputy chain for the time-window scenario.",
         "DESIGN.md section 4 C04"),
 "C13": ("exploration",
         "exhaustive grid enumeration of the real scheduling functions against a 25-line reference rotation",
         "Full grid of deputy counts (1..7 quick, 1..17 thorough) x list variants x slot lengths x 16 heights around term boundaries x every parent miner (incl. non-deputies) x every target deputy x every second of 3 rounds with ms offsets {-1,0,1,500,999} plus slot edges after 10^3 and 10^6 rounds: GetCorrectMiner/VerifyMiner agree with the reference and accept exactly one deputy; distance functions are inverse; the window a deputy computes (GetNextMineWindow + miner.getSleepTime) is its earliest slot not yet ended; every whole-second stamp inside it is accepted for that deputy only.",
         "TermDuration=10, InterimDuration=3; a mid-term parent that is not a deputy is recorded, not asserted; header times below 10^7 s (where GetCorrectMiner panics by design of its ms guard) are outside the statement's 'instants not before the parent'.",
         "DESIGN.md section 4 C13"),
 "C02": ("exploration",
         "exhaustive enumeration of a mutation-operator table x signing modes x positions of the node's virtual clock on real nodes; reference validity predicate (reference rotation, reference term list, independent top-N election) + honest re-execution by the block factory; before/after snapshot comparison",
         "Every single mutation operator (123 operators in 17 groups: parent, miner, roots, height, gas, time, extra, txs, txs-executed incl. well-formedness, logs, deputies, signer = whole blocks mined by other keys, signature encoding, body confirms, known blocks, snapshot deputy list) x 7 signing modes x {tx/log roots recomputed or not; DeputyRoot kept or recomputed} on 17 (chain state, valid block) pairs from 10 chain states (ordinary heights, forks, after a stable advance, a pruned fork, and a term change: snapshot height, the block after it, first and second block of the new term); the valid block and all time operators at 10 positions of the node's virtual clock around the block's timestamp (+-2 s, ms 000/999: both sides of the one-second tolerance); thorough adds all operator pairs from different groups (re-signed by the miner / next deputy; at the two clock positions around the tolerance; body-only pairs with the original signature) and every operator at every clock position. Oracles: accepted => reference-valid (incl. reference rotation, reference term list, snapshot list = independent top-N of the parent's state with its Merkle root, equality with an honest re-execution); rejected => node unchanged (head, stable, stored blocks with confirms, 26 accounts, pool, tx guard, term lists); reference-valid, judgeable and sent as an honest miner sends it => accepted; an accepted snapshot block must be able to become stable and load the reference term; a panic is a violation. quick 34 454 cases, thorough 360 389.",
         "Observer node, 3 deputy seats, 10 s slots, TermDuration 5 / InterimDuration 2, one fork through one term change; the engine's goroutines and timers are gated through the source overlay and run to completion at fixed points under the node's own key. Not enumerated: a deputy as node under test, sibling snapshot blocks, unregistering candidates / deposit refunds / non-zero term rewards at the reward block, operator triples. The third oracle reads the one-second tolerance as granted, not merely permitted.",
         "DESIGN.md section 4 C02, section 10.3"),
 "C01": ("exploration",
         "bounded exhaustive enumeration of ordered transaction lists x discard candidates x block gas limits x controlled map iteration orders on real miner and validator paths; cross-node differential oracle (long-running miner vs restarted miner vs restarted validator vs fresh validator with other prior history vs redo of the change logs)",
         "Every ordered list without repeats of length <= 2 (quick) / <= 3 (thorough) over a 25-transaction menu covering all 11 tx types (valid, failing, reverting, self-destructing, value-forwarding, box-wrapped, gas-payer, multi-signature, contract-creating / calling) is mined by the real BlockAssembler.MineBlock on a prefix state; with each of 4 discard-only candidates inserted at every position the mined block must be bit-identical; under each of 6 controlled map iteration orders (source overlay pass maprange: all n! orders of maps with <= 3 keys, 6 spread-out ones above) the mined block must be bit-identical and restarted validators running under them must accept it; a miner restarted from disk (no prior executions on this parent) must mine the same block as the long-running one; for every block gas limit at which the pool runs dry exactly at one of the (sub-)transactions, alone and with every discard candidate at every position, the block must equal the one mined from exactly the packaged transactions and be accepted; a validator whose data directory was copied and reopened (process restart) and a fresh validator that has just executed and rejected a corrupted sibling must accept the block and hold the same account data, field for field, for all touched + watched addresses; redoing the published logs must give the attributes redo defines.",
         "Single deputy, one prefix state; map loops outside the instrumented packages (common/*, store internals other than cblock / vote / chain_database) keep the runtime's order; which transactions FIT into a nearly full block may depend on discarded candidates (their reserved gas stays taken) and is counted, not asserted; the store's background writer is quiesced between blocks and the engine's notification goroutines are dropped.",
         "DESIGN.md section 4 C01"),
 "C05": ("exploration",
         "bounded exhaustive enumeration of ordered transaction lists on the real miner path with a conservation monitor as invariant",
         "Every ordered list without repeats of length <= 2 (quick) / <= 3 (thorough) over the 25-transaction menu is mined on the prefix state, and again with every block gas limit at which the pool runs dry at one of the (sub-)transactions (what a full block drops must cost nobody anything); on every block: sum of all balance changes == -(burns); the income address receives exactly what the gas payers are charged; per-tx gasUsed <= gasLimit and header.GasUsed is the sum; no negative balance; for single-transaction blocks a failed tx moves nothing but its fee and the payer pays exactly gasUsed x gasPrice (+ at most the amount).",
         "Ordinary heights only: term rewards, deposit refunds at term boundaries and reward settings are not enumerated yet; the only burner in the menu is the contract that self-destructs to itself.",
         "DESIGN.md section 4 C05"),
 "C18": ("model_checking",
         "explicit-state BFS of operation sequences against a set model (part A) and preemption-bounded exhaustive interleaving exploration under a controlled scheduler with co-enabledness race check and brute-force linearizability (part B), both on the real TxPool",
         "Part A: every sequence up to depth 5 (quick) / 6 (thorough) of AddTx/AddTxs/GetTxs/DelTxs over 5 plain transactions and 2 overlapping boxes with pool capacity 2 (growth and gc reached), expirations and monotone selection times, on the real pool next to a reference model that is agnostic only where the statement is open (box deletion vs. sub-transactions pooled on their own). Part B: 8 scenarios of 2-3 threads x 1-2 operations on overlapping transactions, every interleaving with <= 2 (thorough 3) preemptions; scheduling points at the pool mutex and at every read/write of txs, hashIndexMap and cap (generated source overlay); each complete schedule: call/return history linearizable w.r.t. the model, no two threads co-enabled on conflicting accesses, no deadlock, no panic.",
         "Order of GetTxs results not asserted; AddTx refusing is never a violation; the engine-level fork-switch clause (pool vs. old/new fork transactions) is exercised in C04's miner scenario only.",
         "DESIGN.md section 4 C18"),

 "C06": ("exploration",
         "bounded exhaustive enumeration of signature lists, signer configurations, field tamperings and wrappings on the real miner (MineBlock) and validator (Process / InsertBlock) paths; reference authorisation computed from the provenance of every signature, never from the repo's hash / recover code",
         "Families F1 (sender configuration {plain, multisig 100, 50/50, 60/30/10} x tx type x every sender signature list up to length 3 over the token alphabet {sigA, sigB, sigC, re-encoded sigA, second-nonce sigA, outsider, sigA over a tampered copy, 64/66-byte junk} x gas-payer arrangement x bare/boxed), F2 (every gas-payer signature list), F3 (every signed field changed after signing, for the default, reimbursement and gas-payer signing hashes, with the original and with renewed payer signatures), F4 (signature made with the other signing hash), F5 (100 weight-1 signers, long lists). Every case runs on MineBlock and on Process; the block goes to a whole validator node for every packaged case and one case of every refusal class. Oracle, one direction as the statement: effective (packaged, applied, or a change log names an account of the case) => authorised by the reference; the canonical correctly signed form of every configuration must be effective (non-vacuity).",
         "Single-deputy chain; weights from a fixed set of configurations (not all 1..100); a box inside a box is not producible; refusal of an authorised but unusually ordered list is not a violation.",
         "DESIGN.md section 4 C06"),
 "C09": ("model_checking",
         "explicit-state BFS over NewBlock / Read / Stabilise histories on a real reopened store.ChainDatabase against a plain-map reference model of the block tree",
         "Every history up to depth 3-5 (thorough 4-6) in 5 (thorough 7) scenarios over 7 addresses whose trie keys share 39 / 20 / 2 / 0 nibbles (so that node splits, four-child nodes and read-through inserts into shared nodes occur): NewBlock(parent, write set) on any live block (forks, equal-height siblings, cousins), Read(view, address) through AccountTrieDB.Get (mutates shared nodes), Stabilise(any unconfirmed block). After every history: for every block ever created IsExistByHash / GetBlockByHash / GetUnConfirmByHeight / IterateUnConfirms / GetBlockByHeight agree with the model (exactly the non-descendants disappear, SetStableBlock returns the model's dropped set); GetAccount equals the model's view of the stable block; for every live view and address the value equals the nearest ancestor-or-self write, else the stable value, first without mutating and then through the real Get.",
         "Each account is Put once per block and before the block has children (what Manager.Save does); reads between two structural events are treated as commuting; databases are opened on a persisted stable block (restart) so that read-through really happens.",
         "DESIGN.md section 4 C09"),
 "C11": ("model_checking",
         "explicit-state BFS over histories of blocks (ordered transaction lists built by the real assembler, validated by a real node) with the statement's tally equation recomputed from the account state as invariant",
         "Every history of <= 2 blocks of <= 2 transactions (thorough: deeper / 3 per block) over an alphabet of transfers crossing the 200-LEMO vote step in both directions, contract value flow to the voter, votes and re-votes by two voters for three candidates (one is the genesis deputy with deposit 0), register with deposit crossing the 100-LEMO step, top-up, unregister. After every accepted block, over all accounts the history ever touched: votes(c) == floor(deposit/100 LEMO) + sum over current voters of floor(balance/200 LEMO) for every registered candidate, 0 for unregistered ones, never negative; the assembler must be able to produce and encode the block and the validator must accept it.",
         "Heights far below term / interim boundaries (refunds at once); single-deputy chain; amounts from a fixed set.",
         "DESIGN.md section 4 C11"),
 "C12": ("model_checking",
         "explicit-state BFS over histories of asset transactions (one factory-built block each, validated by a real single-deputy node) with supply / equity conservation invariants and per-step transition rules from the statement",
         "Four scenarios after a common prefix (create token / non-fungible / common / non-replenishable common assets, deploy an accepting and a reverting contract, issue): per asset category the full product {issuer, holder, stranger} x {other holder, self, accepting contract, reverting contract, burn address, issuer} x amounts {1, eq, 0, eq+1, -1, -eq, 2^256} plus all issue / replenish / freeze variants, and a mixed scenario using asset ids across assets; depth 2-3 below the prefix. After every event: total supply == sum of holders' equity per divisible asset (grouped by the record's own asset code); supply changes only by the issuer's issue / replenish (by the amount) and a holder's burn; a transfer never lowers anybody's equity but the sender's, never raises the sender's, conserves, touches only the id it names, moves nothing while frozen; nothing negative; a non-issuer mints nothing.",
         "Single-deputy chain (every accepted block stable at once, which asset transactions need); holders are the 7 accounts of the alphabet; LEMO balances are not part of the state key.",
         "DESIGN.md section 4 C12"),
 "C14": ("exploration",
         "bounded exhaustive enumeration of byte strings into every decoder (decode(b)=v => encode(v)=b, never a panic) and of per-field mini-domain products of every consensus type through its encoder (round trip, same hash, same signers, byte-identical re-encoding), plus address text forms",
         "Decoder side: all byte strings of length <= 2 (thorough 3) over 256 symbols and longer ones over the 16 RLP boundary bytes, long-form header forms, short tails behind valid prefixes, into 35 primitive targets and every consensus type's decoder (18.9 M evaluations quick). Encoder side: Header, Block, Transaction (incl. box payloads and the JSON form), the 19 change-log types with every old/new/extra shape, AccountData, Asset, AssetEquity, DeputyNode, Candidate, network messages: full product of per-field mini-domains where <= 10^6, else all 1- and 2-field deviations. Address text: 6586 addresses x case variants, and every single-character substitution / transposition (counted; the xor checksum lets some through, which the statement does not forbid).",
         "Values bounded by the stated mini-domains; a non-canonical input accepted by a custom decoder of a consensus type is information, not a violation (nothing hashes received bytes); the documented dual nil encoding (80 / c0) of rlp:\"nil\" optional pointers is a note; a transaction message that the real VerifyTxBody refuses (invalid UTF-8) is outside the JSON round-trip clause.",
         "DESIGN.md section 4 C14"),
 "C16": ("exploration",
         "bounded exhaustive program enumeration (macro programs and raw byte programs) on the real EVM over the real account.Manager with whole-state before/after comparison around every failing frame",
         "Quick: every program of <= 1 macro over the 273-macro alphabet and of 2 macros over a 43-macro sub-alphabet for contract A, each x the fixed behaviours of B and C its call graph reaches, x entries EVM.Call / StaticCall / Create with enumerated gas, value, call data and three pre-states; all raw byte programs of length <= 2; the nine precompiles on boundary inputs of length 0..200. Thorough: 2 macros over the full alphabet, 3 over the sub-alphabet, 4 over a 16-macro mini alphabet, A<=2 x every B<=2, raw programs of length 3 (32 bytes) and 4 (16 bytes); 16.5 M cases. CREATE macros include init codes that jump (short, far, into push data), so that two different init codes run in one transaction. Oracles: no panic; every jump performed goes to a JUMPDEST of the running code outside push data and no such destination is refused (reference analysis of the code alone: where a program may jump must not depend on what ran before); gas left <= gas supplied and never growing inside a frame; determinism (identical result, gas, raw state dump and journal on an identically rebuilt manager); after every failing top-level entry and every nested CALL / CALLCODE / DELEGATECALL / STATICCALL / CREATE that pushes 0 (depth <= 4) every loaded account reads as before and the journal is unchanged but for the platform's one failure event; read-only frames change nothing; never more than 1024 frames below the transaction frame (recursion programs reach exactly that).",
         "Runs with 2^63-1 gas exceeding the interpreter step budget are cancelled and counted, not evaluated; no-op change logs of zero-value transfers inside read-only calls (removed by MergeChangeLogs) are not state.",
         "DESIGN.md section 4 C16"),
 "C17": ("model_checking",
         "explicit-state BFS over update / delete / get / hash / commit / reopen histories on the real trie over TrieDatabase over BeansDB against a map model (fresh-trie root as order-independence oracle, harness-assembled proofs through VerifyProof), plus exhaustive enumeration of Merkle leaf lists, positions and alterations",
         "Part A: 21 scenarios = 7 key/value alphabets (plain keys with shared prefixes incl. the empty key and a 32-byte key; secure keys; values of 1, 28, 29, 31, 32, 100 bytes and empty) x cache-generation limit {0, 1, 120}; events TryUpdate, TryDelete, TryGet, Hash, Trie.Commit, durable commit, reopen on the same / a fresh TrieDatabase / the previous durable root; after every history: reads equal the model, Hash equals the root of a fresh trie built from the model in sorted order, a reopened trie has the committed content, VerifyProof over the committed node set returns exactly the model's value for present keys, nothing for absent keys, and fails when any node on the path is altered or removed. Part A2: four large histories (1500 / 6000 keys) reaching TrieDatabase.Commit's intermediate batch flush. Part B: common/merkle over every leaf list in the stated families (also handed over as a prefix of a longer slice: same root, caller's array untouched), every position, every single-byte alteration of leaf, siblings and root, dropped and side-swapped path entries.",
         "trie.Prove is commented out in this tree: proofs are assembled by the harness from the committed nodes; keccak256 collision free on the enumerated inputs; Merkle leaves are hashes (the tree has no leaf / inner domain separation).",
         "DESIGN.md section 4 C17"),
}

NOT_YET = "check not built yet in this round (design in DESIGN.md section 4); no technique switch intended"
ALL = ["C%02d" % i for i in range(1, 21)]

m = {
 "version": 1,
 "setup_cmd": "bin/setup",
 "hooks": {
  "guard": "verif",
  "enable": "go build -tags verif (bin/check adds a generated -overlay for harnesses that need instrumented sync/go/time call sites)",
  "baseline_off_cmd": BASELINE["cmd"],
  "source_commits": [l.split()[0] for l in subprocess.run(["git", "-C", "/repo", "log", "--format=%h %s"], capture_output=True, text=True).stdout.splitlines() if l.split(' ', 1)[1].startswith("verif:")],
  "add_only": True,
 },
 "engines": [
  {"name": "E1 controlled scheduler", "path": "mc/sched/sched.go", "serves_properties": ["C18"], "kind_free_text": "cooperative scheduler over real goroutines (sync/atomic call sites rewritten by mc/instr into mc/vsync, mc/vatomic), preemption-bounded DFS, lock ownership modelled by address, deadlock detection, data-race check by co-enabled conflicting announced accesses"},
  {"name": "E4 bounded exhaustive enumeration", "path": "mc/props/*/main.go + mc/core/core.go (RunShards)", "serves_properties": sorted(k for k, v in CHECKS.items() if v[0] == "exploration"), "kind_free_text": "exhaustive generators over stated finite domains (grids, operator tables, ordered lists), sharded over worker processes"},
  {"name": "E2 explicit-state BFS", "path": "mc/core/bfs.go", "serves_properties": sorted(k for k, v in CHECKS.items() if v[0] == "model_checking"), "kind_free_text": "breadth-first search over event histories executed on the real objects; state = history, successor = fresh instance + replay + one event; canonical-key de-duplication; subprocess workers"},
 ],
 "checks": [],
 "not_applicable": [],
 "notes": "Fix commits in /repo (message prefix 'fix:') and open findings are listed in /verif/known_findings.json; see DESIGN.md.",
}
for pid in ALL:
    if pid in CHECKS:
        level, tech, text, note, ref = CHECKS[pid]
        m["checks"].append({
            "property_id": pid,
            "quick_cmd": "bin/check %s --tier quick" % pid,
            "thorough_cmd": "bin/check %s --tier thorough" % pid,
            "evidence_file": "/verif/evidence/%s.json" % pid,
            "replay_cmd_template": "bin/check %s --replay {path}" % pid,
            "engine": "mc/props/%s" % pid.lower(),
            "level_claimed": {"category": level, "text": text, "design_ref": ref},
            "level_note": note,
            "technique": tech,
        })
    else:
        m["not_applicable"].append({"property_id": pid, "reason": NOT_YET})
json.dump(m, open('/verif/MANIFEST.json', 'w'), indent=1)
try:
    import jsonschema
    jsonschema.validate(m, json.load(open('/root/.vp/MANIFEST.schema.json')))
    print("MANIFEST.json valid;", len(m["checks"]), "checks")
except ImportError:
    print("jsonschema not importable here; run with python3-vt")

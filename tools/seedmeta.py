#!/usr/bin/env python3
"""Refreshes the verification fields of every seeded/*/meta.json from its verify.log (no check is run) and
applies the notes below."""
import json, glob, os
NOTES = {
 "C03-C": "a thread interleaving of two InsertConfirms (the same change as C19-A in another function): C19's subject; C03 explores delivery orders of whole requests",
}
for p in sorted(glob.glob('/verif/seeded/*/meta.json')):
    d = os.path.dirname(p); m = json.load(open(p)); name = m['name']
    vl = os.path.join(d, 'verify.log')
    if os.path.exists(vl):
        res = [l for l in open(vl).read().splitlines() if l.startswith('RESULT')]
        if res:
            m['verified_in_scratch_worktree'] = dict(kv.split('=') for kv in res[-1].split()[1:])
            m['verified_with'] = 'tools/seedverify.sh seeded/%s (scratch worktree of /repo HEAD: git apply, go build ./..., full test suite compared with the 867 stable tests of BASELINE.json, demonstration with and without the change)' % name
    if name in NOTES:
        m['note'] = NOTES[name]
    json.dump(m, open(p, 'w'), indent=1)
print('ok')

package node

import (
	"crypto/ecdsa"
	"encoding/json"
	"math/big"

	"github.com/LemoFoundationLtd/lemochain-core/chain/params"
	"github.com/LemoFoundationLtd/lemochain-core/chain/types"
	"github.com/LemoFoundationLtd/lemochain-core/common"
	"github.com/LemoFoundationLtd/lemochain-core/common/crypto"
	"github.com/LemoFoundationLtd/lemochain-core/common/crypto/secp256k1"
)

func cryptoSign(hash []byte, k *Key) ([]byte, error) { return crypto.Sign(hash, k.Priv) }

var (
	GasPrice = big.NewInt(1000000000) // params.MinGasPrice
	OneLemo  = common.Lemo2Mo("1")
)

func Lemo(n int64) *big.Int { return new(big.Int).Mul(big.NewInt(n), OneLemo) }

// TxSpec describes a transaction to build; zero fields get defaults.
type TxSpec struct {
	Type     uint16
	From     *Key
	To       *common.Address // nil for the types that have no recipient
	Amount   *big.Int
	GasLimit uint64
	GasPrice *big.Int
	Data     []byte
	Exp      uint64
	Message  string
	ChainID  uint16
}

// Tx builds and signs (default signer, From's key) a transaction.
func Tx(s TxSpec) *types.Transaction {
	return SignWith(Unsigned(s), s.From.Priv)
}

// Unsigned builds the transaction without signatures.
func Unsigned(s TxSpec) *types.Transaction {
	if s.GasLimit == 0 {
		s.GasLimit = 2000000
	}
	if s.GasPrice == nil {
		s.GasPrice = GasPrice
	}
	if s.ChainID == 0 {
		s.ChainID = ChainID
	}
	if s.Amount == nil {
		s.Amount = new(big.Int)
	}
	if s.To == nil {
		return types.NoReceiverTransaction(s.From.Addr, s.Amount, s.GasLimit, s.GasPrice, s.Data, s.Type, s.ChainID, s.Exp, "", s.Message)
	}
	return types.NewTransaction(s.From.Addr, *s.To, s.Amount, s.GasLimit, s.GasPrice, s.Data, s.Type, s.ChainID, s.Exp, "", s.Message)
}

// SignWith appends a default-signer signature by prv.
func SignWith(tx *types.Transaction, prv *ecdsa.PrivateKey) *types.Transaction {
	out, err := types.MakeSigner().SignTx(tx, prv)
	if err != nil {
		panic(err)
	}
	return out
}

// Transfer is an ordinary LEMO transfer.
func Transfer(from *Key, to common.Address, amount *big.Int, exp uint64) *types.Transaction {
	return Tx(TxSpec{Type: params.OrdinaryTx, From: from, To: &to, Amount: amount, Exp: exp})
}

// Box wraps signed sub-transactions into a box transaction signed by from.
func Box(from *Key, exp uint64, subs ...*types.Transaction) *types.Transaction {
	data, err := types.MarshalBoxData(subs)
	if err != nil {
		panic(err)
	}
	return Tx(TxSpec{Type: params.BoxTx, From: from, Data: data, Exp: exp, GasLimit: 5000000})
}

// Vote is a vote transaction from -> candidate.
func Vote(from *Key, candidate common.Address, exp uint64) *types.Transaction {
	return Tx(TxSpec{Type: params.VoteTx, From: from, To: &candidate, Exp: exp})
}

// Register registers (or updates) from as a candidate; amount is the deposit.
func Register(from *Key, amount *big.Int, profile map[string]string, exp uint64) *types.Transaction {
	data, _ := json.Marshal(profile)
	return Tx(TxSpec{Type: params.RegisterTx, From: from, Amount: amount, Data: data, Exp: exp})
}

// CandidateProfile is a valid registration profile for key k.
func CandidateProfile(k *Key, port string) map[string]string {
	return map[string]string{
		types.CandidateKeyIsCandidate:   "true",
		types.CandidateKeyNodeID:        common.ToHex(k.NodeID)[2:],
		types.CandidateKeyHost:          "127.0.0.1",
		types.CandidateKeyPort:          port,
		types.CandidateKeyIncomeAddress: k.Addr.String(),
	}
}

// ReencodeSig returns the other encoding (r, n-s, v^1) of a 65-byte secp256k1 signature; it recovers
// to the same public key.
func ReencodeSig(sig []byte) []byte {
	n, _ := new(big.Int).SetString("FFFFFFFFFFFFFFFFFFFFFFFFFFFFFFFEBAAEDCE6AF48A03BBFD25E8CD0364141", 16)
	s := new(big.Int).SetBytes(sig[32:64])
	s.Sub(n, s)
	out := make([]byte, 65)
	copy(out[:32], sig[:32])
	sb := s.Bytes()
	copy(out[64-len(sb):64], sb)
	out[64] = sig[64] ^ 1
	return out
}

// SignWithNonce produces a valid 65-byte recoverable secp256k1 signature of hash by k using the
// given nonce (so that one key can sign one hash in several different ways; the repo's own signing
// is RFC 6979 deterministic). Low-s normalised.
func SignWithNonce(k *Key, hash []byte, nonce int64) []byte {
	curve := secp256k1.S256()
	n := curve.N
	kk := new(big.Int).Add(new(big.Int).SetBytes(crypto.Keccak256(hash, k.Priv.D.Bytes())), big.NewInt(nonce))
	kk.Mod(kk, n)
	rx, ry := curve.ScalarBaseMult(kk.Bytes())
	r := new(big.Int).Mod(rx, n)
	z := new(big.Int).SetBytes(hash)
	s := new(big.Int).Mul(r, k.Priv.D)
	s.Add(s, z)
	s.Mul(s, new(big.Int).ModInverse(kk, n))
	s.Mod(s, n)
	v := byte(ry.Bit(0))
	half := new(big.Int).Rsh(n, 1)
	if s.Cmp(half) > 0 {
		s.Sub(n, s)
		v ^= 1
	}
	out := make([]byte, 65)
	rb, sb := r.Bytes(), s.Bytes()
	copy(out[32-len(rb):32], rb)
	copy(out[64-len(sb):64], sb)
	out[64] = v
	return out
}

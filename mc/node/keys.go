// Package node is the harness library shared by the whole-node and component harnesses: a fixed
// key ring, deterministic database / genesis / chain construction and state dumps.
package node

import (
	"crypto/ecdsa"
	"fmt"
	"sync"

	"github.com/LemoFoundationLtd/lemochain-core/common"
	"github.com/LemoFoundationLtd/lemochain-core/common/crypto"
	"github.com/LemoFoundationLtd/lemochain-core/common/log"
)

// Key is one member of the fixed key ring.
type Key struct {
	Name   string
	Priv   *ecdsa.PrivateKey
	Addr   common.Address
	NodeID []byte
}

var ring = map[string]*Key{}
var ringMu sync.Mutex

// K returns the key with the given name, deriving it deterministically on first use.
func K(name string) *Key {
	ringMu.Lock()
	defer ringMu.Unlock()
	if k, ok := ring[name]; ok {
		return k
	}
	for ctr := 0; ; ctr++ {
		seed := crypto.Keccak256([]byte(fmt.Sprintf("verif-key/%s/%d", name, ctr)))
		priv, err := crypto.ToECDSA(seed)
		if err != nil {
			continue
		}
		k := &Key{Name: name, Priv: priv, Addr: crypto.PubkeyToAddress(priv.PublicKey), NodeID: crypto.PrivateKeyToNodeID(priv)}
		ring[name] = k
		return k
	}
}

// Deputy returns the i-th deputy key (d0, d1, …), Founder the genesis LEMO holder, User the i-th
// ordinary account key.
func Deputy(i int) *Key { return K(fmt.Sprintf("d%d", i)) }
func Founder() *Key     { return K("founder") }
func User(i int) *Key   { return K(fmt.Sprintf("u%d", i)) }

// Quiet silences the logger of the code under test (log.Crit still exits the process).
func Quiet() { log.Setup(log.LevelCrit, false, false) }

package node

import (
	"fmt"
	"os"

	"github.com/LemoFoundationLtd/lemochain-core/chain"
	"github.com/LemoFoundationLtd/lemochain-core/chain/params"
	"github.com/LemoFoundationLtd/lemochain-core/chain/types"
	"github.com/LemoFoundationLtd/lemochain-core/store"
)

// GenesisTime is far enough in the past that every block timestamp the harnesses choose is
// behind the wall clock; no oracle depends on the distance.
const GenesisTime = uint32(1600000000)

// OpenDB opens (or creates) a chain database in dir.
func OpenDB(dir string) *store.ChainDatabase {
	if err := os.MkdirAll(dir, 0755); err != nil {
		panic(err)
	}
	return store.NewChainDataBase(dir)
}

// GenesisConfig builds a genesis with n deputies from the key ring; the founder holds all LEMO.
func GenesisConfig(n int) *chain.Genesis {
	infos := make([]*chain.CandidateInfo, 0, n)
	for i := 0; i < n; i++ {
		d := Deputy(i)
		infos = append(infos, &chain.CandidateInfo{
			MinerAddress:  d.Addr,
			IncomeAddress: K(fmt.Sprintf("income%d", i)).Addr,
			NodeID:        d.NodeID,
			Host:          "127.0.0.1",
			Port:          fmt.Sprintf("%d", 7001+i),
			Introduction:  fmt.Sprintf("verif deputy %d", i),
		})
	}
	return &chain.Genesis{
		Time:            GenesisTime,
		ExtraData:       "verif",
		GasLimit:        params.GenesisGasLimit,
		Founder:         Founder().Addr,
		DeputyNodesInfo: infos,
	}
}

// SetupGenesis writes the genesis block with n deputies into db and returns it.
func SetupGenesis(db *store.ChainDatabase, n int) *types.Block {
	return chain.SetupGenesisBlock(db, GenesisConfig(n))
}

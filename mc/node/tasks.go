package node

import "verifmc/vtask"

// DropEngineGoroutines is for whole-node harnesses whose property does not involve confirms, feeds
// or the network blacklist: with `chain/consensus:go chain:go` in the harness's OVERLAY file every
// `go` statement of the engine (feed notifications, own batch confirms of newly stable blocks,
// delayed confirm fetches, the evil-deputy judgement that only the network layer consults) is
// dropped instead of running at an arbitrary later moment — possibly after the block factory has
// switched the process-global self key to another deputy, or while the harness copies or closes the
// data directory. Harnesses that do study those effects gate the tasks instead and release them as
// explorer events (props/c03, props/c04) or run them to completion at fixed points (props/c02).
func DropEngineGoroutines() {
	vtask.SetPolicy(vtask.Drop)
}

// Drain runs every gated engine task to completion with n's key as the process-global self key.
func Drain(n *Node) {
	n.Use()
	for len(vtask.Pending()) > 0 {
		vtask.Run(0)
	}
}

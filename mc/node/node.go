package node

import (
	"fmt"
	"math/big"
	"os"
	"sort"
	"strings"
	"time"

	"github.com/LemoFoundationLtd/lemochain-core/chain"
	"github.com/LemoFoundationLtd/lemochain-core/chain/account"
	"github.com/LemoFoundationLtd/lemochain-core/chain/consensus"
	"github.com/LemoFoundationLtd/lemochain-core/chain/deputynode"
	"github.com/LemoFoundationLtd/lemochain-core/chain/transaction"
	"github.com/LemoFoundationLtd/lemochain-core/chain/txpool"
	"github.com/LemoFoundationLtd/lemochain-core/chain/types"
	"github.com/LemoFoundationLtd/lemochain-core/common"
	"github.com/LemoFoundationLtd/lemochain-core/common/flag"
	"github.com/LemoFoundationLtd/lemochain-core/common/rlp"
	"github.com/LemoFoundationLtd/lemochain-core/store"
)

const (
	ChainID     uint16 = 200
	MineTimeout uint64 = 10000 // ms: one slot = 10 s
	// HugeTimeout (ms) disables the miner's wall-clock limit on transaction packing.
	HugeTimeout int64 = 1 << 40
)

// Node is one complete node: database, deputy manager, tx pool and BlockChain (with the real
// DPoVP engine inside). Only one Node per process can be "self" at a time because the node key is a
// process global; Use() selects it.
type Node struct {
	Dir      string
	Deputies int
	Self     *Key
	DB       *store.ChainDatabase
	DM       *deputynode.Manager
	Pool     *txpool.TxPool
	BC       *chain.BlockChain
}

// NewNode creates a fresh node (genesis with n deputies) in dir. self may be a deputy key or any
// other key (an observer).
func NewNode(dir string, n int, self *Key) *Node {
	SetSelf(self)
	db := OpenDB(dir)
	SetupGenesis(db, n)
	return start(dir, n, self, db)
}

// Reopen opens an existing data directory (a process restart as far as the store is concerned).
func Reopen(dir string, n int, self *Key) *Node {
	SetSelf(self)
	return start(dir, n, self, OpenDB(dir))
}

func start(dir string, n int, self *Key, db *store.ChainDatabase) *Node {
	dm := deputynode.NewManager(n, db)
	pool := txpool.NewTxPool()
	bc, err := chain.NewBlockChain(chain.Config{ChainID: ChainID, MineTimeout: MineTimeout}, dm, db, flag.CmdFlags{}, pool)
	if err != nil {
		panic(err)
	}
	return &Node{Dir: dir, Deputies: n, Self: self, DB: db, DM: dm, Pool: pool, BC: bc}
}

// Use makes this node's key the process-wide self key.
func (n *Node) Use() { SetSelf(n.Self) }

// SetSelf switches the process-wide node key (and clears the signature cache, which is keyed by
// block hash only and would otherwise hand one key's signature to another).
func SetSelf(k *Key) {
	deputynode.SetSelfNodeKey(k.Priv)
	consensus.VerifResetSigCache()
}

// Close stops the chain and closes the database (the directory stays).
func (n *Node) Close() {
	n.BC.Stop()
	n.DB.Close()
}

// Quiesce waits until the store's asynchronous writer has drained (no pending records), so that
// the data directory is in the state a clean shutdown is meant to leave. It is a wait for a
// deterministic condition, not an oracle; it gives up (false) after a generous real-time cap.
func (n *Node) Quiesce() bool {
	for i := 0; i < 20000; i++ {
		if store.VerifPendingWrites(n.DB) == 0 {
			return true
		}
		time.Sleep(500 * time.Microsecond)
	}
	return false
}

// Destroy closes the node and removes its directory. It first waits for the store's background
// writer to drain: Close does not stop it, and it panics when its files disappear under it.
func (n *Node) Destroy() {
	n.Quiesce()
	n.Close()
	os.RemoveAll(n.Dir)
}

// InsertQuiet inserts a block and waits for the store's background writer to drain, so that the
// next store write does not overlap with it (the store's own write/write races are the subject of
// C08 and C19, not of the harnesses that use this helper).
func (n *Node) InsertQuiet(b *types.Block) error {
	err := n.BC.InsertBlock(b)
	n.Quiesce()
	return err
}

type parentLoader struct{ db *store.ChainDatabase }

func (l parentLoader) GetParentByHeight(height uint32, sonBlockHash common.Hash) *types.Block {
	b, err := l.db.GetUnConfirmByHeight(height, sonBlockHash)
	if err == store.ErrBlockNotExist {
		b, err = l.db.GetBlockByHeight(height)
	}
	if err != nil {
		return nil
	}
	return b
}

// canLoader reproduces DPoVP.LoadTopCandidates / LoadRefundCandidates for a stand-alone assembler.
type canLoader struct {
	db *store.ChainDatabase
	am *account.Manager
	dm *deputynode.Manager
}

func (c canLoader) LoadTopCandidates(blockHash common.Hash) types.DeputyNodes {
	result := make(types.DeputyNodes, 0, c.dm.DeputyCount)
	list := c.db.GetCandidatesTop(blockHash)
	if len(list) > c.dm.DeputyCount {
		list = list[:c.dm.DeputyCount]
	}
	for i, n := range list {
		acc := c.am.GetAccount(n.GetAddress())
		dn := types.NewDeputyNode(n.GetTotal(), uint32(i), n.GetAddress(), acc.GetCandidate()[types.CandidateKeyNodeID]) // as DPoVP.LoadTopCandidates after its fix: the votes the list was ranked by
		result = append(result, dn)
	}
	return result
}

func (c canLoader) LoadRefundCandidates(height uint32) ([]common.Address, error) {
	result := make([]common.Address, 0)
	addrList, err := c.db.GetAllCandidatesByBlock(c.am.BaseBlockHash()) // as DPoVP.LoadRefundCandidates after its fix 44765a9: the candidates of the parent block's state
	if err != nil {
		return nil, err
	}
	for _, addr := range addrList {
		acc := c.am.GetAccount(addr)
		if acc.GetCandidateState(types.CandidateKeyIsCandidate) == types.NotCandidateNode && acc.GetCandidateState(types.CandidateKeyDepositAmount) != "" {
			if !c.dm.IsNodeDeputy(height, common.FromHex(acc.GetCandidateState(types.CandidateKeyNodeID))) {
				result = append(result, addr)
			}
		}
	}
	return result, nil
}

// Factory builds blocks on any parent known to its database, by any miner key, with any timestamp:
// it runs the real BlockAssembler.MineBlock (which performs no turn / replay checks), so it produces
// honest blocks, out-of-turn blocks and byzantine blocks alike. Built blocks are saved (unconfirmed)
// in the factory's own database so that children can be built on them.
type Factory struct {
	*Node
}

// NewFactory creates the block factory: a node of its own (an observer key) whose database holds
// every block it ever built.
func NewFactory(dir string, n int) *Factory {
	return &Factory{NewNode(dir, n, K("factory"))}
}

// BlockSpec describes a block to build.
type BlockSpec struct {
	Parent *types.Block
	Miner  *Key   // must be a deputy at that height for an honest block; any key for a byzantine one
	Time   uint32 // header time (seconds)
	Txs    types.Transactions
	Extra  string
	NoSave bool // do not store the block in the factory database
	// GasLimit overrides the miner's default choice when non-zero; MinerAddr overrides the address
	// written into the header (default: the key's deputy address)
	// Inspect is called with the assembler's account manager right after the block was sealed
	// (before anything is saved): the miner's own view of the post-state
	Inspect     func(am *account.Manager, b *types.Block)
	GasLimit    uint64
	SetGasLimit bool // use GasLimit even when it is zero
	MinerAddr   *common.Address
}

// Make executes spec.Txs on spec.Parent and seals + signs the block. invalid are the transactions
// the assembler discarded.
func (f *Factory) Make(spec BlockSpec) (block *types.Block, invalid types.Transactions, err error) {
	SetSelf(spec.Miner)
	defer f.Use()
	am := account.NewManager(spec.Parent.Hash(), f.DB)
	proc := transaction.NewTxProcessor(Founder().Addr, ChainID, parentLoader{f.DB}, am, f.DB, f.DM)
	asm := consensus.NewBlockAssembler(am, f.DM, proc, canLoader{f.DB, am, f.DM})
	header, err := asm.PrepareHeader(spec.Parent.Header, spec.Extra)
	if err != nil {
		// not a deputy: build the header by hand with the key's own address as miner address
		probe := *spec.Parent.Header
		header = &types.Header{ParentHash: spec.Parent.Hash(), MinerAddress: spec.Miner.Addr, Height: probe.Height + 1, GasLimit: probe.GasLimit, Extra: spec.Extra}
	}
	header.Time = spec.Time
	if spec.GasLimit != 0 || spec.SetGasLimit {
		header.GasLimit = spec.GasLimit
	}
	if spec.MinerAddr != nil {
		header.MinerAddress = *spec.MinerAddr
	}
	txs := make(types.Transactions, len(spec.Txs))
	for i, tx := range spec.Txs {
		txs[i] = CloneTx(tx)
	}
	block, invalid, err = asm.MineBlock(header, txs, HugeTimeout)
	if err != nil {
		return nil, invalid, err
	}
	if spec.Inspect != nil {
		spec.Inspect(am, block)
	}
	if !spec.NoSave {
		h := block.Hash()
		if e := f.DB.SetBlock(h, block); e != nil && e != store.ErrExist {
			return nil, invalid, fmt.Errorf("factory SetBlock: %v", e)
		}
		if e := am.Save(h); e != nil {
			return nil, invalid, fmt.Errorf("factory Save: %v", e)
		}
	}
	return block, invalid, nil
}

// Wire encodes a block as it travels between nodes and decodes it again (a fresh object, as a
// receiving node would see it).
func Wire(b *types.Block) *types.Block {
	enc, err := rlp.EncodeToBytes(b)
	if err != nil {
		panic(fmt.Sprintf("block not encodable: %v", err))
	}
	var out types.Block
	if err := rlp.DecodeBytes(enc, &out); err != nil {
		panic(fmt.Sprintf("block not decodable: %v", err))
	}
	return &out
}

// SignConfirm signs a block hash with a key (what a deputy's confirm packet carries).
func SignConfirm(k *Key, hash common.Hash) types.SignData {
	sig, err := cryptoSign(hash[:], k)
	if err != nil {
		panic(err)
	}
	var sd types.SignData
	copy(sd[:], sig)
	return sd
}

// ---------------------------------------------------------------------------------------------
// state dumps

// DumpAccount renders the account data of addr as seen through the view of block `hash`
// (consensus fields only; nil => "absent").
func DumpAccount(db *store.ChainDatabase, hash common.Hash, addr common.Address) string {
	view, err := db.GetActDatabase(hash)
	if err != nil {
		return "view-error:" + err.Error()
	}
	d, err := view.Get(addr)
	if err != nil || d == nil {
		return "absent"
	}
	return DumpAccountData(d)
}

func DumpAccountData(d *types.AccountData) string {
	var sb strings.Builder
	bal := d.Balance
	if bal == nil {
		bal = new(big.Int)
	}
	fmt.Fprintf(&sb, "bal=%s codeHash=%x sroot=%x acroot=%x airoot=%x eqroot=%x voteFor=%x", bal, d.CodeHash[:4], d.StorageRoot[:4], d.AssetCodeRoot[:4], d.AssetIdRoot[:4], d.EquityRoot[:4], d.VoteFor[16:])
	votes := d.Candidate.Votes
	if votes == nil {
		votes = new(big.Int)
	}
	pk := make([]string, 0)
	for k, v := range d.Candidate.Profile {
		pk = append(pk, k+"="+v)
	}
	sort.Strings(pk)
	fmt.Fprintf(&sb, " votes=%s profile{%s} signers%s", votes, strings.Join(pk, ","), d.Signers.String())
	rk := make([]string, 0)
	for k, v := range d.NewestRecords {
		rk = append(rk, fmt.Sprintf("%02d:%d@%d", k, v.Version, v.Height))
	}
	sort.Strings(rk)
	fmt.Fprintf(&sb, " records{%s}", strings.Join(rk, ","))
	return sb.String()
}

// TouchedAddresses lists the addresses named in a block's change logs, sorted, without duplicates.
func TouchedAddresses(b *types.Block) []common.Address {
	set := map[common.Address]bool{}
	for _, l := range b.ChangeLogs {
		set[l.Address] = true
	}
	l := make(common.AddressSlice, 0, len(set))
	for a := range set {
		l = append(l, a)
	}
	sort.Sort(l)
	return l
}

// CloneTx copies a transaction through its wire encoding. (types.Transaction.Clone dereferences the
// gasPayer pointer, which is nil for a transaction that arrived with an empty gasPayer field.)
func CloneTx(tx *types.Transaction) *types.Transaction {
	enc, err := rlp.EncodeToBytes(tx)
	if err != nil {
		panic(err)
	}
	var out types.Transaction
	if err := rlp.DecodeBytes(enc, &out); err != nil {
		panic(err)
	}
	return &out
}

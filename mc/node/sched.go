package node

import (
	"github.com/LemoFoundationLtd/lemochain-core/chain/consensus"
	"github.com/LemoFoundationLtd/lemochain-core/chain/deputynode"
	"github.com/LemoFoundationLtd/lemochain-core/chain/types"
)

// SlotTime returns the first whole-second timestamp >= parent.Time (within one round) at which the
// real schedule entitles miner to mine on parent, using the repo's own GetCorrectMiner (the honest
// miner's view; C13 checks that function against a reference). ok=false if the key is never in turn.
func SlotTime(dm *deputynode.Manager, parent *types.Block, miner *Key, n int) (uint32, bool) {
	slot := uint32(MineTimeout / 1000)
	for d := uint32(0); d < uint32(n); d++ {
		t := parent.Time() + d*slot
		addr, err := consensus.GetCorrectMiner(parent.Header, int64(t)*1000, int64(MineTimeout), dm)
		if err == nil && addr == miner.Addr {
			return t, true
		}
	}
	return 0, false
}

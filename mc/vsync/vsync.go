// Package vsync replaces package sync in instrumented lemochain-core files (import rewrite by
// /verif/mc/instr, pass "sync"). Under the controlled scheduler (package sched) every operation of
// a controlled thread is a scheduling point and lock ownership is modelled; for every other
// goroutine, and when no execution is active, the types behave exactly like their sync originals.
package vsync

import (
	"sync"
	"sync/atomic"
	"unsafe"

	"verifmc/sched"
)

type Locker = sync.Locker
type Map = sync.Map
type Pool = sync.Pool
type Cond = sync.Cond

func NewCond(l Locker) *Cond { return sync.NewCond(l) }

type Mutex struct{ mu sync.Mutex }

func (m *Mutex) Lock() {
	sched.Point(sched.OpLock, uintptr(unsafe.Pointer(m)), 0)
	m.mu.Lock()
}

func (m *Mutex) Unlock() {
	sched.Point(sched.OpUnlock, uintptr(unsafe.Pointer(m)), 0)
	m.mu.Unlock()
}

type RWMutex struct{ mu sync.RWMutex }

func (m *RWMutex) Lock() {
	sched.Point(sched.OpLock, uintptr(unsafe.Pointer(m)), 0)
	m.mu.Lock()
}

func (m *RWMutex) Unlock() {
	sched.Point(sched.OpUnlock, uintptr(unsafe.Pointer(m)), 0)
	m.mu.Unlock()
}

func (m *RWMutex) RLock() {
	sched.Point(sched.OpRLock, uintptr(unsafe.Pointer(m)), 0)
	m.mu.RLock()
}

func (m *RWMutex) RUnlock() {
	sched.Point(sched.OpRUnlock, uintptr(unsafe.Pointer(m)), 0)
	m.mu.RUnlock()
}

func (m *RWMutex) RLocker() Locker { return (*rlocker)(m) }

type rlocker RWMutex

func (r *rlocker) Lock()   { (*RWMutex)(r).RLock() }
func (r *rlocker) Unlock() { (*RWMutex)(r).RUnlock() }

type WaitGroup struct{ wg sync.WaitGroup }

func (w *WaitGroup) Add(n int) {
	sched.Point(sched.OpWGAdd, uintptr(unsafe.Pointer(w)), n)
	w.wg.Add(n)
}
func (w *WaitGroup) Done() {
	sched.Point(sched.OpWGAdd, uintptr(unsafe.Pointer(w)), -1)
	w.wg.Done()
}
func (w *WaitGroup) Wait() {
	sched.Point(sched.OpWGWait, uintptr(unsafe.Pointer(w)), 0)
	w.wg.Wait()
}

// Once is built on the shim mutex so that a thread waiting for another thread's Do is visible to
// the scheduler as blocked on a lock.
type Once struct {
	m    Mutex
	done uint32
}

func (o *Once) Do(f func()) {
	if atomic.LoadUint32(&o.done) == 1 {
		return
	}
	o.m.Lock()
	defer o.m.Unlock()
	if o.done == 0 {
		defer atomic.StoreUint32(&o.done, 1)
		f()
	}
}

// Access announces a read (write=false) or write (write=true) of the variable at p by the calling
// thread. It is inserted by the instrumenter's "access" pass in front of statements that touch a
// configured list of shared fields. It is a scheduling point: two threads parked on conflicting
// announcements of one address are co-enabled, i.e. race.
func Access(p unsafe.Pointer, write bool) {
	k := sched.OpAccessR
	if write {
		k = sched.OpAccessW
	}
	sched.Point(k, uintptr(p), 0)
}

package main

import (
	"fmt"
	"strconv"
	"strings"

	"github.com/LemoFoundationLtd/lemochain-core/common"
)

// Macro assembler. A program is a list of macro names; every macro assembles to a fixed number of
// bytes (jump targets are always PUSH2), so offsets are known after one pass.
//
// Self-contained macros push their own operands; bare macros (DUP1, POP, MSTORE, SSTORE, SLOAD, GAS
// and the pushes) work on whatever the stack holds, which is how stack underflow, gas-dependent
// operands and operand reuse enter the enumeration.

const (
	opSTOP         = 0x00
	opADDRESS      = 0x30
	opCALLER       = 0x33
	opCALLDATALOAD = 0x35
	opCALLDATASIZE = 0x36
	opCALLDATACOPY = 0x37
	opPOP          = 0x50
	opMSTORE       = 0x52
	opSLOAD        = 0x54
	opSSTORE       = 0x55
	opJUMP         = 0x56
	opJUMPI        = 0x57
	opGAS          = 0x5a
	opJUMPDEST     = 0x5b
	opPUSH1        = 0x60
	opPUSH2        = 0x61
	opPUSH6        = 0x65
	opPUSH20       = 0x73
	opPUSH32       = 0x7f
	opDUP1         = 0x80
	opDUP6         = 0x85
	opLOG0         = 0xa0
	opLOG1         = 0xa1
	opCREATE       = 0xf0
	opCALL         = 0xf1
	opCALLCODE     = 0xf2
	opRETURN       = 0xf3
	opDELEGATECALL = 0xf4
	opSTATICCALL   = 0xfa
	opREVERT       = 0xfd
	opINVALID      = 0xfe
	opSELFDESTRUCT = 0xff
)

func push1(b byte) []byte { return []byte{opPUSH1, b} }
func push2(v int) []byte  { return []byte{opPUSH2, byte(v >> 8), byte(v)} }
func push20(a common.Address) []byte {
	return append([]byte{opPUSH20}, a.Bytes()...)
}
func cat(parts ...[]byte) []byte {
	var out []byte
	for _, p := range parts {
		out = append(out, p...)
	}
	return out
}

// runtime code installed by the "ok" init code: PUSH1 0x33 PUSH1 0 SSTORE STOP
var createdRuntime = []byte{opPUSH1, 0x33, opPUSH1, 0x00, opSSTORE, opSTOP}

// init codes used by the CREATE macros (all <= 32 bytes so that one MSTORE places them)
var (
	// constructor writes storage, then returns createdRuntime
	initOK = cat(push1(1), push1(0), []byte{opSSTORE}, []byte{opPUSH6}, createdRuntime, push1(0), []byte{opMSTORE}, push1(6), push1(26), []byte{opRETURN})
	// constructor writes storage, then reverts
	initRevert = cat(push1(1), push1(0), []byte{opSSTORE}, push1(0), push1(0), []byte{opREVERT})
	// returns 24577 zero bytes: one more than params.MaxCodeSize
	initOversize = cat(push2(24577), push1(0), []byte{opRETURN})
)

func createMacro(init []byte, value byte) []byte {
	if len(init) > 64 {
		panic("harness: init code longer than two words")
	}
	word := make([]byte, 64)
	copy(word, init)
	out := cat([]byte{opPUSH32}, word[:32], push1(0), []byte{opMSTORE})
	if len(init) > 32 {
		out = cat(out, []byte{opPUSH32}, word[32:], push1(32), []byte{opMSTORE})
	}
	return cat(out, push1(byte(len(init))), push1(0), push1(value), []byte{opCREATE})
}

// init codes that jump: a short one, a long one whose JUMPDEST lies far behind the end of the short
// one, and one that jumps into the data of a PUSH (must fail). Two different init codes in one
// transaction are what makes a jump-destination analysis that is cached per code matter.
var (
	initJumpShort    = []byte{0x60, 0x03, 0x56, 0x5b, 0x00}                                      // PUSH1 3, JUMP, JUMPDEST, STOP
	initJumpFar      = append(append([]byte{0x60, 0x30, 0x56}, make([]byte, 45)...), 0x5b, 0x00) // PUSH1 48, JUMP, 45 x STOP, JUMPDEST (pc 48), STOP
	initJumpIntoData = []byte{0x60, 0x04, 0x56, 0x60, 0x5b, 0x00}                                // PUSH1 4, JUMP, PUSH1 0x5b (pc 4 is push data), STOP
)

// target of a call macro: self (ADDRESS: the executing context), a named contract, the empty
// account E or a precompile P1..P9.
func targetBytes(to string) []byte {
	switch to {
	case "self":
		return []byte{opADDRESS}
	case "A":
		return push20(addrA)
	case "B":
		return push20(addrB)
	case "C":
		return push20(addrC)
	case "E":
		return push20(addrE)
	}
	if strings.HasPrefix(to, "P") {
		n, err := strconv.Atoi(to[1:])
		if err == nil && n >= 1 && n <= 9 {
			return push1(byte(n))
		}
	}
	panic("harness: bad call target " + to)
}

func gasBytes(g string) []byte {
	switch g {
	case "all":
		return []byte{opGAS}
	case "2300":
		return push2(2300)
	case "0":
		return push1(0)
	}
	panic("harness: bad call gas " + g)
}

// jumpPlaceholder marks the two bytes of a PUSH2 that the second pass patches for JF.
const jumpPlaceholder = 0xfffe

// macroBytes assembles one macro. CALL:<to>:<value>:<gas>, CALLCODE:<to>:<value>:<gas>,
// DELEGATECALL:<to>:<gas>, STATICCALL:<to>:<gas> pass memory[0:32] as input and receive 32 bytes at 0.
func macroBytes(name string) []byte {
	switch name {
	case "P0":
		return push1(0)
	case "P1":
		return push1(1)
	case "P2":
		return push1(2)
	case "P32":
		return push1(32)
	case "P255":
		return push1(255)
	case "DUP1":
		return []byte{opDUP1}
	case "POP":
		return []byte{opPOP}
	case "MSTORE":
		return []byte{opMSTORE}
	case "SLOAD":
		return []byte{opSLOAD}
	case "SSTORE":
		return []byte{opSSTORE}
	case "GAS":
		return []byte{opGAS}
	case "SS0": // storage[0] = 0x11
		return cat(push1(0x11), push1(0), []byte{opSSTORE})
	case "SS1": // storage[1] = 0x22
		return cat(push1(0x22), push1(1), []byte{opSSTORE})
	case "SZ0": // storage[0] = 0 (delete)
		return cat(push1(0), push1(0), []byte{opSSTORE})
	case "SL0":
		return cat(push1(0), []byte{opSLOAD})
	case "LOG0":
		return cat(push1(0), push1(0), []byte{opLOG0})
	case "LOG1": // topic 7, data memory[0:32]
		return cat(push1(7), push1(32), push1(0), []byte{opLOG1})
	case "JD":
		return []byte{opJUMPDEST}
	case "J0": // valid iff the program starts with JD: then an endless loop
		return cat(push1(0), []byte{opJUMP})
	case "JF": // to the next JD after this macro (invalid destination if there is none)
		return cat(push2(jumpPlaceholder), []byte{opJUMP})
	case "JBAD":
		return cat(push2(0xffff), []byte{opJUMP})
	case "JI0": // taken, to 0
		return cat(push1(1), push1(0), []byte{opJUMPI})
	case "JINT": // not taken; the invalid destination is not looked at
		return cat(push1(0), push2(0xffff), []byte{opJUMPI})
	case "JIBAD": // taken, invalid destination
		return cat(push1(1), push2(0xffff), []byte{opJUMPI})
	case "RET":
		return cat(push1(32), push1(0), []byte{opRETURN})
	case "REV":
		return cat(push1(32), push1(0), []byte{opREVERT})
	case "INV":
		return []byte{opINVALID}
	case "STOP":
		return []byte{opSTOP}
	case "SD_SELF":
		return []byte{opADDRESS, opSELFDESTRUCT}
	case "SD_CALLER":
		return []byte{opCALLER, opSELFDESTRUCT}
	case "SD_B":
		return cat(push20(addrB), []byte{opSELFDESTRUCT})
	case "SD_E":
		return cat(push20(addrE), []byte{opSELFDESTRUCT})
	case "CR_OK":
		return createMacro(initOK, 0)
	case "CR_OKV":
		return createMacro(initOK, 1)
	case "CR_REV":
		return createMacro(initRevert, 0)
	case "CR_BIG":
		return createMacro(initOversize, 0)
	case "CR_JS":
		return createMacro(initJumpShort, 0)
	case "CR_JF":
		return createMacro(initJumpFar, 0)
	case "CR_JD":
		return createMacro(initJumpIntoData, 0)
	case "CALLNEW": // CALL the address on top of the stack (left there by CREATE), all gas, no value
		return cat(push1(0), push1(0), push1(0), push1(0), push1(0), []byte{opDUP6, opGAS, opCALL})
	case "CDL":
		return cat(push1(0), []byte{opCALLDATALOAD})
	case "CDC": // copy the whole call data to memory 0
		return cat([]byte{opCALLDATASIZE}, push1(0), push1(0), []byte{opCALLDATACOPY})
	}
	f := strings.Split(name, ":")
	io := cat(push1(32), push1(0), push1(32), push1(0)) // retSize retOff inSize inOff
	switch {
	case (f[0] == "CALL" || f[0] == "CALLCODE") && len(f) == 4:
		v, err := strconv.Atoi(f[2])
		if err != nil || v < 0 || v > 255 {
			break
		}
		op := byte(opCALL)
		if f[0] == "CALLCODE" {
			op = opCALLCODE
		}
		return cat(io, push1(byte(v)), targetBytes(f[1]), gasBytes(f[3]), []byte{op})
	case (f[0] == "DELEGATECALL" || f[0] == "STATICCALL") && len(f) == 3:
		op := byte(opDELEGATECALL)
		if f[0] == "STATICCALL" {
			op = opSTATICCALL
		}
		return cat(io, targetBytes(f[1]), gasBytes(f[2]), []byte{op})
	}
	panic("harness: unknown macro " + name)
}

var macroCache = map[string][]byte{}

func macroCode(name string) []byte {
	b, ok := macroCache[name]
	if !ok {
		b = macroBytes(name)
		macroCache[name] = b
	}
	return b
}

// assemble concatenates the macros and resolves JF targets.
func assemble(prog []string) []byte {
	var out []byte
	offs := make([]int, len(prog))
	for i, m := range prog {
		offs[i] = len(out)
		out = append(out, macroCode(m)...)
	}
	for i, m := range prog {
		if m != "JF" {
			continue
		}
		dest := 0xffff
		for j := i + 1; j < len(prog); j++ {
			if prog[j] == "JD" {
				dest = offs[j]
				break
			}
		}
		out[offs[i]+1] = byte(dest >> 8)
		out[offs[i]+2] = byte(dest)
	}
	return out
}

// callTargets lists the contracts (A, B, C) whose code a program may enter.
func callTargets(prog []string) (a, b, c bool) {
	for _, m := range prog {
		f := strings.Split(m, ":")
		if len(f) < 3 {
			continue
		}
		switch f[1] {
		case "A":
			a = true
		case "B":
			b = true
		case "C":
			c = true
		}
	}
	return
}

func hasMacro(prog []string, pred func(string) bool) bool {
	for _, m := range prog {
		if pred(m) {
			return true
		}
	}
	return false
}

// ---------------------------------------------------------------------------------------------
// alphabets

// fullAlphabet is every macro of the property's alphabet.
func fullAlphabet() []string {
	l := []string{"P0", "P1", "P2", "P32", "P255", "DUP1", "POP", "MSTORE", "SLOAD", "SSTORE", "GAS",
		"SS0", "SS1", "SZ0", "SL0", "LOG0", "LOG1",
		"JD", "J0", "JF", "JBAD", "JI0", "JINT", "JIBAD",
		"RET", "REV", "INV", "STOP",
		"SD_SELF", "SD_CALLER", "SD_B", "SD_E",
		"CR_OK", "CR_OKV", "CR_REV", "CR_BIG", "CR_JS", "CR_JF", "CR_JD", "CALLNEW", "CDL", "CDC"}
	targets := []string{"self", "B", "C", "E", "P1", "P2", "P3", "P4", "P5", "P6", "P7", "P8", "P9"}
	for _, to := range targets {
		for _, g := range []string{"all", "2300", "0"} {
			for _, v := range []string{"0", "1"} {
				l = append(l, fmt.Sprintf("CALL:%s:%s:%s", to, v, g))
				l = append(l, fmt.Sprintf("CALLCODE:%s:%s:%s", to, v, g))
			}
			l = append(l, fmt.Sprintf("DELEGATECALL:%s:%s", to, g))
			l = append(l, fmt.Sprintf("STATICCALL:%s:%s", to, g))
		}
	}
	return l
}

// reducedAlphabet is the sub-alphabet used for the longer programs: every state-changing and every
// failing macro, loops, and per contract target one call of each kind plus the value / stipend-only
// variants of CALL.
func reducedAlphabet() []string {
	l := []string{"P1", "DUP1", "POP", "MSTORE", "SSTORE", "GAS",
		"SS0", "SS1", "SZ0", "SL0", "LOG1",
		"JD", "J0", "JI0",
		"RET", "REV", "INV", "STOP",
		"SD_SELF", "SD_B",
		"CR_OK", "CR_REV", "CR_BIG", "CR_JS", "CR_JF", "CR_JD"}
	for _, to := range []string{"self", "B", "C"} {
		l = append(l, "CALL:"+to+":0:all", "CALL:"+to+":1:all", "CALL:"+to+":1:0", "CALLCODE:"+to+":0:all", "DELEGATECALL:"+to+":all", "STATICCALL:"+to+":all")
	}
	l = append(l, "CALL:E:1:all", "CALL:P4:0:all")
	return l
}

// miniAlphabet is the sub-alphabet for the longest programs (thorough tier): storage writes and
// reads, the failing macros, self-destruct, creation and one call of each kind.
func miniAlphabet() []string {
	return []string{"P1", "POP", "SS0", "SZ0", "SL0", "REV", "INV", "SD_SELF", "CR_OK",
		"CALL:self:0:all", "CALL:B:0:all", "CALL:B:1:all", "CALLCODE:B:0:all", "DELEGATECALL:B:all", "STATICCALL:B:all", "CALL:C:0:all"}
}

// behaviours are the fixed programs given to B and C while A is enumerated.
var behaviours = map[string][]string{
	"stop":       {"STOP"},
	"ss":         {"SS0"},
	"ssrev":      {"SS0", "REV"},
	"ssinv":      {"SS0", "INV"},
	"callA":      {"CALL:A:0:all"},
	"sd":         {"SD_CALLER"},
	"log":        {"LOG1"},
	"loop":       {"JD", "J0"},
	"dcallC_inv": {"DELEGATECALL:C:all", "INV"},
	"callC_rev":  {"CALL:C:0:all", "REV"},
}

var behB = []string{"stop", "ss", "ssrev", "ssinv", "callA", "sd", "log", "loop", "dcallC_inv", "callC_rev"}
var behC = []string{"stop", "ss", "ssrev", "ssinv", "callA", "sd", "log", "loop"}

// rawOps3 are the opcode bytes for the raw programs of length 3 (32 bytes), rawOps4 for length 4.
var rawOps3 = []byte{0x00, 0x20, 0x30, 0x31, 0x34, 0x35, 0x36, 0x37, 0x39, 0x3b, 0x3c, 0x3d, 0x3e, 0x51, 0x52, 0x53,
	0x54, 0x55, 0x56, 0x57, 0x59, 0x5a, 0x5b, 0x60, 0x80, 0xa1, 0xf0, 0xf1, 0xf3, 0xfa, 0xfd, 0xff}
var rawOps4 = []byte{0x20, 0x36, 0x37, 0x39, 0x3e, 0x52, 0x53, 0x55, 0x59, 0x5a, 0x5b, 0x80, 0xa1, 0xf0, 0xf3, 0xff}

package main

import (
	"bytes"
	"encoding/hex"
	"fmt"
	"math/big"
	"runtime/debug"
	"sort"
	"strconv"
	"strings"
	"time"
	"verifmc/vorder"

	"verifmc/node"

	"github.com/LemoFoundationLtd/lemochain-core/chain/account"
	"github.com/LemoFoundationLtd/lemochain-core/chain/params"
	"github.com/LemoFoundationLtd/lemochain-core/chain/transaction"
	"github.com/LemoFoundationLtd/lemochain-core/chain/vm"
	"github.com/LemoFoundationLtd/lemochain-core/common"
	"github.com/LemoFoundationLtd/lemochain-core/common/crypto"
)

// Case is one evaluation: a world (codes of A, B, C and a pre-state) and one top-level EVM entry.
type Case struct {
	Set   string   `json:"set"`
	Kind  string   `json:"kind"` // call (X -> To), static (EVM.StaticCall X -> To), create (X creates with init code = program A)
	To    string   `json:"to"`   // "A", or "P1".."P9" for a direct precompile call
	A     []string `json:"a,omitempty"`
	B     []string `json:"b,omitempty"`
	C     []string `json:"c,omitempty"`
	Raw   bool     `json:"raw,omitempty"`   // A's code is ARaw, not the macros
	ARaw  string   `json:"a_raw,omitempty"` // hex
	Gas   uint64   `json:"gas"`
	Value int      `json:"value"` // 0, 1, or -1 = one more than X owns
	Data  string   `json:"data"`  // hex call data
	Pre   int      `json:"pre"`   // 0 fresh, 1 dirty (earlier transaction in the block), 2 C's code only in memory
}

func (c *Case) codeA() []byte {
	if c.Raw {
		b, err := hex.DecodeString(c.ARaw)
		must(err)
		return b
	}
	return assemble(c.A)
}

func (c *Case) world() *world {
	w := &world{codeB: assemble(c.B), codeC: assemble(c.C), pre: c.Pre}
	if c.Kind != "create" {
		w.codeA = c.codeA()
	}
	return w
}

func (c *Case) String() string {
	a := strings.Join(c.A, " ")
	if c.Raw {
		a = "raw:" + c.ARaw
	}
	return fmt.Sprintf("%s %s->%s A=[%s] (%x) B=[%s] C=[%s] gas=%d value=%d data=%s pre=%d", c.Set, c.Kind, c.To, a, c.codeA(),
		strings.Join(c.B, " "), strings.Join(c.C, " "), c.Gas, c.Value, c.Data, c.Pre)
}

type finding struct {
	class string // panic | gas-exceeds-supplied | nondeterministic | state-not-restored | static-call-changed-state | depth
	sub   string // what differs / where
	op    string // top-level op + error class, or inner-<OP>+failed
	what  string
}

type outcome struct {
	findings []finding
	cut      bool   // stopped by the step budget: not evaluated
	key      string // distinct-outcome key
	stats    map[string]int
	maxDepth int
}

// ---------------------------------------------------------------------------------------------
// tracer: counts steps, watches depth and per-frame gas, and checks every nested call frame that
// fails (and every nested STATICCALL frame) against a snapshot taken just before the call.

const maxFrameDepth = 1 + int(params.CallCreateDepth) // transaction-level frame + 1024 nested

type frameGas struct {
	c    *vm.Contract
	last uint64
}

type pend struct {
	op     vm.OpCode
	before *snap
	evAddr common.Address
}

type tracer struct {
	am       *account.Manager
	supplied uint64
	budget   int
	steps    int
	cut      bool
	maxDepth int
	frames   []frameGas
	pending  map[int]*pend
	innerMax int
	jumps    map[int]*jumpPend // per depth: the JUMP / taken JUMPI announced by the previous step
	findings []finding
	stats    map[string]int
}

func newTracer(am *account.Manager, supplied uint64, budget int) *tracer {
	return &tracer{am: am, supplied: supplied, budget: budget, pending: map[int]*pend{}, jumps: map[int]*jumpPend{}, innerMax: innerCheckDepth, stats: map[string]int{}}
}

// innerCheckDepth bounds the frames whose nested calls are snapshot-checked (frame 1 is the
// transaction-level one): the snapshots cost time linear in the journal.
var innerCheckDepth = 4

// jumpPend is a jump the interpreter is about to perform (seen by CaptureState before the
// operation runs): which code, and where to.
type jumpPend struct {
	c    *vm.Contract
	dest *big.Int
}

// validDest is the reference answer: dest is inside the code, holds JUMPDEST (0x5b) and is not data
// of a PUSH. It depends on the code alone — that is the point: where a program may jump must not
// depend on what ran before it (determinism clause), e.g. through a jump-analysis cache filed under
// the wrong key.
func validDest(code []byte, dest *big.Int) bool {
	if !dest.IsUint64() || dest.Uint64() >= uint64(len(code)) {
		return false
	}
	d := int(dest.Uint64())
	for pc := 0; pc < len(code); pc++ {
		if pc == d {
			return code[pc] == 0x5b
		}
		if code[pc] >= 0x60 && code[pc] <= 0x7f {
			pc += int(code[pc]) - 0x5f
		}
	}
	return false
}

func isCallOp(op vm.OpCode) bool {
	return op == vm.CALL || op == vm.CALLCODE || op == vm.DELEGATECALL || op == vm.STATICCALL || op == vm.CREATE
}

func (t *tracer) CaptureStart(from common.Address, to common.Address, call bool, input []byte, gas uint64, value *big.Int) error {
	return nil
}
func (t *tracer) CaptureEnd(output []byte, gasUsed uint64, d time.Duration, err error) error {
	return nil
}

func (t *tracer) CaptureFault(env *vm.EVM, pc uint64, op vm.OpCode, gas, cost uint64, memory *vm.Memory, stack *vm.Stack, contract *vm.Contract, depth int, err error) error {
	delete(t.pending, depth)
	if jp := t.jumps[depth]; jp != nil {
		delete(t.jumps, depth)
		if jp.c == contract && (op == vm.JUMP || op == vm.JUMPI) && err != nil && strings.Contains(err.Error(), "invalid jump destination") && validDest(contract.Code, jp.dest) {
			t.findings = append(t.findings, finding{class: "jump", sub: "valid-destination-refused", what: fmt.Sprintf("%v at pc %d (depth %d) to %v is refused although that position of the running code %x is a JUMPDEST outside push data", op, pc, depth, jp.dest, contract.Code)})
		}
	}
	return nil
}

func (t *tracer) CaptureState(env *vm.EVM, pc uint64, op vm.OpCode, gas, cost uint64, memory *vm.Memory, stack *vm.Stack, contract *vm.Contract, depth int, err error) error {
	t.steps++
	if t.steps > t.budget && !t.cut {
		t.cut = true
		env.Cancel()
	}
	if t.cut {
		return nil
	}
	if depth > t.maxDepth {
		t.maxDepth = depth
	}
	// control flow: a jump that was performed went to a JUMPDEST of the running code outside push data
	if jp := t.jumps[depth]; jp != nil {
		delete(t.jumps, depth)
		if jp.c == contract && jp.dest.IsUint64() && jp.dest.Uint64() == pc && !validDest(contract.Code, jp.dest) {
			t.findings = append(t.findings, finding{class: "jump", sub: "executed-to-non-jumpdest", what: fmt.Sprintf("the frame at depth %d jumped to pc %d of its code %x, which is not a JUMPDEST outside push data (reference analysis of the code alone)", depth, pc, contract.Code)})
		}
	}
	for d := range t.jumps {
		if d > depth {
			delete(t.jumps, d)
		}
	}
	if st := stack.Data(); (op == vm.JUMP && len(st) >= 1) || (op == vm.JUMPI && len(st) >= 2 && st[len(st)-2].Sign() != 0) {
		t.jumps[depth] = &jumpPend{contract, new(big.Int).Set(st[len(st)-1])}
		t.stats["jumps_observed"]++
	}
	// gas never grows inside a frame, and a frame starts with no more than its parent had (+ stipend)
	if depth < len(t.frames) && t.frames[depth].c == contract {
		if gas > t.frames[depth].last {
			t.findings = append(t.findings, finding{class: "gas-exceeds-supplied", sub: "inner-frame", what: fmt.Sprintf("frame at depth %d has %d gas before %v at pc %d, had %d before the previous operation", depth, gas, op, pc, t.frames[depth].last)})
		}
		t.frames[depth].last = gas
		t.frames = t.frames[:depth+1]
	} else {
		for len(t.frames) <= depth {
			t.frames = append(t.frames, frameGas{})
		}
		limit := t.supplied
		if depth > 1 && t.frames[depth-1].c != nil {
			limit = t.frames[depth-1].last + params.CallStipend
		}
		if gas > limit {
			t.findings = append(t.findings, finding{class: "gas-exceeds-supplied", sub: "inner-frame", what: fmt.Sprintf("frame at depth %d starts with %d gas, its caller had %d", depth, gas, limit)})
		}
		t.frames = t.frames[:depth+1]
		t.frames[depth] = frameGas{contract, gas}
	}
	if p := t.pending[depth]; p != nil {
		delete(t.pending, depth)
		t.resolve(p, stack)
	}
	for d := range t.pending {
		if d > depth {
			delete(t.pending, d)
		}
	}
	if err == nil && depth <= t.innerMax && isCallOp(op) {
		p := &pend{op: op, before: takeSnap(t.am)}
		if op == vm.CREATE {
			p.evAddr = crypto.CreateContractAddress(contract.GetAddress(), txHash)
		} else {
			p.evAddr = common.BigToAddress(stack.Back(1))
		}
		t.pending[depth] = p
		t.stats["inner:"+op.String()]++
	}
	return nil
}

// resolve runs when the frame that issued a call executes its next step: the call's result is on
// top of the stack.
func (t *tracer) resolve(p *pend, stack *vm.Stack) {
	if len(stack.Data()) == 0 {
		return
	}
	failed := stack.Back(0).Sign() == 0
	if p.op == vm.STATICCALL {
		policy := evAnyFail
		if failed {
			policy = evNone
			t.stats["inner-failed:"+p.op.String()]++
		}
		if names, detail := diffSnap(p.before, t.am, policy, common.Address{}); names != "" {
			t.findings = append(t.findings, finding{class: "static-call-changed-state", sub: names, op: "inner-STATICCALL", what: "a nested STATICCALL frame changed state:\n" + detail})
		}
		return
	}
	if !failed {
		return
	}
	t.stats["inner-failed:"+p.op.String()]++
	policy := evNone
	if p.op == vm.CALL || p.op == vm.CREATE {
		policy = evOneAt
	}
	if names, detail := diffSnap(p.before, t.am, policy, p.evAddr); names != "" {
		t.findings = append(t.findings, finding{class: "state-not-restored", sub: names, op: "inner-" + p.op.String() + "+failed", what: "a nested " + p.op.String() + " failed (pushed 0) and left:\n" + detail})
	}
}

// ---------------------------------------------------------------------------------------------

var jumpTable = vm.NewInstructionSet()

type result struct {
	ret  []byte
	left uint64
	err  error
}

func targetAddr(to string) common.Address {
	if to == "A" || to == "" {
		return addrA
	}
	n, err := strconv.Atoi(strings.TrimPrefix(to, "P"))
	if err != nil || n < 1 || n > 9 {
		panic("harness: bad target " + to)
	}
	return common.BytesToAddress([]byte{byte(n)})
}

func valueOf(c *Case) *big.Int {
	if c.Value < 0 {
		return big.NewInt(xBalance + 1)
	}
	return big.NewInt(int64(c.Value))
}

// exec performs the top-level EVM entry exactly as TxProcessor.handleTx does (context from
// NewEVMContext's fields, sender = the SafeAccount of X), minus gas purchase and refund.
func exec(c *Case, am *account.Manager, tr *tracer) (res result) {
	ctx := vm.Context{
		CanTransfer:  transaction.CanTransfer,
		Transfer:     transaction.Transfer,
		GetHash:      func(n uint32) common.Hash { return crypto.Keccak256Hash([]byte{byte(n), byte(n >> 8)}) },
		TxIndex:      0,
		TxHash:       txHash,
		BlockHash:    common.Hash{},
		Origin:       addrX,
		GasPrice:     big.NewInt(1),
		MinerAddress: node.Deputy(0).Addr,
		GasLimit:     params.GenesisGasLimit,
		BlockHeight:  2,
		Time:         baseTime + 1,
	}
	cfg := vm.Config{RewardManager: addrX, JumpTable: jumpTable}
	if tr != nil {
		cfg.Debug = true
		cfg.Tracer = tr
	}
	evm := vm.NewEVM(ctx, am, cfg)
	sender := am.GetAccount(addrX)
	data, err := hex.DecodeString(c.Data)
	must(err)
	switch c.Kind {
	case "call":
		res.ret, res.left, res.err = evm.Call(sender, targetAddr(c.To), data, c.Gas, valueOf(c))
	case "static":
		res.ret, res.left, res.err = evm.StaticCall(sender, targetAddr(c.To), data, c.Gas)
	case "create":
		res.ret, _, res.left, res.err = evm.Create(sender, c.codeA(), c.Gas, valueOf(c))
	default:
		panic("harness: bad kind " + c.Kind)
	}
	return res
}

type panicInfo struct {
	msg, site, stack string
}

func safeExec(c *Case, am *account.Manager, tr *tracer) (res result, p *panicInfo) {
	defer func() {
		if r := recover(); r != nil {
			st := string(debug.Stack())
			msg := fmt.Sprint(r)
			if strings.HasPrefix(msg, "harness:") {
				panic(r)
			}
			p = &panicInfo{msg: firstLine(msg), site: panicSite(st), stack: st}
		}
	}()
	res = exec(c, am, tr)
	return res, nil
}

func firstLine(s string) string {
	if i := strings.IndexByte(s, '\n'); i >= 0 {
		s = s[:i]
	}
	if len(s) > 120 {
		s = s[:120]
	}
	return s
}

// panicSite is the first lemochain-core function below the panic in the stack trace.
func panicSite(st string) string {
	seen := false
	for _, l := range strings.Split(st, "\n") {
		if strings.HasPrefix(l, "panic(") {
			seen = true
			continue
		}
		if seen && strings.Contains(l, "lemochain-core/") && !strings.HasPrefix(l, "\t") {
			l = l[strings.Index(l, "lemochain-core/")+len("lemochain-core/"):]
			if i := strings.LastIndex(l, "("); i > 0 {
				l = l[:i]
			}
			return l
		}
	}
	return "unknown"
}

func errClass(err error) string {
	if err == nil {
		return "ok"
	}
	s := err.Error()
	switch {
	case s == "evm: execution reverted":
		return "revert"
	case s == "out of gas":
		return "oog"
	case strings.HasPrefix(s, "invalid opcode"):
		return "invalid-opcode"
	case strings.HasPrefix(s, "invalid jump"):
		return "invalid-jump"
	case strings.HasPrefix(s, "stack"):
		return "stack"
	case s == "evm: write protection":
		return "write-protection"
	case s == "max call depth exceeded":
		return "depth"
	case s == "insufficient balance for transfer":
		return "insufficient-balance"
	case s == "gas uint64 overflow":
		return "gas-overflow"
	case s == "evm: return data out of bounds":
		return "returndata-bounds"
	case s == "contract address collision":
		return "collision"
	case s == "evm: max code size exceeded":
		return "code-size"
	case s == "contract creation code storage out of gas":
		return "code-store-oog"
	case s == "no permission to call this Precompiled contract":
		return "reward-permission"
	case s == "contract code load fail":
		return "code-load-fail"
	}
	return "precompile-error"
}

// stepBudget bounds the interpreter steps of one run; a run that exceeds it is cancelled and not
// evaluated (counted as cut). Only runs with 2^63-1 gas can reach it.
var stepBudget = 60000

// obs0 caches the getter observation of the un-run world of the current configuration.
var (
	obs0Key string
	obs0Val string
)

func observeBefore(w *world) string {
	k := fmt.Sprintf("%x|%x|%x|%d", w.codeA, w.codeB, w.codeC, w.pre)
	if k != obs0Key {
		obs0Key, obs0Val = k, observe(w.build())
	}
	return obs0Val
}

// runCase evaluates one case against all oracles.
func runCase(c *Case) (o outcome) {
	w := c.world()
	am1 := w.build()
	tr := newTracer(am1, c.Gas, stepBudget)
	before := takeSnap(am1)
	res1, pan := safeExec(c, am1, tr)
	if pan != nil {
		o.findings = append(o.findings, finding{class: "panic", sub: pan.site, what: fmt.Sprintf("panic: %s at %s\n%s", pan.msg, pan.site, clipStack(pan.stack))})
		o.key = c.Kind + "/panic"
		return o
	}
	if tr.cut {
		o.cut = true
		return o
	}
	o.stats = tr.stats
	o.maxDepth = tr.maxDepth
	o.findings = append(o.findings, tr.findings...)
	ec := errClass(res1.err)
	top := c.Kind + "+" + ec

	// (2) gas
	if res1.left > c.Gas {
		o.findings = append(o.findings, finding{class: "gas-exceeds-supplied", sub: "", op: top, what: fmt.Sprintf("%d gas left of %d supplied (%s)", res1.left, c.Gas, top)})
	}
	// (6) depth: the transaction-level frame is interpreter depth 1
	if tr.maxDepth > maxFrameDepth {
		o.findings = append(o.findings, finding{class: "depth", sub: fmt.Sprint(tr.maxDepth - 1), what: fmt.Sprintf("%d nested frames below the transaction-level frame", tr.maxDepth-1)})
	}
	// (4) all-or-nothing, (5) read-only
	evAddr := targetAddr(c.To)
	if c.Kind == "create" {
		evAddr = addrCreated
	}
	changed := len(am1.GetChangeLogs()) != len(before.logs)
	switch {
	case c.Kind == "static":
		policy := evAnyFail
		if res1.err != nil {
			policy = evNone
		}
		if names, detail := diffSnap(before, am1, policy, common.Address{}); names != "" {
			o.findings = append(o.findings, finding{class: "static-call-changed-state", sub: names, op: top, what: fmt.Sprintf("EVM.StaticCall (%s) changed state:\n%s", ec, detail)})
		}
	case res1.err != nil:
		if names, detail := diffSnap(before, am1, evOneAt, evAddr); names != "" {
			o.findings = append(o.findings, finding{class: "state-not-restored", sub: names, op: top, what: fmt.Sprintf("the top-level %s ended with %q and left:\n%s", c.Kind, res1.err, detail)})
		}
	}
	// (3) determinism: the same case on an identically rebuilt state, production configuration (no tracer)
	st1, j1 := fullDump(am1)
	if c.To == "P9" {
		// the reward precompile sums its settings in a loop over a map: the result must be the same under
		// every iteration order (source overlay pass maprange; policy 1 = sorted is the order of run 1)
		for pol := 2; pol <= vorder.Policies; pol++ {
			vorder.SetPolicy(pol)
			amp := w.build()
			resp, panp := safeExec(c, amp, nil)
			vorder.SetPolicy(1)
			stp, jp := fullDump(amp)
			if panp != nil || !bytes.Equal(res1.ret, resp.ret) || res1.left != resp.left || errStr(res1.err) != errStr(resp.err) || stp != st1 || jp != j1 {
				o.findings = append(o.findings, finding{class: "nondeterministic", sub: "map-order", what: fmt.Sprintf("map iteration order %d: ret %x gas left %d err %q, sorted order: ret %x gas left %d err %q (state equal: %v)", pol, resp.ret, resp.left, errStr(resp.err), res1.ret, res1.left, errStr(res1.err), stp == st1)})
				break
			}
		}
	}
	am2 := w.build()
	res2, pan2 := safeExec(c, am2, nil)
	if pan2 != nil {
		o.findings = append(o.findings, finding{class: "nondeterministic", sub: "panic", what: "second run panicked: " + pan2.msg + " at " + pan2.site})
	} else {
		st2, j2 := fullDump(am2)
		switch {
		case !bytes.Equal(res1.ret, res2.ret):
			o.findings = append(o.findings, finding{class: "nondeterministic", sub: "ret", what: fmt.Sprintf("return data %x then %x", res1.ret, res2.ret)})
		case res1.left != res2.left:
			o.findings = append(o.findings, finding{class: "nondeterministic", sub: "gas", what: fmt.Sprintf("gas left %d then %d", res1.left, res2.left)})
		case errStr(res1.err) != errStr(res2.err):
			o.findings = append(o.findings, finding{class: "nondeterministic", sub: "err", what: fmt.Sprintf("error %q then %q", errStr(res1.err), errStr(res2.err))})
		case st1 != st2:
			o.findings = append(o.findings, finding{class: "nondeterministic", sub: "state", what: "state dumps differ:\n" + st1 + "---\n" + st2})
		case j1 != j2:
			o.findings = append(o.findings, finding{class: "nondeterministic", sub: "journal", what: "journals differ:\n" + j1 + "\n---\n" + j2})
		}
	}
	// cross-check through the public getters: what the next transaction of the block reads
	if c.Kind == "static" || res1.err != nil {
		want, got := observeBefore(w), observe(am1)
		if want != got {
			names := obsDiff(want, got)
			cl := "state-not-restored"
			if c.Kind == "static" {
				cl = "static-call-changed-state"
			}
			dup := false
			for _, f := range o.findings {
				if f.class == cl {
					dup = true
				}
			}
			if !dup {
				o.findings = append(o.findings, finding{class: cl, sub: names, op: top, what: fmt.Sprintf("getters differ after the %s (%s):\nbefore:\n%safter:\n%s", c.Kind, ec, want, got)})
			}
		}
	}
	ch := "unchanged"
	if changed {
		ch = "changed"
	}
	o.key = top + "/" + ch
	return o
}

// obsDiff names the getter fields that differ.
func obsDiff(want, got string) string {
	set := map[string]bool{}
	wl, gl := strings.Split(want, "\n"), strings.Split(got, "\n")
	for i := range wl {
		if i >= len(gl) || wl[i] == gl[i] {
			continue
		}
		wf, gf := strings.Fields(wl[i]), strings.Fields(gl[i])
		for j := 1; j < len(wf) && j < len(gf); j++ {
			if wf[j] != gf[j] {
				k := wf[j][:strings.IndexByte(wf[j], '=')]
				if strings.HasPrefix(k, "st[") {
					k = "storage"
				}
				set[k] = true
			}
		}
	}
	return joinSorted(set)
}

func joinSorted(set map[string]bool) string {
	l := make([]string, 0, len(set))
	for k := range set {
		l = append(l, k)
	}
	sort.Strings(l)
	return strings.Join(l, "+")
}

func clipStack(st string) string {
	lines := strings.Split(st, "\n")
	if len(lines) > 40 {
		lines = lines[:40]
	}
	return strings.Join(lines, "\n")
}

// ---------------------------------------------------------------------------------------------
// shrinking and fingerprints

func hasClass(o outcome, class string) *finding {
	for i := range o.findings {
		if o.findings[i].class == class {
			return &o.findings[i]
		}
	}
	return nil
}

func cloneCase(c *Case) *Case {
	d := *c
	d.A = append([]string{}, c.A...)
	d.B = append([]string{}, c.B...)
	d.C = append([]string{}, c.C...)
	return &d
}

func drop(l []string, i int) []string {
	return append(append([]string{}, l[:i]...), l[i+1:]...)
}

// shrink drops macros (or raw bytes) and simplifies the parameters while a finding of the same
// class remains.
func shrink(c *Case, class string) *Case {
	fails := func(d *Case) bool {
		o := runCase(d)
		return !o.cut && hasClass(o, class) != nil
	}
	cur := cloneCase(c)
	for changed := true; changed; {
		changed = false
		var cands []*Case
		if cur.Raw {
			raw, _ := hex.DecodeString(cur.ARaw)
			for i := range raw {
				d := cloneCase(cur)
				d.ARaw = hex.EncodeToString(append(append([]byte{}, raw[:i]...), raw[i+1:]...))
				cands = append(cands, d)
			}
		} else {
			for i := range cur.A {
				d := cloneCase(cur)
				d.A = drop(cur.A, i)
				cands = append(cands, d)
			}
		}
		for i := range cur.B {
			d := cloneCase(cur)
			d.B = drop(cur.B, i)
			cands = append(cands, d)
		}
		for i := range cur.C {
			d := cloneCase(cur)
			d.C = drop(cur.C, i)
			cands = append(cands, d)
		}
		if cur.Pre != 0 {
			d := cloneCase(cur)
			d.Pre = 0
			cands = append(cands, d)
		}
		if cur.Value != 0 {
			d := cloneCase(cur)
			d.Value = 0
			cands = append(cands, d)
		}
		if cur.Data != "" {
			d := cloneCase(cur)
			d.Data = ""
			cands = append(cands, d)
		}
		if cur.Gas != 100000 {
			d := cloneCase(cur)
			d.Gas = 100000
			cands = append(cands, d)
		}
		for _, d := range cands {
			if fails(d) {
				cur, changed = d, true
				break
			}
		}
	}
	return cur
}

func selfDestructs(c *Case) bool {
	sd := func(m string) bool { return strings.HasPrefix(m, "SD_") }
	if c.Raw {
		raw, _ := hex.DecodeString(c.ARaw)
		if bytes.IndexByte(raw, opSELFDESTRUCT) >= 0 {
			return true
		}
	} else if hasMacro(c.A, sd) {
		return true
	}
	return hasMacro(c.B, sd) || hasMacro(c.C, sd)
}

// fingerprint names the class of the minimal failing case (cause-based, stable).
func fingerprint(min *Case, f *finding) string {
	switch f.class {
	case "panic":
		return prop + "/panic/" + f.sub
	case "gas-exceeds-supplied":
		if f.sub != "" {
			return prop + "/gas-exceeds-supplied/" + f.sub
		}
		return prop + "/gas-exceeds-supplied"
	case "nondeterministic":
		return prop + "/nondeterministic/" + f.sub
	case "depth":
		return prop + "/depth/" + f.sub
	case "static-call-changed-state":
		return prop + "/static-call-changed-state/" + f.sub
	case "state-not-restored":
		// the open defect recorded for C07 (undo of a SuicideLog does not bring back what SetSuicide
		// dropped from memory): a reverted SELFDESTRUCT loses the contract's uncommitted storage / code
		if selfDestructs(min) {
			switch f.sub {
			case "storage":
				return prop + "/state-not-restored/selfdestruct-revert-loses-dirty-storage"
			case "code":
				return prop + "/state-not-restored/selfdestruct-revert-loses-dirty-code"
			}
		}
		return prop + "/state-not-restored/" + f.sub + "/" + f.op
	}
	return prop + "/" + f.class + "/" + f.sub
}

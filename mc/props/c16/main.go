// C16 — contract execution is sandboxed: bounded by gas, deterministic, all-or-nothing.
//
// Bounded exhaustive program enumeration on the real EVM (chain/vm: EVM.Call / StaticCall / Create
// and, through the opcodes, CallCode / DelegateCall / nested Create; the interpreter, the gas tables
// and the nine precompiles) over the real account.Manager on a real ChainDatabase.
//
// Every case is (world, top-level entry): the world is block 1 (X with balance; contracts A, B, C with
// balance and storage; E empty) plus the codes of A, B, C installed with SetCode on a fresh Manager
// and one of three pre-states (fresh / an earlier transaction of the block has written storage /
// C's code exists only in memory); the entry is EVM.Call, EVM.StaticCall or EVM.Create by X exactly
// as TxProcessor.handleTx issues them, with enumerated gas, value and call data.
//
// Oracles per case (asm.go: programs, world.go: state views, run.go: execution and comparison):
//  1. no panic;
//  2. gas left <= gas supplied; inside the run, a frame's gas never grows from one step to the next
//     and a frame never starts with more than its caller had (+ the 2300 stipend);
//  3. determinism: the case re-run on an identically rebuilt Manager (without tracer, the production
//     configuration) gives the same return data, gas, error, raw state dump (caches and event lists
//     included) and journal;
//  4. all-or-nothing: when the top-level entry returns an error (revert included), and when any
//     nested CALL / CALLCODE / DELEGATECALL / STATICCALL / CREATE at interpreter depth <= 4 pushes 0,
//     every loaded account reads as before the call (raw dump: balance, code, code hash, roots,
//     version counters, suicide flag; effective content of every storage slot the caches or block 1
//     mention) and the journal is the journal before plus at most the one TopicRunFail event the
//     platform records (EVM.Call and EVM.Create; none for the other kinds); cross-checked through
//     the public getters against an un-run world;
//  5. read-only: after EVM.StaticCall and after every nested STATICCALL frame (successful or not)
//     the same comparison holds, where failed inner calls may have left their TopicRunFail events;
//  6. depth: the tracer never sees more than 1024 frames below the transaction-level frame, and
//     the unbounded-recursion programs reach exactly that.
package main

import (
	"encoding/hex"
	"encoding/json"
	"fmt"
	"math/big"
	"os"
	"sort"
	"strings"
	"time"
	"verifmc/vorder"

	"verifmc/core"

	"github.com/LemoFoundationLtd/lemochain-core/chain/params"
)

const prop = "C16"

const gasHuge = uint64(1<<63 - 1)

var (
	data4  = "a9059cbb"
	data36 = data4 + strings.Repeat("00", 31) + "01"
)

type variant struct {
	kind  string
	gas   uint64
	value int
	data  string
	pre   int
}

// config is one world-independent unit of the enumeration: programs plus the list of entries.
type config struct {
	set      string
	to       string
	a, b, c  []string
	raw      bool
	araw     []byte
	variants []variant
	vf       func(*config) []variant // produces variants on demand (only the worker that owns the config pays)
}

func (g *config) vars() []variant {
	if g.variants == nil && g.vf != nil {
		g.variants = g.vf(g)
	}
	return g.variants
}

func (g *config) cases() []*Case {
	l := make([]*Case, 0, len(g.vars()))
	for _, v := range g.vars() {
		c := &Case{Set: g.set, Kind: v.kind, To: g.to, A: g.a, B: g.b, C: g.c, Raw: g.raw, Gas: v.gas, Value: v.value, Data: v.data, Pre: v.pre}
		if g.raw {
			c.ARaw = hex.EncodeToString(g.araw)
		}
		l = append(l, c)
	}
	return l
}

// ---------------------------------------------------------------------------------------------
// variant lists

func readsCallData(g *config) bool {
	if g.raw {
		for _, b := range g.araw {
			if b == opCALLDATALOAD || b == opCALLDATASIZE || b == opCALLDATACOPY {
				return true
			}
		}
		return false
	}
	return hasMacro(g.a, func(m string) bool { return m == "CDL" || m == "CDC" })
}

// withData multiplies call variants by the three call data when the program reads call data.
func withData(g *config, vs []variant) []variant {
	if !readsCallData(g) {
		return vs
	}
	var out []variant
	for _, v := range vs {
		out = append(out, v)
		if v.kind == "call" || v.kind == "static" {
			for _, d := range []string{data4, data36} {
				w := v
				w.data = d
				out = append(out, w)
			}
		}
	}
	return out
}

func cross(kind string, gases []uint64, values []int, pres []int) []variant {
	var out []variant
	for _, p := range pres {
		for _, g := range gases {
			for _, v := range values {
				out = append(out, variant{kind: kind, gas: g, value: v, pre: p})
			}
		}
	}
	return out
}

var allGas = []uint64{0, 2300, 21000, 100000, gasHuge}

func variantsFull(refC bool) []variant {
	vs := cross("call", allGas, []int{0, 1}, []int{preFresh, preDirty})
	vs = append(vs, variant{kind: "call", gas: 100000, value: -1})
	if refC {
		vs = append(vs, variant{kind: "call", gas: 100000, pre: preDirtyCode}, variant{kind: "call", gas: gasHuge, pre: preDirtyCode})
	}
	vs = append(vs, cross("static", []uint64{2300, 100000, gasHuge}, []int{0}, []int{preFresh, preDirty})...)
	vs = append(vs, cross("create", []uint64{2300, 100000, gasHuge}, []int{0, 1}, []int{preFresh})...)
	return vs
}

func variantsMid(refC bool) []variant {
	vs := cross("call", []uint64{2300, 100000, gasHuge}, []int{0, 1}, []int{preFresh})
	vs = append(vs, variant{kind: "call", gas: 100000, pre: preDirty})
	if refC {
		vs = append(vs, variant{kind: "call", gas: 100000, pre: preDirtyCode})
	}
	vs = append(vs, variant{kind: "static", gas: 100000}, variant{kind: "create", gas: 100000})
	return vs
}

func variantsLong() []variant {
	return []variant{{kind: "call", gas: 100000}, {kind: "call", gas: 100000, value: 1}, {kind: "call", gas: 100000, pre: preDirty}}
}

func variantsLongest() []variant {
	return []variant{{kind: "call", gas: 100000}, {kind: "call", gas: 100000, value: 1}}
}

// ---------------------------------------------------------------------------------------------
// enumeration

// withBehaviours expands one program for A into configs: B and C run through their behaviour lists
// only when the call graph from A reaches them (otherwise their code cannot matter and they stay
// "stop").
func withBehaviours(set string, a []string, bList, cList []string, mk func(refC bool) []variant, emit func(*config)) {
	_, refB, refC := callTargets(a)
	bs := []string{"stop"}
	if refB {
		bs = bList
	}
	for _, bn := range bs {
		b := behaviours[bn]
		rc := refC
		if refB {
			_, _, bc := callTargets(b)
			rc = rc || bc
		}
		cs := []string{"stop"}
		if rc {
			cs = cList
		}
		for _, cn := range cs {
			rc := rc
			emit(&config{set: set, to: "A", a: a, b: b, c: behaviours[cn], vf: func(g *config) []variant { return withData(g, mk(rc)) }})
		}
	}
}

// words enumerates programs of exactly n macros over the alphabet, in lexicographic order.
func words(alpha []string, n int, f func([]string)) {
	idx := make([]int, n)
	for {
		w := make([]string, n)
		for i, k := range idx {
			w[i] = alpha[k]
		}
		f(w)
		i := n - 1
		for i >= 0 {
			idx[i]++
			if idx[i] < len(alpha) {
				break
			}
			idx[i] = 0
			i--
		}
		if i < 0 {
			return
		}
	}
}

var basicB = behB[:8]

// regressionPrograms are shapes that must stay in the enumeration whatever the bounds: the nested
// revert shapes that crashed the node before commits 6e73be6 / 905bb1d (write; nested frame writes
// the same (account, log type) and reverts; write again; outer failure), the unbounded recursions
// that reach the depth limit, and the single-transaction shape of the open self-destruct defect.
func regressionPrograms() []*config {
	mk := func(a []string, b, c string) *config {
		return &config{set: "regress", to: "A", a: a, b: behaviours[b], c: behaviours[c]}
	}
	l := []*config{
		mk([]string{"SS0", "CALL:B:0:all", "SS0", "INV"}, "ssrev", "stop"),
		mk([]string{"SS0", "DELEGATECALL:B:all", "SS0", "INV"}, "ssrev", "stop"),
		mk([]string{"SS0", "CALLCODE:B:0:all", "SS0", "INV"}, "ssrev", "stop"),
		mk([]string{"SS0", "DELEGATECALL:B:all", "SS0", "REV"}, "ssinv", "stop"),
		mk([]string{"SS0", "CALL:self:0:2300", "SS0", "INV"}, "stop", "stop"),
		mk([]string{"CALL:C:1:all", "CALL:B:1:all", "CALL:C:1:all", "INV"}, "ssrev", "stop"),
		mk([]string{"CALL:B:1:all", "CALL:C:1:all", "INV"}, "ssrev", "stop"),
		mk([]string{"LOG1", "CALL:B:0:all", "LOG1", "INV"}, "ssinv", "stop"),
		mk([]string{"CR_OK", "CR_OK", "CALLNEW", "INV"}, "stop", "stop"),
		mk([]string{"CALL:self:0:all"}, "stop", "stop"),
		mk([]string{"CALLCODE:self:0:all"}, "stop", "stop"),
		mk([]string{"DELEGATECALL:self:all"}, "stop", "stop"),
		mk([]string{"STATICCALL:self:all"}, "stop", "stop"),
		mk([]string{"CALL:B:0:all"}, "callA", "stop"),
		mk([]string{"SS0", "DELEGATECALL:B:all"}, "dcallC_inv", "sd"),
		mk([]string{"SS0", "CALL:B:0:all", "SL0"}, "callC_rev", "sd"),
	}
	for _, g := range l {
		g.variants = cross("call", []uint64{100000, gasHuge}, []int{0, 1}, []int{preFresh, preDirty, preDirtyCode})
		g.variants = append(g.variants, variant{kind: "static", gas: gasHuge})
	}
	return l
}

func precompileInputs() [][]byte {
	wordsOf := [][]byte{make([]byte, 32), []byte(strings.Repeat("\xff", 32)), append(make([]byte, 31), 1)}
	var out [][]byte
	for L := 0; L <= 200; L += 8 {
		w := (L + 31) / 32
		free := w
		if free > 4 {
			free = 4
		}
		n := 1
		for i := 0; i < free; i++ {
			n *= 3
		}
		for k := 0; k < n; k++ {
			var in []byte
			for i := 0; i < w; i++ {
				d := k
				for j := 0; j < i%4; j++ {
					d /= 3
				}
				in = append(in, wordsOf[d%3]...)
			}
			out = append(out, in[:L])
		}
	}
	return out
}

func rewardInputs() [][]byte {
	j := func(term uint32, v *big.Int) []byte {
		b, err := json.Marshal(params.RewardJson{Term: term, Value: v})
		must(err)
		return b
	}
	return [][]byte{
		j(0, big.NewInt(1000)),
		j(3, new(big.Int).Sub(params.TermRewardPoolTotal, big.NewInt(1))),
		j(0, params.TermRewardPoolTotal),
		j(0, big.NewInt(-5)),
		j(4294967295, big.NewInt(1)),
		j(3, big.NewInt(1)), j(3, big.NewInt(6)), j(3, big.NewInt(7)), j(1, big.NewInt(4)), j(2, big.NewInt(-11)),
		[]byte("null"), []byte("{}"), []byte(`{"term":"0x0"}`), []byte(`{"term":0,"value":null}`), []byte(`{"term":0,"value":"1"`), []byte(`[1]`),
	}
}

// enumerate produces every config of the tier in a fixed order.
func enumerate(emit func(*config)) {
	for _, g := range regressionPrograms() {
		emit(g)
	}
	full, red := fullAlphabet(), reducedAlphabet()
	// macro1: every program of <= 1 macro over the full alphabet, all entries
	withBehaviours("macro1", nil, behB, behC, variantsFull, emit)
	words(full, 1, func(w []string) { withBehaviours("macro1", w, behB, behC, variantsFull, emit) })
	if !core.Thorough() {
		// quick: every program of 2 macros over the reduced alphabet
		words(red, 2, func(w []string) { withBehaviours("macro2r", w, behB, behC, variantsMid, emit) })
	}
	if core.Thorough() {
		// macro2: every program of 2 macros over the full alphabet
		words(full, 2, func(w []string) { withBehaviours("macro2", w, behB, behC, variantsMid, emit) })
		// macro3: every program of 3 macros over the reduced alphabet
		words(red, 3, func(w []string) {
			withBehaviours("macro3", w, basicB, behC, func(bool) []variant { return variantsLong() }, emit)
		})
		// macro4: every program of 4 macros over the mini alphabet
		words(miniAlphabet(), 4, func(w []string) {
			withBehaviours("macro4", w, basicB, behC, func(bool) []variant { return variantsLongest() }, emit)
		})
		// ab: A of <= 2 macros that reaches B x every B of <= 2 macros (both over the reduced alphabet)
		var bProgs [][]string
		words(red, 1, func(w []string) { bProgs = append(bProgs, w) })
		words(red, 2, func(w []string) { bProgs = append(bProgs, w) })
		forA := func(a []string) {
			_, refB, refCa := callTargets(a)
			if !refB {
				return
			}
			for _, b := range bProgs {
				_, _, refCb := callTargets(b)
				cs := []string{"stop"}
				if refCa || refCb {
					cs = behC
				}
				for _, cn := range cs {
					emit(&config{set: "ab", to: "A", a: a, b: b, c: behaviours[cn], vf: func(*config) []variant { return variantsLongest() }})
				}
			}
		}
		words(red, 1, forA)
		words(red, 2, forA)
	}
	// raw byte programs
	rawCfg := func(set string, code []byte, vs []variant) {
		emit(&config{set: set, to: "A", raw: true, araw: append([]byte{}, code...), b: behaviours["stop"], c: behaviours["stop"],
			vf: func(g *config) []variant { return withData(g, vs) }})
	}
	raw2 := []variant{{kind: "call", gas: 100000}, {kind: "static", gas: 100000}}
	if core.Thorough() {
		raw2 = cross("call", []uint64{2300, 100000, gasHuge}, []int{0, 1}, []int{preFresh})
		raw2 = append(raw2, variant{kind: "call", gas: 100000, pre: preDirty}, variant{kind: "static", gas: 100000}, variant{kind: "create", gas: 100000})
	}
	rawCfg("raw2", nil, raw2)
	for a := 0; a < 256; a++ {
		rawCfg("raw2", []byte{byte(a)}, raw2)
	}
	for a := 0; a < 256; a++ {
		for b := 0; b < 256; b++ {
			rawCfg("raw2", []byte{byte(a), byte(b)}, raw2)
		}
	}
	raw3 := cross("call", []uint64{100000, gasHuge}, []int{0, 1}, []int{preFresh})
	raw3 = append(raw3, variant{kind: "static", gas: 100000})
	if core.Thorough() {
		for _, a := range rawOps3 {
			for _, b := range rawOps3 {
				for _, c := range rawOps3 {
					rawCfg("raw3", []byte{a, b, c}, raw3)
				}
			}
		}
	}
	if core.Thorough() {
		raw4 := []variant{{kind: "call", gas: 100000}, {kind: "call", gas: gasHuge}, {kind: "call", gas: 100000, value: 1, pre: preDirty}}
		for _, a := range rawOps4 {
			for _, b := range rawOps4 {
				for _, c := range rawOps4 {
					for _, d := range rawOps4 {
						rawCfg("raw4", []byte{a, b, c, d}, raw4)
					}
				}
			}
		}
	}
	// boundary-operand programs (gas bounded so that no accepted memory expansion is large)
	bound := []variant{{kind: "call", gas: 100000}, {kind: "call", gas: 10000000}, {kind: "static", gas: 100000}}
	for _, code := range boundaryPrograms() {
		rawCfg("bound", code, bound)
	}
	// precompiles called directly. X is the configured reward manager, so precompile 9 runs for it.
	// EVM.StaticCall is not issued to precompile 9: no top-level read-only entry exists in the node and
	// the reward manager (the genesis founder) is not a contract, so a read-only frame never runs it.
	ins := precompileInputs()
	for p := 1; p <= 9; p++ {
		list := ins
		if p == 9 {
			list = append(append([][]byte{}, rewardInputs()...), ins...)
		}
		for _, in := range list {
			g := &config{set: "precompile", to: fmt.Sprintf("P%d", p), b: behaviours["stop"], c: behaviours["stop"], a: []string{"STOP"}}
			gases, values := []uint64{0, 100000}, []int{0}
			if core.Thorough() {
				gases, values = []uint64{0, 2300, 100000, gasHuge}, []int{0, 1}
			}
			for _, gas := range gases {
				for _, v := range values {
					g.variants = append(g.variants, variant{kind: "call", gas: gas, value: v, data: hex.EncodeToString(in)})
				}
				if p != 9 {
					g.variants = append(g.variants, variant{kind: "static", gas: gas, data: hex.EncodeToString(in)})
				} else {
					// on top of earlier settings: the sum over the settings is a loop over a map
					g.variants = append(g.variants, variant{kind: "call", gas: gas, data: hex.EncodeToString(in), pre: preRewards})
				}
			}
			emit(g)
		}
	}
}

// ---------------------------------------------------------------------------------------------

type replayFile struct {
	Case    *Case `json:"case"`
	FoundAs *Case `json:"found_as,omitempty"`
}

func report(r *core.Result, c *Case, f finding, seen map[string]int) {
	sig := f.class + "/" + f.sub + "/" + f.op
	seen[sig]++
	if seen[sig] > 6 {
		r.Add("violations_not_shrunk", 1)
		return
	}
	min := shrink(c, f.class)
	// the minimal case is evaluated twice more; the verdict must repeat
	o1, o2 := runCase(min), runCase(min)
	f1, f2 := hasClass(o1, f.class), hasClass(o2, f.class)
	if f1 == nil || f2 == nil || f1.sub != f2.sub {
		r.Violate(prop+"/unstable-verdict/"+f.class, fmt.Sprintf("case %s gave %q once and not again", min, f.class), replayFile{Case: min, FoundAs: c})
		return
	}
	fp := fingerprint(min, f1)
	r.Violate(fp, fmt.Sprintf("minimal case: %s\n%s", min, f1.what), replayFile{Case: min, FoundAs: c})
}

// onlySets (VERIF_C16_SETS, development aid) restricts the run to some enumeration sets; the result is
// then marked not exhaustive.
var onlySets = os.Getenv("VERIF_C16_SETS")

func worker(i, n int) {
	setup()
	defer os.RemoveAll(dbDir)
	r := core.NewResult(prop, "exploration")
	seen := map[string]int{}
	idx := -1
	stop := false
	perSet := map[string]int64{}
	enumerate(func(g *config) {
		idx++
		if stop || idx%n != i || (onlySets != "" && !strings.Contains(","+onlySets+",", ","+g.set+",")) {
			return
		}
		if idx%(n*64) == i {
			core.Journal(fmt.Sprintf("config %d set %s A=%v raw=%x B=%v C=%v", idx, g.set, g.a, g.araw, g.b, g.c))
			if core.OutOfTime() {
				stop = true
				r.NotExhaustive(fmt.Sprintf("internal deadline at config %d (set %s)", idx, g.set))
				return
			}
		}
		perSet[g.set]++
		for _, c := range g.cases() {
			o := runCase(c)
			r.Add("evaluations", 1)
			r.Add("cases_"+g.set, 1)
			if o.cut {
				r.Add("cut_by_step_budget", 1)
				continue
			}
			r.Add("evm_runs", 2)
			r.Outcome(o.key)
			for k, v := range o.stats {
				r.Add("hit_"+k, int64(v))
			}
			if o.maxDepth == maxFrameDepth {
				r.Add("hit_depth_limit_reached", 1)
			}
			if o.maxDepth > 1 {
				r.Add("hit_nested_execution", 1)
			}
			if idx%7919 == i%7919 && c.Kind == "call" {
				r.Sample(c.String() + " => " + o.key)
			}
			for _, f := range o.findings {
				report(r, c, f, seen)
			}
		}
	})
	for k, v := range perSet {
		r.Add("configs_"+k, v)
	}
	core.WorkerDone(r)
}

func main() {
	core.ParseFlags()
	vorder.SetPolicy(1) // instrumented map loops (chain/vm/contracts.go) run in sorted order unless a case says otherwise
	if core.Thorough() {
		stepBudget = 200000
	}
	if core.Opt.Replay != "" {
		setup()
		var rp replayFile
		must(core.LoadReplay(core.Opt.Replay, &rp))
		fmt.Println("replay", rp.Case.String())
		o := runCase(rp.Case)
		fmt.Printf("outcome %s cut=%v max depth %d\n", o.key, o.cut, o.maxDepth)
		for _, f := range o.findings {
			f := f
			fmt.Printf("VIOLATION-REPLAYED %s\n%s\n", fingerprint(rp.Case, &f), f.what)
		}
		os.RemoveAll(dbDir)
		if len(o.findings) > 0 {
			os.Exit(1)
		}
		return
	}
	if os.Getenv("VERIF_C16_COUNT") != "" { // development aid: size of the enumeration, nothing is run
		cfgs, cases := map[string]int{}, map[string]int{}
		enumerate(func(g *config) { cfgs[g.set]++; cases[g.set] += len(g.vars()) })
		tot := 0
		for k := range cfgs {
			fmt.Printf("%-12s configs %9d cases %10d\n", k, cfgs[k], cases[k])
			tot += cases[k]
		}
		fmt.Println("total cases", tot)
		return
	}
	if i, n, ok := core.IsWorker(); ok {
		worker(i, n)
		return
	}
	r := core.NewResult(prop, "exploration")
	r.Rule = "(quick tier: programs of 2 macros over the reduced alphabet only, raw programs of length <= 2 with two entries, precompiles with gas {0,100000} and value 0; thorough: 4-macro programs over a " + fmt.Sprint(len(miniAlphabet())) + "-macro mini alphabet) bounded exhaustive program enumeration on the real EVM over the real account.Manager: every program for A of <= 2 macros over the full macro alphabet (" +
		fmt.Sprint(len(fullAlphabet())) + " macros: pushes, DUP1, POP, MSTORE, SSTORE, SLOAD, LOG0/1, JUMP/JUMPI/JUMPDEST to valid and invalid destinations, RETURN, REVERT, INVALID, STOP, GAS, SELFDESTRUCT, " +
		"CALL/CALLCODE/DELEGATECALL/STATICCALL to {self,B,C,empty account,precompiles 1-9} x value {0,1} x gas {all,2300,0}, CREATE with ok/reverting/oversize init code) and of 3 (thorough: 4) macros over a " +
		fmt.Sprint(len(reducedAlphabet())) + "-macro sub-alphabet, each x the fixed behaviours of B and C that its call graph reaches (thorough adds A<=2 x every B<=2); all raw byte programs of length <= 2 and of length 3 (thorough: 4) over " +
		fmt.Sprint(len(rawOps3)) + " (16) opcode bytes; the nine precompiles called directly on inputs of length 0..200 step 8 of boundary words; entries EVM.Call / StaticCall / Create with gas {0,2300,21000,100000,2^63-1}, value {0,1,more than owned}, call data {0,4,36 bytes}, three pre-states. " +
		"A distinct outcome is (entry kind, error class, journal changed or not)"
	r.Assume = []string{
		"a run with 2^63-1 gas that exceeds the interpreter step budget is cancelled and not evaluated (counted in cut_by_step_budget); every bounded-gas run completes",
		"nested call frames are snapshot-checked when issued at interpreter depth <= 4",
		"the reward manager (genesis founder) is an externally owned account: no read-only frame runs precompile 9 on its behalf",
		"an absent code hash may read 0 or keccak(\"\"); the in-memory event list of an account is not state (undoAddEvent is a no-op and nothing consumes it), the AddEvent change logs are",
		"depth convention: the transaction-level frame is interpreter depth 1; the bound asserted is 1024 frames below it (evm.depth > 1024 refuses the 1025th nested call)",
	}
	r.Extra["full_alphabet"] = len(fullAlphabet())
	r.Extra["reduced_alphabet"] = len(reducedAlphabet())
	r.Extra["step_budget"] = stepBudget
	r.Extra["inner_check_depth"] = innerCheckDepth
	core.RunShards(r, core.Opt.Workers, nil, core.Opt.Budget+3*time.Minute, func(i int, tail, journal string) {
		line := "worker died"
		for _, l := range strings.Split(tail, "\n") {
			if strings.HasPrefix(l, "panic:") || strings.HasPrefix(l, "fatal error:") || strings.Contains(l, "harness:") {
				line = l
				break
			}
		}
		if len(tail) > 3000 {
			tail = tail[:3000]
		}
		r.Violate(prop+"/worker-died/"+firstLine(line), fmt.Sprintf("worker %d died near {%s}:\n%s", i, journal, tail), map[string]string{"near": journal})
	})
	if onlySets != "" {
		r.NotExhaustive("restricted to sets " + onlySets)
	}
	if r.Counters["hit_depth_limit_reached"] == 0 {
		r.Note("the depth limit was never reached: the depth oracle is vacuous")
		r.Exhaustive = false
	}
	keys := make([]string, 0)
	for k := range r.Distinct {
		keys = append(keys, k)
	}
	sort.Strings(keys)
	r.Extra["outcomes"] = keys
	core.Finish(r)
}

func thoroughTier() bool { return core.Thorough() }

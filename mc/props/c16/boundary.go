package main

import "math/big"

// Boundary-operand programs: every memory / copy / size-taking instruction with its offset and size
// operands drawn from a set of boundary words (0, 1, 32, around 2^32, 2^63, 2^64 and 2^256-1), alone and
// behind a call that leaves 32 bytes of return data. These are the operands on which 64-bit
// arithmetic inside an instruction wraps (offset + length), which no macro of the main alphabet and
// no raw program of <= 4 bytes can push.

func boundaryWords() []*big.Int {
	two := func(n uint) *big.Int { return new(big.Int).Lsh(big.NewInt(1), n) }
	sub := func(a *big.Int, b int64) *big.Int { return new(big.Int).Sub(a, big.NewInt(b)) }
	l := []*big.Int{big.NewInt(0), big.NewInt(1), big.NewInt(32), sub(two(64), 32), sub(two(64), 1), sub(two(256), 1)}
	if thoroughTier() {
		l = append(l, sub(two(32), 1), two(32), two(63), two(64))
	}
	return l
}

func pushWord(v *big.Int) []byte {
	b := v.Bytes()
	if len(b) == 0 {
		b = []byte{0}
	}
	return append([]byte{byte(opPUSH1 + len(b) - 1)}, b...)
}

// returnDataPrefix calls the identity precompile with 32 bytes: afterwards the return data buffer holds 32 bytes.
var returnDataPrefix = cat(push1(32), push1(0), push1(32), push1(0), push1(0), push1(4), []byte{opGAS, opCALL, opPOP})

func boundaryPrograms() [][]byte {
	ws := boundaryWords()
	var progs [][]byte
	emit := func(body []byte) {
		progs = append(progs, body, cat(returnDataPrefix, body))
	}
	// operands are listed in stack order top first; they are pushed in reverse
	build := func(op byte, operands ...[]byte) []byte {
		var c []byte
		for i := len(operands) - 1; i >= 0; i-- {
			c = append(c, operands[i]...)
		}
		return append(c, op)
	}
	one := []byte{0x51, 0x35}                         // MLOAD, CALLDATALOAD
	two := []byte{0x52, 0x53, 0x20, 0xa0, 0xf3, 0xfd} // MSTORE, MSTORE8 (offset, value), SHA3, LOG0, RETURN, REVERT (offset, size)
	three := []byte{0x37, 0x39, 0x3e}                 // CALLDATACOPY, CODECOPY, RETURNDATACOPY (dest, offset, size)
	for _, op := range one {
		for _, a := range ws {
			emit(build(op, pushWord(a)))
		}
	}
	for _, op := range two {
		for _, a := range ws {
			for _, b := range ws {
				emit(build(op, pushWord(a), pushWord(b)))
			}
		}
	}
	for _, a := range ws {
		for _, b := range ws {
			for _, c := range ws {
				for _, op := range three {
					emit(build(op, pushWord(a), pushWord(b), pushWord(c)))
				}
				// EXTCODECOPY (address, dest, offset, size) on the running contract
				emit(build(0x3c, []byte{opADDRESS}, pushWord(a), pushWord(b), pushWord(c)))
			}
			// CREATE (value 0, offset, size)
			emit(build(opCREATE, push1(0), pushWord(a), pushWord(b)))
		}
	}
	// CALL / STATICCALL to the identity precompile: (gas, to, [value,] inOffset, inSize, outOffset, outSize)
	small := []*big.Int{ws[0], ws[2], ws[4]}
	if thoroughTier() {
		small = []*big.Int{ws[0], ws[2], ws[3], ws[4], ws[5]}
	}
	for _, io := range small {
		for _, is := range small {
			for _, oo := range small {
				for _, os := range small {
					emit(build(opCALL, []byte{opGAS}, push1(4), push1(0), pushWord(io), pushWord(is), pushWord(oo), pushWord(os)))
					emit(build(opSTATICCALL, []byte{opGAS}, push1(4), pushWord(io), pushWord(is), pushWord(oo), pushWord(os)))
				}
			}
		}
	}
	return progs
}

package main

import (
	"encoding/json"
	"fmt"
	"math/big"
	"sort"
	"strconv"
	"strings"

	"verifmc/core"
	"verifmc/node"

	"github.com/LemoFoundationLtd/lemochain-core/chain/account"
	"github.com/LemoFoundationLtd/lemochain-core/chain/params"
	"github.com/LemoFoundationLtd/lemochain-core/chain/types"
	"github.com/LemoFoundationLtd/lemochain-core/common"
	"github.com/LemoFoundationLtd/lemochain-core/common/crypto"
	"github.com/LemoFoundationLtd/lemochain-core/store"
)

var (
	addrX = node.K("c16-X").Addr // the calling externally owned account (also the reward manager)
	addrA = node.K("c16-A").Addr
	addrB = node.K("c16-B").Addr
	addrC = node.K("c16-C").Addr
	addrE = node.K("c16-E").Addr // never written: an empty account

	key0 = common.Hash{}
	key1 = common.BigToHash(big.NewInt(1))

	txHash      = crypto.Keccak256Hash([]byte("c16-tx"))
	addrCreated common.Address // address of a contract created by X at top level
	rewardKey   = params.TermRewardContract.Hash()

	db       *store.ChainDatabase
	cdb      *codeDB
	dbDir    string
	baseHash common.Hash
	baseTime uint32

	// what block 1 holds: storage content and storage root per account (the harness wrote it)
	baseStorage = map[common.Address]map[common.Hash][]byte{}
	baseRoot    = map[common.Address]common.Hash{}

	xBalance = int64(1000)
)

// codeDB is the chain database plus a set of contract codes readable by hash: the codes of
// contracts that count as deployed before the block under execution.
type codeDB struct {
	*store.ChainDatabase
	codes map[common.Hash]types.Code
}

func (d *codeDB) GetContractCode(hash common.Hash) (types.Code, error) {
	if c, ok := d.codes[hash]; ok {
		return append(types.Code{}, c...), nil
	}
	return d.ChainDatabase.GetContractCode(hash)
}

func must(err error) {
	if err != nil {
		panic(err)
	}
}

// setup creates the per-process database: genesis and block 1 in which X, A, B, C hold balance and
// (the contracts) storage, so that old values are real and storage reads reach the tries. The
// database is not written after setup; every case works on Managers of its own over block 1.
func setup() {
	node.Quiet()
	dbDir = core.ScratchDir("c16")
	db = node.OpenDB(dbDir)
	cdb = &codeDB{ChainDatabase: db, codes: map[common.Hash]types.Code{}}
	g := node.SetupGenesis(db, 1)
	am := account.NewManager(g.Hash(), db)
	am.GetAccount(addrX).SetBalance(big.NewInt(xBalance))
	put := func(a common.Address, bal int64, st map[common.Hash][]byte) {
		acc := am.GetAccount(a)
		acc.SetBalance(big.NewInt(bal))
		baseStorage[a] = st
		for k, v := range st {
			must(acc.SetStorageState(k, v))
		}
	}
	put(addrA, 10, map[common.Hash][]byte{key0: {0xaa}})
	put(addrB, 5, map[common.Hash][]byte{key0: {0xbb}, key1: {0xb1}})
	put(addrC, 4, map[common.Hash][]byte{key0: {0xcc}})
	am.MergeChangeLogs()
	must(am.Finalise())
	baseTime = g.Header.Time + 1
	header := &types.Header{ParentHash: g.Hash(), MinerAddress: node.Deputy(0).Addr, Height: 1, GasLimit: g.Header.GasLimit,
		Time: baseTime, VersionRoot: am.GetVersionRoot(), LogRoot: am.GetChangeLogs().MerkleRootSha(),
		TxRoot: (types.Transactions{}).MerkleRootSha()}
	blk := types.NewBlock(header, nil, am.GetChangeLogs())
	baseHash = blk.Hash()
	must(db.SetBlock(baseHash, blk))
	must(am.Save(baseHash))

	chk := account.NewManager(baseHash, cdb)
	for _, a := range []common.Address{addrA, addrB, addrC} {
		acc := chk.GetAccount(a)
		baseRoot[a] = acc.GetStorageRoot()
		for k, v := range baseStorage[a] {
			got, err := acc.GetStorageState(k)
			if err != nil || string(got) != string(v) {
				panic(fmt.Sprintf("harness: base block storage not readable: %x %v", got, err))
			}
		}
	}
	if chk.GetAccount(addrX).GetBalance().Int64() != xBalance || !chk.GetAccount(addrE).IsEmpty() {
		panic("harness: base block accounts wrong")
	}
	addrCreated = crypto.CreateContractAddress(addrX, txHash)
}

// pre-states
const (
	preFresh     = 0 // block 1 + the installed codes
	preDirty     = 1 // a previous transaction of the same block has written storage and moved balance
	preDirtyCode = 2 // C's code exists only in memory (C was created earlier in the same block)
	preRewards   = 3 // the term-reward contract already holds three settings (one of them negative, as the precompile accepts)
)

// world is the (codes, pre-state) part of a case: what the Manager holds before the call.
type world struct {
	codeA, codeB, codeC []byte
	pre                 int
}

// build returns a fresh Manager over block 1 with the codes installed (SetCode, as EVM.Create
// does) and the pre-state applied. Nothing is saved.
func (w *world) build() *account.Manager {
	cdb.codes = map[common.Hash]types.Code{}
	reg := func(code []byte) {
		if len(code) > 0 {
			cdb.codes[crypto.Keccak256Hash(code)] = types.Code(code)
		}
	}
	reg(w.codeA)
	reg(w.codeB)
	if w.pre != preDirtyCode {
		reg(w.codeC)
	}
	am := account.NewManager(baseHash, cdb)
	am.GetAccount(addrX)
	for _, p := range []struct {
		a    common.Address
		code []byte
	}{{addrA, w.codeA}, {addrB, w.codeB}, {addrC, w.codeC}} {
		acc := am.GetAccount(p.a)
		if len(p.code) > 0 {
			acc.SetCode(append(types.Code{}, p.code...))
		}
	}
	if w.pre == preDirty {
		// effects of an earlier, successful transaction of the same block (through the same setters
		// the EVM uses): storage writes on all three contracts and a transfer X -> A
		must(am.GetAccount(addrA).SetStorageState(key0, []byte{0x77}))
		must(am.GetAccount(addrA).SetStorageState(key1, []byte{0x78}))
		must(am.GetAccount(addrB).SetStorageState(key0, []byte{0x79}))
		must(am.GetAccount(addrC).SetStorageState(key1, []byte{0x7a}))
		x, a := am.GetAccount(addrX), am.GetAccount(addrA)
		x.SetBalance(new(big.Int).Sub(x.GetBalance(), big.NewInt(3)))
		a.SetBalance(new(big.Int).Add(a.GetBalance(), big.NewInt(3)))
	}
	if w.pre == preRewards {
		// what three accepted calls of precompile 9 leave: term 0 = pool-1, term 2 = -10, term 1 = 5
		m := params.RewardsMap{
			0: {Term: 0, Value: new(big.Int).Sub(params.TermRewardPoolTotal, big.NewInt(1)), Times: 1},
			2: {Term: 2, Value: big.NewInt(-10), Times: 1},
			1: {Term: 1, Value: big.NewInt(5), Times: 1},
		}
		b, err := json.Marshal(m)
		must(err)
		must(am.GetAccount(params.TermRewardContract).SetStorageState(params.TermRewardContract.Hash(), b))
	}
	return am
}

// ---------------------------------------------------------------------------------------------
// views: what an account is, read from the raw dump without calling any getter (getters fill the
// storage caches, an observer effect the check avoids while the EVM is running)

var (
	sha3NilHex   = fmt.Sprintf("%x", common.Sha3Nil[:])
	zeroHashHex  = strings.Repeat("0", 64)
	eventTypeTag = fmt.Sprintf("%02d", int(account.AddEventLog))
)

type acctView struct {
	fields map[string]string // attribute -> value ("st[<key>]" for storage slots; empty slots are absent)
	evVer  uint32            // version counter of AddEventLog (the platform's failure events move it)
}

func between(s, open, close string) (string, bool) {
	i := strings.Index(s, open)
	if i < 0 {
		return "", false
	}
	j := strings.Index(s[i+len(open):], close)
	if j < 0 {
		return "", false
	}
	return s[i+len(open) : i+len(open)+j], true
}

func parseKV(s string) map[string]string {
	m := map[string]string{}
	if s == "" {
		return m
	}
	for _, e := range strings.Split(s, ",") {
		p := strings.IndexByte(e, '=')
		if p < 0 {
			panic("harness: bad storage dump entry " + e)
		}
		m[e[:p]] = e[p+1:]
	}
	return m
}

// viewOf parses account.VerifDumpRaw. Normalisations (none hides an attribute of the account):
// an absent code hash is 0 or keccak(""); a version counter absent from the in-memory map equals 0;
// codeDirty and the storage caches are implementation state, replaced by the effective value of
// every slot that the caches or block 1 mention (cache entry if present, else the trie content the
// harness wrote under that root).
func viewOf(am *account.Manager, addr common.Address) acctView {
	raw := account.VerifDumpRaw(am, addr, true)
	if raw == "(not loaded)" {
		return pristineView(addr)
	}
	v := acctView{fields: map[string]string{}}
	head := raw[:strings.Index(raw, " profile{")]
	for _, tok := range strings.Fields(head) {
		p := strings.IndexByte(tok, '=')
		k, val := tok[:p], tok[p+1:]
		if k == "addr" {
			continue
		}
		if k == "codeHash" && val == sha3NilHex {
			val = zeroHashHex
		}
		v.fields[k] = val
	}
	other, _ := between(raw, " profile{", " records{")
	v.fields["profile+signers"] = other
	rec, _ := between(raw, " records{", "}")
	v.fields["records"] = rec
	newest, ok := between(raw, " newest{", "}")
	if !ok {
		panic("harness: dump format changed: " + raw)
	}
	var nk []string
	if newest != "" {
		for _, e := range strings.Split(newest, ",") {
			p := strings.IndexByte(e, ':')
			n, _ := strconv.ParseUint(e[p+1:], 10, 32)
			if e[:p] == eventTypeTag {
				v.evVer = uint32(n)
				continue
			}
			if n != 0 {
				nk = append(nk, e)
			}
		}
	}
	v.fields["versions"] = strings.Join(nk, ",")
	sui, _ := between(raw, " suicided=", " ")
	v.fields["suicided"] = sui
	// the code the account runs: the in-memory copy, else what its code hash loads from the database
	code, _ := between(raw, " code=", " codeDirty=")
	if ch := v.fields["codeHash"]; code == "" && ch != zeroHashHex {
		if c, err := cdb.GetContractCode(common.HexToHash(ch)); err == nil {
			code = fmt.Sprintf("%x", []byte(c))
		} else {
			code = "unloadable(" + err.Error() + ")"
		}
	}
	v.fields["code"] = code
	cachedS, ok := between(raw, " storage.cached{", "}")
	if !ok {
		panic("harness: dump format changed: " + raw)
	}
	cached := parseKV(cachedS)
	sroot := v.fields["sroot"]
	var trie map[common.Hash][]byte
	switch {
	case sroot == zeroHashHex:
		trie = nil
	case sroot == baseRoot[addr].Hex()[2:] && baseRoot[addr] != (common.Hash{}):
		trie = baseStorage[addr]
	default:
		v.fields["st[?]"] = "unknown storage root " + sroot
	}
	for k, val := range cached {
		if val != "" {
			v.fields["st["+strings.TrimLeft(k, "0")+"]"] = val
		}
	}
	for k, val := range trie {
		ks := fmt.Sprintf("%x", k[:])
		if _, inCache := cached[ks]; !inCache && len(val) > 0 {
			v.fields["st["+strings.TrimLeft(ks, "0")+"]"] = fmt.Sprintf("%x", val)
		}
	}
	// the other three caches are never touched by the EVM; any entry is a difference
	for _, c := range []string{"assetCode", "assetId", "equity"} {
		if s, _ := between(raw, " "+c+".dirty{", "}"); s != "" {
			v.fields[c+".dirty"] = s
		}
	}
	return v
}

var pristineAM *account.Manager
var pristineCache = map[common.Address]acctView{}

// pristineView is the view of an account nobody has touched since block 1.
func pristineView(addr common.Address) acctView {
	if v, ok := pristineCache[addr]; ok {
		return v
	}
	if pristineAM == nil {
		pristineAM = account.NewManager(baseHash, cdb)
	}
	pristineAM.GetAccount(addr)
	v := viewOf(pristineAM, addr)
	pristineCache[addr] = v
	return v
}

// snap is the state of a Manager at one instant: journal (the log pointers) and all loaded accounts.
type snap struct {
	logs  []*types.ChangeLog
	views map[common.Address]acctView
}

func takeSnap(am *account.Manager) *snap {
	s := &snap{views: map[common.Address]acctView{}}
	s.logs = append(s.logs, am.GetChangeLogs()...)
	for _, a := range account.VerifLoadedAddresses(am) {
		s.views[a] = viewOf(am, a)
	}
	return s
}

func name(a common.Address) string {
	switch a {
	case addrX:
		return "X"
	case addrA:
		return "A"
	case addrB:
		return "B"
	case addrC:
		return "C"
	case addrE:
		return "E"
	case addrCreated:
		return "new(X)"
	}
	if b := a.Bytes(); allZeroBytes(b[:19]) && b[19] >= 1 && b[19] <= 9 {
		return fmt.Sprintf("P%d", b[19])
	}
	return "other"
}

func allZeroBytes(b []byte) bool {
	for _, x := range b {
		if x != 0 {
			return false
		}
	}
	return true
}

func isFailureEvent(l *types.ChangeLog) bool {
	if l.LogType != account.AddEventLog {
		return false
	}
	ev, ok := l.NewVal.(*types.Event)
	return ok && len(ev.Topics) == 1 && ev.Topics[0] == types.TopicRunFail && len(ev.Data) == 0 && ev.Address == l.Address
}

// event policies for diffSnap
const (
	evNone    = iota // the journal must be exactly as before
	evOneAt          // at most one failure event, at the given address
	evAnyFail        // any number of failure events (a successful read-only call with failed inner calls)
)

// diffSnap compares the state now with an earlier snapshot. It returns the names of the differing
// attributes (sorted, "+"-joined; "" = equal) and a rendering.
func diffSnap(before *snap, am *account.Manager, policy int, evAddr common.Address) (string, string) {
	set := map[string]bool{}
	var sb strings.Builder
	logs := am.GetChangeLogs()
	extraEv := map[common.Address]uint32{}
	if len(logs) < len(before.logs) {
		set["journal-shorter"] = true
		fmt.Fprintf(&sb, "  journal has %d logs, had %d\n", len(logs), len(before.logs))
	} else {
		for i := range before.logs {
			if logs[i] != before.logs[i] {
				set["journal-rewritten"] = true
				fmt.Fprintf(&sb, "  journal entry %d replaced: was %s, is %s\n", i, logStr(before.logs[i]), logStr(logs[i]))
				break
			}
		}
		extra := logs[len(before.logs):]
		var rest types.ChangeLogSlice
		for i, l := range extra {
			ok := false
			switch policy {
			case evOneAt:
				ok = i == 0 && isFailureEvent(l) && l.Address == evAddr
			case evAnyFail:
				ok = isFailureEvent(l)
			}
			if ok {
				extraEv[l.Address]++
			} else {
				rest = append(rest, l)
			}
		}
		if policy == evAnyFail {
			// a successful read-only call may leave logs that change nothing (the two BalanceLogs of a
			// zero-value transfer): the end-of-block compression (MergeChangeLogs) removes them
			rest = account.MergeChangeLogs(rest)
		}
		for _, l := range rest {
			set["journal+"+logKind(l)] = true
			fmt.Fprintf(&sb, "  journal kept %s\n", logStr(l))
		}
	}
	addrs := account.VerifLoadedAddresses(am)
	for _, a := range addrs {
		now := viewOf(am, a)
		was, ok := before.views[a]
		if !ok {
			was = pristineView(a)
		}
		keys := map[string]bool{}
		for k := range now.fields {
			keys[k] = true
		}
		for k := range was.fields {
			keys[k] = true
		}
		ks := make([]string, 0, len(keys))
		for k := range keys {
			ks = append(ks, k)
		}
		sort.Strings(ks)
		for _, k := range ks {
			if k == "versions" && policy == evAnyFail {
				continue // in-memory log counters: they follow the journal, compared above modulo compression
			}
			if now.fields[k] != was.fields[k] {
				fk := k
				if strings.HasPrefix(k, "st[") {
					fk = "storage"
				}
				set[fk] = true
				fmt.Fprintf(&sb, "  %s.%s was %q is %q\n", name(a), k, was.fields[k], now.fields[k])
			}
		}
		if now.evVer != was.evVer+extraEv[a] {
			set["event-version"] = true
			fmt.Fprintf(&sb, "  %s event version was %d is %d with %d failure events recorded\n", name(a), was.evVer, now.evVer, extraEv[a])
		}
	}
	l := make([]string, 0, len(set))
	for k := range set {
		l = append(l, k)
	}
	sort.Strings(l)
	return strings.Join(l, "+"), sb.String()
}

func logKind(l *types.ChangeLog) string {
	return strings.TrimSuffix(l.LogType.String(), "Log")
}

func logStr(l *types.ChangeLog) string {
	s := fmt.Sprintf("%s(%s v%d", l.LogType.String(), name(l.Address), l.Version)
	if ev, ok := l.NewVal.(*types.Event); ok {
		s += fmt.Sprintf(" topics=%x data=%x", ev.Topics, ev.Data)
	}
	return s + ")"
}

// fullDump is everything a later step could depend on, caches and in-memory event lists included
// (for the determinism comparison).
func fullDump(am *account.Manager) (state string, journal string) {
	var sb strings.Builder
	for _, a := range account.VerifLoadedAddresses(am) {
		sb.WriteString(account.VerifDumpRaw(am, a, true))
		sb.WriteString("\n")
	}
	var jb strings.Builder
	jb.WriteString(account.VerifJournal(am))
	for _, l := range am.GetChangeLogs() {
		jb.WriteString(logStr(l))
	}
	return sb.String(), jb.String()
}

// observe reads the accounts through the public getters, as c07 does (this fills caches, so it is
// done last). It cross-checks the raw views: what the next transaction of the block would read.
func observe(am *account.Manager) string {
	var sb strings.Builder
	for _, a := range []common.Address{addrX, addrA, addrB, addrC, addrE, addrCreated, params.TermRewardContract} {
		acc := am.GetAccount(a)
		code, cerr := acc.GetCode()
		ch := acc.GetCodeHash()
		chs := fmt.Sprintf("%x", ch[:6])
		if ch == (common.Hash{}) || ch == common.Sha3Nil {
			chs = "none"
		}
		fmt.Fprintf(&sb, "%s: bal=%s code=%x%s codeHash=%s suicide=%v sroot=%x", name(a), acc.GetBalance(), []byte(code), errStr(cerr), chs, acc.GetSuicide(), acc.GetStorageRoot().Bytes()[:6])
		for _, k := range []common.Hash{key0, key1, rewardKey} {
			v, err := acc.GetStorageState(k)
			fmt.Fprintf(&sb, " st[%x]=%x%s", k[28:], v, errStr(err))
		}
		sb.WriteString("\n")
	}
	return sb.String()
}

func errStr(err error) string {
	if err == nil {
		return ""
	}
	return "!" + err.Error()
}

// C12 — issued assets are conserved; only holders / issuers can move or mint them.
//
// Engine E2 (BFS over event histories) on real nodes. Single-deputy chain (every accepted block is
// stable at once, which asset transactions need: VerifyAssetTx reads the issuer / sender from the
// canonical = stable account). Per history: a fresh block factory (real assembler) and a fresh node
// under test O (observer). Prefix (not counted in depth): fund I, H1, H2, S; I creates the assets
// T (category 1 token, divisible, replenishable), N (2 non-fungible, indivisible), C (3 common,
// divisible, replenishable), D (3 common, divisible, NOT replenishable) and deploys two contracts
// (CA: runtime STOP, CR: runtime REVERT); I issues T to H1/I/H2, N, C to H1/I, D to H1.
// Every event is one block with one transaction (or the fixed pair freeze-then-transfer) built by
// the factory on O's head and delivered with O.BC.InsertBlock.
//
// Oracle (read from O's head through the account API, after every event):
//  (1) for every divisible asset: TotalSupply == sum of the equity of all holders (all accounts of
//      the alphabet incl. both contracts and the burn address, all asset ids of the alphabet,
//      grouped by the equity's own asset code);
//  (2) supply changes only by the issuer's issue / replenish (by exactly the amount) and by a
//      holder's transfer to 0x0 (down by exactly what the sender lost);
//  (3) a transfer never lowers anybody's equity but the sender's, never raises the sender's, is
//      conserving (what leaves the sender arrives at the recipient or is destroyed), touches only
//      the asset id it names, moves nothing while the asset is frozen; no equity or supply is
//      ever negative; issue/replenish sent by a non-issuer changes nothing.
// The oracle never says which error a refused transaction gets and never requires a transaction to
// succeed, except the four plain canonical cases right after the prefix (non-vacuity).
package main

import (
	"encoding/json"
	"fmt"
	"math/big"
	"os"
	"path/filepath"
	"sort"
	"strings"
	"time"

	"verifmc/core"
	"verifmc/node"

	"github.com/LemoFoundationLtd/lemochain-core/chain/account"
	"github.com/LemoFoundationLtd/lemochain-core/chain/params"
	"github.com/LemoFoundationLtd/lemochain-core/chain/types"
	"github.com/LemoFoundationLtd/lemochain-core/common"
	"github.com/LemoFoundationLtd/lemochain-core/common/crypto"
)

const prop = "C12"

// ---------------------------------------------------------------------------------------------
// fixed cast

var roleOrder = []string{"I", "H1", "H2", "S", "CA", "CR", "Z"}
var keys = map[string]*node.Key{"I": node.User(0), "H1": node.User(1), "H2": node.User(2), "S": node.User(3)}
var addr = map[string]common.Address{}

type assetDef struct {
	Name   string
	Cat    uint32
	Div    bool
	Repl   bool
	Code   common.Hash
	create *types.Transaction
}

var assets = []*assetDef{
	{Name: "T", Cat: types.TokenAsset, Div: true, Repl: true},
	{Name: "N", Cat: types.NonFungibleAsset, Div: false, Repl: false},
	{Name: "C", Cat: types.CommonAsset, Div: true, Repl: true},
	{Name: "D", Cat: types.CommonAsset, Div: true, Repl: false},
}

func assetByName(n string) *assetDef {
	for _, a := range assets {
		if a.Name == n {
			return a
		}
	}
	panic("harness: no asset " + n)
}

// prefix issues: asset, receiver, amount, name of the asset id that results
var prefixIssues = [][4]string{
	{"T", "H1", "10", "T"}, {"T", "I", "10", "T"}, {"T", "H2", "4", "T"},
	{"N", "H1", "1", "N.h1"}, {"N", "I", "1", "N.i"},
	{"C", "H1", "10", "C.h1"}, {"C", "I", "10", "C.i"},
	{"D", "H1", "10", "D.h1"},
}

// asset ids of the alphabet, by name (fixed order); event-created ids are appended per history
var fixedIDs = []string{"T", "N.h1", "N.i", "C.h1", "C.i", "D.h1", "bogus"}
var idHash = map[string]common.Hash{}

var exp0 = uint64(node.GenesisTime + 1000) // every tx expires here (+ position); block times stay below

type prefixTxs struct {
	fund, create, issue types.Transactions
}

var pre prefixTxs

const two256 = "115792089237316195423570985008687907853269984665640564039457584007913129639936"

func initCode(runtimeHex string) []byte {
	rt := common.FromHex("0x" + runtimeHex)
	// PUSH1 len, DUP1, PUSH1 0x0b, PUSH1 0, CODECOPY, PUSH1 0, RETURN, <runtime>
	code := []byte{0x60, byte(len(rt)), 0x80, 0x60, 0x0b, 0x60, 0x00, 0x39, 0x60, 0x00, 0xf3}
	return append(code, rt...)
}

func issueData(code common.Hash, amt string) []byte {
	return []byte(fmt.Sprintf(`{"assetCode":"%s","metaData":"meta","supplyAmount":"%s"}`, code.Hex(), amt))
}
func replenishData(code, id common.Hash, amt string) []byte {
	return []byte(fmt.Sprintf(`{"assetCode":"%s","assetId":"%s","replenishAmount":"%s"}`, code.Hex(), id.Hex(), amt))
}
func modifyData(code common.Hash, freeze string) []byte {
	return []byte(fmt.Sprintf(`{"assetCode":"%s","updateProfile":{"freeze":"%s"}}`, code.Hex(), freeze))
}
func transferData(id common.Hash, amt string) []byte {
	return []byte(fmt.Sprintf(`{"assetId":"%s","transferAmount":"%s"}`, id.Hex(), amt))
}

func buildPrefix() {
	for r, k := range keys {
		addr[r] = k.Addr
	}
	addr["Z"] = common.BytesToAddress([]byte{0})
	for i, r := range []string{"I", "H1", "H2", "S"} {
		pre.fund = append(pre.fund, node.Transfer(node.Founder(), addr[r], node.Lemo(1000), exp0+uint64(i)))
	}
	for _, a := range assets {
		as := &types.Asset{Category: a.Cat, IsDivisible: a.Div, Decimal: 0, IsReplenishable: a.Repl,
			Profile: types.Profile{types.AssetName: "asset" + a.Name, types.AssetSymbol: a.Name, types.AssetDescription: "verif", types.AssetFreeze: "false", types.AssetSuggestedGasLimit: "60000"}}
		data, err := json.Marshal(as)
		if err != nil {
			panic(err)
		}
		a.create = node.Tx(node.TxSpec{Type: params.CreateAssetTx, From: keys["I"], Data: data, Exp: exp0})
		a.Code = a.create.Hash()
		pre.create = append(pre.create, a.create)
	}
	for i, c := range [][2]string{{"CA", "00"}, {"CR", "60006000fd"}} {
		tx := node.Tx(node.TxSpec{Type: params.CreateContractTx, From: keys["S"], Data: initCode(c[1]), Exp: exp0 + uint64(i)})
		addr[c[0]] = crypto.CreateContractAddress(keys["S"].Addr, tx.Hash())
		pre.create = append(pre.create, tx)
	}
	for i, is := range prefixIssues {
		a := assetByName(is[0])
		to := addr[is[1]]
		tx := node.Tx(node.TxSpec{Type: params.IssueAssetTx, From: keys["I"], To: &to, Data: issueData(a.Code, is[2]), Exp: exp0 + uint64(i)})
		pre.issue = append(pre.issue, tx)
		if a.Cat == types.TokenAsset {
			idHash[is[3]] = a.Code
		} else {
			idHash[is[3]] = tx.Hash()
		}
	}
	idHash["bogus"] = crypto.Keccak256Hash([]byte("c12-bogus-asset-id"))
}

// ---------------------------------------------------------------------------------------------
// state snapshots

type entry struct {
	Code string // name of the asset the equity record says it belongs to ("?" = unknown code)
	Eq   *big.Int
}

type snap struct {
	Supply map[string]*big.Int
	Freeze map[string]string
	Ent    map[string]entry // "acct|id" -> equity record; absent = no record
	Meta   map[string]bool  // "acct|id" -> account has AssetIdState for id (needed to send it)
}

type idRef struct {
	Name string
	Hash common.Hash
}

func codeName(h common.Hash) string {
	for _, a := range assets {
		if a.Code == h {
			return a.Name
		}
	}
	return "?"
}

func (w *world) snapshot() *snap {
	head := w.o.BC.CurrentBlock()
	am := account.NewManager(head.Hash(), w.o.DB)
	s := &snap{Supply: map[string]*big.Int{}, Freeze: map[string]string{}, Ent: map[string]entry{}, Meta: map[string]bool{}}
	issuer := am.GetAccount(addr["I"])
	for _, a := range assets {
		as, err := issuer.GetAssetCode(a.Code)
		if err == types.ErrAssetNotExist {
			continue
		}
		if err != nil {
			panic("harness: GetAssetCode: " + err.Error())
		}
		sup, err := issuer.GetAssetCodeTotalSupply(a.Code)
		if err != nil {
			panic("harness: GetAssetCodeTotalSupply: " + err.Error())
		}
		s.Supply[a.Name] = new(big.Int).Set(sup)
		s.Freeze[a.Name] = as.Profile[types.AssetFreeze]
	}
	for _, r := range roleOrder {
		acc := am.GetAccount(addr[r])
		for _, id := range w.ids {
			eq, err := acc.GetEquityState(id.Hash)
			if err == nil {
				v := new(big.Int)
				if eq.Equity != nil {
					v.Set(eq.Equity)
				}
				s.Ent[r+"|"+id.Name] = entry{codeName(eq.AssetCode), v}
			} else if err != types.ErrEquityNotExist {
				panic("harness: GetEquityState: " + err.Error())
			}
			if _, err := acc.GetAssetIdState(id.Hash); err == nil {
				s.Meta[r+"|"+id.Name] = true
			}
		}
	}
	return s
}

func (s *snap) eq(acct, id string) *big.Int {
	if e, ok := s.Ent[acct+"|"+id]; ok {
		return e.Eq
	}
	return new(big.Int)
}

func (s *snap) sum(asset string) *big.Int {
	t := new(big.Int)
	for _, e := range s.Ent {
		if e.Code == asset {
			t.Add(t, e.Eq)
		}
	}
	return t
}

// key renders the canonical state: supplies, freeze flags, every equity record and send
// permission; ids created by issue events are anonymous (sorted by content).
func (s *snap) key(ids []idRef) string {
	var sb strings.Builder
	for _, a := range assets {
		fmt.Fprintf(&sb, "%s:sup=%v,frz=%s;", a.Name, s.Supply[a.Name], s.Freeze[a.Name])
	}
	col := func(id string) string {
		var c strings.Builder
		for _, r := range roleOrder {
			k := r + "|" + id
			if e, ok := s.Ent[k]; ok {
				fmt.Fprintf(&c, "%s=%s:%s", r, e.Code, e.Eq)
			} else {
				fmt.Fprintf(&c, "%s=-", r)
			}
			if s.Meta[k] {
				c.WriteString("m")
			}
			c.WriteString(",")
		}
		return c.String()
	}
	var anon []string
	for _, id := range ids {
		if strings.HasPrefix(id.Name, "ev") {
			anon = append(anon, col(id.Name))
		} else {
			fmt.Fprintf(&sb, "[%s %s]", id.Name, col(id.Name))
		}
	}
	sort.Strings(anon)
	for _, c := range anon {
		fmt.Fprintf(&sb, "[ev %s]", c)
	}
	return sb.String()
}

type delta struct {
	Acct, ID, Code string
	Pre, Post      *big.Int
}

func (d delta) String() string {
	return fmt.Sprintf("%s.%s(asset %s) %s->%s", d.Acct, d.ID, d.Code, d.Pre, d.Post)
}

func deltas(a, b *snap) []delta {
	ks := map[string]bool{}
	for k := range a.Ent {
		ks[k] = true
	}
	for k := range b.Ent {
		ks[k] = true
	}
	l := make([]string, 0, len(ks))
	for k := range ks {
		l = append(l, k)
	}
	sort.Strings(l)
	var out []delta
	zero := new(big.Int)
	for _, k := range l {
		p := strings.SplitN(k, "|", 2)
		ea, oka := a.Ent[k]
		eb, okb := b.Ent[k]
		switch {
		case oka && okb && ea.Code != eb.Code: // the record changed its asset: the old one vanished, a new one appeared
			out = append(out, delta{p[0], p[1], ea.Code, ea.Eq, zero}, delta{p[0], p[1], eb.Code, zero, eb.Eq})
		case oka && okb:
			if ea.Eq.Cmp(eb.Eq) != 0 {
				out = append(out, delta{p[0], p[1], ea.Code, ea.Eq, eb.Eq})
			}
		case oka:
			if ea.Eq.Sign() != 0 {
				out = append(out, delta{p[0], p[1], ea.Code, ea.Eq, zero})
			}
		case okb:
			if eb.Eq.Sign() != 0 {
				out = append(out, delta{p[0], p[1], eb.Code, zero, eb.Eq})
			}
		}
	}
	return out
}

// ---------------------------------------------------------------------------------------------
// world

type world struct {
	f    *node.Factory
	o    *node.Node
	head *types.Block
	ids  []idRef
	pos  int
	c01  []string // honest blocks the node under test refused (reported, not a C12 failure)
}

// The block factory is shared by all histories one worker process runs: its database holds the
// prefix blocks (stable) and above them the tree of every event block built so far (unconfirmed),
// so a block that several histories have in common is built once. This is equivalent to a factory
// that makes every block stable, because the only canonical (= stable) data the transactions of
// the alphabet consult were written by the prefix and are never removed afterwards: the issuer's
// asset records, the senders' AssetIdState of the prefix ids, the asset-code index. If the two
// views ever differed the node under test (which does make every block stable) would refuse the
// block, and that is counted. C12_FRESH_FACTORY=1 selects a fresh factory per history that makes
// every block stable (used to cross-check the equivalence; same states, transitions, outcomes).
type built struct {
	b        *types.Block
	packaged []bool
}

var fac struct {
	f      *node.Factory
	prefix []*types.Block
	err    string
	cache  map[string]*built
}

var freshFactory = os.Getenv("C12_FRESH_FACTORY") != ""

func newFactory() (f *node.Factory, prefix []*types.Block, msg string) {
	f = node.NewFactory(core.ScratchDir("c12f"), 1)
	head := f.BC.Genesis()
	for i, l := range []types.Transactions{pre.fund, pre.create, pre.issue} {
		b, inv, err := f.Make(node.BlockSpec{Parent: head, Miner: node.Deputy(0), Time: head.Time() + 10, Txs: l, Extra: fmt.Sprintf("prefix%d", i)})
		if err != nil {
			panic("harness: factory cannot build prefix block: " + err.Error())
		}
		if len(inv) > 0 || len(b.Txs) != len(l) {
			return f, nil, fmt.Sprintf("prefix block %d: the assembler discarded %d of %d plain transactions", i, len(l)-len(b.Txs), len(l))
		}
		if _, err := f.DB.SetStableBlock(b.Hash()); err != nil {
			panic("harness: factory SetStableBlock: " + err.Error())
		}
		if i == 1 {
			waitIndex(f.Node)
		}
		prefix = append(prefix, b)
		head = b
	}
	return f, prefix, ""
}

func closeFactory() {
	if fac.f != nil {
		fac.f.Destroy()
		fac.f = nil
	}
}

func (w *world) close() {
	w.o.Destroy()
	if freshFactory {
		w.f.Destroy()
	}
}

// newWorld returns the world after the prefix; msg != "" if the prefix could not be executed.
func newWorld() (w *world, msg string) {
	w = &world{}
	var prefix []*types.Block
	if freshFactory {
		w.f, prefix, msg = newFactory()
	} else {
		if fac.f == nil {
			fac.f, fac.prefix, fac.err = newFactory()
			fac.cache = map[string]*built{}
		}
		w.f, prefix, msg = fac.f, fac.prefix, fac.err
	}
	w.o = node.NewNode(core.ScratchDir("c12o"), 1, node.K("observer"))
	for _, n := range fixedIDs {
		w.ids = append(w.ids, idRef{n, idHash[n]})
	}
	if msg != "" {
		return w, msg
	}
	for i, b := range prefix {
		if st := w.insert(b, fmt.Sprintf("prefix%d", i)); st != "ok" {
			return w, fmt.Sprintf("prefix block %d: %s %v", i, st, w.c01)
		}
		if i == 1 {
			waitIndex(w.o)
		}
	}
	return w, ""
}

// insert hands a factory block to the node under test.
func (w *world) insert(b *types.Block, what string) string {
	w.o.Use()
	if err := w.o.BC.InsertBlock(node.Wire(b)); err != nil {
		w.c01 = append(w.c01, fmt.Sprintf("%s: %v", what, err))
		return "node-rejected"
	}
	w.head = b
	if w.o.BC.CurrentBlock().Hash() != b.Hash() || w.o.BC.StableBlock().Hash() != b.Hash() {
		return "node-not-stable"
	}
	return "ok"
}

// deliver builds one block with txs on the head and hands it to the node under test. packaged[i]
// tells whether the assembler kept txs[i]. status: "ok", "all-discarded" (nothing to deliver),
// "node-rejected" or "node-not-stable".
func (w *world) deliver(txs types.Transactions, extra string) (packaged []bool, status string) {
	// the transactions' expiration (and so their hashes, which name the asset ids they create)
	// depends on the position of the event in the history, and a discarded event advances the
	// position without moving the head: the position is part of the key
	key := fmt.Sprintf("%s|%d|%s", w.head.Hash().Hex(), w.pos, extra)
	bl := fac.cache[key]
	if bl == nil || freshFactory {
		b, _, err := w.f.Make(node.BlockSpec{Parent: w.head, Miner: node.Deputy(0), Time: w.head.Time() + 10, Txs: txs, Extra: extra})
		if err != nil {
			panic("harness: factory cannot build block: " + err.Error())
		}
		in := map[common.Hash]bool{}
		for _, tx := range b.Txs {
			in[tx.Hash()] = true
		}
		bl = &built{b: b, packaged: make([]bool, len(txs))}
		for i, tx := range txs {
			bl.packaged[i] = in[tx.Hash()]
		}
		if freshFactory {
			if len(b.Txs) > 0 {
				if _, err := w.f.DB.SetStableBlock(b.Hash()); err != nil {
					panic("harness: factory SetStableBlock: " + err.Error())
				}
			}
		} else {
			fac.cache[key] = bl
		}
	}
	if len(bl.b.Txs) == 0 {
		return bl.packaged, "all-discarded"
	}
	return bl.packaged, w.insert(bl.b, extra)
}

// waitIndex waits until the asset-code -> issuer index (written asynchronously by the store's
// writer goroutine after the block is on disk) is visible: TransferAssetTx reads it.
func waitIndex(n *node.Node) {
	deadline := time.Now().Add(20 * time.Second)
	for _, a := range assets {
		for {
			got, err := n.DB.GetAssetCode(a.Code)
			if err == nil && got == addr["I"] {
				break
			}
			if time.Now().After(deadline) {
				panic("harness: asset-code index never became visible")
			}
			time.Sleep(200 * time.Microsecond)
		}
	}
}

// ---------------------------------------------------------------------------------------------
// events
//
//	xfer <asset> <id> <to> <amt> by <who>     amt in 0 1 eq eq+1 -1 -eq 2^256 (eq = sender's equity of that id)
//	iss  <asset> <to> <amt> by <who>
//	rep  <asset> <id> <to> <amt> by <who>
//	frz  <asset> <true|false> by <who>
//	fx   <asset> <true|false> <id> <to> <amt> by <who>   one block: [frz asset v by I, xfer ... by who]

type event struct {
	Kind, Asset, ID, To, Amt, By, Frz string
}

func parse(s string) event {
	f := strings.Fields(s)
	switch f[0] {
	case "xfer":
		return event{Kind: "xfer", Asset: f[1], ID: f[2], To: f[3], Amt: f[4], By: f[6]}
	case "iss":
		return event{Kind: "iss", Asset: f[1], To: f[2], Amt: f[3], By: f[5]}
	case "rep":
		return event{Kind: "rep", Asset: f[1], ID: f[2], To: f[3], Amt: f[4], By: f[6]}
	case "frz":
		return event{Kind: "frz", Asset: f[1], Frz: f[2], By: f[4]}
	case "fx":
		return event{Kind: "fx", Asset: f[1], Frz: f[2], ID: f[3], To: f[4], Amt: f[5], By: f[7]}
	}
	panic("harness: bad event " + s)
}

func resolve(amt string, eq *big.Int) *big.Int {
	switch amt {
	case "eq":
		return new(big.Int).Set(eq)
	case "eq+1":
		return new(big.Int).Add(eq, big.NewInt(1))
	case "-eq":
		return new(big.Int).Neg(eq)
	case "2^256":
		v, _ := new(big.Int).SetString(two256, 10)
		return v
	}
	v, ok := new(big.Int).SetString(amt, 10)
	if !ok {
		panic("harness: bad amount " + amt)
	}
	return v
}

func amtClass(m, eq *big.Int) string {
	switch {
	case m.Sign() < 0:
		return "negative"
	case m.Sign() == 0:
		return "zero"
	case m.Cmp(eq) > 0:
		return "oversize"
	}
	return "positive"
}

func (w *world) idOf(name string) common.Hash {
	for _, id := range w.ids {
		if id.Name == name {
			return id.Hash
		}
	}
	panic("harness: unknown id " + name)
}

type step struct {
	Ev       event
	Str      string
	M        *big.Int // resolved amount
	Class    string
	Packaged []bool
	Status   string
	Pre      *snap
	Post     *snap
	NewID    string
}

func (w *world) apply(s string) *step {
	e := parse(s)
	w.pos++
	st := &step{Ev: e, Str: s}
	st.Pre = w.snapshot()
	exp := exp0 + uint64(w.pos)
	var txs types.Transactions
	mk := func(typ uint16, by string, to string, data []byte) *types.Transaction {
		spec := node.TxSpec{Type: typ, From: keys[by], Data: data, Exp: exp}
		if to != "" {
			t := addr[to]
			spec.To = &t
		}
		return node.Tx(spec)
	}
	a := assetByName(e.Asset)
	switch e.Kind {
	case "xfer", "fx":
		eq := st.Pre.eq(e.By, e.ID)
		st.M = resolve(e.Amt, eq)
		st.Class = amtClass(st.M, eq)
		if e.Kind == "fx" {
			txs = append(txs, mk(params.ModifyAssetTx, "I", "", modifyData(a.Code, e.Frz)))
		}
		txs = append(txs, mk(params.TransferAssetTx, e.By, e.To, transferData(w.idOf(e.ID), st.M.String())))
	case "iss":
		st.M = resolve(e.Amt, new(big.Int))
		tx := mk(params.IssueAssetTx, e.By, e.To, issueData(a.Code, st.M.String()))
		txs = append(txs, tx)
		if a.Cat != types.TokenAsset {
			st.NewID = fmt.Sprintf("ev%d", w.pos)
			w.ids = append(w.ids, idRef{st.NewID, tx.Hash()})
		}
	case "rep":
		st.M = resolve(e.Amt, new(big.Int))
		txs = append(txs, mk(params.ReplenishAssetTx, e.By, e.To, replenishData(a.Code, w.idOf(e.ID), st.M.String())))
	case "frz":
		txs = append(txs, mk(params.ModifyAssetTx, e.By, "", modifyData(a.Code, e.Frz)))
	}
	st.Packaged, st.Status = w.deliver(txs, s)
	if st.Status == "ok" || st.Status == "all-discarded" {
		st.Post = w.snapshot()
	}
	return st
}

// ---------------------------------------------------------------------------------------------
// oracle

type viol struct{ fp, what string }

func recipientKind(to, by string) string {
	switch {
	case to == by:
		return "to-self"
	case to == "Z":
		return "to-burn-address"
	case to == "CA":
		return "to-accepting-contract"
	case to == "CR":
		return "to-reverting-contract"
	}
	return "to-account"
}

// invariants checks the state clauses: supply == sum for divisible assets, nothing negative.
func invariants(s *snap) []viol {
	var out []viol
	for _, a := range assets {
		sup, ok := s.Supply[a.Name]
		if !ok {
			continue
		}
		if sup.Sign() < 0 {
			out = append(out, viol{"negative-supply", fmt.Sprintf("asset %s has total supply %s", a.Name, sup)})
		}
		if a.Div {
			if sum := s.sum(a.Name); sum.Cmp(sup) != 0 {
				out = append(out, viol{fmt.Sprintf("supply-not-sum/category-%d", a.Cat), fmt.Sprintf("asset %s: recorded total supply %s but the holders' equity sums to %s", a.Name, sup, sum)})
			}
		}
	}
	ks := make([]string, 0)
	for k, e := range s.Ent {
		if e.Eq.Sign() < 0 {
			ks = append(ks, k+"="+e.Eq.String())
		}
	}
	if len(ks) > 0 {
		sort.Strings(ks)
		out = append(out, viol{"negative-equity", "negative equity: " + strings.Join(ks, " ")})
	}
	return out
}

func supplyDelta(pre, post *snap, asset string) *big.Int {
	a, b := pre.Supply[asset], post.Supply[asset]
	if a == nil {
		a = new(big.Int)
	}
	if b == nil {
		b = new(big.Int)
	}
	return new(big.Int).Sub(b, a)
}

func fmtDeltas(ds []delta) string {
	l := make([]string, len(ds))
	for i, d := range ds {
		l[i] = d.String()
	}
	return "[" + strings.Join(l, "; ") + "]"
}

// transition checks one step against the statement. At most one violation per step is reported
// (the most specific cause first). It also returns the outcome label of the step.
func transition(st *step) (out []viol, label string) {
	e := st.Ev
	pre, post := st.Pre, st.Post
	ds := deltas(pre, post)
	supChanged := map[string]*big.Int{}
	for _, a := range assets {
		if d := supplyDelta(pre, post, a.Name); d.Sign() != 0 {
			supChanged[a.Name] = d
		}
	}
	supStr := func() string {
		l := []string{}
		for _, a := range assets {
			if d, ok := supChanged[a.Name]; ok {
				l = append(l, fmt.Sprintf("supply(%s)%+d", a.Name, d))
			}
		}
		return strings.Join(l, " ")
	}
	desc := fmt.Sprintf("event %q (amount %v) changed %s %s", st.Str, st.M, fmtDeltas(ds), supStr())
	bad := func(fp string) ([]viol, string) { return []viol{{fp, desc}}, "VIOLATION" }
	nothing := len(ds) == 0 && len(supChanged) == 0
	pk := st.Packaged[len(st.Packaged)-1]
	if st.Status == "all-discarded" || !pk {
		label = "discarded"
	} else {
		label = "packaged"
	}
	a := assetByName(e.Asset)

	switch e.Kind {
	case "xfer", "fx":
		label += "/" + st.Class
		frozen := pre.Freeze[e.Asset] == "true"
		if e.Kind == "fx" {
			// only the freeze tx of this block can change the flag, and it runs before the transfer
			frozen = post.Freeze[e.Asset] == "true"
		}
		if nothing {
			if frozen {
				label += "/frozen"
			}
			return nil, label + "/no-effect"
		}
		if !pk {
			return bad("discarded-transfer-changes-state")
		}
		if frozen {
			return bad("frozen-asset-moved")
		}
		var dx *big.Int = new(big.Int) // change of the sender's equity of the named id
		total := new(big.Int)
		othersLowered, othersChanged, unrelated := false, false, false
		for _, d := range ds {
			diff := new(big.Int).Sub(d.Post, d.Pre)
			total.Add(total, diff)
			if d.Code != e.Asset || d.ID != e.ID {
				unrelated = true
			}
			if d.Acct == e.By && d.ID == e.ID && d.Code == e.Asset {
				dx = diff
				continue
			}
			othersChanged = true
			if diff.Sign() < 0 {
				othersLowered = true
			}
		}
		if st.M.Sign() < 0 && dx.Sign() > 0 {
			if e.To == "Z" {
				return bad("negative-amount-to-burn-address-mints-to-sender")
			}
			if othersLowered {
				return bad("negative-amount-moves-equity-to-sender")
			}
		}
		if othersLowered {
			return bad("transfer-lowers-other-holder-equity/amount-" + st.Class)
		}
		if dx.Sign() > 0 {
			return bad("transfer-raises-sender-equity/amount-" + st.Class + "/" + recipientKind(e.To, e.By))
		}
		if unrelated {
			return bad("transfer-changes-unrelated-equity")
		}
		for n := range supChanged {
			if n != e.Asset || e.To != "Z" {
				return bad("supply-changed-by-transfer/" + recipientKind(e.To, e.By))
			}
		}
		if e.To == "Z" {
			if othersChanged {
				return bad("burn-credits-somebody")
			}
			if a.Div && supplyDelta(pre, post, e.Asset).Cmp(dx) != 0 {
				return bad("burn-supply-delta-differs-from-destroyed-equity")
			}
			return nil, label + "/burned"
		}
		if total.Sign() != 0 {
			return bad(fmt.Sprintf("transfer-not-conserving/category-%d/%s", a.Cat, recipientKind(e.To, e.By)))
		}
		return nil, label + "/moved/" + recipientKind(e.To, e.By)

	case "iss", "rep":
		if st.M.Sign() > 0 {
			label += "/positive"
		} else {
			label += "/nonpositive"
		}
		if nothing {
			if pre.Freeze[e.Asset] == "true" {
				label += "/frozen"
			}
			return nil, label + "/no-effect"
		}
		if !pk {
			return bad("discarded-" + e.Kind + "-changes-state")
		}
		if e.By != "I" {
			return bad("non-issuer-mints/" + e.Kind)
		}
		for _, d := range ds {
			if d.Post.Cmp(d.Pre) < 0 {
				return bad("issuer-" + e.Kind + "-lowers-holder-equity")
			}
		}
		for n, d := range supChanged {
			as := assetByName(n)
			if n != e.Asset {
				return bad(e.Kind + "-changes-supply-of-other-asset")
			}
			if as.Div && (st.M.Sign() <= 0 || d.Cmp(st.M) != 0) {
				return bad(e.Kind + "-supply-delta-differs-from-amount")
			}
		}
		if len(supChanged) == 0 && a.Div {
			return bad(e.Kind + "-changes-equity-without-supply")
		}
		return nil, label + "/minted"

	case "frz":
		if !nothing {
			return bad("modify-changes-equity-or-supply")
		}
		switch {
		case pre.Freeze[e.Asset] == post.Freeze[e.Asset]:
			label += "/flag-unchanged"
		case post.Freeze[e.Asset] == "true":
			label += "/froze"
		default:
			label += "/unfroze"
		}
		return nil, label
	}
	panic("harness: kind")
}

// canonical non-vacuity cases: the plainest transfer / burn / replenish / freeze right after the
// prefix must have their effect.
var canonical = map[string]string{
	"xfer T T H2 1 by H1": "packaged/positive/moved/to-account",
	"xfer T T Z 1 by H1":  "packaged/positive/burned",
	"rep T T H1 5 by I":   "packaged/positive/minted",
	"frz T true by I":     "packaged/froze",
}

// ---------------------------------------------------------------------------------------------
// alphabets

var amtsFull = []string{"1", "eq", "0", "eq+1", "-1", "-eq", "2^256"}

func rcpts(by string) []string {
	if by == "I" {
		return []string{"H2", "I", "CA", "CR", "Z", "H1"}
	}
	return []string{"H2", by, "CA", "CR", "Z", "I"}
}

func ownID(a, by string) string {
	if a == "T" {
		return "T"
	}
	if by == "I" {
		return a + ".i"
	}
	return a + ".h1"
}

func x(a, id, to, amt, by string) string { return fmt.Sprintf("xfer %s %s %s %s by %s", a, id, to, amt, by) }

// core alphabet of one asset: state-changing events first, then adversarial probes
func coreAlphabet(a string) []string {
	h, i := ownID(a, "H1"), ownID(a, "I")
	l := []string{
		x(a, h, "H2", "1", "H1"), x(a, h, "H2", "eq", "H1"), x(a, h, "Z", "1", "H1"), x(a, h, "CA", "1", "H1"), x(a, h, "I", "1", "H1"),
		x(a, i, "H2", "1", "I"), x(a, i, "Z", "eq", "I"),
		fmt.Sprintf("iss %s H2 5 by I", a),
		fmt.Sprintf("rep %s %s H1 5 by I", a, h),
		fmt.Sprintf("frz %s true by I", a), fmt.Sprintf("frz %s false by I", a),
		// probes
		x(a, h, "H2", "-1", "H1"), x(a, h, "H2", "-eq", "H1"), x(a, h, "H2", "eq+1", "H1"), x(a, h, "H2", "2^256", "H1"), x(a, h, "H2", "0", "H1"),
		x(a, h, "H1", "1", "H1"), x(a, h, "H1", "-1", "H1"), x(a, h, "CR", "1", "H1"), x(a, h, "CA", "-1", "H1"),
		x(a, h, "Z", "-1", "H1"), x(a, h, "Z", "eq+1", "H1"), x(a, h, "I", "-1", "H1"),
		x(a, i, "H1", "-1", "I"), x(a, i, "H1", "-eq", "I"), x(a, i, "Z", "-1", "I"),
		x(a, h, "H2", "1", "S"), x(a, h, "H2", "-1", "S"), x(a, h, "Z", "-1", "S"),
		fmt.Sprintf("iss %s H1 5 by H1", a), fmt.Sprintf("iss %s H2 -5 by I", a),
		fmt.Sprintf("rep %s %s H1 5 by H1", a, h), fmt.Sprintf("rep %s %s H1 -5 by I", a, h), fmt.Sprintf("rep %s bogus H2 5 by I", a),
		fmt.Sprintf("fx %s true %s H2 1 by H1", a, h), fmt.Sprintf("fx %s false %s H2 1 by H1", a, h),
	}
	if a != "T" {
		l = append(l, x(a, h, "I", "1", "I"), x(a, h, "I", "-1", "I"))
	}
	return l
}

// full alphabet of one asset: the complete product sender x recipient x amount, plus every
// issue / replenish / modify variant
func fullAlphabet(a string) []string {
	l := coreAlphabet(a)
	for _, by := range []string{"H1", "I", "S"} {
		for _, to := range rcpts(by) {
			for _, amt := range amtsFull {
				l = append(l, x(a, ownID(a, by), to, amt, by))
			}
		}
	}
	h := ownID(a, "H1")
	if a != "T" {
		l = append(l, x(a, h, "H1", "-1", "I"), x(a, h, "H2", "1", "I"))
	}
	l = append(l,
		fmt.Sprintf("iss %s H1 5 by I", a), fmt.Sprintf("iss %s H2 0 by I", a), fmt.Sprintf("iss %s S 5 by S", a),
		fmt.Sprintf("rep %s %s H1 0 by I", a, h), fmt.Sprintf("rep %s %s S 5 by S", a, h),
		fmt.Sprintf("frz %s true by H1", a), fmt.Sprintf("frz %s false by S", a))
	if a == "C" {
		l = append(l, "rep D D.h1 H1 5 by I", "rep D D.h1 H1 5 by H1", x("D", "D.h1", "H2", "1", "H1"), x("D", "D.h1", "H2", "-1", "H1"), x("D", "D.h1", "Z", "1", "H1"))
	}
	return uniq(l)
}

// mixed alphabet: two assets at once and asset ids used across assets
var mixedAlphabet = []string{
	"xfer T T H2 1 by H1", "xfer C C.h1 H2 1 by H1", "xfer N N.h1 H2 1 by H1", "xfer D D.h1 H2 1 by H1",
	"frz T true by I", "frz T false by I", "frz C true by I",
	"rep T C.h1 H2 5 by I", "rep C T S 5 by I", "rep T C.h1 H1 5 by I", "rep D D.h1 H1 5 by I", "rep N N.h1 H1 5 by I",
	"xfer T T S 1 by H1", "xfer C C.h1 H2 -1 by H1", "xfer T T H2 -1 by H1",
	// issue of the token asset to somebody who holds a record under the token's id that was made by
	// a replenish of ANOTHER asset (rep C T S)
	"iss T S 5 by I", "iss T H2 5 by I",
}

func uniq(l []string) []string {
	seen := map[string]bool{}
	out := l[:0:0]
	for _, s := range l {
		if !seen[s] {
			seen[s] = true
			out = append(out, s)
		}
	}
	return out
}

var (
	maxDepth   = 2 // events after the prefix in the per-asset scenarios T, N, C
	mixedDepth = 3 // events after the prefix in the mixed scenario X
	fullUntil  = 1 // the full alphabet is enabled in states reached by fewer than this many events
)

func envInt(name string, v *int) {
	if s := os.Getenv(name); s != "" {
		fmt.Sscanf(s, "%d", v)
	}
}

func enabled(scen string, n int) []string {
	if scen == "X" {
		if n >= mixedDepth {
			return nil
		}
		return mixedAlphabet
	}
	if n >= maxDepth {
		return nil
	}
	if n < fullUntil {
		return fullAlphabet(scen)
	}
	return coreAlphabet(scen)
}

// ---------------------------------------------------------------------------------------------

var counters = map[string]int64{}
var procStart = time.Now().UnixNano() // part of the counter file name only (pid reuse)

func flushCounters() {
	dir := os.Getenv("C12_COUNTERS")
	if dir == "" {
		return
	}
	b, _ := json.Marshal(counters)
	os.WriteFile(filepath.Join(dir, fmt.Sprintf("%d-%d.json", os.Getpid(), procStart)), b, 0644)
}

var verbose bool

func run(hist []string) core.Outcome {
	if len(hist) == 0 {
		return core.Outcome{Key: "root", Enabled: []string{"T", "N", "C", "X"}}
	}
	defer flushCounters()
	scen, evs := hist[0], hist[1:]
	t0 := time.Now()
	lap := func(what string) {
		if verbose {
			fmt.Printf("  [%s %.1f ms]\n", what, float64(time.Since(t0).Microseconds())/1000)
			t0 = time.Now()
		}
	}
	w, msg := newWorld()
	defer func() { lap("events+oracle"); w.close(); lap("close") }()
	lap("new world + prefix")
	var o core.Outcome
	addV := func(fp, what string) {
		for _, v := range o.Violations {
			if v.Fingerprint == prop+"/"+fp {
				return
			}
		}
		o.Violations = append(o.Violations, core.Violation{Fingerprint: prop + "/" + fp, What: what + fmt.Sprintf("; history %q", hist), Replay: map[string]interface{}{"history": hist}})
	}
	if msg != "" {
		addV("prefix-canonical-case-failed", msg)
		return o
	}
	ps := w.snapshot()
	want := map[string]string{"T": "24", "C": "20", "D": "10"}
	for n, v := range want {
		if ps.Supply[n] == nil || ps.Supply[n].String() != v {
			addV("prefix-canonical-case-failed", fmt.Sprintf("after the prefix asset %s has supply %v, want %s", n, ps.Supply[n], v))
		}
	}
	for k, v := range map[string]string{"H1|T": "10", "I|T": "10", "H2|T": "4", "H1|N.h1": "1", "I|N.i": "1", "H1|C.h1": "10", "I|C.i": "10", "H1|D.h1": "10"} {
		if e, ok := ps.Ent[k]; !ok || e.Eq.String() != v || !ps.Meta[k] {
			addV("prefix-canonical-case-failed", fmt.Sprintf("after the prefix equity %s is %v, want %s", k, ps.Ent[k], v))
		}
	}
	for _, v := range invariants(ps) {
		addV(v.fp, "after the prefix: "+v.what)
	}
	if len(o.Violations) > 0 {
		return o
	}
	if verbose {
		fmt.Printf("after prefix: %s\n", ps.key(w.ids))
	}
	var last *step
	for i, s := range evs {
		st := w.apply(s)
		last = st
		isLast := i == len(evs)-1
		if st.Post == nil {
			// the node under test refused an honestly built block (or did not make it stable): a
			// block-validation finding, not a C12 one; this history cannot be continued
			o.Tags = append(o.Tags, "c01/"+st.Status+"/"+st.Ev.Kind)
			if isLast {
				counters["honest_block_"+st.Status]++
				counters["transitions_counted"]++
			}
			if verbose {
				fmt.Printf("%-34s => %s %v\n", s, st.Status, w.c01)
			}
			return o
		}
		vs, label := transition(st)
		for _, v := range vs {
			addV(v.fp, v.what)
		}
		for _, v := range invariants(st.Post) {
			addV(v.fp, fmt.Sprintf("after event %q (amount %v): %s", s, st.M, v.what))
		}
		if len(evs) == 1 && scen == "T" {
			if wantL, ok := canonical[s]; ok && label != wantL {
				addV("canonical-case-failed/"+st.Ev.Kind, fmt.Sprintf("plain event %q right after the prefix: outcome %s, want %s", s, label, wantL))
			}
		}
		if verbose {
			fmt.Printf("%-34s => %-45s %s\n", s, label, fmtDeltas(deltas(st.Pre, st.Post)))
		}
		if isLast {
			e := st.Ev
			who := e.By
			if e.Kind == "xfer" || e.Kind == "fx" {
				o.Tags = append(o.Tags, fmt.Sprintf("%s/cat%d/by-%s/%s/%s", e.Kind, assetByName(e.Asset).Cat, who, recipientKind(e.To, e.By), label))
			} else {
				o.Tags = append(o.Tags, fmt.Sprintf("%s/cat%d/by-%s/%s", e.Kind, assetByName(e.Asset).Cat, who, label))
			}
			count(st, label)
		}
	}
	if len(o.Violations) > 0 && !expandAfterViolation {
		return o
	}
	o.Key = core.Hash(scen + "|" + w.snapshot().key(w.ids))
	if d := os.Getenv("C12_TRACE"); d != "" { // experiment aid: one line per history
		fps := []string{}
		for _, v := range o.Violations {
			fps = append(fps, v.Fingerprint)
		}
		if f, err := os.OpenFile(filepath.Join(d, fmt.Sprintf("%d.txt", os.Getpid())), os.O_APPEND|os.O_CREATE|os.O_WRONLY, 0644); err == nil {
			fmt.Fprintf(f, "%q => %s %v %v\n", hist, w.snapshot().key(w.ids), o.Tags, fps)
			f.Close()
		}
	}
	o.Enabled = enabled(scen, len(evs))
	_ = last
	return o
}

// a state reached through a violating step is still expanded (known findings must not hide what lies behind them)
const expandAfterViolation = true

func count(st *step, label string) {
	c := func(k string) { counters[k]++ }
	c("transitions_counted")
	if strings.HasPrefix(label, "discarded") {
		c("tx_discarded_by_assembler")
	} else if label != "VIOLATION" {
		c("tx_packaged")
	}
	has := func(s string) bool { return strings.Contains(label, s) }
	switch st.Ev.Kind {
	case "xfer", "fx":
		switch {
		case has("/moved/"):
			c("transfers_moved_equity")
			if st.Ev.To == "CA" {
				c("transfers_into_accepting_contract")
			}
		case has("/burned"):
			c("burns_effective")
		case has("/frozen/no-effect"):
			c("transfers_blocked_by_freeze")
		case has("packaged") && has("no-effect") && st.Ev.To == "CR":
			c("transfers_rolled_back_by_reverting_contract")
		case has("packaged") && has("no-effect") && st.Ev.To == st.Ev.By:
			c("self_transfers_without_effect")
		}
		if has("no-effect") {
			switch st.Class {
			case "negative":
				c("negative_amount_without_effect")
			case "oversize":
				c("oversize_amount_without_effect")
			}
		}
		if st.Ev.Kind == "fx" && has("/frozen/no-effect") {
			c("transfers_blocked_by_freeze_in_same_block")
		}
	case "iss":
		if has("/minted") {
			c("issues_effective")
		}
	case "rep":
		if has("/minted") {
			c("replenishes_effective")
		}
	case "frz":
		if has("/froze") {
			c("freezes_effective")
		}
		if has("/unfroze") {
			c("unfreezes_effective")
		}
	}
	if label == "VIOLATION" {
		c("violating_transitions")
	}
}

func main() {
	core.ParseFlags()
	node.Quiet()
	node.DropEngineGoroutines() // see mc/node/tasks.go
	buildPrefix()
	if core.Thorough() {
		maxDepth, mixedDepth, fullUntil = 4, 4, 2
	}
	// experiment knobs (not used by bin/check)
	envInt("C12_DEPTH", &maxDepth)
	envInt("C12_XDEPTH", &mixedDepth)
	envInt("C12_FULL", &fullUntil)
	safe := core.SafeRun(prop, run)
	if core.Opt.Replay != "" {
		var rp struct {
			History []string `json:"history"`
		}
		if err := core.LoadReplay(core.Opt.Replay, &rp); err != nil {
			fmt.Println(err)
			os.Exit(2)
		}
		verbose = true
		fmt.Printf("replay %q\n", rp.History)
		o := safe(rp.History)
		closeFactory()
		for _, v := range o.Violations {
			fmt.Printf("VIOLATION-REPLAYED %s\n%s\n", v.Fingerprint, v.What)
		}
		if len(o.Violations) > 0 {
			os.Exit(1)
		}
		return
	}
	core.ServeIfWorker(safe)

	r := core.NewResult(prop, "model_checking")
	r.Rule = "BFS over histories of asset transactions, each executed in its own factory-built block (real assembler) and validated by a fresh single-deputy node; four scenarios after a common prefix (create T/N/C/D, deploy 2 contracts, issue): one per asset category with the full product {issuer, holder, stranger} x {H2, self, accepting contract, reverting contract, 0x0, issuer} x {1, eq, 0, eq+1, -1, -eq, 2^256} plus all issue/replenish/modify variants in the first level(s) and a 36-38 event core alphabet below, and a mixed scenario (two assets, asset ids used across assets); state = supplies + freeze flags + every equity record (asset code, amount) and send permission of 7 accounts x all asset ids; distinct outcome = (kind, category, sender, recipient kind, packaged/discarded, amount class, effect)"
	r.Assume = []string{
		"single-deputy chain: every accepted block is stable at once (asset transactions consult the stable account of the issuer / sender)",
		"the harness waits for the store's asynchronous asset-code index before the first asset event (a barrier, not an oracle)",
		"holders are the 7 accounts of the alphabet; asset ids are the prefix ids, ids created by issue events and one never-issued id",
		"balances (gas) are not part of the state key: no account can run out of LEMO within the depth bound",
	}
	bfsDepth := maxDepth
	if mixedDepth > bfsDepth {
		bfsDepth = mixedDepth
	}
	cdir := core.ScratchDir("c12cnt")
	defer os.RemoveAll(cdir)
	os.Setenv("C12_COUNTERS", cdir)
	core.BFS(r, core.BFSConfig{Prop: prop, Run: safe, MaxDepth: bfsDepth + 1, Subprocess: true, RecycleEvery: 3000, PerRunLimit: 120 * time.Second})
	total := map[string]int64{}
	files, _ := filepath.Glob(filepath.Join(cdir, "*.json"))
	sort.Strings(files)
	for _, f := range files {
		b, err := os.ReadFile(f)
		if err != nil {
			continue
		}
		m := map[string]int64{}
		if json.Unmarshal(b, &m) == nil {
			for k, v := range m {
				total[k] += v
			}
		}
	}
	os.RemoveAll(cdir)
	r.Extra["effects"] = total
	r.Extra["events_after_prefix"] = map[string]int{"T": maxDepth, "N": maxDepth, "C": maxDepth, "X(mixed)": mixedDepth}
	r.Extra["full_alphabet_levels"] = fullUntil
	r.Extra["alphabet_sizes"] = map[string]int{"T.full": len(fullAlphabet("T")), "N.full": len(fullAlphabet("N")), "C.full": len(fullAlphabet("C")), "T.core": len(coreAlphabet("T")), "N.core": len(coreAlphabet("N")), "C.core": len(coreAlphabet("C")), "mixed": len(mixedAlphabet)}
	n := 0
	for t := range r.Distinct {
		if strings.HasPrefix(t, "c01/") {
			n++
		}
	}
	if total["honest_block_node-rejected"]+total["honest_block_node-not-stable"] > 0 {
		r.Note("the node under test refused %d honestly built blocks and left %d unstable (block-validation findings, not counted against C12)", total["honest_block_node-rejected"], total["honest_block_node-not-stable"])
	}
	for _, k := range []string{"transfers_moved_equity", "burns_effective", "replenishes_effective", "issues_effective", "freezes_effective", "transfers_blocked_by_freeze"} {
		if total[k] == 0 && r.Exhaustive {
			r.Violate(prop+"/vacuous/"+k, "no explored transition had this effect: the exploration says nothing about it", nil)
		}
	}
	core.Finish(r)
}

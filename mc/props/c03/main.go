// C03 — finality: stable needs 2/3 distinct deputies, only moves forward, never forks.
//
// Engine E2 (BFS over event histories) on a real node (chain.BlockChain with the real DPoVP engine
// over a real ChainDatabase). A block tree above genesis is pre-mined by the block factory; events
// deliver its blocks (bare or carrying confirms) and confirmation packets built from a token set
// that contains valid, duplicate, re-encoded, outsider and wrong-block signatures, in every order
// up to the depth bound. The engine's own background goroutines are gated tasks released as events.
package main

import (
	"bytes"
	"fmt"
	"os"
	"sort"
	"strings"

	"verifmc/core"
	"verifmc/node"
	"verifmc/vtask"

	"github.com/LemoFoundationLtd/lemochain-core/chain/types"
	"github.com/LemoFoundationLtd/lemochain-core/common"
	"github.com/LemoFoundationLtd/lemochain-core/common/rlp"
)

const prop = "C03"

type scenario struct {
	n      int      // deputies
	self   string   // "obs" (observer) or "d<i>" (the node is deputy i)
	blocks []string // names in creation order
	parent map[string]string
	miner  map[string]int
	focus  int // > 0: reduced alphabet (blocks bare / with one valid confirm, one valid confirm packet per block) explored focus levels deeper
}

var scenarios = map[string]*scenario{}

func defScenario(name string, n int, self string, spec ...string) {
	s := &scenario{n: n, self: self, parent: map[string]string{}, miner: map[string]int{}}
	for _, e := range spec { // "a2<a1@1" : block a2 on parent a1 mined by deputy 1
		var b, p string
		var m int
		lt, at := strings.Index(e, "<"), strings.Index(e, "@")
		b, p = e[:lt], e[lt+1:at]
		fmt.Sscanf(e[at+1:], "%d", &m)
		s.blocks = append(s.blocks, b)
		s.parent[b] = p
		s.miner[b] = m
	}
	scenarios[name] = s
}

func init() {
	// chain of 3
	defScenario("n3-chain-obs", 3, "obs", "a1<g@0", "a2<a1@1", "a3<a2@2")
	// siblings at equal height on genesis, plus a child
	defScenario("n3-sib-obs", 3, "obs", "a1<g@0", "b1<g@1", "a2<a1@1")
	// fork 2+2
	defScenario("n3-fork-obs", 3, "obs", "a1<g@0", "a2<a1@1", "b1<g@1", "b2<b1@2")
	// the node itself is a deputy (it confirms what it receives)
	defScenario("n3-chain-d2", 3, "d2", "a1<g@0", "a2<a1@1", "b1<g@1")
	// 4 deputies: threshold 3
	defScenario("n4-chain-obs", 4, "obs", "a1<g@0", "a2<a1@1", "b1<g@1")
	// single deputy: every block is stable at once
	defScenario("n1-chain-obs", 1, "obs", "a1<g@0", "a2<a1@0")
	// a fork that branches off the MIDDLE of a path which becomes stable in one step (a block gets its
	// quorum before its parent does), with the longer branch on the fork: the head has to come back and
	// the fork has to go. Reduced alphabet, explored deeper.
	defScenario("n3-midfork-obs", 3, "obs", "a1<g@0", "a2<a1@1", "s1<a1@2", "s2<s1@0")
	scenarios["n3-midfork-obs"].focus = 1
	defScenario("n3-midfork-d2", 3, "d2", "a1<g@0", "a2<a1@1", "s1<a1@2", "s2<s1@0")
	scenarios["n3-midfork-d2"].focus = 1
}

// built holds the pre-mined tree of one scenario (per worker process).
type built struct {
	sc     *scenario
	enc    map[string][]byte // block name -> RLP
	hash   map[string]common.Hash
	height map[string]uint32
}

var cache = map[string]*built{}

func build(name string) *built {
	if b, ok := cache[name]; ok {
		return b
	}
	sc := scenarios[name]
	dir := core.ScratchDir("c03f")
	f := node.NewFactory(dir, sc.n)
	defer f.Destroy()
	b := &built{sc: sc, enc: map[string][]byte{}, hash: map[string]common.Hash{}, height: map[string]uint32{}}
	blocks := map[string]*types.Block{"g": f.BC.Genesis()}
	for _, bn := range sc.blocks {
		parent := blocks[sc.parent[bn]]
		miner := node.Deputy(sc.miner[bn])
		t, ok := node.SlotTime(f.DM, parent, miner, sc.n)
		if !ok {
			panic("harness: no slot for " + bn)
		}
		blk, _, err := f.Make(node.BlockSpec{Parent: parent, Miner: miner, Time: t, Extra: bn})
		if err != nil {
			panic(fmt.Sprintf("harness: cannot build %s: %v", bn, err))
		}
		blocks[bn] = blk
		enc, err := rlp.EncodeToBytes(blk)
		if err != nil {
			panic(err)
		}
		b.enc[bn] = enc
		b.hash[bn] = blk.Hash()
		b.height[bn] = blk.Height()
	}
	vtask.Reset()
	cache[name] = b
	return b
}

func (b *built) block(name string) *types.Block {
	var out types.Block
	if err := rlp.DecodeBytes(b.enc[name], &out); err != nil {
		panic(err)
	}
	return &out
}

// token -> signature over block bn
func (b *built) sig(bn, tok string) types.SignData {
	h := b.hash[bn]
	var idx int
	switch tok[0] {
	case 'c': // valid confirm by deputy idx
		fmt.Sscanf(tok[1:], "%d", &idx)
		return node.SignConfirm(node.Deputy(idx), h)
	case 'r': // the other encoding (r, n-s, v^1) of deputy idx's signature
		fmt.Sscanf(tok[1:], "%d", &idx)
		s := node.SignConfirm(node.Deputy(idx), h)
		return types.BytesToSignData(node.ReencodeSig(s[:]))
	case 'f': // a second, different valid signature by deputy idx (another nonce)
		fmt.Sscanf(tok[1:], "%d", &idx)
		return types.BytesToSignData(node.SignWithNonce(node.Deputy(idx), h[:], 7))
	case 'x': // outsider
		return node.SignConfirm(node.K("outsider"), h)
	case 'w': // deputy idx signs some other hash
		fmt.Sscanf(tok[1:], "%d", &idx)
		return node.SignConfirm(node.Deputy(idx), common.HexToHash("0x1234"))
	}
	panic("bad token " + tok)
}

// events:
//   blk <name>                deliver the block as mined
//   blk <name> +<tok>         deliver it with one confirm attached in the body
//   cf <name> <tok>[,<tok>]   confirm packet for the block
//   task                      release the oldest gated background task of the engine
func (b *built) alphabet() []string {
	sc := b.sc
	var evs []string
	for _, bn := range sc.blocks {
		evs = append(evs, "blk "+bn)
	}
	if sc.focus > 0 {
		for _, bn := range sc.blocks {
			other := (sc.miner[bn] + 1) % sc.n
			evs = append(evs, fmt.Sprintf("blk %s +c%d", bn, other), fmt.Sprintf("cf %s c%d", bn, other))
		}
		return evs
	}
	// confirm tokens: every deputy's valid confirm, re-encodings of the miner's and of one other
	// deputy's signature, outsider, wrong-hash; a two-signature packet with a signature and its re-encoding
	for i, bn := range sc.blocks {
		m := sc.miner[bn]
		other := (m + 1) % sc.n
		for d := 0; d < sc.n; d++ {
			evs = append(evs, fmt.Sprintf("cf %s c%d", bn, d))
		}
		evs = append(evs, fmt.Sprintf("cf %s r%d", bn, m), fmt.Sprintf("cf %s f%d", bn, m))
		if sc.n > 1 {
			evs = append(evs, fmt.Sprintf("cf %s f%d", bn, other))
			evs = append(evs, fmt.Sprintf("cf %s r%d", bn, other))
			evs = append(evs, fmt.Sprintf("cf %s c%d,r%d", bn, other, other))
		}
		if i == 0 {
			evs = append(evs, fmt.Sprintf("cf %s x", bn), fmt.Sprintf("cf %s w%d", bn, other))
			evs = append(evs, fmt.Sprintf("blk %s +c%d", bn, other), fmt.Sprintf("blk %s +r%d", bn, m))
		}
	}
	return evs
}

type obs struct {
	stable, head common.Hash
	stableH      uint32
	byHeight     []common.Hash // canonical hashes 0..stable
}

func observe(n *node.Node) obs {
	s := n.BC.StableBlock()
	o := obs{stable: s.Hash(), head: n.BC.CurrentBlock().Hash(), stableH: s.Height()}
	for h := uint32(0); h <= s.Height(); h++ {
		b, err := n.DB.GetBlockByHeight(h)
		if err != nil {
			o.byHeight = append(o.byHeight, common.Hash{})
		} else {
			o.byHeight = append(o.byHeight, b.Hash())
		}
	}
	return o
}

func run(hist []string) core.Outcome {
	if len(hist) == 0 {
		en := make([]string, 0)
		for k := range scenarios {
			en = append(en, k)
		}
		sort.Strings(en)
		return core.Outcome{Key: "root", Enabled: en}
	}
	b := build(hist[0])
	sc := b.sc
	evs := hist[1:]
	var o core.Outcome
	viol := func(fp, what string) {
		o.Violations = append(o.Violations, core.Violation{Fingerprint: prop + "/" + fp, What: what, Replay: map[string]interface{}{"history": hist}})
	}

	vtask.Reset()
	vtask.SetPolicy(vtask.Gated, "runFeedTranspondLoop", vtask.Drop)
	self := node.K("observer")
	if sc.self != "obs" {
		var i int
		fmt.Sscanf(sc.self[1:], "%d", &i)
		self = node.Deputy(i)
	}
	dir := core.ScratchDir("c03")
	n := node.NewNode(dir, sc.n, self)
	defer func() {
		vtask.Reset()
		n.Destroy()
	}()

	prev := observe(n)
	var results []string
	for _, e := range evs {
		f := strings.Fields(e)
		res := ""
		switch f[0] {
		case "blk":
			blk := b.block(f[1])
			if len(f) > 2 {
				blk.Confirms = append(blk.Confirms, b.sig(f[1], f[2][1:]))
			}
			if err := n.BC.InsertBlock(blk); err != nil {
				res = err.Error()
			}
		case "cf":
			var sigs []types.SignData
			for _, t := range strings.Split(f[2], ",") {
				sigs = append(sigs, b.sig(f[1], t))
			}
			n.BC.InsertConfirms(b.height[f[1]], b.hash[f[1]], sigs)
		case "task":
			if len(vtask.Pending()) == 0 {
				return core.Outcome{Nondet: fmt.Sprintf("no pending task at %q although the parent state had one", e)}
			}
			vtask.Run(0)
		}
		results = append(results, res)
		cur := observe(n)
		// I2: stable height never decreases; the new stable block is a descendant of the previous one
		if cur.stableH < prev.stableH {
			viol("stable-height-decreased", fmt.Sprintf("stable height %d -> %d after %v", prev.stableH, cur.stableH, evs))
		} else if cur.byHeight[prev.stableH] != prev.stable {
			viol("stable-not-descendant", fmt.Sprintf("new stable block does not descend from the previous one after %v", evs))
		}
		// I3: blocks at heights <= stable never change
		for h := range prev.byHeight {
			if cur.byHeight[h] != prev.byHeight[h] {
				viol("stable-block-replaced", fmt.Sprintf("block at stable height %d changed after %v", h, evs))
			}
		}
		prev = cur
	}

	// I1 on the block the stable pointer is at
	stable := n.BC.StableBlock()
	if stable.Height() > 0 {
		need := (2*sc.n + 2) / 3 // ceil(2n/3)
		ids := map[string]bool{}
		bad := ""
		hash := stable.Hash()
		if id, err := stable.SignerNodeID(); err == nil {
			ids[string(id)] = true
		} else {
			bad = "header signature does not recover"
		}
		for _, c := range stable.Confirms {
			id, err := c.RecoverNodeID(hash)
			if err != nil {
				bad = "a stored confirm does not recover"
				continue
			}
			ids[string(id)] = true
		}
		deputies := 0
		for id := range ids {
			isDep := false
			for i := 0; i < sc.n; i++ {
				if bytes.Equal([]byte(id), node.Deputy(i).NodeID) {
					isDep = true
				}
			}
			if isDep {
				deputies++
			}
		}
		if deputies < need {
			// classify by cause: is the shortfall explained by one node counted more than once
			// (several stored signatures recovering to the same node id), by counted non-deputies, or is
			// the stored signature count itself below the threshold?
			stored := len(stable.Confirms) + 1
			minerID, _ := stable.SignerNodeID()
			count := map[string]int{}
			count[string(minerID)]++
			for _, c := range stable.Confirms {
				if id, err := c.RecoverNodeID(hash); err == nil {
					count[string(id)]++
				}
			}
			cause := "below-threshold"
			if stored >= need {
				cause = "non-deputy-or-invalid-signature-counted"
				for id, k := range count {
					if k > 1 {
						if id == string(minerID) {
							cause = "miner-counted-twice(header signature re-encoded as confirm)"
						} else if !strings.HasPrefix(cause, "miner") {
							cause = "deputy-counted-twice(confirm signature re-encoded)"
						}
					}
				}
			}
			viol("stable-without-quorum/"+cause,
				fmt.Sprintf("n=%d: block %s became stable with %d distinct deputy signer(s) (header + %d stored confirms), %d needed; history %v %s", sc.n, hash.Prefix(), deputies, len(stable.Confirms), need, evs, bad))
		}
		o.Tags = append(o.Tags, fmt.Sprintf("stable@%d/signers=%d", stable.Height(), deputies))
	}
	// I4: the head is the stable block or a descendant of it
	head := n.BC.CurrentBlock()
	cur := head
	for cur != nil && cur.Height() > stable.Height() {
		p, err := n.DB.GetBlockByHash(cur.ParentHash())
		if err != nil {
			cur = nil
			break
		}
		cur = p
	}
	if cur == nil || cur.Hash() != stable.Hash() {
		viol("head-not-on-stable", fmt.Sprintf("head %s(h=%d) does not descend from stable %s(h=%d) after %v", head.Hash().Prefix(), head.Height(), stable.Hash().Prefix(), stable.Height(), evs))
	}

	// canonical key: stable, head, stored blocks with their sorted confirm lists, pending tasks
	var kb strings.Builder
	fmt.Fprintf(&kb, "%s|s=%x|h=%x|", hist[0], stable.Hash().Bytes()[:6], head.Hash().Bytes()[:6])
	for _, bn := range sc.blocks {
		blk, err := n.DB.GetBlockByHash(b.hash[bn])
		if err != nil {
			continue
		}
		cs := make([]string, 0)
		for _, c := range blk.Confirms {
			cs = append(cs, fmt.Sprintf("%x", c[:8]))
		}
		sort.Strings(cs)
		fmt.Fprintf(&kb, "%s[%s]", bn, strings.Join(cs, ","))
	}
	pend := vtask.Pending()
	fmt.Fprintf(&kb, "|tasks=%d", len(pend))
	for _, p := range pend {
		kb.WriteString(";" + p[strings.LastIndex(p, ":")+1:])
	}
	o.Key = core.Hash(kb.String())
	o.Tags = append(o.Tags, fmt.Sprintf("%s/s=%d/h=%d", hist[0], stable.Height(), head.Height()))

	if len(evs) < maxDepth+sc.focus {
		o.Enabled = append(o.Enabled, b.alphabet()...)
		if len(pend) > 0 {
			o.Enabled = append(o.Enabled, "task")
		}
	}
	return o
}

var maxDepth = 4

func main() {
	core.ParseFlags()
	node.Quiet()
	if core.Thorough() {
		maxDepth = 5
	}
	safe := core.SafeRun(prop, run)
	if core.Opt.Replay != "" {
		var rp struct {
			History []string `json:"history"`
		}
		if err := core.LoadReplay(core.Opt.Replay, &rp); err != nil {
			fmt.Println(err)
			os.Exit(2)
		}
		o := safe(rp.History)
		fmt.Printf("replay %v\n", rp.History)
		for _, v := range o.Violations {
			fmt.Printf("VIOLATION-REPLAYED %s\n%s\n", v.Fingerprint, v.What)
		}
		if len(o.Violations) > 0 {
			os.Exit(1)
		}
		return
	}
	core.ServeIfWorker(safe)
	r := core.NewResult(prop, "model_checking")
	r.Rule = "BFS over delivery histories (blocks of a pre-mined tree, bare or carrying confirms; confirm packets from the token set valid/duplicate/re-encoded/outsider/wrong-hash/two-signature; gated engine tasks) on a real node, 6 scenarios (1,3,4 deputies; chain, siblings, fork; observer and deputy node) plus 2 scenarios with a reduced alphabet explored one level deeper (a fork off the middle of a path that becomes stable in one step, head on the fork); state = (stable, head, stored blocks with sorted confirm lists, pending tasks); distinct outcome = (scenario, stable height, head height, signer count)"
	r.Assume = []string{"gated background tasks are released oldest-first (their position among message events is arbitrary)", "block tree and token set as listed in the rule; depth bound in coverage.depth_bound"}
	core.BFS(r, core.BFSConfig{Prop: prop, Run: safe, MaxDepth: maxDepth + 2, Subprocess: true, RecycleEvery: 3000, PerRunLimit: 120e9})
	core.Finish(r)
}

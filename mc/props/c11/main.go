// C11 — vote tally: at the end of every block each registered candidate's votes equal
// floor(deposit/100 LEMO) + sum over the accounts currently voting for it of floor(balance/200 LEMO);
// an unregistered candidate has zero votes; no vote count is negative.
//
// Engine E2 (BFS over event histories) on real nodes, single-deputy chain. One event = one BLOCK =
// an ordered list of transactions from the alphabet below, built by the block factory (the real
// BlockAssembler.MineBlock: ApplyTxs + Finalize/ChangeVotesByBalance + Seal) on the head of the node
// under test O (observer key) and delivered with O.BC.InsertBlock (real validator: Process +
// Finalize + root comparison). Prefix (not counted): one block that funds the accounts and
// registers candidate C1.
//
// Oracle, after every block O accepted, recomputed from O's own account state at the new head over
// ALL accounts the history ever touched (fixed fixture accounts + every address named in a change
// log): the statement's equation for every registered candidate (including the genesis deputy d0,
// deposit 0), zero for unregistered/never-registered accounts, no negative count. "Re-voting moves
// exactly the voter's weight" is the equation holding for the old and the new candidate at the end
// of the block that re-votes.
// Also violations: the assembler cannot produce the block (error / panic / process exit), and O
// refusing a block the factory built honestly.
package main

import (
	"fmt"
	"math/big"
	"os"
	"sort"
	"strings"
	"time"

	"verifmc/core"
	"verifmc/node"

	"github.com/LemoFoundationLtd/lemochain-core/chain/account"
	"github.com/LemoFoundationLtd/lemochain-core/chain/params"
	"github.com/LemoFoundationLtd/lemochain-core/chain/types"
	"github.com/LemoFoundationLtd/lemochain-core/common"
	"github.com/LemoFoundationLtd/lemochain-core/store"
)

const prop = "C11"

// ---------------------------------------------------------------------------------------------
// fixture accounts

var (
	kV  = node.User(0)   // voter, 1090 LEMO (5 balance votes; a fee alone does not cross a step)
	kW  = node.User(1)   // second voter, 700 LEMO (3 balance votes)
	kX  = node.User(2)   // counterparty of V's transfers, 2000 LEMO, never votes
	kC1 = node.K("c1")   // candidate registered in the prefix with deposit = MinCandidateDeposit
	kC2 = node.K("c2")   // prospective candidate (registered by an alphabet tx)
	kC3 = node.K("c3")   // phase R only: funded, registers for the first time inside boxes that are undone
	kD0 = node.Deputy(0) // genesis deputy: registered candidate with deposit 0 and 0 votes
)

var roleOf = map[common.Address]string{}

func init() {
	roleOf[kV.Addr] = "V"
	roleOf[kW.Addr] = "W"
	roleOf[kX.Addr] = "X"
	roleOf[kC1.Addr] = "C1"
	roleOf[kC2.Addr] = "C2"
	roleOf[kD0.Addr] = "D0"
	roleOf[node.Founder().Addr] = "founder"
	roleOf[node.K("income0").Addr] = "income0"
	roleOf[params.DepositPoolAddress] = "pool"
}

func role(a common.Address) string {
	if (a == common.Address{}) {
		return "-"
	}
	if r, ok := roleOf[a]; ok {
		return r
	}
	if r, ok := tRoleOf[a]; ok { // accounts that only phase T (term.go) has
		return r
	}
	return "addr:" + a.Hex()[2:10]
}

var keyByRole = map[string]*node.Key{"V": kV, "W": kW, "X": kX, "C1": kC1, "C2": kC2, "D0": kD0}

const expBase = uint64(node.GenesisTime) + 900 // every block time is GenesisTime+10..+60

// txDef is one letter of the alphabet.
type txDef struct {
	name string
	kind string // cause-level kind (no amounts): used in tags and fingerprints
	from string // role of the sender
	to   string // role of the account whose balance is also changed ("" = none/pool)
	mk   func(exp uint64) *types.Transaction
}

var alphabet = map[string]*txDef{}
var alphaOrder []string

func def(name, kind, from, to string, mk func(exp uint64) *types.Transaction) {
	alphabet[name] = &txDef{name, kind, from, to, mk}
	alphaOrder = append(alphaOrder, name)
}

func profile(k *node.Key, isCandidate string) map[string]string {
	p := node.CandidateProfile(k, "7100")
	p[types.CandidateKeyIsCandidate] = isCandidate
	return p
}

// selfdestructTo is init code "PUSH20 <addr> SELFDESTRUCT": a contract creation carrying value whose
// constructor hands the value on to addr (a contract-to-account value flow).
func selfdestructTo(a common.Address) []byte {
	return append(append([]byte{0x73}, a.Bytes()...), 0xff)
}

func init() {
	xfer := func(from, to *node.Key, lemo int64) func(uint64) *types.Transaction {
		return func(exp uint64) *types.Transaction { return node.Transfer(from, to.Addr, node.Lemo(lemo), exp) }
	}
	vote := func(from, to *node.Key) func(uint64) *types.Transaction {
		return func(exp uint64) *types.Transaction { return node.Vote(from, to.Addr, exp) }
	}
	reg := func(k *node.Key, amount *big.Int, isCand string) func(uint64) *types.Transaction {
		return func(exp uint64) *types.Transaction { return node.Register(k, amount, profile(k, isCand), exp) }
	}
	flow := func(from, to *node.Key, lemo int64) func(uint64) *types.Transaction {
		return func(exp uint64) *types.Transaction {
			return node.Tx(node.TxSpec{Type: params.CreateContractTx, From: from, Amount: node.Lemo(lemo), Data: selfdestructTo(to.Addr), Exp: exp})
		}
	}
	min := params.MinCandidateDeposit
	def("tVX500", "transfer-from-voter", "V", "X", xfer(kV, kX, 500))
	def("tXV500", "transfer-to-voter", "X", "V", xfer(kX, kV, 500))
	def("tVX150", "transfer-from-voter", "V", "X", xfer(kV, kX, 150))
	def("tXV150", "transfer-to-voter", "X", "V", xfer(kX, kV, 150))
	def("vVC1", "vote", "V", "", vote(kV, kC1))
	def("vVC2", "vote", "V", "", vote(kV, kC2))
	def("vWC1", "vote", "W", "", vote(kW, kC1))
	def("vVD0", "vote", "V", "", vote(kV, kD0))
	def("rC2", "register", "C2", "", reg(kC2, min, "true"))
	def("rC2+150", "register", "C2", "", reg(kC2, new(big.Int).Add(min, node.Lemo(150)), "true"))
	def("uC1+50", "deposit-top-up", "C1", "", reg(kC1, node.Lemo(50), "true"))
	def("uC1+100", "deposit-top-up", "C1", "", reg(kC1, node.Lemo(100), "true"))
	def("xC1", "unregister", "C1", "", reg(kC1, new(big.Int), "false"))
	// a candidate account that itself votes (its balance, incl. a refunded deposit, is voting weight)
	def("vC1C2", "vote", "C1", "", vote(kC1, kC2))
	def("vC2C1", "vote", "C2", "", vote(kC2, kC1))
	def("vC1C1", "vote", "C1", "", vote(kC1, kC1))
	// contract value flows: V's value leaves through a contract creation / arrives from a self-destruct
	def("kVX500", "contract-flow-from-voter", "V", "X", flow(kV, kX, 500))
	def("kXV500", "contract-flow-to-voter", "X", "V", flow(kX, kV, 500))
}

// bounds of one scenario (the first element of every history names the scenario)
type bounds struct {
	alpha       []string
	maxPerBlock int
	maxBlocks   int
	maxTxs      int // cap on the total number of transactions of a history
}

var base = []string{"tVX500", "tXV500", "tVX150", "vVC1", "vVC2", "vWC1", "vVD0", "rC2+150", "uC1+50", "xC1", "kXV500"}

var scenarios = map[string]bounds{
	// quick tier: every block of <= 2 txs, every history of <= 2 such blocks
	"quick": {alpha: base, maxPerBlock: 2, maxBlocks: 2, maxTxs: 4},
	// thorough tier, deep: the same alphabet, blocks of <= 3 txs, <= 3 blocks, <= 4 txs in total
	"deep": {alpha: base, maxPerBlock: 3, maxBlocks: 3, maxTxs: 4},
	// thorough tier, wide: the whole alphabet, blocks of <= 3 txs, <= 3 blocks, <= 3 txs in total
	"wide": {alpha: append(append([]string{}, base...), "tXV150", "rC2", "uC1+100", "vC1C2", "vC2C1", "vC1C1", "kVX500"), maxPerBlock: 3, maxBlocks: 3, maxTxs: 3},
}

func tierScenarios() []string {
	var l []string
	only := os.Getenv("C11_ONLY") // development aid: "1" = the first phase, "R" = phase R, "T" = phase T
	if only == "" || only == "1" {
		if core.Thorough() {
			l = append(l, "deep", "wide")
		} else {
			l = append(l, "quick")
		}
	}
	if only == "" || only == "R" {
		l = append(l, rScenarioNames()...) // phase R (rollback.go)
	}
	return l
}

var B bounds

// blocksUpTo lists all ordered tx lists of 1..n letters, shortest first, alphabet order.
func blocksUpTo(n int) []string {
	var out []string
	level := []string{""}
	for l := 1; l <= n; l++ {
		var next []string
		for _, p := range level {
			for _, a := range B.alpha {
				if p == "" {
					next = append(next, a)
				} else {
					next = append(next, p+","+a)
				}
			}
		}
		out = append(out, next...)
		level = next
	}
	return out
}

// ---------------------------------------------------------------------------------------------
// world

type world struct {
	f     *node.Factory
	o     *node.Node
	head  *types.Block // the factory's object of O's head
	addrs map[common.Address]bool
	pos   int
}

func newWorld() *world {
	w := &world{addrs: map[common.Address]bool{}}
	for a := range roleOf {
		w.addrs[a] = true
	}
	w.f = node.NewFactory(core.ScratchDir("c11f"), 1)
	w.o = node.NewNode(core.ScratchDir("c11o"), 1, node.K("observer"))
	w.head = w.f.BC.Genesis()
	return w
}

func (w *world) close() {
	w.o.Destroy()
	w.f.Destroy()
}

func prefixTxs() types.Transactions {
	min := params.MinCandidateDeposit
	fo := node.Founder()
	e := expBase - 100
	return types.Transactions{
		node.Transfer(fo, kV.Addr, node.Lemo(1090), e),
		node.Transfer(fo, kW.Addr, node.Lemo(700), e+1),
		node.Transfer(fo, kX.Addr, node.Lemo(2000), e+2),
		node.Transfer(fo, kC1.Addr, new(big.Int).Add(min, node.Lemo(1000)), e+3),
		node.Transfer(fo, kC2.Addr, new(big.Int).Add(min, node.Lemo(1000)), e+4),
		node.Register(kC1, min, profile(kC1, "true"), e+5),
	}
}

type blockResult struct {
	status  string // accepted | discarded | not-producible | rejected
	detail  string
	block   *types.Block
	invalid int
}

// deliver builds a block with txs on O's head and hands it to O.
func (w *world) deliver(txs types.Transactions, extra string) (res blockResult) {
	var b *types.Block
	var inv types.Transactions
	var err error
	func() {
		defer func() {
			if p := recover(); p != nil {
				err = fmt.Errorf("panic: %v", p)
			}
		}()
		b, inv, err = w.f.Make(node.BlockSpec{Parent: w.head, Miner: kD0, Time: w.head.Time() + 10, Txs: txs, Extra: extra})
	}()
	if err != nil {
		return blockResult{status: "not-producible", detail: err.Error(), invalid: len(inv)}
	}
	if len(inv) > 0 || len(b.Txs) != len(txs) {
		return blockResult{status: "discarded", block: b, invalid: len(inv)}
	}
	var wire *types.Block
	func() {
		defer func() {
			if p := recover(); p != nil {
				err = fmt.Errorf("panic: %v", p)
			}
		}()
		wire = node.Wire(b)
	}()
	if err != nil {
		// the assembler returned a block (a miner would adopt it as its head) that cannot be RLP-encoded
		return blockResult{status: "not-encodable", detail: err.Error(), block: b}
	}
	w.o.Use()
	func() {
		defer func() {
			if p := recover(); p != nil {
				err = fmt.Errorf("panic in validator: %v", p)
			}
		}()
		err = w.o.BC.InsertBlock(wire)
	}()
	if err != nil {
		return blockResult{status: "rejected", detail: err.Error(), block: b}
	}
	if w.o.BC.CurrentBlock().Hash() != b.Hash() {
		return blockResult{status: "rejected", detail: "accepted but not the new head", block: b}
	}
	for _, l := range b.ChangeLogs {
		w.addrs[l.Address] = true
	}
	w.head = b
	return blockResult{status: "accepted", block: b}
}

// ---------------------------------------------------------------------------------------------
// state and oracle

type acct struct {
	addr    common.Address
	bal     *big.Int
	votes   *big.Int
	voteFor common.Address
	isCand  string
	deposit string
}

func (w *world) sortedAddrs() []common.Address {
	l := make(common.AddressSlice, 0, len(w.addrs))
	for a := range w.addrs {
		l = append(l, a)
	}
	sort.Sort(l)
	return l
}

// state reads every known account through O's database at block hash.
func (w *world) state(hash common.Hash) []acct { return w.stateOf(w.o.DB, hash) }

func (w *world) stateOf(db *store.ChainDatabase, hash common.Hash) []acct {
	am := account.NewManager(hash, db)
	var out []acct
	for _, a := range w.sortedAddrs() {
		acc := am.GetAccount(a)
		v := acc.GetVotes()
		if v == nil {
			v = new(big.Int)
		}
		out = append(out, acct{addr: a, bal: new(big.Int).Set(acc.GetBalance()), votes: new(big.Int).Set(v), voteFor: acc.GetVoteFor(),
			isCand: acc.GetCandidateState(types.CandidateKeyIsCandidate), deposit: acc.GetCandidateState(types.CandidateKeyDepositAmount)})
	}
	return out
}

func weight(bal *big.Int) *big.Int { return new(big.Int).Div(bal, params.VoteExchangeRate) }

type mismatch struct {
	class string // negative | registered-tally | unregistered-nonzero | non-candidate-nonzero
	who   string
	got   *big.Int
	want  *big.Int
	how   string
}

// tally evaluates the statement on a state.
func tally(st []acct) []mismatch {
	var out []mismatch
	for _, c := range st {
		if c.votes.Sign() < 0 {
			out = append(out, mismatch{"negative", role(c.addr), c.votes, nil, "vote count is negative"})
		}
		switch c.isCand {
		case types.IsCandidateNode:
			dep := new(big.Int)
			if c.deposit != "" {
				if _, ok := dep.SetString(c.deposit, 10); !ok {
					out = append(out, mismatch{"registered-tally", role(c.addr), c.votes, nil, "deposit not a number: " + c.deposit})
					continue
				}
			}
			want := new(big.Int).Div(dep, params.DepositExchangeRate)
			var parts []string
			parts = append(parts, fmt.Sprintf("deposit %s mo -> %s", dep, want))
			for _, a := range st {
				if a.voteFor == c.addr {
					wv := weight(a.bal)
					want.Add(want, wv)
					parts = append(parts, fmt.Sprintf("%s bal %s mo -> %s", role(a.addr), a.bal, wv))
				}
			}
			if want.Cmp(c.votes) != 0 {
				out = append(out, mismatch{"registered-tally", role(c.addr), c.votes, want, strings.Join(parts, "; ")})
			}
		case types.NotCandidateNode:
			if c.votes.Sign() != 0 {
				out = append(out, mismatch{"unregistered-nonzero", role(c.addr), c.votes, new(big.Int), "unregistered candidate keeps votes"})
			}
		case "":
			if c.votes.Sign() != 0 {
				out = append(out, mismatch{"non-candidate-nonzero", role(c.addr), c.votes, new(big.Int), "account that never registered has votes"})
			}
		default:
			// isCandidate holds something that is neither "true" nor "false" (phase R's letters rC3maybe /
			// pC1maybe; the code stores whatever a register transaction says). The statement does not say
			// whether such an account is registered: either reading is accepted, a violation is a count that
			// is neither 0 nor what the equation gives
			if c.votes.Sign() != 0 {
				dep := new(big.Int)
				dep.SetString(c.deposit, 10)
				want := new(big.Int).Div(dep, params.DepositExchangeRate)
				parts := []string{fmt.Sprintf("isCandidate=%q; deposit %s mo -> %s", c.isCand, dep, want)}
				for _, a := range st {
					if a.voteFor == c.addr {
						wv := weight(a.bal)
						want.Add(want, wv)
						parts = append(parts, fmt.Sprintf("%s bal %s mo -> %s", role(a.addr), a.bal, wv))
					}
				}
				if want.Cmp(c.votes) != 0 {
					out = append(out, mismatch{"undefined-candidate-state-tally", role(c.addr), c.votes, want, "neither 0 nor the equation: " + strings.Join(parts, "; ")})
				}
			}
		}
	}
	return out
}

func stateKey(st []acct) string {
	// accounts outside the fixture (contracts created by the history) are not named by any letter of
	// the alphabet: they enter the key by content only, so that their hash-derived addresses do not
	// split otherwise equal states
	l := make([]string, 0, len(st))
	for _, a := range st {
		name := role(a.addr)
		if _, ok := roleOf[a.addr]; !ok {
			name = "dyn"
		}
		l = append(l, fmt.Sprintf("%s:%s/%s/%s/%s/%s", name, a.bal, a.votes, role(a.voteFor), a.isCand, a.deposit))
	}
	sort.Strings(l)
	return strings.Join(l, "|")
}

// ---------------------------------------------------------------------------------------------
// cause classification (on the transactions of the failing block)

// voteAfterBalanceChange: the block holds a vote tx by s that is preceded, in the same block, by a
// transaction that changed s's balance (s sent something / paid a fee, or s received value).
func voteAfterBalanceChange(names []string) bool {
	touched := map[string]bool{}
	for _, n := range names {
		d := alphabet[n]
		if d.kind == "vote" && touched[d.from] {
			return true
		}
		touched[d.from] = true
		if d.to != "" {
			touched[d.to] = true
		}
		if d.kind == "unregister" {
			touched[d.from] = true // refund
		}
	}
	return false
}

func kinds(names []string) string {
	l := make([]string, len(names))
	for i, n := range names {
		d := alphabet[n]
		l[i] = d.kind + "(" + d.from + ")"
		if d.kind == "vote" {
			l[i] = "vote(" + d.from + "->" + n[len(n)-2:] + ")"
		}
	}
	return strings.Join(l, ",")
}

func histShape(hist []string) string {
	l := make([]string, len(hist))
	for i, ev := range hist {
		l[i] = "[" + kinds(strings.Split(ev, ",")) + "]"
	}
	return strings.Join(l, "")
}

func classify(hist []string, mm []mismatch) string {
	last := strings.Split(hist[len(hist)-1], ",")
	classes := map[string]bool{}
	for _, m := range mm {
		classes[m.class] = true
	}
	cl := make([]string, 0)
	for c := range classes {
		cl = append(cl, c)
	}
	sort.Strings(cl)
	if voteAfterBalanceChange(last) {
		return "tally-mismatch/vote-tx-after-balance-change-of-the-voter-in-the-same-block/" + strings.Join(cl, "+")
	}
	return "tally-mismatch/" + strings.Join(cl, "+") + "/" + histShape(hist)
}

// ---------------------------------------------------------------------------------------------
// run

func fmtMismatches(mm []mismatch) string {
	l := make([]string, len(mm))
	for i, m := range mm {
		if m.want != nil {
			l[i] = fmt.Sprintf("%s: votes=%s, statement gives %s (%s)", m.who, m.got, m.want, m.how)
		} else {
			l[i] = fmt.Sprintf("%s: votes=%s (%s)", m.who, m.got, m.how)
		}
	}
	return strings.Join(l, " || ")
}

var verbose bool

// lenient: the history does not come from the BFS frontier (replay / shrinking), so a block in the
// middle may fail or lose a transaction; the run then ends there
var lenient bool

func txsUsed(hist []string) int {
	n := 0
	for _, ev := range hist {
		n += len(strings.Split(ev, ","))
	}
	return n
}

func run(full []string) core.Outcome {
	if len(full) == 0 {
		return core.Outcome{Key: "root", Enabled: tierScenarios()}
	}
	if isRScenario(full[0]) {
		return runR(full)
	}
	var ok bool
	if B, ok = scenarios[full[0]]; !ok {
		panic("harness: unknown scenario " + full[0])
	}
	hist := full[1:]
	w := newWorld()
	defer w.close()
	var o core.Outcome
	viol := func(fp, what string) {
		o.Violations = append(o.Violations, core.Violation{Fingerprint: prop + "/" + fp, What: what + fmt.Sprintf("; history (scenario, then the blocks after the funding block) %v", full), Replay: map[string]interface{}{"history": full}})
	}
	res := w.deliver(prefixTxs(), "prefix")
	if res.status != "accepted" {
		panic(fmt.Sprintf("harness: prefix block %s: %s (invalid=%d)", res.status, res.detail, res.invalid))
	}
	st := w.state(w.head.Hash())
	if mm := tally(st); len(mm) > 0 {
		viol("tally-mismatch/in-prefix(fund+register)", fmtMismatches(mm))
		return o
	}
	if verbose {
		fmt.Printf("after prefix:\n%s", dump(st))
	}
	for i, ev := range hist {
		names := strings.Split(ev, ",")
		txs := make(types.Transactions, len(names))
		for j, n := range names {
			d, ok := alphabet[n]
			if !ok {
				panic("harness: unknown tx " + n)
			}
			txs[j] = d.mk(expBase + uint64(i*8+j))
		}
		core.Journal(fmt.Sprintf("%v @%d", hist, i))
		prev := st
		res := w.deliver(txs, ev)
		last := i == len(hist)-1
		if verbose {
			fmt.Printf("block %d %s: %s %s\n", i+1, ev, res.status, res.detail)
		}
		switch res.status {
		case "discarded":
			// the assembler refused a transaction (e.g. vote for a non-candidate): the block that was
			// produced is a shorter list, explored under its own name
			if !last && !lenient {
				return core.Outcome{Nondet: fmt.Sprintf("block %d %q had a tx discarded although its parent state was expanded", i, ev)}
			}
			o.Tags = append(o.Tags, "discarded/"+kinds(names))
			return o
		case "not-producible":
			cause := res.detail
			if k := strings.Index(cause, "\n"); k >= 0 {
				cause = cause[:k]
			}
			viol("block-not-producible/"+cause+"/"+causeOfBlock(names), fmt.Sprintf("the assembler cannot produce block %d %q: %s", i+1, ev, res.detail))
			return o
		case "not-encodable":
			// read the state the miner adopted from the factory's own database
			fst := w.stateOf(w.f.DB, res.block.Hash())
			mm := tally(fst)
			neg := "no-negative-count-found"
			for _, m := range mm {
				if m.class == "negative" {
					neg = "negative-vote-count"
				}
			}
			if verbose {
				fmt.Printf("%s", dump(fst))
			}
			viol(neg+"(mined-block-not-RLP-encodable)/"+causeOfBlock(names), fmt.Sprintf("the assembler produced block %d %q which a miner adopts as head but which cannot be encoded for broadcast/storage (%s); state of that block: %s", i+1, ev, res.detail, fmtMismatches(mm)))
			return o
		case "rejected":
			viol("honest-block-rejected/"+causeOfBlock(names), fmt.Sprintf("O refused the honestly built block %d %q: %s", i+1, ev, res.detail))
			return o
		}
		st = w.state(w.head.Hash())
		if verbose {
			fmt.Printf("%s", dump(st))
		}
		if mm := tally(st); len(mm) > 0 {
			if !last && !lenient {
				return core.Outcome{Nondet: fmt.Sprintf("block %d %q violates although its state was expanded", i, ev)}
			}
			viol(classify(hist[:i+1], mm), fmt.Sprintf("after block %d %q: %s", i+1, ev, fmtMismatches(mm)))
			o.Tags = append(o.Tags, "mismatch/"+kinds(names))
			return o
		}
		if last {
			o.Tags = append(o.Tags, "ok/"+kinds(names)+"/"+effect(prev, st))
			o.Tags = append(o.Tags, hits(names, prev, st)...)
		}
	}
	used := txsUsed(hist)
	o.Key = core.Hash(fmt.Sprintf("%s|used=%d|%s", full[0], used, stateKey(st)))
	if len(hist) < B.maxBlocks {
		n := B.maxPerBlock
		if B.maxTxs-used < n {
			n = B.maxTxs - used
		}
		o.Enabled = blocksUpTo(n)
	}
	return o
}

func causeOfBlock(names []string) string {
	if voteAfterBalanceChange(names) {
		return "vote-tx-after-balance-change-of-the-voter-in-the-same-block"
	}
	return "[" + kinds(names) + "]"
}

// effect: which candidates' tallies moved in the block, and in which direction.
func effect(prev, cur []acct) string {
	pm := map[common.Address]acct{}
	for _, a := range prev {
		pm[a.addr] = a
	}
	var l []string
	for _, a := range cur {
		p, ok := pm[a.addr]
		if !ok {
			continue
		}
		switch a.votes.Cmp(p.votes) {
		case 1:
			l = append(l, role(a.addr)+"+")
		case -1:
			l = append(l, role(a.addr)+"-")
		}
	}
	return strings.Join(l, "")
}

// hits marks the mechanisms named in the property's anchors that this (accepted, correct) block exercised.
func hits(names []string, prev, cur []acct) []string {
	pm := map[common.Address]acct{}
	for _, a := range prev {
		pm[a.addr] = a
	}
	set := map[string]bool{}
	voted := map[string]bool{}
	for _, n := range names {
		d := alphabet[n]
		if d.kind == "vote" {
			voted[d.from] = true
		}
	}
	for _, a := range cur {
		p, ok := pm[a.addr]
		if !ok {
			continue
		}
		r := role(a.addr)
		zero := common.Address{}
		if a.voteFor != p.voteFor {
			if p.voteFor == zero {
				set["hit/first-vote"] = true
			} else {
				set["hit/re-vote"] = true
				if weight(a.bal).Sign() > 0 {
					set["hit/re-vote-with-nonzero-weight"] = true
				}
			}
			if weight(a.bal).Cmp(weight(p.bal)) != 0 {
				set["hit/vote-and-weight-change-in-one-block"] = true
			}
		} else if a.voteFor != zero && weight(a.bal).Cmp(weight(p.bal)) != 0 {
			set["hit/end-of-block-adjustment-for-standing-voter"] = true
			for _, c := range cur {
				if c.addr == a.voteFor && c.isCand != types.IsCandidateNode {
					set["hit/end-of-block-adjustment-skipped-for-unregistered-candidate"] = true
				}
			}
		}
		if p.isCand == "" && a.isCand == types.IsCandidateNode {
			set["hit/register"] = true
		}
		if p.isCand == types.IsCandidateNode && a.isCand == types.NotCandidateNode {
			set["hit/unregister"] = true
			if a.deposit == "" {
				set["hit/unregister-immediate-refund"] = true
			}
			if p.votes.Sign() > 0 {
				set["hit/unregister-zeroes-nonzero-votes"] = true
			}
		}
		if p.isCand == types.IsCandidateNode && a.isCand == types.IsCandidateNode && p.deposit != a.deposit {
			pd, _ := new(big.Int).SetString(p.deposit, 10)
			ad, _ := new(big.Int).SetString(a.deposit, 10)
			if pd != nil && ad != nil {
				if new(big.Int).Div(pd, params.DepositExchangeRate).Cmp(new(big.Int).Div(ad, params.DepositExchangeRate)) != 0 {
					set["hit/top-up-crossing-a-deposit-step"] = true
				} else {
					set["hit/top-up-inside-a-deposit-step"] = true
				}
			}
		}
		_ = r
	}
	l := make([]string, 0, len(set))
	for k := range set {
		l = append(l, k)
	}
	sort.Strings(l)
	return l
}

func dump(st []acct) string {
	var sb strings.Builder
	for _, a := range st {
		fmt.Fprintf(&sb, "   %-8s bal=%-28s votes=%-8s voteFor=%-8s isCandidate=%-5s deposit=%s\n", role(a.addr), a.bal, a.votes, role(a.voteFor), a.isCand, a.deposit)
	}
	return sb.String()
}

// ---------------------------------------------------------------------------------------------
// shrinking (tx granularity)

func flatten(hist []string) []string {
	var out []string
	for i, ev := range hist {
		for _, n := range strings.Split(ev, ",") {
			out = append(out, fmt.Sprintf("%d:%s", i, n))
		}
	}
	return out
}

func unflatten(flat []string) []string {
	var out []string
	cur := ""
	for _, f := range flat {
		k := strings.Index(f, ":")
		if f[:k] != cur || len(out) == 0 {
			out = append(out, f[k+1:])
			cur = f[:k]
		} else {
			out[len(out)-1] += "," + f[k+1:]
		}
	}
	return out
}

// family: the part of a fingerprint that has to survive shrinking (what fails, not the shape).
func family(fp string) string {
	p := strings.Split(fp, "/")
	if len(p) >= 3 && p[1] == "tally-mismatch" {
		return strings.Join(p[:2], "/")
	}
	if len(p) >= 2 {
		return strings.Join(p[:2], "/")
	}
	return fp
}

func shrinkViolation(safe core.RunFunc, v core.Violation) core.Violation {
	rp, ok := v.Replay.(map[string]interface{})
	if !ok {
		return v
	}
	var hist []string
	switch h := rp["history"].(type) {
	case []string:
		hist = h
	case []interface{}:
		for _, x := range h {
			hist = append(hist, fmt.Sprint(x))
		}
	}
	if len(hist) == 0 {
		return v
	}
	fam := family(v.Fingerprint)
	var lastHit core.Violation
	var scen string
	fails := func(flat []string) bool {
		if len(flat) == 0 {
			return false
		}
		o := safe(append([]string{scen}, unflatten(flat)...))
		for _, x := range o.Violations {
			if family(x.Fingerprint) == fam {
				lastHit = x
				return true
			}
		}
		return false
	}
	scen = hist[0]
	hist = hist[1:]
	if len(hist) == 0 {
		return v
	}
	lenient = true
	defer func() { lenient = false }()
	min := core.Shrink(flatten(hist), 0, nil, fails)
	if !fails(min) {
		return v
	}
	out := lastHit
	// the same case must give the same verdict every time
	for i := 0; i < 2; i++ {
		if !fails(min) || lastHit.Fingerprint != out.Fingerprint {
			out.What += " [NOT REPRODUCIBLE on re-run]"
			return out
		}
	}
	out.What += fmt.Sprintf(" [shrunk from %v; re-run twice: same verdict]", hist)
	return out
}

// ---------------------------------------------------------------------------------------------

func main() {
	core.ParseFlags()
	node.Quiet()
	node.DropEngineGoroutines() // see mc/node/tasks.go
	safe := core.SafeRun(prop, run)
	if devProbe(safe) {
		return
	}
	if core.Opt.Replay != "" {
		var tc termCase
		if err := core.LoadReplay(core.Opt.Replay, &tc); err == nil && len(tc.Hist) > 0 {
			// a history of phase T (term boundaries)
			if replayTerm(tc) > 0 {
				os.Exit(1)
			}
			return
		}
		var rp struct {
			History []string `json:"history"`
		}
		if err := core.LoadReplay(core.Opt.Replay, &rp); err != nil {
			fmt.Println(err)
			os.Exit(2)
		}
		verbose = true
		lenient = true
		o := safe(rp.History)
		fmt.Printf("replay %v\n", rp.History)
		for _, v := range o.Violations {
			fmt.Printf("VIOLATION-REPLAYED %s\n%s\n", v.Fingerprint, v.What)
		}
		if len(o.Violations) > 0 {
			os.Exit(1)
		}
		return
	}
	core.ServeIfWorker(safe)
	if i, n, ok := core.IsWorker(); ok {
		// a shard of phase T (term.go): it changes process-global parameters (term length), so it never
		// shares a process with the BFS workers of the other phases
		wr := core.NewResult(prop, "model_checking")
		runTermShard(i, n, wr)
		core.WorkerDone(wr)
	}
	r := core.NewResult(prop, "model_checking")
	maxBlocks := 0
	bnd := map[string]interface{}{}
	var desc []string
	for _, name := range tierScenarios() {
		if isRScenario(name) {
			if rMaxBlocks() > maxBlocks {
				maxBlocks = rMaxBlocks()
			}
			continue
		}
		B = scenarios[name]
		if B.maxBlocks > maxBlocks {
			maxBlocks = B.maxBlocks
		}
		bnd[name] = map[string]interface{}{"alphabet": B.alpha, "max_txs_per_block": B.maxPerBlock, "max_blocks": B.maxBlocks, "max_txs_per_history": B.maxTxs, "blocks_in_menu": len(blocksUpTo(B.maxPerBlock))}
		desc = append(desc, fmt.Sprintf("%s: alphabet %v, <= %d txs per block, <= %d blocks and <= %d txs per history", name, B.alpha, B.maxPerBlock, B.maxBlocks, B.maxTxs))
	}
	r.Rule = "BFS over histories of blocks on a single-deputy chain; a block is any ordered list of transactions from the scenario's alphabet, built by the real assembler on the head of the node under test and validated by the node's InsertBlock, after a funding+register(C1) prefix block; scenarios: " + strings.Join(desc, " | ") + "; state = (scenario, transactions used, balance/votes/voteFor/candidate profile of every account ever touched); a block with a transaction the assembler discards is not expanded (it equals a shorter list); a state that violates is not expanded; distinct outcome = (verdict, tx kinds of the last block, which tallies moved)"
	r.Rule = "PHASE 1: " + r.Rule + " || " + rRuleText() + " || " + termRuleText()
	r.Assume = []string{
		"phases 1 and R: heights stay far below params.TermDuration/InterimDuration: unregistering refunds at once (the interim / reward-block paths are phase T); single-deputy chain",
		"phase R: the box time-out (wall clock) is not driven: it ends in the same RevertToSnapshot as a failing sub-transaction; a register / top-up cannot fail after its deposit moved (registerCandidate checks first; modifyCandidateInfo only when the recorded deposit is missing or unparsable, which no transaction brings about)",
		"phase T: TermDuration 8, InterimDuration 2 (configuration values of the product), two genesis deputies, DeputyCount 2, every block confirmed by both deputies before the next is built (no forks); the miner's post-state is what account.Manager.Save would write (in-memory accounts of the addresses in the block's change logs)",
		"the accounts of the oracle are all accounts named in any change log of the history plus the fixture accounts; nobody else can be voting",
		"block times lie in the past of the wall clock; no oracle depends on time",
	}
	bnd["phase_R"] = rBounds()
	r.Extra["bounds"] = bnd
	// stay inside the tier's wall-clock allowance on a shared machine; a cut run is reported as not exhaustive
	bfsBudget, termBudget := 4*time.Minute, 3*time.Minute
	if core.Thorough() {
		bfsBudget, termBudget = 30*time.Minute, 15*time.Minute
	}
	core.Opt.Budget = bfsBudget
	// two written-out histories of the new phases among the samples
	r.Sample(map[string]interface{}{"history": []string{"R1", "tXV150,B:uC1+100;vXnc@g2"}, "reads": "phase R, scenario R1 (V and W vote C1); one block: X pays V 150 LEMO (V 5 -> 6 votes), then a box by X whose first sub-transaction tops C1's deposit up over a 100-LEMO step and whose second asks for more gas than the block has left: the miner undoes the box (block is full), packages the transfer; the tally is checked on the miner's saved state and on the validator's"})
	r.Sample(map[string]interface{}{"term_history": []string{"TA", "-", "xC2", "-", "fee150", "vVC3", "-"}, "reads": "phase T, scenario TA (heights 7..12): 8 (snapshot, interim) = C2, which votes C1, unregisters: refund deferred; 10 = a transfer whose 150-LEMO fee goes to the miner D1, its own income address, which votes for itself; 11 (reward block) = V re-votes C1 -> C3, then Finalize pays 200 LEMO to inc0 (votes C1) and D1 (votes itself) and refunds 5M LEMO to C2 (votes C1), and the settlement has to carry all three into the tallies"})
	core.BFS(r, core.BFSConfig{Prop: prop, Run: safe, MaxDepth: maxBlocks + 1, Subprocess: true, RecycleEvery: 1500, PerRunLimit: 120e9,
		DiedFingerprint: func(hist []string, tail string) *core.Violation {
			names := strings.Split(hist[len(hist)-1], ",")
			t := tail
			if len(t) > 1500 {
				t = t[len(t)-1500:]
			}
			return &core.Violation{Fingerprint: prop + "/block-not-producible/process-exit/" + causeOfBlock(names), What: fmt.Sprintf("the process died while building/validating history %v: %s", hist, t), Replay: map[string]interface{}{"history": hist}}
		}})
	// shrink what was found (tx granularity), re-fingerprint on the minimal case
	var shrunk []core.Violation
	seen := map[string]bool{}
	for _, v := range r.Violations {
		if strings.Contains(v.Fingerprint, "/process-exit/") || strings.Contains(v.Fingerprint, "/panic/") {
			shrunk = append(shrunk, v)
			continue
		}
		var s core.Violation
		if strings.HasPrefix(v.Fingerprint, prop+"/rollback/") {
			s = rShrink(safe, v)
		} else {
			s = shrinkViolation(safe, v)
		}
		if !seen[s.Fingerprint] {
			seen[s.Fingerprint] = true
			shrunk = append(shrunk, s)
		}
	}
	r.Violations = shrunk
	rSelfCheck(r)
	// phase T in shard workers of its own; its violations are shrunk here (this process runs nothing else in-process afterwards)
	if only := os.Getenv("C11_ONLY"); only == "" || only == "T" {
		core.Opt.Budget = termBudget
		tr := core.NewResult(prop, "model_checking")
		core.RunShards(tr, core.Opt.Workers, nil, termBudget+4*time.Minute, nil)
		var tv []core.Violation
		tseen := map[string]bool{}
		for _, v := range tr.Violations {
			s := v
			if strings.Contains(v.Fingerprint, "/tally-mismatch/") {
				s = tShrink(v)
			}
			if !tseen[s.Fingerprint] {
				tseen[s.Fingerprint] = true
				tv = append(tv, s)
			}
		}
		tRemoveTemplates()
		tr.Violations = tv
		r.Merge(tr)
		termSelfCheck(r)
		r.Extra["term_histories_planned"] = len(enumerateTerm())
	} else {
		r.NotExhaustive("phase T skipped (C11_ONLY)")
	}
	// coverage marks
	var hit []string
	nOK, nMis, nDisc := 0, 0, 0
	for k := range r.Distinct {
		switch {
		case strings.HasPrefix(k, "hit/"):
			hit = append(hit, k[4:])
		case strings.HasPrefix(k, "ok/"):
			nOK++
		case strings.HasPrefix(k, "mismatch/"):
			nMis++
		case strings.HasPrefix(k, "discarded/"):
			nDisc++
		}
	}
	sort.Strings(hit)
	var rhit []string
	for k := range r.Distinct {
		if strings.HasPrefix(k, "R/hit/") {
			rhit = append(rhit, k[6:])
		}
	}
	sort.Strings(rhit)
	r.Extra["phase_R_hit"] = rhit
	thit := map[string]int64{}
	for k, v := range r.Counters {
		if strings.HasPrefix(k, "T/") {
			thit[k] = v
		}
	}
	r.Extra["phase_T_hit_counts"] = thit
	r.Extra["mechanisms_hit_by_correct_blocks"] = hit
	r.Extra["distinct_block_shapes"] = map[string]int{"ok": nOK, "mismatch": nMis, "tx_discarded_by_assembler": nDisc}
	core.Finish(r)
}

// C11, phase T — the tally equation across TERM BOUNDARIES: term rewards, deposit refunds (at once
// and deferred to the reward block), fees earned as a miner's income address, votes / re-votes /
// top-ups inside the snapshot block and the reward block, unregistered candidates that keep voters.
//
// The approach (and part of the code) is the one of mc/props/c05/term.go, which see for the model of
// the heights as read from /repo. In short, with TermDuration = T = 8 and InterimDuration = I = 2
// (both are configuration values of the product, main/config/config_from_file.go):
//
//	height % T == 0        snapshot block: top DeputyCount candidates of the parent state become term h/T
//	T*k .. T*k+I (k>=1)    interim: the old term still signs; an unregistering candidate is not refunded now
//	T*k+I+1      (k>=1)    reward block, first block of term k; BlockAssembler.Finalize, after the block's
//	                       transactions: issueTermReward (salary added to the balance of the income
//	                       address of every node of term k-1), refundCandidateDeposit (every unregistered
//	                       candidate of the store's stable candidate list that still has a deposit
//	                       recorded and is not a deputy of the term in charge gets transaction.Refund),
//	                       THEN transaction.ChangeVotesByBalance (each account's net balance change of
//	                       the block re-weights the candidate it votes for), merge, finalise
//	unregister             votes := 0; refund at once unless interim or deputy of the term in charge
//
// Real two-deputy chain (chain.BlockChain with the real DPoVP engine, store, deputy manager), DeputyCount
// = 2: every block is built by the stand-alone BlockAssembler.MineBlock (miner path) signed by the
// deputy in turn, confirmed by the other deputy and inserted with InsertBlock (validator path), so it is
// stable before the next one is built.
//
// History = scenario (scripted prefix) + one block letter per window height; window = {term end,
// snapshot, interim, reward-1, reward block, reward+1}; all histories with at most K non-empty window
// blocks (every choice of positions x letters). Scenario TA: heights 7..12 of the first boundary (the
// genesis term {D0, D1}, 0 votes each, is paid in equal parts at 11); TA' the same with the rotation
// shifted (the other deputy mines each height); TB: heights 15..20 of the second boundary (the ELECTED
// term {C1, C3} is paid in proportion to its snapshot votes at 19 and C3 may leave office).
//
// Fixture (balances chosen off the 200-LEMO boundaries so that a fee alone crosses nothing):
//
//	C1 (deposit = minimum), C3 (minimum + 150 LEMO), C2 (minimum) are registered in block 2;
//	V (1090 LEMO) votes C1; C2 and C3 vote for C1 (their deposit refunds are voting weight of C1);
//	inc0 = income address of genesis deputy D0 (150 LEMO) votes for C1: a salary / the fees of the
//	blocks D0 mines cross its 200-LEMO step; D1 makes ITSELF its income address and votes for itself;
//	incC3 (income address of C3, 150 LEMO) votes for C1; in TB the deputy C1 (income address = itself)
//	votes for itself.
//
// Oracle after EVERY block (prefix blocks included), tally() of main.go over all accounts the history
// ever touched (fixture + every address in a change log + every address the miner's account manager
// loaded), on the state the MINER would save (its in-memory accounts for the addresses of the
// block's change logs — account.Manager.Save writes exactly those —, the parent state otherwise) AND
// on the state the VALIDATOR stored for the block.
package main

import (
	"encoding/json"
	"fmt"
	"math/big"
	"os"
	"path/filepath"
	"sort"
	"strconv"
	"strings"

	"verifmc/core"
	"verifmc/node"

	"github.com/LemoFoundationLtd/lemochain-core/chain/account"
	"github.com/LemoFoundationLtd/lemochain-core/chain/consensus"
	"github.com/LemoFoundationLtd/lemochain-core/chain/params"
	"github.com/LemoFoundationLtd/lemochain-core/chain/types"
	"github.com/LemoFoundationLtd/lemochain-core/common"
)

const (
	termT    = uint32(8)
	termI    = uint32(2)
	termDeps = 2
)

// ---------------------------------------------------------------------------------------------
// fixture

var (
	tD0, tD1      = node.Deputy(0), node.Deputy(1)
	tC1, tC2, tC3 = node.K("c1"), node.K("c2"), node.K("c3")
	tV, tW, tX    = node.User(0), node.User(1), node.User(2)
	tInc0, tInc1  = node.K("income0"), node.K("income1")
	tIncC3        = node.K("income-c3")
	tFounder      = node.Founder()
)

var tRoleOf = map[common.Address]string{} // consulted by role() of main.go after roleOf
var tKeyByNodeID = map[string]*node.Key{}
var tFixture = map[common.Address]bool{}

func init() {
	for n, k := range map[string]*node.Key{"D0": tD0, "D1": tD1, "C1": tC1, "C2": tC2, "C3": tC3, "V": tV, "W": tW, "X": tX, "inc0": tInc0, "inc1": tInc1, "incC3": tIncC3, "founder": tFounder} {
		tRoleOf[k.Addr] = n
		tKeyByNodeID[string(k.NodeID)] = k
		tFixture[k.Addr] = true
	}
	tRoleOf[params.DepositPoolAddress] = "pool"
	tRoleOf[params.TermRewardContract] = "0x09"
	tFixture[params.DepositPoolAddress] = true
	tFixture[params.TermRewardContract] = true
}

func tDefaultIncome(k *node.Key) common.Address {
	switch k {
	case tD0:
		return tInc0.Addr
	case tD1:
		return tInc1.Addr
	case tC3:
		return tIncC3.Addr
	}
	return k.Addr
}

func tprofile(k *node.Key, isCandidate string, income common.Address) map[string]string {
	p := node.CandidateProfile(k, "7100")
	p[types.CandidateKeyIsCandidate] = isCandidate
	p[types.CandidateKeyIncomeAddress] = income.String()
	return p
}

// ---------------------------------------------------------------------------------------------
// transaction letters

type tLetter struct {
	name string
	kind string
	mk   func(exp uint64) *types.Transaction
}

var tLetters = map[string]*tLetter{}

func init() {
	tdef := func(name, kind string, mk func(exp uint64) *types.Transaction) {
		tLetters[name] = &tLetter{name, kind, mk}
	}
	xfer := func(name string, from, to *node.Key, lemo int64) {
		tdef(name, "transfer", func(exp uint64) *types.Transaction { return node.Transfer(from, to.Addr, node.Lemo(lemo), exp) })
	}
	vote := func(name string, from, to *node.Key) {
		tdef(name, "vote", func(exp uint64) *types.Transaction { return node.Vote(from, to.Addr, exp) })
	}
	reg := func(name string, k *node.Key, amount *big.Int) {
		kind := "register"
		if name[0] == 'u' {
			kind = "top-up"
		}
		tdef(name, kind, func(exp uint64) *types.Transaction {
			return node.Register(k, amount, tprofile(k, "true", tDefaultIncome(k)), exp)
		})
	}
	unreg := func(name string, k *node.Key, income common.Address) {
		tdef(name, "unregister", func(exp uint64) *types.Transaction {
			return node.Register(k, new(big.Int), tprofile(k, "false", income), exp)
		})
	}
	setReward := func(name string, term uint32, lemo int64) {
		data, _ := json.Marshal(map[string]string{"term": strconv.Itoa(int(term)), "value": node.Lemo(lemo).String()})
		to := params.TermRewardContract
		tdef(name, "set-reward", func(exp uint64) *types.Transaction {
			return node.Tx(node.TxSpec{Type: params.OrdinaryTx, From: tFounder, To: &to, Data: data, Exp: exp, GasLimit: 100000})
		})
	}
	min := params.MinCandidateDeposit
	// registrations (prefix)
	reg("rC1", tC1, min)
	reg("rC2", tC2, min)
	reg("rC3", tC3, new(big.Int).Add(min, node.Lemo(150)))
	// D1 pays its fees and salary to itself
	tdef("pD1self", "profile-update", func(exp uint64) *types.Transaction {
		return node.Register(tD1, new(big.Int), tprofile(tD1, "true", tD1.Addr), exp)
	})
	// votes
	vote("vVC1", tV, tC1)
	vote("vVC3", tV, tC3)
	vote("vWC3", tW, tC3)
	vote("vC2C1", tC2, tC1)
	vote("vC2C3", tC2, tC3)
	vote("vC3C1", tC3, tC1)
	vote("vI0C1", tInc0, tC1)
	vote("vI0C3", tInc0, tC3)
	vote("vI3C1", tIncC3, tC1)
	vote("vI3C3", tIncC3, tC3)
	vote("vD1D1", tD1, tD1)
	vote("vD1C3", tD1, tC3)
	vote("vC1C1", tC1, tC1)
	vote("vC1C3", tC1, tC3)
	// always refused: X votes for W
	vote("vXnc", tX, tW)
	// balance changes of the voter V over / inside the 200-LEMO step
	xfer("tXV150", tX, tV, 150)
	xfer("tVX150", tV, tX, 150)
	// a transfer whose FEE is 150 LEMO (21000 gas at 1/140 LEMO): the miner's income address crosses a step
	tdef("fee150", "transfer-with-150-LEMO-fee", func(exp uint64) *types.Transaction {
		price := new(big.Int).Div(node.Lemo(150), big.NewInt(21000))
		return node.Tx(node.TxSpec{Type: params.OrdinaryTx, From: tX, To: &tW.Addr, Amount: node.Lemo(1), Exp: exp, GasLimit: 21000, GasPrice: price})
	})
	// top-ups
	reg("uC1+100", tC1, node.Lemo(100))
	reg("uC3+100", tC3, node.Lemo(100))
	reg("uD1+100", tD1, node.Lemo(100))
	// unregister
	unreg("xC1", tC1, tC1.Addr)
	unreg("xC2", tC2, tC2.Addr)
	unreg("xC3", tC3, tIncC3.Addr)
	unreg("xD0", tD0, tInc0.Addr)
	unreg("xD1", tD1, tD1.Addr)
	// reward settings by the reward manager: the salary of each of two deputies is about half of it
	for _, term := range []uint32{0, 1} {
		for _, v := range []int64{0, 60, 400, 1000, 2000} {
			setReward(fmt.Sprintf("s%d=%d", term, v), term, v)
		}
	}
}

// box letters "B:a;b": signed and paid by X, sub-transactions by their own senders
func tLetterOf(name string) *tLetter {
	if l := tLetters[name]; l != nil {
		return l
	}
	if strings.HasPrefix(name, "B:") {
		subs := strings.Split(name[2:], ";")
		for _, s := range subs {
			if tLetters[s] == nil {
				panic("harness: no tx letter " + s)
			}
		}
		l := &tLetter{name: name, kind: "box", mk: func(exp uint64) *types.Transaction {
			var l []*types.Transaction
			for i, s := range subs {
				l = append(l, tLetters[s].mk(exp+1+uint64(i)))
			}
			return node.Box(tX, exp, l...)
		}}
		tLetters[name] = l
		return l
	}
	panic("harness: no tx letter " + name)
}

func tBlockNames(letter string) []string {
	if letter == "-" || letter == "" {
		return nil
	}
	return strings.Split(letter, ",")
}

const tFundLetter = "#fund"

func tFundTxs(exp uint64) types.Transactions {
	fo := tFounder
	big6 := new(big.Int).Add(params.MinCandidateDeposit, node.Lemo(100090))
	return types.Transactions{
		node.Transfer(fo, tV.Addr, node.Lemo(1090), exp),
		node.Transfer(fo, tW.Addr, node.Lemo(700), exp+1),
		node.Transfer(fo, tX.Addr, node.Lemo(20000), exp+2),
		node.Transfer(fo, tC1.Addr, big6, exp+3),
		node.Transfer(fo, tC2.Addr, big6, exp+4),
		node.Transfer(fo, tC3.Addr, big6, exp+5),
		node.Transfer(fo, tD0.Addr, node.Lemo(1090), exp+6),
		node.Transfer(fo, tD1.Addr, node.Lemo(1090), exp+7),
		node.Transfer(fo, tInc0.Addr, node.Lemo(150), exp+8),
		node.Transfer(fo, tIncC3.Addr, node.Lemo(150), exp+9),
	}
}

const tExpBase = uint64(node.GenesisTime) + 600

func tTxsOfLetter(letter string, h uint32) (types.Transactions, []string) {
	exp := tExpBase + uint64(h)*32
	if letter == tFundLetter {
		txs := tFundTxs(exp)
		names := make([]string, len(txs))
		for i := range names {
			names[i] = "fund"
		}
		return txs, names
	}
	var txs types.Transactions
	names := tBlockNames(letter)
	for i, n := range names {
		txs = append(txs, tLetterOf(n).mk(exp+uint64(i)*6))
	}
	return txs, names
}

// ---------------------------------------------------------------------------------------------
// scenarios

type tScenario struct {
	name   string
	prefix []string
	late   []int
	window int
	paid   uint32 // the term the window's reward block pays
}

var tScenarios = map[string]*tScenario{}

func init() {
	sdef := func(s *tScenario) { tScenarios[s.name] = s }
	preA := []string{tFundLetter, "rC1,rC3,rC2", "s0=400,vI0C1,pD1self", "vD1D1,vVC1,vC3C1,vC2C1", "vI3C1", "-"}
	sdef(&tScenario{name: "TA", prefix: preA, window: 6, paid: 0})
	sdef(&tScenario{name: "TA'", prefix: preA, window: 6, paid: 0, late: []int{1}})
	preB := append(append([]string{}, preA...), "-", "-", "-", "-", "-", "vC1C1", "s1=1000", "-")
	sdef(&tScenario{name: "TB", prefix: preB, window: 6, paid: 1})
	sdef(&tScenario{name: "TB'", prefix: preB, window: 6, paid: 1, late: []int{19}})
}

func (sc *tScenario) isLate(h uint32) bool {
	for _, l := range sc.late {
		if uint32(l) == h {
			return true
		}
	}
	return false
}

func tHistLetters(hist []string) (*tScenario, []string) {
	sc := tScenarios[hist[0]]
	if sc == nil {
		panic("harness: no scenario " + hist[0])
	}
	l := append([]string{}, sc.prefix...)
	l = append(l, hist[1:]...)
	for len(l) < len(sc.prefix)+sc.window {
		l = append(l, "-")
	}
	return sc, l
}

// ---------------------------------------------------------------------------------------------
// heights

func termInCharge(h uint32) uint32 {
	if h < termT+termI+1 {
		return 0
	}
	return (h - termI - 1) / termT
}
func isRewardHeight(h uint32) bool { return h >= termT+termI+1 && h%termT == termI+1 }
func isInterim(h uint32) bool      { return h%termT <= termI && h > termI }

func heightClass(h uint32) string {
	switch {
	case h < termT-1:
		return "genesis-term"
	case isRewardHeight(h):
		return "reward"
	case isRewardHeight(h + 1):
		return "reward-1"
	case isRewardHeight(h - 1):
		return "reward+1"
	case h%termT == 0:
		return "snapshot"
	case h%termT == termT-1:
		return "term-end"
	case isInterim(h):
		return "interim"
	}
	return "ordinary"
}

// ---------------------------------------------------------------------------------------------
// world

type tworld struct {
	f       *node.Factory
	head    *types.Block
	addrs   map[common.Address]bool
	snap    map[uint32]types.DeputyNodes
	trace   []string
	verbose bool
}

func tSetParams() {
	params.TermDuration = termT
	params.InterimDuration = termI
	params.RewardCheckHeight = 3
}

func newTWorld() *tworld {
	tSetParams()
	w := &tworld{addrs: map[common.Address]bool{}, snap: map[uint32]types.DeputyNodes{}}
	for a := range tFixture {
		w.addrs[a] = true
	}
	w.f = node.NewFactory(core.ScratchDir("c11t"), termDeps)
	w.head = w.f.BC.Genesis()
	w.snap[0] = w.head.DeputyNodes
	return w
}

func (w *tworld) close() { w.f.Destroy() }

func (w *tworld) sortedAddrs() []common.Address {
	l := make(common.AddressSlice, 0, len(w.addrs))
	for a := range w.addrs {
		l = append(l, a)
	}
	sort.Sort(l)
	return l
}

func acctOf(a common.Address, d *types.AccountData) (acct, string) {
	out := acct{addr: a, bal: new(big.Int), votes: new(big.Int)}
	if d == nil {
		return out, ""
	}
	if d.Balance != nil {
		out.bal.Set(d.Balance)
	}
	if d.Candidate.Votes != nil {
		out.votes.Set(d.Candidate.Votes)
	}
	out.voteFor = d.VoteFor
	income := ""
	if p := d.Candidate.Profile; p != nil {
		out.isCand = p[types.CandidateKeyIsCandidate]
		out.deposit = p[types.CandidateKeyDepositAmount]
		income = p[types.CandidateKeyIncomeAddress]
	}
	return out, income
}

// tState: the accounts of the oracle + the income address recorded in each profile
type tState struct {
	accts  []acct
	income map[common.Address]string
}

func (s *tState) get(a common.Address) *acct {
	for i := range s.accts {
		if s.accts[i].addr == a {
			return &s.accts[i]
		}
	}
	return nil
}

func (w *tworld) stateAt(hash common.Hash, addrs []common.Address) *tState {
	view, err := w.f.DB.GetActDatabase(hash)
	if err != nil {
		panic(err)
	}
	st := &tState{income: map[common.Address]string{}}
	for _, a := range addrs {
		d, err := view.Get(a)
		if err != nil {
			d = nil
		}
		ac, inc := acctOf(a, d)
		st.accts = append(st.accts, ac)
		st.income[a] = inc
	}
	return st
}

type tBlockObs struct {
	block    *types.Block
	discards int
	accepted bool
	rejected string
	miner    *node.Key
}

// mine builds the next block with the deputy in turn (one slot later when late), has it confirmed
// by the other deputy and inserts it into the node. post sees the miner's account manager.
func (w *tworld) mine(txs types.Transactions, late bool, post func(am *account.Manager, b *types.Block)) (*tBlockObs, error) {
	h := w.head.Height() + 1
	deps := w.f.DM.GetDeputiesByHeight(h, true)
	if len(deps) == 0 {
		return nil, fmt.Errorf("no deputies known for height %d", h)
	}
	d := uint32(1)
	if late && len(deps) > 1 {
		d = 2
	}
	tm := w.head.Time() + (d-1)*uint32(node.MineTimeout/1000) + 1
	addr, err := consensus.GetCorrectMiner(w.head.Header, int64(tm)*1000, int64(node.MineTimeout), w.f.DM)
	if err != nil {
		return nil, fmt.Errorf("no deputy in turn at height %d: %v", h, err)
	}
	var miner *node.Key
	for _, dn := range deps {
		if dn.MinerAddress == addr {
			miner = tKeyByNodeID[string(dn.NodeID)]
		}
	}
	if miner == nil {
		return nil, fmt.Errorf("deputy in turn at height %d (%s) has no key in the fixture", h, addr.Hex())
	}
	obs := &tBlockObs{miner: miner}
	b, inv, err := w.f.Make(node.BlockSpec{Parent: w.head, Miner: miner, Time: tm, Txs: txs, Extra: "c11t", NoSave: true, Inspect: post})
	if err != nil {
		return nil, err
	}
	obs.block = b
	obs.discards = len(inv)
	for _, dn := range deps {
		k := tKeyByNodeID[string(dn.NodeID)]
		if k != nil && k != miner {
			b.Confirms = append(b.Confirms, node.SignConfirm(k, b.Hash()))
		}
	}
	var wire *types.Block
	var ierr error
	func() {
		defer func() {
			if p := recover(); p != nil {
				ierr = fmt.Errorf("panic: %v", p)
			}
		}()
		wire = node.Wire(b)
	}()
	if ierr != nil {
		obs.rejected = "not encodable: " + ierr.Error()
		return obs, nil
	}
	w.f.Use()
	func() {
		defer func() {
			if p := recover(); p != nil {
				ierr = fmt.Errorf("panic in validator: %v", p)
			}
		}()
		ierr = w.f.BC.InsertBlock(wire)
	}()
	w.f.Quiesce()
	if ierr != nil {
		obs.rejected = ierr.Error()
		return obs, nil
	}
	if w.f.BC.CurrentBlock().Hash() != b.Hash() {
		obs.rejected = "accepted but not the new head"
		return obs, nil
	}
	if w.f.BC.StableBlock().Hash() != b.Hash() {
		obs.rejected = "accepted but not stable with all deputies' signatures"
		return obs, nil
	}
	obs.accepted = true
	stored, err := w.f.DB.GetBlockByHash(b.Hash())
	if err != nil {
		return nil, err
	}
	w.head = stored
	if h%termT == 0 {
		w.snap[h/termT] = stored.DeputyNodes
	}
	return obs, nil
}

// ---------------------------------------------------------------------------------------------
// templates (the scripted prefix is executed once per worker and scenario; every history starts
// from a copy of its data directory, reopened — a process restart as far as the node is concerned)

type tTemplate struct {
	dir   string
	addrs map[common.Address]bool
	snap  map[uint32]types.DeputyNodes
}

func (w *tworld) freeze() *tTemplate {
	if !w.f.Quiesce() {
		panic("harness: store does not quiesce")
	}
	w.f.Close()
	t := &tTemplate{dir: w.f.Dir, addrs: map[common.Address]bool{}, snap: map[uint32]types.DeputyNodes{}}
	for a := range w.addrs {
		t.addrs[a] = true
	}
	for k, n := range w.snap {
		t.snap[k] = n
	}
	return t
}

func (t *tTemplate) thaw() *tworld {
	tSetParams()
	dir := core.ScratchDir("c11t")
	copyTree(t.dir, dir)
	w := &tworld{addrs: map[common.Address]bool{}, snap: map[uint32]types.DeputyNodes{}}
	for a := range t.addrs {
		w.addrs[a] = true
	}
	for k, n := range t.snap {
		w.snap[k] = n
	}
	w.f = &node.Factory{Node: node.Reopen(dir, termDeps, node.K("factory"))}
	w.head = w.f.BC.CurrentBlock()
	return w
}

func copyTree(src, dst string) {
	err := filepath.Walk(src, func(p string, info os.FileInfo, err error) error {
		if err != nil {
			return err
		}
		rel, _ := filepath.Rel(src, p)
		target := filepath.Join(dst, rel)
		if info.IsDir() {
			return os.MkdirAll(target, 0755)
		}
		b, err := os.ReadFile(p)
		if err != nil {
			return err
		}
		return os.WriteFile(target, b, 0644)
	})
	if err != nil {
		panic(fmt.Sprintf("harness: copy template: %v", err))
	}
}

package main

import (
	"fmt"
	"math/big"
	"sort"
	"strings"

	"verifmc/core"
	"verifmc/node"

	"github.com/LemoFoundationLtd/lemochain-core/chain/account"
	"github.com/LemoFoundationLtd/lemochain-core/chain/params"
	"github.com/LemoFoundationLtd/lemochain-core/chain/types"
	"github.com/LemoFoundationLtd/lemochain-core/common"
)

type termCase struct {
	Hist []string `json:"term_history"`
}

func firstWords(s string, n int) string {
	f := strings.Fields(s)
	if len(f) > n {
		f = f[:n]
	}
	return strings.Join(f, " ")
}

// runTermHistory executes one history from genesis.
func runTermHistory(w *tworld, hist []string, r *core.Result) int {
	sc, _ := tHistLetters(hist)
	return runTermBlocks(w, sc, hist, 0, len(sc.prefix)+sc.window, r)
}

// sameTx: a packaged box carries another hash than the one submitted (its data is rewritten with the
// sub-transactions' gas): compare by sender, type and expiration (unique per position).
func sameTx(a, b *types.Transaction) bool {
	return a.Expiration() == b.Expiration() && a.From() == b.From() && a.Type() == b.Type()
}

// runTermBlocks executes the blocks with index from..to-1 (index 0 = height 1) and evaluates the
// oracle after every block. It returns the number of blocks executed.
func runTermBlocks(w *tworld, sc *tScenario, hist []string, from, to int, r *core.Result) int {
	_, letters := tHistLetters(hist)
	blocks := 0
	for i := from; i < to; i++ {
		letter := letters[i]
		h := uint32(i + 1)
		hc := heightClass(h)
		inWindow := i >= len(sc.prefix)
		viol := func(fp, what string) {
			r.Violate(prop+"/term/"+fp, what+"; history "+strings.Join(hist, " | "), termCase{Hist: hist})
		}
		txs, names := tTxsOfLetter(letter, h)
		parent := w.head
		var addrs []common.Address
		var pre, minerSt *tState
		inspect := func(am *account.Manager, b *types.Block) {
			logged := map[common.Address]bool{}
			for _, a := range node.TouchedAddresses(b) {
				w.addrs[a] = true
				logged[a] = true
			}
			for _, a := range account.VerifLoadedAddresses(am) {
				w.addrs[a] = true
			}
			addrs = w.sortedAddrs()
			pre = w.stateAt(parent.Hash(), addrs)
			// what account.Manager.Save would write for this block: the in-memory account for every
			// address that has a change log, nothing for the others
			minerSt = &tState{income: map[common.Address]string{}}
			for k, a := range addrs {
				if d := account.VerifAccountData(am, a); d != nil && logged[a] {
					ac, inc := acctOf(a, d)
					minerSt.accts = append(minerSt.accts, ac)
					minerSt.income[a] = inc
				} else {
					minerSt.accts = append(minerSt.accts, pre.accts[k])
					minerSt.income[a] = pre.income[a]
				}
			}
		}
		var obs *tBlockObs
		var err error
		func() {
			defer func() {
				if p := recover(); p != nil {
					err = fmt.Errorf("panic: %v", p)
				}
			}()
			obs, err = w.mine(txs, sc.isLate(h), inspect)
		}()
		if err != nil {
			r.Add("T/miner-produced-no-block", 1)
			viol("block-not-producible/"+hc+"/"+firstWords(err.Error(), 8)+"/["+tKinds(names)+"]", fmt.Sprintf("the miner cannot produce block %d (%s) [%s]: %v", h, hc, letter, err))
			if w.verbose {
				w.trace = append(w.trace, fmt.Sprintf("h=%d [%s] NO BLOCK: %v", h, letter, err))
			}
			return blocks
		}
		blocks++
		r.Add("T/blocks", 1)
		b := obs.block
		var packaged []string
		for _, p := range b.Txs {
			for j, tx := range txs {
				if sameTx(p, tx) {
					packaged = append(packaged, names[j])
				}
			}
		}
		mmM := tally(minerSt.accts)
		if !obs.accepted {
			if len(mmM) > 0 {
				viol("tally-mismatch/"+mismatchClasses(mmM)+"/miner(validator-refuses-the-block)/"+hc+"/"+tCause(sc, hist, h), fmt.Sprintf("after block %d (%s) [%s], miner's state: %s; the node refuses the block: %s", h, hc, letter, fmtMismatches(mmM), obs.rejected))
			} else {
				viol("honest-block-rejected/"+hc+"/"+firstWords(obs.rejected, 6)+"/["+tKinds(names)+"]", fmt.Sprintf("the node refused the honestly built block %d (%s) [%s]: %s", h, hc, letter, obs.rejected))
			}
			if w.verbose {
				w.trace = append(w.trace, fmt.Sprintf("h=%d [%s] REJECTED: %s", h, letter, obs.rejected))
			}
			return blocks
		}
		validSt := w.stateAt(b.Hash(), addrs)
		mmV := tally(validSt.accts)
		if w.verbose {
			w.trace = append(w.trace, fmt.Sprintf("h=%d %s %-9s [%s] miner=%s packaged=%v discards=%d deputies-in-block=%s\n%s", h, b.Hash().Prefix(), hc, letter, role(b.MinerAddress()), packaged, obs.discards, depNames(b.DeputyNodes), dumpChanged(pre, validSt)))
		}
		if len(mmM) > 0 || len(mmV) > 0 {
			where, mm := "miner+validator", mmV
			switch {
			case len(mmV) == 0:
				where, mm = "miner-only", mmM
			case len(mmM) == 0:
				where = "validator-only"
			}
			viol("tally-mismatch/"+mismatchClasses(mm)+"/"+where+"/"+hc+"/"+tCause(sc, hist, h), fmt.Sprintf("after block %d (%s) [%s] packaged %v (%s): %s", h, hc, letter, packaged, where, fmtMismatches(mm)))
			r.Add("T/mismatch-blocks", 1)
			return blocks
		}
		if stateKey(minerSt.accts) != stateKey(validSt.accts) {
			viol("miner-and-validator-states-differ/"+hc+"/["+tKinds(names)+"]", fmt.Sprintf("after block %d (%s) [%s] the state the miner would save and the validator's differ:\nminer:\n%svalidator:\n%s", h, hc, letter, dump(minerSt.accts), dump(validSt.accts)))
			return blocks
		}
		if inWindow {
			r.Add("T/window-blocks", 1)
			w.coverage(sc, h, b, obs, packaged, pre, validSt, r)
		}
	}
	return blocks
}

func tKinds(names []string) string {
	l := make([]string, len(names))
	for i, n := range names {
		if n == "fund" {
			l[i] = "fund"
			continue
		}
		l[i] = tLetterOf(n).kind
		if strings.HasPrefix(n, "B:") {
			var k []string
			for _, s := range strings.Split(n[2:], ";") {
				k = append(k, tLetters[s].kind)
			}
			l[i] = "box{" + strings.Join(k, ";") + "}"
		}
	}
	return strings.Join(l, ",")
}

// tCause: the shape of the failing case for the fingerprint: the scenario (without the rotation
// variant) and the KINDS of transactions in the non-empty window blocks up to height h (a set: at which
// of the window heights they sit varies freely for most defects and would split one class into many).
func tCause(sc *tScenario, hist []string, h uint32) string {
	_, letters := tHistLetters(hist)
	name := strings.TrimSuffix(strings.TrimSuffix(sc.name, "'"), "'")
	if int(h) <= len(sc.prefix) {
		return "in-prefix-of-" + name
	}
	set := map[string]bool{}
	for i := len(sc.prefix); i < int(h) && i < len(letters); i++ {
		if letters[i] == "-" {
			continue
		}
		for _, k := range strings.Split(tKinds(tBlockNames(letters[i])), ",") {
			set[k] = true
		}
	}
	if len(set) == 0 {
		return name + "/empty-window"
	}
	l := make([]string, 0, len(set))
	for k := range set {
		l = append(l, k)
	}
	sort.Strings(l)
	return name + "/window-txs{" + strings.Join(l, ",") + "}"
}

func depNames(n types.DeputyNodes) string {
	var l []string
	for _, d := range n {
		l = append(l, fmt.Sprintf("%s(%s)", role(d.MinerAddress), d.Votes))
	}
	return strings.Join(l, ",")
}

func dumpChanged(pre, post *tState) string {
	var sb strings.Builder
	for i, a := range post.accts {
		p := pre.accts[i]
		if a.bal.Cmp(p.bal) == 0 && a.votes.Cmp(p.votes) == 0 && a.voteFor == p.voteFor && a.isCand == p.isCand && a.deposit == p.deposit {
			continue
		}
		fmt.Fprintf(&sb, "      %-8s bal %s -> %s (weight %s -> %s) votes %s -> %s voteFor %s -> %s isCandidate %q -> %q deposit %q -> %q\n", role(a.addr), p.bal, a.bal, weight(p.bal), weight(a.bal), p.votes, a.votes, role(p.voteFor), role(a.voteFor), p.isCand, a.isCand, p.deposit, a.deposit)
	}
	return sb.String()
}

// incomeOf: the address a miner account's fees / salary go to (as chargeForGas / getDeputyIncomeAddress read it)
func incomeOf(st *tState, miner common.Address) common.Address {
	s := st.income[miner]
	if s == "" {
		return miner
	}
	a, err := common.StringToAddress(s)
	if err != nil {
		return miner
	}
	return a
}

// coverage marks what this (accepted, correct) window block exercised.
func (w *tworld) coverage(sc *tScenario, h uint32, b *types.Block, obs *tBlockObs, packaged []string, pre, post *tState, r *core.Result) {
	hc := heightClass(h)
	for _, n := range packaged {
		k := tLetterOf(n).kind
		r.Add("T/tx/"+k+"@"+hc, 1)
	}
	if obs.discards > 0 {
		r.Add("T/discarded-txs@"+hc, int64(obs.discards))
	}
	salaryTo := map[common.Address]bool{}
	if isRewardHeight(h) {
		for _, n := range w.snap[termInCharge(h)-1] {
			salaryTo[incomeOf(post, n.MinerAddress)] = true
		}
	}
	feeTo := incomeOf(post, b.MinerAddress())
	zero := common.Address{}
	var effects []string
	for i := range post.accts {
		a, p := post.accts[i], pre.accts[i]
		if a.votes.Cmp(p.votes) != 0 {
			effects = append(effects, role(a.addr)+map[int]string{1: "+", -1: "-"}[a.votes.Cmp(p.votes)])
		}
		if p.isCand == types.IsCandidateNode && a.isCand == types.NotCandidateNode {
			if a.deposit == "" {
				r.Add("T/hit/unregister-refunded-at-once@"+hc, 1)
			} else {
				r.Add("T/hit/unregister-refund-deferred@"+hc, 1)
			}
			if p.votes.Sign() > 0 {
				r.Add("T/hit/unregister-zeroes-nonzero-votes", 1)
			}
		}
		if a.voteFor != p.voteFor {
			if p.voteFor == zero {
				r.Add("T/hit/first-vote@"+hc, 1)
			} else {
				r.Add("T/hit/re-vote@"+hc, 1)
			}
		}
		if p.isCand == types.IsCandidateNode && a.isCand == types.IsCandidateNode && p.deposit != a.deposit {
			pd, _ := new(big.Int).SetString(p.deposit, 10)
			ad, _ := new(big.Int).SetString(a.deposit, 10)
			if pd != nil && ad != nil && new(big.Int).Div(pd, params.DepositExchangeRate).Cmp(new(big.Int).Div(ad, params.DepositExchangeRate)) != 0 {
				r.Add("T/hit/top-up-crossing-a-deposit-step@"+hc, 1)
			}
		}
		if a.voteFor == zero || weight(a.bal).Cmp(weight(p.bal)) == 0 {
			continue
		}
		// a voting account whose weight changed in this block
		cand := post.get(a.voteFor)
		candState := "candidate-registered"
		if cand == nil || cand.isCand != types.IsCandidateNode {
			candState = "candidate-unregistered(votes-stay-0)"
			r.Add("T/hit/voter-of-unregistered-candidate-changes-weight@"+hc, 1)
		}
		self := "votes-for-another"
		if a.voteFor == a.addr {
			self = "votes-for-itself"
		}
		refunded := p.deposit != "" && a.deposit == "" && a.isCand == types.NotCandidateNode
		switch {
		case refunded && p.isCand == types.NotCandidateNode:
			r.Add("T/hit/deferred-refund-crosses-step-of-voter/"+candState+"@"+hc, 1)
		case refunded:
			r.Add("T/hit/immediate-refund-crosses-step-of-voter/"+candState+"@"+hc, 1)
		case salaryTo[a.addr] && a.bal.Cmp(p.bal) > 0:
			r.Add("T/hit/salary-crosses-step-of-voting-income-address/"+self+"/"+candState, 1)
		case feeTo == a.addr && len(b.Txs) > 0 && a.bal.Cmp(p.bal) > 0:
			r.Add("T/hit/fees-cross-step-of-voting-income-address/"+self+"@"+hc, 1)
		default:
			r.Add("T/hit/balance-change-crosses-step-of-voter/"+candState+"@"+hc, 1)
		}
	}
	if isRewardHeight(h) {
		paid := false
		for a := range salaryTo {
			if pa, po := pre.get(a), post.get(a); pa != nil && po != nil && po.bal.Cmp(pa.bal) > 0 {
				paid = true
			}
		}
		if paid {
			r.Add("T/hit/reward-block-pays-salaries", 1)
		} else {
			r.Add("T/hit/reward-block-without-salaries", 1)
		}
	}
	sort.Strings(effects)
	r.Outcome(fmt.Sprintf("T/%s/%s/[%s]/%s", sc.name, hc, tKinds(packaged), strings.Join(effects, "")))
}

package main

import (
	"fmt"
	"os"
	"sort"
	"strings"

	"verifmc/core"
)

// ---------------------------------------------------------------------------------------------
// alphabets of block letters (one letter = one block's ordered transaction list)

func tAlphabet(sc *tScenario, size string) []string {
	t := sc.paid
	s := func(v int) string { return fmt.Sprintf("s%d=%d", t, v) }
	var core_, more, small []string
	if t == 0 {
		// first boundary: the genesis deputies D0 (income address inc0, votes for C1) and D1 (income
		// address = itself, votes for itself) are paid at 11; C1 and C3 are elected at 8
		core_ = []string{"xC2", "xC1", "xC3", "tXV150", "vVC3", "uC1+100", s(60), s(1000), "fee150", "vI0C3", "xD1", "vD1C3"}
		small = []string{"xC2", "xC1", "tXV150", "vVC3", "uC1+100", "fee150"}
		more = []string{"tVX150", "uC3+100", "uD1+100", "xD0", s(0), s(2000), "vWC3",
			"xC2,tXV150", "tXV150,vVC3", "vVC3,tXV150", "xC1,tXV150", "fee150,vI0C3", "vI0C3,fee150", "uC1+100,xC1", "xC3,vVC3", "xD1,fee150", "xC2,vC2C3", "vC2C3,xC2",
			"B:uC1+100;vXnc", "B:vVC3;vXnc", "B:xC2;vXnc", "B:xC2;tXV150", "B:fee150;vXnc", "B:vI0C3;fee150"}
	} else {
		// second boundary: the elected deputies C1 (income address = itself, votes for itself) and C3
		// (income address incC3, which votes for C1) are paid at 19 in proportion to their snapshot votes;
		// the genesis deputies are out of office
		core_ = []string{"xC3", "xC1", "xC2", "tXV150", "vVC3", "uC1+100", s(60), s(2000), "fee150", "vC1C3", "vI3C3", "xD0"}
		small = []string{"xC3", "xC1", "tXV150", "vVC3", "uC1+100", "fee150"}
		more = []string{"tVX150", "uC3+100", "xD1", s(0), s(400), "vWC3", "vI0C3",
			"xC3,tXV150", "tXV150,vVC3", "vVC3,tXV150", "xC1,tXV150", "fee150,vI3C3", "vI3C3,fee150", "uC1+100,xC1", "xC2,vVC3", "xC3,fee150", "xC2,vC2C3", "vC2C3,xC2",
			"B:uC1+100;vXnc", "B:vVC3;vXnc", "B:xC3;vXnc", "B:xC2;tXV150", "B:fee150;vXnc", "B:vC1C3;fee150"}
	}
	switch size {
	case "small":
		return small
	case "core":
		return core_
	case "full":
		return append(append([]string{}, core_...), more...)
	}
	panic("alphabet " + size)
}

type tPlan struct {
	scen  string
	alpha string
	k     int
}

func tPlans() []tPlan {
	if core.Thorough() {
		return []tPlan{{"TA", "full", 2}, {"TA", "small", 3}, {"TA'", "full", 2}, {"TB", "full", 2}, {"TB", "small", 3}, {"TB'", "core", 2}, {"TB'", "full", 1}}
	}
	return []tPlan{{"TA", "core", 2}, {"TA", "full", 1}, {"TA'", "core", 1}, {"TB", "core", 2}, {"TB", "full", 1}, {"TB'", "core", 1}}
}

// windowHistories: every assignment of letters to the window heights with at most k non-empty blocks.
func windowHistories(sc *tScenario, alpha []string, k int) [][]string {
	var out [][]string
	cur := make([]string, sc.window)
	var rec func(pos, used int)
	rec = func(pos, used int) {
		if pos == sc.window {
			out = append(out, append([]string{sc.name}, cur...))
			return
		}
		cur[pos] = "-"
		rec(pos+1, used)
		if used < k {
			for _, a := range alpha {
				cur[pos] = a
				rec(pos+1, used+1)
			}
		}
	}
	rec(0, 0)
	return out
}

func tWeight(h []string) int {
	n := 0
	for _, l := range h[1:] {
		if l != "-" {
			n += 100 + len(tBlockNames(l))
		}
	}
	return n
}

// enumerateTerm lists every history of the tier, simplest first, without duplicates.
func enumerateTerm() [][]string {
	seen := map[string]bool{}
	var out [][]string
	for _, p := range tPlans() {
		sc := tScenarios[p.scen]
		for _, h := range windowHistories(sc, tAlphabet(sc, p.alpha), p.k) {
			key := strings.Join(h, "|")
			if !seen[key] {
				seen[key] = true
				out = append(out, h)
			}
		}
	}
	sort.SliceStable(out, func(i, j int) bool { return tWeight(out[i]) < tWeight(out[j]) })
	return out
}

// ---------------------------------------------------------------------------------------------
// worker side

var tTemplates = map[string]*tTemplate{}

func tRemoveTemplates() {
	for _, t := range tTemplates {
		if t.dir != "" {
			os.RemoveAll(t.dir)
		}
	}
	tTemplates = map[string]*tTemplate{}
}

// tTemplateOf executes the scripted prefix of a scenario once (oracle on every block).
func tTemplateOf(sc *tScenario, r *core.Result) *tTemplate {
	if t := tTemplates[sc.name]; t != nil {
		return t
	}
	w := newTWorld()
	pr := core.NewResult(prop, "model_checking")
	done := runTermBlocks(w, sc, []string{sc.name}, 0, len(sc.prefix), pr)
	if done != len(sc.prefix) || len(pr.Violations) > 0 {
		r.Merge(pr)
		r.NotExhaustive(fmt.Sprintf("phase T: prefix of scenario %s stopped after %d of %d blocks", sc.name, done, len(sc.prefix)))
		w.close()
		tTemplates[sc.name] = &tTemplate{}
		return tTemplates[sc.name]
	}
	t := w.freeze()
	tTemplates[sc.name] = t
	return t
}

func runTermShard(i, n int, r *core.Result) {
	hists := enumerateTerm()
	defer tRemoveTemplates()
	for k := i; k < len(hists); k += n {
		h := hists[k]
		core.Journal("term " + strings.Join(h, " | "))
		sc := tScenarios[h[0]]
		t := tTemplateOf(sc, r)
		if t.dir == "" {
			continue
		}
		w := t.thaw()
		runTermBlocks(w, sc, h, len(sc.prefix), len(sc.prefix)+sc.window, r)
		w.close()
		r.Add("T/histories", 1)
		if core.OutOfTime() {
			r.NotExhaustive(fmt.Sprintf("phase T: internal deadline at history %d of %d", k, len(hists)))
			break
		}
	}
}

// tRunOne executes one history (from the template when there is one) and returns its violations.
func tRunOne(h []string, fromGenesis, verbose bool) (*core.Result, []string) {
	r := core.NewResult(prop, "model_checking")
	sc := tScenarios[h[0]]
	if sc == nil {
		return r, nil
	}
	var w *tworld
	if fromGenesis {
		w = newTWorld()
		w.verbose = verbose
		runTermHistory(w, h, r)
	} else {
		t := tTemplateOf(sc, r)
		if t.dir == "" {
			return r, nil
		}
		w = t.thaw()
		w.verbose = verbose
		runTermBlocks(w, sc, h, len(sc.prefix), len(sc.prefix)+sc.window, r)
	}
	w.close()
	return r, w.trace
}

// replayTerm re-runs one history from genesis (no template), and once more from the template.
func replayTerm(c termCase) int {
	failed := 0
	defer tRemoveTemplates()
	for _, mode := range []string{"from genesis", "from the scenario template (node reopened before the window)"} {
		r, trace := tRunOne(c.Hist, mode == "from genesis", true)
		fmt.Println("replay", mode, strings.Join(c.Hist, " | "))
		for _, l := range trace {
			fmt.Println(l)
		}
		for _, v := range r.Violations {
			fmt.Printf("VIOLATION-REPLAYED %s\n%s\n", v.Fingerprint, v.What)
		}
		for _, n := range r.Notes {
			fmt.Println("note:", n)
		}
		failed += len(r.Violations)
	}
	return failed
}

// tFamily: what fails, where, at which height class (without the shape of the window).
func tFamily(fp string) string {
	p := strings.Split(fp, "/")
	if len(p) >= 6 && p[2] == "tally-mismatch" {
		var names []string
		for _, c := range strings.Split(p[3], "+") {
			if k := strings.Index(c, "("); k > 0 {
				c = c[:k]
			}
			names = append(names, c)
		}
		sort.Strings(names)
		return strings.Join(p[:3], "/") + "/" + strings.Join(dedupe(names), "+") + "/" + p[4] + "/" + p[5]
	}
	if len(p) >= 4 {
		return strings.Join(p[:4], "/")
	}
	return fp
}

// tShrink empties window blocks / drops transactions of multi-transaction blocks while a violation
// of the same family remains; the verdict of the minimal history is re-run twice.
func tShrink(v core.Violation) core.Violation {
	var hist []string
	switch c := v.Replay.(type) {
	case termCase:
		hist = c.Hist
	case map[string]interface{}:
		if l, ok := c["term_history"].([]interface{}); ok {
			for _, x := range l {
				hist = append(hist, fmt.Sprint(x))
			}
		}
	}
	if len(hist) < 2 || tScenarios[hist[0]] == nil {
		return v
	}
	fam := tFamily(v.Fingerprint)
	var lastHit core.Violation
	fails := func(h []string) bool {
		r, _ := tRunOne(h, false, false)
		for _, x := range r.Violations {
			if tFamily(x.Fingerprint) == fam {
				lastHit = x
				return true
			}
		}
		return false
	}
	cur := append([]string{}, hist...)
	for changed := true; changed; {
		changed = false
		for i := 1; i < len(cur) && !changed; i++ {
			if cur[i] == "-" {
				continue
			}
			var cands []string
			cands = append(cands, "-")
			names := tBlockNames(cur[i])
			if len(names) > 1 {
				for k := range names {
					cands = append(cands, strings.Join(append(append([]string{}, names[:k]...), names[k+1:]...), ","))
				}
			}
			// a box: without one of its sub-transactions; its sub-transactions as plain transactions
			for k, n := range names {
				if !strings.HasPrefix(n, "B:") {
					continue
				}
				subs := strings.Split(n[2:], ";")
				with := func(repl string) string {
					c := append([]string{}, names...)
					c[k] = repl
					return strings.Join(c, ",")
				}
				cands = append(cands, with(strings.Join(subs, ",")))
				if len(subs) > 1 {
					for j := range subs {
						cands = append(cands, with("B:"+strings.Join(append(append([]string{}, subs[:j]...), subs[j+1:]...), ";")))
					}
				}
			}
			for _, c := range cands {
				cand := append([]string{}, cur...)
				cand[i] = c
				if fails(cand) {
					cur = cand
					changed = true
					break
				}
			}
		}
		// the plain scenario instead of the shifted rotation
		if !changed && strings.HasSuffix(cur[0], "'") {
			cand := append([]string{strings.TrimSuffix(cur[0], "'")}, cur[1:]...)
			if fails(cand) {
				cur = cand
				changed = true
			}
		}
	}
	if !fails(cur) {
		return v
	}
	out := lastHit
	for i := 0; i < 2; i++ {
		if !fails(cur) || lastHit.Fingerprint != out.Fingerprint {
			out.What += " [NOT REPRODUCIBLE on re-run]"
			return out
		}
	}
	out.What += fmt.Sprintf(" [shrunk from %v; re-run twice: same verdict]", hist)
	return out
}

func termRuleText() string {
	var parts []string
	for _, p := range tPlans() {
		sc := tScenarios[p.scen]
		parts = append(parts, fmt.Sprintf("%s/%s(%d letters)/K=%d", p.scen, p.alpha, len(tAlphabet(sc, p.alpha)), p.k))
	}
	return "PHASE T (term boundaries; TermDuration=8, InterimDuration=2; real two-deputy node: block mined by the stand-alone assembler, confirmed by the other deputy, inserted with InsertBlock, stable before the next block): " +
		"history = scripted prefix (funding; C1, C3, C2 register; term reward set; inc0 = income address of D0 and incC3 = income address of C3 vote C1; D1 makes itself its income address and votes for itself; V, C2, C3 vote C1; TB: C1 votes for itself) + one block letter per window height (TA: 7..12, TB: 15..20 = term end, snapshot, interim, reward-1, reward block, reward+1; TA'/TB': rotation shifted) with at most K non-empty blocks, all positions x all letters; plans scenario/alphabet/K: " + strings.Join(parts, ", ") +
		"; letters: unregister of a candidate that votes for another (refund at once / deferred to the reward block), of a candidate with voters, of a deputy in / out of office; transfers over the voter's 200-LEMO step; re-votes (voter, income address, self-voting deputy); top-ups over the 100-LEMO step; reward settings that do / do not cross the receivers' steps; a transfer whose 150-LEMO fee crosses the step of the miner's voting income address; multi-transaction blocks; boxes (packaged and rolled back); " +
		"oracle = the tally equation over all accounts ever touched on the state the miner would save AND on the validator's stored state, after every block"
}

// termSelfCheck is the non-vacuity gate of phase T.
func termSelfCheck(r *core.Result) {
	need := []string{
		"T/hit/salary-crosses-step-of-voting-income-address/votes-for-another/candidate-registered",
		"T/hit/salary-crosses-step-of-voting-income-address/votes-for-itself/candidate-registered",
		"T/hit/salary-crosses-step-of-voting-income-address/votes-for-another/candidate-unregistered(votes-stay-0)",
		"T/hit/deferred-refund-crosses-step-of-voter/candidate-registered@reward",
		"T/hit/immediate-refund-crosses-step-of-voter/candidate-registered@term-end",
		"T/hit/immediate-refund-crosses-step-of-voter/candidate-registered@reward",
		"T/hit/immediate-refund-crosses-step-of-voter/candidate-registered@reward+1",
		"T/hit/reward-block-pays-salaries",
	}
	for _, hc := range []string{"term-end", "snapshot", "interim", "reward-1", "reward", "reward+1"} {
		need = append(need, "T/hit/re-vote@"+hc, "T/hit/top-up-crossing-a-deposit-step@"+hc, "T/tx/unregister@"+hc, "T/tx/transfer@"+hc,
			"T/hit/balance-change-crosses-step-of-voter/candidate-registered@"+hc, "T/hit/voter-of-unregistered-candidate-changes-weight@"+hc)
		if r.Counters["T/hit/fees-cross-step-of-voting-income-address/votes-for-another@"+hc]+r.Counters["T/hit/fees-cross-step-of-voting-income-address/votes-for-itself@"+hc] == 0 {
			need = append(need, "T/hit/fees-cross-step-of-voting-income-address/*@"+hc)
		}
	}
	need = append(need, "T/hit/fees-cross-step-of-voting-income-address/votes-for-another@term-end", "T/hit/fees-cross-step-of-voting-income-address/votes-for-another@reward+1")
	need = append(need, "T/hit/unregister-refund-deferred@snapshot", "T/hit/unregister-refund-deferred@interim", "T/hit/unregister-refund-deferred@reward-1", "T/hit/unregister-refunded-at-once@term-end")
	var missing []string
	for _, k := range need {
		if r.Counters[k] == 0 {
			missing = append(missing, k)
		}
	}
	if len(missing) > 0 {
		r.NotExhaustive("phase T coverage self-check: never hit " + strings.Join(missing, ", "))
	}
}

// C11, phase R — the tally equation after ROLLED-BACK work on the miner path.
//
// The first phase (main.go) never checks a block from which the miner discarded a transaction (it is
// "the same as the shorter list") and its alphabet has no transaction that is undone after it touched
// votes or balances. Phase R closes that gap. On the miner path (TxProcessor.ApplyTxs, reached through
// the real BlockAssembler.MineBlock of the block factory) every transaction runs behind a snapshot and
// is undone with account.Manager.RevertToSnapshot when applyTx returns an error; the ways to get there
// after state was touched are (read from tx_processor.go / box_tx.go / candidate_vote_tx.go):
//
//  1. a BOX whose later sub-transaction fails (RunBoxTxs executes the sub-transactions with applyTx one
//     after the other WITHOUT snapshots of their own; the first error undoes the whole box): the
//     earlier sub-transactions already moved votes (top-up over a 100-LEMO step, vote, re-vote,
//     unregister), balances (transfers over the 200-LEMO step, gas, deposits, refunds) and VoteFor;
//  2. the block gas limit reached INSIDE a box (buyGas of sub-transaction j returns ErrGasLimitReached:
//     the "block is full" branch of ApplyTxs — the box is undone and dropped without being called invalid);
//  3. a plain transaction that fails in handleTx after buyGas took the whole gas limit from the payer
//     (with a high gas price that alone crosses the payer's 200-LEMO step): vote for a non-candidate,
//     vote for the same candidate again, register / top-up after unregistering;
//  4. EVM-internal rollback (on both paths, the transaction IS packaged as failed): a contract call
//     that forwards its value to a voter and then REVERTs / runs into an invalid opcode.
//     (A register / top-up cannot fail after its deposit moved: registerCandidate checks everything
//     first; modifyCandidateInfo can only fail after the Transfer when the recorded deposit is missing or
//     unparsable, which no transaction can bring about. The box time-out is the same revert as 1; it
//     depends on the wall clock and is not driven.)
//
// Exploration (engine E2, same BFS as phase 1; scenarios R0 / R1 are further children of the root):
// one event = one BLOCK = ordered list of items; an item is a plain transaction letter or a box
// "B:s1;s2;.." signed and paid by X whose sub-transactions are signed and paid by their own senders;
// the suffix "@gJ" makes sub-transaction J ask for more gas than the block has (block gas limit 40M,
// sub-transaction gas limit 50M): the gas limit is reached inside the box after J-1 sub-transactions ran.
// Blocks are built by the factory's real MineBlock on the head of the node under test O and inserted
// into O (validator path: Process + Finalize + root comparison).
//
// Oracle after EVERY block the miner produced — whatever it discarded —: tally() of main.go (the
// statement's equation over all accounts the history ever touched, including every address the
// miner's account manager loaded while executing discarded work) on the state the MINER saved for
// the block (factory database) AND on the state the VALIDATOR computed (O's database).
package main

import (
	"fmt"
	"math/big"
	"sort"
	"strconv"
	"strings"

	"verifmc/chainkit"
	"verifmc/core"
	"verifmc/node"

	"github.com/LemoFoundationLtd/lemochain-core/chain/account"
	"github.com/LemoFoundationLtd/lemochain-core/chain/params"
	"github.com/LemoFoundationLtd/lemochain-core/chain/types"
	"github.com/LemoFoundationLtd/lemochain-core/common"
	"github.com/LemoFoundationLtd/lemochain-core/common/crypto"
)

// ---------------------------------------------------------------------------------------------
// letters

type rLetter struct {
	name string
	kind string
	gas  uint64 // gas limit outside a box; inside a box every sub-transaction gets rSubGas
	mk   func(exp, gas uint64) *types.Transaction
}

const (
	rSubGas     = uint64(2000000)
	rBigGas     = uint64(50000000) // sub-transaction J of an "@gJ" block
	rBlockLimit = uint64(40000000) // block gas limit of an "@gJ" block
)

var rLetters = map[string]*rLetter{}

// contracts of the prefix: X deploys them; their addresses follow from the deployment transactions
var (
	rDeployExp = expBase - 60
	rContracts = map[string]common.Address{}
	rDeployTxs types.Transactions
)

func rForwardThenInvalid(to common.Address) []byte {
	c := chainkit.RtForward(to)
	return append(c[:len(c)-1:len(c)-1], 0xfe)
}

func init() {
	deploy := func(name string, runtime []byte, i uint64) {
		tx := node.Tx(node.TxSpec{Type: params.CreateContractTx, From: kX, Data: chainkit.InitCode(runtime), Exp: rDeployExp + i})
		a := crypto.CreateContractAddress(kX.Addr, tx.Hash())
		rContracts[name] = a
		roleOf[a] = name
		rDeployTxs = append(rDeployTxs, tx)
	}
	deploy("fwdV", chainkit.RtForward(kV.Addr), 0)
	deploy("revV", chainkit.RtForwardThenRevert(kV.Addr), 1)
	deploy("oogV", rForwardThenInvalid(kV.Addr), 2)

	rdef := func(name, kind string, gas uint64, mk func(exp, gas uint64) *types.Transaction) {
		rLetters[name] = &rLetter{name, kind, gas, mk}
	}
	xfer := func(name, kind string, from, to *node.Key, lemo int64) {
		rdef(name, kind, 21000, func(exp, gas uint64) *types.Transaction {
			return node.Tx(node.TxSpec{Type: params.OrdinaryTx, From: from, To: &to.Addr, Amount: node.Lemo(lemo), Exp: exp, GasLimit: gas})
		})
	}
	vote := func(name string, from, to *node.Key) {
		rdef(name, "vote", 40000, func(exp, gas uint64) *types.Transaction {
			return node.Tx(node.TxSpec{Type: params.VoteTx, From: from, To: &to.Addr, Exp: exp, GasLimit: gas})
		})
	}
	reg := func(name, kind string, k *node.Key, amount *big.Int, isCand string) {
		rdef(name, kind, 200000, func(exp, gas uint64) *types.Transaction {
			t := node.Register(k, amount, profile(k, isCand), exp)
			if gas != 2000000 {
				data := t.Data()
				t = node.Tx(node.TxSpec{Type: params.RegisterTx, From: k, Amount: amount, Data: data, Exp: exp, GasLimit: gas})
			}
			return t
		})
	}
	call := func(name, kind, contract string, lemo int64) {
		rdef(name, kind, 300000, func(exp, gas uint64) *types.Transaction {
			to := rContracts[contract]
			return node.Tx(node.TxSpec{Type: params.OrdinaryTx, From: kX, To: &to, Amount: node.Lemo(lemo), Exp: exp, GasLimit: gas})
		})
	}
	// balance changes of the voter V over the 200-LEMO step (1090 -> 1240 = 6 votes, -> 940 = 4 votes)
	xfer("tXV150", "transfer-to-voter", kX, kV, 150)
	xfer("tVX150", "transfer-from-voter", kV, kX, 150)
	// inside a 200-LEMO step
	xfer("tXV50", "transfer-to-voter", kX, kV, 50)
	// always refused: W (700 LEMO) sends more than it has (vm.ErrInsufficientBalance, after buyGas)
	xfer("tWbig", "transfer-insufficient-balance", kW, kX, 9999)
	vote("vVC1", kV, kC1)
	vote("vVC2", kV, kC2)
	vote("vWC1", kW, kC1)
	vote("vWC2", kW, kC2)
	// always refused: X votes for W, which never registers (ErrOfNotCandidateNode, after buyGas)
	vote("vXnc", kX, kW)
	// top-ups of C1 (deposit = the minimum, a multiple of 100 LEMO): +100 crosses a step, +50 does not (twice do)
	reg("uC1+100", "deposit-top-up", kC1, node.Lemo(100), "true")
	reg("uC1+50", "deposit-top-up", kC1, node.Lemo(50), "true")
	// always refused after buyGas: top-up of more than C1 owns
	reg("uC1+big", "deposit-top-up-insufficient-balance", kC1, new(big.Int).Add(params.MinCandidateDeposit, node.Lemo(5000)), "true")
	reg("xC1", "unregister", kC1, new(big.Int), "false")
	reg("xC2", "unregister", kC2, new(big.Int), "false")
	// a FIRST registration (C3 is funded, never registered in the prefix): inside a box that is undone
	// later, the deposit has moved and the votes were set before the rollback
	reg("rC3", "register", kC3, new(big.Int).Add(params.MinCandidateDeposit, node.Lemo(150)), "true")
	vote("vVC3", kV, kC3)
	// a first registration whose profile says isCandidate=false: the deposit is paid, the account is unregistered from the start
	reg("rC3false", "register-as-non-candidate", kC3, new(big.Int).Add(params.MinCandidateDeposit, node.Lemo(150)), "false")
	// isCandidate is neither "true" nor "false": in a first registration, in a profile update of the candidate C1
	reg("rC3maybe", "register-with-undefined-isCandidate", kC3, new(big.Int).Add(params.MinCandidateDeposit, node.Lemo(150)), "maybe")
	reg("pC1maybe", "profile-update-with-undefined-isCandidate", kC1, new(big.Int), "maybe")
	// contract calls by X carrying 150 LEMO: forwarded to V; forwarded then REVERT; forwarded then invalid opcode
	call("kFwdV", "contract-forwards-to-voter", "fwdV", 150)
	call("kRevV", "contract-forwards-to-voter-then-reverts", "revV", 150)
	call("kOogV", "contract-forwards-to-voter-then-burns-all-gas", "oogV", 150)
	// a contract creation by X carrying 150 LEMO whose constructor forwards them to V and then REVERTs
	rdef("kNewRevV", "creation-forwards-to-voter-then-reverts", 300000, func(exp, gas uint64) *types.Transaction {
		return node.Tx(node.TxSpec{Type: params.CreateContractTx, From: kX, Amount: node.Lemo(150), Data: chainkit.RtForwardThenRevert(kV.Addr), Exp: exp, GasLimit: gas})
	})
	// a vote for a non-candidate by the voter V whose gas limit x price is 100 LEMO: buyGas alone takes V
	// from 5 to 4 votes; the miner discards the transaction
	rdef("dVnc$", "discarded-vote-with-fee-over-a-step", 100000, func(exp, gas uint64) *types.Transaction {
		return node.Tx(node.TxSpec{Type: params.VoteTx, From: kV, To: &kW.Addr, Exp: exp, GasLimit: 100000, GasPrice: big.NewInt(1e15)})
	})
	// the same for a transfer V cannot afford (vm.ErrInsufficientBalance is an error of applyTx after buyGas)
	rdef("dVbig$", "discarded-transfer-with-fee-over-a-step", 100000, func(exp, gas uint64) *types.Transaction {
		return node.Tx(node.TxSpec{Type: params.OrdinaryTx, From: kV, To: &kX.Addr, Amount: node.Lemo(9999), Exp: exp, GasLimit: 100000, GasPrice: big.NewInt(1e15)})
	})
}

// rItem is one parsed item of a block letter.
type rItem struct {
	text string
	box  bool
	subs []string
}

// parseBlock splits "a,B:s1;s2,b@g2" into items and the gas variant (0 = none).
func parseBlock(ev string) (items []rItem, gasAt int) {
	if k := strings.LastIndex(ev, "@g"); k >= 0 {
		n, err := strconv.Atoi(ev[k+2:])
		if err != nil || n < 1 {
			panic("harness: bad gas variant in " + ev)
		}
		gasAt = n
		ev = ev[:k]
	}
	if ev == "-" || ev == "" {
		return nil, gasAt
	}
	for _, t := range strings.Split(ev, ",") {
		it := rItem{text: t}
		if strings.HasPrefix(t, "B:") {
			it.box = true
			it.subs = strings.Split(t[2:], ";")
			for _, s := range it.subs {
				if rLetters[s] == nil {
					panic("harness: unknown sub-transaction " + s)
				}
			}
		} else if rLetters[t] == nil {
			panic("harness: unknown tx " + t)
		}
		items = append(items, it)
	}
	return items, gasAt
}

// buildItems makes the transactions of a block; every (sub-)transaction has its own expiration, so
// that the same letter at two places gives two different transactions.
func buildItems(items []rItem, blockIdx, gasAt int) types.Transactions {
	var txs types.Transactions
	firstBox := true
	for i, it := range items {
		exp := expBase + uint64(blockIdx*96+i*12)
		if !it.box {
			l := rLetters[it.text]
			txs = append(txs, l.mk(exp, l.gas))
			continue
		}
		var subs []*types.Transaction
		for j, s := range it.subs {
			gas := rSubGas
			if firstBox && gasAt == j+1 {
				gas = rBigGas
			}
			subs = append(subs, rLetters[s].mk(exp+1+uint64(j), gas))
		}
		firstBox = false
		txs = append(txs, node.Box(kX, exp, subs...))
	}
	return txs
}

func rKinds(items []rItem) string {
	l := make([]string, len(items))
	for i, it := range items {
		if it.box {
			k := make([]string, len(it.subs))
			for j, s := range it.subs {
				k[j] = rLetters[s].kind
			}
			l[i] = "box{" + strings.Join(k, ";") + "}"
		} else {
			l[i] = rLetters[it.text].kind
		}
	}
	return strings.Join(l, ",")
}

// ---------------------------------------------------------------------------------------------
// scenarios and menus

// R0: C1 (deposit = minimum) and C2 (minimum + 150 LEMO) are registered, nobody votes.
// R1: the same, and V (1090 LEMO) and W (700 LEMO) vote for C1.
func rPrefixTxs(scen string) types.Transactions {
	min := params.MinCandidateDeposit
	fo := node.Founder()
	e := expBase - 100
	txs := types.Transactions{
		node.Transfer(fo, kV.Addr, node.Lemo(1090), e),
		node.Transfer(fo, kW.Addr, node.Lemo(700), e+1),
		node.Transfer(fo, kX.Addr, node.Lemo(5000), e+2),
		node.Transfer(fo, kC1.Addr, new(big.Int).Add(min, node.Lemo(1000)), e+3),
		node.Transfer(fo, kC2.Addr, new(big.Int).Add(min, node.Lemo(1000)), e+4),
		node.Transfer(fo, kC3.Addr, new(big.Int).Add(min, node.Lemo(1000)), e+9),
		node.Register(kC1, min, profile(kC1, "true"), e+5),
		node.Register(kC2, new(big.Int).Add(min, node.Lemo(150)), profile(kC2, "true"), e+6),
	}
	txs = append(txs, rDeployTxs...)
	if scen == "R1" {
		txs = append(txs, node.Vote(kV, kC1.Addr, e+7), node.Vote(kW, kC1.Addr, e+8))
	}
	return txs
}

var (
	// plain items next to a box (before / after it) and in blocks without a box
	rPlain = []string{"tXV150", "tVX150", "vVC1", "vVC2", "uC1+100", "xC1", "kFwdV", "kRevV", "kOogV", "dVnc$", "rC3"}
	// sub-transactions; vXnc always fails
	rSubs      = []string{"uC1+100", "vVC1", "vVC2", "tXV150", "xC1", "rC3", "vXnc"}
	rSubsMore  = []string{"tVX150", "vWC2", "uC1+50", "kRevV", "tWbig", "uC1+big", "xC2", "vVC3"}
	rPlainMore = []string{"dVbig$", "vWC2", "uC1+50", "tXV50", "xC2", "kNewRevV", "vVC3"}
	// register transactions whose isCandidate field is "false" in a FIRST registration / is neither "true" nor
	// "false" (first registration, profile update): plain items of blocks without a box in both tiers,
	// sub-transactions in the thorough tier
	rOddRegs = []string{"rC3false", "rC3maybe", "pC1maybe"}
)

// rBoxes lists every box of 1..n sub-transactions over subs, each alone and with every "@gJ".
// A box is returned as (item text, number of subs).
func rBoxes(subs []string, n int) [][2]string {
	var out [][2]string
	level := []string{""}
	for l := 1; l <= n; l++ {
		var next []string
		for _, p := range level {
			for _, s := range subs {
				if p == "" {
					next = append(next, s)
				} else {
					next = append(next, p+";"+s)
				}
			}
		}
		for _, b := range next {
			out = append(out, [2]string{"B:" + b, strconv.Itoa(l)})
		}
		level = next
	}
	return out
}

// rWithBox: [pre] box [post] for every box (and every gas variant of it); neighbours 0, 1 (before or
// after) or 2 (before and after) plain items.
func rWithBox(boxes [][2]string, plain []string, both bool) []string {
	var out []string
	for _, bx := range boxes {
		n, _ := strconv.Atoi(bx[1])
		var variants []string
		variants = append(variants, "")
		for j := 1; j <= n; j++ {
			variants = append(variants, fmt.Sprintf("@g%d", j))
		}
		for _, v := range variants {
			out = append(out, bx[0]+v)
			for _, p := range plain {
				out = append(out, p+","+bx[0]+v)
				out = append(out, bx[0]+","+p+v)
			}
			if both {
				for _, p := range plain {
					for _, q := range plain {
						out = append(out, p+","+bx[0]+","+q+v)
					}
				}
			}
		}
	}
	return out
}

func rPlainBlocks(plain []string, n int) []string {
	var out []string
	level := []string{""}
	for l := 1; l <= n; l++ {
		var next []string
		for _, p := range level {
			for _, a := range plain {
				if p == "" {
					next = append(next, a)
				} else {
					next = append(next, p+","+a)
				}
			}
		}
		out = append(out, next...)
		level = next
	}
	return out
}

func dedupe(l []string) []string {
	seen := map[string]bool{}
	var out []string
	for _, s := range l {
		if !seen[s] {
			seen[s] = true
			out = append(out, s)
		}
	}
	return out
}

var rMenuCache = map[string][]string{}

// rMenu: the blocks enabled at depth d (1 = first block after the prefix) of the tier.
func rMenu(depth int) []string {
	key := fmt.Sprintf("%s/%d", core.Opt.Tier, depth)
	if m, ok := rMenuCache[key]; ok {
		return m
	}
	var m []string
	switch {
	case !core.Thorough() && depth == 1:
		// every block of <= 2 plain items; every box of <= 2 sub-transactions with <= 1 plain neighbour
		m = append(m, rPlainBlocks(append(append([]string{}, rPlain...), rOddRegs...), 2)...)
		m = append(m, rWithBox(rBoxes(rSubs, 2), rPlain, false)...)
	case core.Thorough() && depth == 1:
		// the quick menu; boxes of <= 2 sub-transactions with a plain item before AND after (6 x 6
		// neighbours); boxes of <= 2 over the larger sub-transaction alphabet with <= 1 neighbour; boxes of 3
		// sub-transactions (6 letters) with <= 1 neighbour out of 4; blocks of <= 2 plain items over the larger alphabet
		allSubs := append(append(append([]string{}, rSubs...), rSubsMore...), rOddRegs...)
		allPlain := append(append(append([]string{}, rPlain...), rPlainMore...), rOddRegs...)
		m = append(m, rPlainBlocks(allPlain, 2)...)
		m = append(m, rWithBox(rBoxes(rSubs, 2), rPlain, false)...)
		m = append(m, rWithBox(rBoxes(rSubs, 2), rPlain[:6], true)...)
		m = append(m, rWithBox(rBoxes(allSubs, 2), rPlain, false)...)
		m = append(m, rWithBox(rBoxes([]string{"uC1+100", "vVC1", "vVC2", "tXV150", "xC1", "vXnc"}, 3), []string{"tXV150", "vVC1", "uC1+100", "xC1"}, false)...)
		m = append(m, rWithBox(rBoxes([]string{"rC3", "vVC3", "xC1", "vXnc"}, 3), []string{"rC3", "vVC3"}, false)...)
	case core.Thorough() && depth == 2:
		// second block: one plain item; a one-sub-transaction box; a box undone by its last sub-transaction
		m = append(m, rPlainBlocks(append(append([]string{}, rPlain...), rOddRegs...), 1)...)
		for _, x := range rSubs[:6] {
			m = append(m, "B:"+x, "B:"+x+";vXnc")
		}
	}
	m = dedupe(m)
	rMenuCache[key] = m
	return m
}

func rMaxBlocks() int {
	if core.Thorough() {
		return 2
	}
	return 1
}

func rScenarioNames() []string { return []string{"R0", "R1"} }

func isRScenario(s string) bool { return s == "R0" || s == "R1" }

// ---------------------------------------------------------------------------------------------
// one block on both paths

type rResult struct {
	status   string // accepted | not-producible | not-encodable | rejected
	detail   string
	block    *types.Block
	packaged []bool // per item
	invalid  []bool // per item: the miner called it invalid
	minerSt  []acct
	validSt  []acct
}

func (w *world) deliverR(txs types.Transactions, extra string, gasAt int) (res rResult) {
	var b *types.Block
	var inv types.Transactions
	var err error
	spec := node.BlockSpec{Parent: w.head, Miner: kD0, Time: w.head.Time() + 10, Txs: txs, Extra: extra,
		Inspect: func(am *account.Manager, blk *types.Block) {
			// everything the miner's account manager loaded, discarded work included
			for _, a := range account.VerifLoadedAddresses(am) {
				w.addrs[a] = true
			}
		}}
	if gasAt > 0 {
		spec.GasLimit = rBlockLimit
	}
	func() {
		defer func() {
			if p := recover(); p != nil {
				err = fmt.Errorf("panic: %v", p)
			}
		}()
		b, inv, err = w.f.Make(spec)
	}()
	if err != nil {
		return rResult{status: "not-producible", detail: err.Error()}
	}
	res.block = b
	res.packaged = make([]bool, len(txs))
	res.invalid = make([]bool, len(txs))
	for i, tx := range txs {
		// (the hash of a box changes when it is executed: compare by sender + expiration)
		for _, p := range b.Txs {
			if p.Expiration() == tx.Expiration() && p.From() == tx.From() && p.Type() == tx.Type() {
				res.packaged[i] = true
			}
		}
		for _, p := range inv {
			if p.Expiration() == tx.Expiration() && p.From() == tx.From() && p.Type() == tx.Type() {
				res.invalid[i] = true
			}
		}
	}
	for _, l := range b.ChangeLogs {
		w.addrs[l.Address] = true
	}
	var wire *types.Block
	func() {
		defer func() {
			if p := recover(); p != nil {
				err = fmt.Errorf("panic: %v", p)
			}
		}()
		wire = node.Wire(b)
	}()
	if err != nil {
		res.status, res.detail = "not-encodable", err.Error()
		res.minerSt = w.stateOf(w.f.DB, b.Hash())
		return res
	}
	w.o.Use()
	func() {
		defer func() {
			if p := recover(); p != nil {
				err = fmt.Errorf("panic in validator: %v", p)
			}
		}()
		err = w.o.BC.InsertBlock(wire)
	}()
	res.minerSt = w.stateOf(w.f.DB, b.Hash())
	if err != nil {
		res.status, res.detail = "rejected", err.Error()
		return res
	}
	if w.o.BC.CurrentBlock().Hash() != b.Hash() {
		res.status, res.detail = "rejected", "accepted but not the new head"
		return res
	}
	res.validSt = w.stateOf(w.o.DB, b.Hash())
	res.status = "accepted"
	w.head = b
	return res
}

// boxProbe: was it the LAST sub-transaction of the discarded box that failed? It mines (without
// storing anything) the same block with the box cut by its last sub-transaction.
func (w *world) boxCutPackaged(items []rItem, boxAt, blockIdx int) bool {
	cut := make([]rItem, len(items))
	copy(cut, items)
	it := cut[boxAt]
	it.subs = it.subs[:len(it.subs)-1]
	cut[boxAt] = it
	txs := buildItems(cut, blockIdx, 0)
	var ok bool
	func() {
		defer func() { recover() }()
		b, _, err := w.f.Make(node.BlockSpec{Parent: w.head, Miner: kD0, Time: w.head.Time() + 10, Txs: txs, Extra: "probe", NoSave: true})
		if err != nil {
			return
		}
		for _, p := range b.Txs {
			if p.Type() == params.BoxTx && p.Expiration() == txs[boxAt].Expiration() {
				ok = true
			}
		}
	}()
	return ok
}

// ---------------------------------------------------------------------------------------------
// run

func runR(full []string) core.Outcome {
	scen := full[0]
	hist := full[1:]
	w := newWorld()
	defer w.close()
	for _, a := range rContracts {
		w.addrs[a] = true
	}
	var o core.Outcome
	viol := func(fp, what string) {
		o.Violations = append(o.Violations, core.Violation{Fingerprint: prop + "/rollback/" + fp, What: what + fmt.Sprintf("; history (scenario, then the blocks after the prefix block) %v", full), Replay: map[string]interface{}{"history": full}})
	}
	res := w.deliver(rPrefixTxs(scen), "prefix")
	if res.status != "accepted" {
		panic(fmt.Sprintf("harness: prefix block of %s %s: %s (invalid=%d)", scen, res.status, res.detail, res.invalid))
	}
	st := w.state(w.head.Hash())
	if mm := tally(st); len(mm) > 0 {
		viol("tally-mismatch/in-prefix", fmtMismatches(mm))
		return o
	}
	if verbose {
		fmt.Printf("after prefix:\n%s", dump(st))
	}
	for i, ev := range hist {
		items, gasAt := parseBlock(ev)
		txs := buildItems(items, i, gasAt)
		core.Journal(fmt.Sprintf("%v @%d", full, i))
		last := i == len(hist)-1
		parentHead := w.head
		prev := st
		rr := w.deliverR(txs, ev, gasAt)
		if verbose {
			fmt.Printf("block %d %s: %s %s\n", i+1, ev, rr.status, rr.detail)
			for j, it := range items {
				fmt.Printf("   item %d %-28s packaged=%v called-invalid=%v\n", j, it.text, rr.packaged != nil && rr.packaged[j], rr.invalid != nil && rr.invalid[j])
			}
		}
		shape := rKinds(items)
		if gasAt > 0 {
			shape += fmt.Sprintf("@gas-limit-at-sub-%d", gasAt)
		}
		// for fingerprints: when the miner undid something, the class of the case is WHAT was undone (the
		// packaged neighbours that make the damage visible vary freely); otherwise the whole block
		fpShape := "[" + shape + "]"
		if rr.packaged != nil {
			var undone []rItem
			for j, it := range items {
				if !rr.packaged[j] {
					undone = append(undone, it)
				}
			}
			if len(undone) > 0 {
				fpShape = "undone[" + rKinds(undone) + "]"
				if gasAt > 0 {
					fpShape += fmt.Sprintf("@gas-limit-at-sub-%d", gasAt)
				}
				if len(undone) < len(items) {
					fpShape += "+packaged-neighbours"
				}
			}
		}
		switch rr.status {
		case "not-producible":
			cause := rr.detail
			if k := strings.Index(cause, "\n"); k >= 0 {
				cause = cause[:k]
			}
			viol("block-not-producible/"+cause+"/["+shape+"]", fmt.Sprintf("the assembler cannot produce block %d %q: %s", i+1, ev, rr.detail))
			return o
		case "not-encodable":
			mm := tally(rr.minerSt)
			viol("mined-block-not-RLP-encodable/["+shape+"]", fmt.Sprintf("the assembler produced block %d %q which cannot be encoded (%s); state of that block: %s", i+1, ev, rr.detail, fmtMismatches(mm)))
			return o
		case "rejected":
			if mm := tally(rr.minerSt); len(mm) > 0 {
				viol("tally-mismatch/"+mismatchClasses(mm)+"/miner(validator-refuses-the-block)/"+fpShape, fmt.Sprintf("after block %d %q, miner's state: %s; the validator refuses the block: %s", i+1, ev, fmtMismatches(mm), rr.detail))
			} else {
				viol("honest-block-rejected/"+fpShape, fmt.Sprintf("O refused the honestly built block %d %q: %s", i+1, ev, rr.detail))
			}
			return o
		}
		st = rr.validSt
		if verbose {
			fmt.Printf("%s", dump(st))
		}
		mmM, mmV := tally(rr.minerSt), tally(rr.validSt)
		if len(mmM) > 0 || len(mmV) > 0 {
			if !last && !lenient {
				return core.Outcome{Nondet: fmt.Sprintf("block %d %q violates although its state was expanded", i, ev)}
			}
			where, mm := "miner+validator", mmV
			switch {
			case len(mmV) == 0:
				where, mm = "miner-only", mmM
			case len(mmM) == 0:
				where = "validator-only"
			}
			fpHist := fpShape
			if i > 0 {
				fpHist = rShape(hist[:i]) + fpShape
			}
			if strings.Contains(mismatchClasses(mm), "undefined-candidate-state-tally") {
				// the class of the case is the register transaction that left isCandidate undefined; what makes
				// the count drift afterwards (any balance change or re-vote of a voter) varies freely
				fpHist = "after[" + strings.Join(rKindsContaining(hist[:i+1], "undefined-isCandidate"), ",") + "]"
			}
			viol("tally-mismatch/"+mismatchClasses(mm)+"/"+where+"/"+fpHist, fmt.Sprintf("after block %d %q (%s): %s", i+1, ev, where, fmtMismatches(mm)))
			o.Tags = append(o.Tags, "R/mismatch/"+shape)
			return o
		}
		if stateKey(rr.minerSt) != stateKey(rr.validSt) {
			// cannot happen while the validator compares roots; C01 material, reported all the same
			viol("miner-and-validator-states-differ/["+shape+"]", fmt.Sprintf("after block %d %q the miner's saved state and the validator's differ:\nminer:\n%svalidator:\n%s", i+1, ev, dump(rr.minerSt), dump(rr.validSt)))
			return o
		}
		if last {
			// what was undone
			var marks []string
			nDisc := 0
			for j, it := range items {
				if rr.packaged[j] {
					continue
				}
				nDisc++
				how := "block-full"
				if rr.invalid[j] {
					how = "invalid"
				}
				if !it.box {
					marks = append(marks, "R/hit/plain-discarded("+how+")/"+rLetters[it.text].kind)
					continue
				}
				switch {
				case gasAt > 0 && !rr.invalid[j]:
					for _, s := range it.subs[:gasAt-1] {
						marks = append(marks, "R/hit/box-undone-at-gas-limit-after/"+rLetters[s].kind)
					}
					marks = append(marks, fmt.Sprintf("R/hit/gas-limit-reached-inside-box/at-sub-%d", gasAt))
				case len(it.subs) >= 2 && w.boxCutPackagedAt(parentHead, items, j, i):
					for _, s := range it.subs[:len(it.subs)-1] {
						marks = append(marks, "R/hit/box-undone-by-last-sub-after/"+rLetters[s].kind)
					}
					marks = append(marks, "R/hit/box-undone-by-failing/"+rLetters[it.subs[len(it.subs)-1]].kind)
				default:
					marks = append(marks, "R/hit/box-undone-earlier")
				}
			}
			for j, it := range items {
				if rr.packaged[j] && it.box {
					marks = append(marks, "R/hit/box-packaged")
				}
				if rr.packaged[j] && !it.box && packagedFailed(rr.block, txs[j]) && strings.HasPrefix(rLetters[it.text].kind, "contract-forwards-to-voter-then") {
					marks = append(marks, "R/hit/packaged-failed-call/"+rLetters[it.text].kind)
				}
			}
			if nDisc > 0 {
				// work was undone AND the block still changes a candidate / a voter
				if eff := effect(prev, st); eff != "" {
					marks = append(marks, "R/hit/undone-work-in-a-block-that-moves-tallies")
				}
			}
			sort.Strings(marks)
			o.Tags = append(o.Tags, dedupe(marks)...)
			o.Tags = append(o.Tags, fmt.Sprintf("R/ok/%s/discarded=%d/%s", shape, nDisc, effect(prev, st)))
			for _, h := range hits(nil, prev, st) {
				o.Tags = append(o.Tags, "R/"+h)
			}
		}
	}
	o.Key = core.Hash(fmt.Sprintf("%s|blocks=%d|%s", scen, len(hist), stateKey(st)))
	if len(hist) < rMaxBlocks() {
		o.Enabled = rMenu(len(hist) + 1)
	}
	return o
}

// boxCutPackagedAt runs boxCutPackaged on the parent of the block just delivered.
func (w *world) boxCutPackagedAt(parent *types.Block, items []rItem, boxAt, blockIdx int) bool {
	head := w.head
	w.head = parent
	defer func() { w.head = head }()
	return w.boxCutPackaged(items, boxAt, blockIdx)
}

// packagedFailed: the block carries a run-fail event for the packaged transaction built as tx.
func packagedFailed(b *types.Block, tx *types.Transaction) bool {
	for _, p := range b.Txs {
		if p.Expiration() != tx.Expiration() || p.From() != tx.From() || p.Type() != tx.Type() {
			continue
		}
		for _, l := range b.ChangeLogs {
			if ev, ok := l.NewVal.(*types.Event); ok && ev != nil && ev.TxHash == p.Hash() {
				for _, t := range ev.Topics {
					if t == types.TopicRunFail {
						return true
					}
				}
			}
		}
	}
	return false
}

func mismatchClasses(mm []mismatch) string {
	set := map[string]bool{}
	for _, m := range mm {
		set[m.class+"("+m.who+")"] = true
	}
	l := make([]string, 0, len(set))
	for c := range set {
		l = append(l, c)
	}
	sort.Strings(l)
	return strings.Join(l, "+")
}

// rKindsContaining: the kinds (sorted, unique) of all plain items / sub-transactions of the history whose kind contains sub.
func rKindsContaining(hist []string, sub string) []string {
	set := map[string]bool{}
	for _, ev := range hist {
		items, _ := parseBlock(ev)
		for _, it := range items {
			names := []string{it.text}
			if it.box {
				names = it.subs
			}
			for _, n := range names {
				if k := rLetters[n].kind; strings.Contains(k, sub) {
					set[k] = true
				}
			}
		}
	}
	l := make([]string, 0, len(set))
	for k := range set {
		l = append(l, k)
	}
	sort.Strings(l)
	return l
}

func rShape(hist []string) string {
	l := make([]string, len(hist))
	for i, ev := range hist {
		items, gasAt := parseBlock(ev)
		l[i] = "[" + rKinds(items) + "]"
		if gasAt > 0 {
			l[i] += fmt.Sprintf("@gas-limit-at-sub-%d", gasAt)
		}
	}
	return strings.Join(l, "")
}

// ---------------------------------------------------------------------------------------------
// shrinking: remove whole blocks, items, sub-transactions, the gas variant

func rShrink(safe core.RunFunc, v core.Violation) core.Violation {
	rp, ok := v.Replay.(map[string]interface{})
	if !ok {
		return v
	}
	var full []string
	switch h := rp["history"].(type) {
	case []string:
		full = h
	case []interface{}:
		for _, x := range h {
			full = append(full, fmt.Sprint(x))
		}
	}
	if len(full) < 2 {
		return v
	}
	fam := rFamily(v.Fingerprint)
	var lastHit core.Violation
	fails := func(h []string) bool {
		if len(h) < 2 {
			return false
		}
		o := safe(h)
		for _, x := range o.Violations {
			if rFamily(x.Fingerprint) == fam || rHasClass(x.Fingerprint, fam) {
				lastHit = x
				return true
			}
		}
		return false
	}
	lenient = true
	defer func() { lenient = false }()
	cur := append([]string{}, full...)
	for changed := true; changed; {
		changed = false
		for _, cand := range rSmaller(cur) {
			if fails(cand) {
				cur = cand
				changed = true
				break
			}
		}
	}
	if !fails(cur) {
		return v
	}
	out := lastHit
	for i := 0; i < 2; i++ {
		if !fails(cur) || lastHit.Fingerprint != out.Fingerprint {
			out.What += " [NOT REPRODUCIBLE on re-run]"
			return out
		}
	}
	out.What += fmt.Sprintf(" [shrunk from %v; re-run twice: same verdict]", full)
	return out
}

// rFamily: what fails (without the shape of the history).
func rFamily(fp string) string {
	p := strings.Split(fp, "/")
	if len(p) >= 4 && p[2] == "tally-mismatch" {
		// class names carry the role of the account; the family keeps only the class
		cls := p[3]
		var names []string
		for _, c := range strings.Split(cls, "+") {
			if k := strings.Index(c, "("); k > 0 {
				c = c[:k]
			}
			names = append(names, c)
		}
		// a case that shows several classes at once shrinks towards the (alphabetically) first of them:
		// the others have simpler cases of their own
		sort.Strings(names)
		return strings.Join(p[:3], "/") + "/" + names[0]
	}
	if len(p) >= 3 {
		return strings.Join(p[:3], "/")
	}
	return fp
}

// rHasClass: fp is a tally mismatch that shows (among others) the class the family fam is about.
func rHasClass(fp, fam string) bool {
	p := strings.Split(fp, "/")
	f := strings.Split(fam, "/")
	if len(p) < 4 || len(f) != 4 || p[2] != "tally-mismatch" || f[2] != "tally-mismatch" {
		return false
	}
	for _, c := range strings.Split(p[3], "+") {
		if k := strings.Index(c, "("); k > 0 {
			c = c[:k]
		}
		if c == f[3] {
			return true
		}
	}
	return false
}

// rSmaller lists the histories one step smaller than h (h[0] is the scenario).
func rSmaller(h []string) [][]string {
	var out [][]string
	put := func(i int, ev string) {
		c := append([]string{}, h...)
		if ev == "" {
			c = append(c[:i], c[i+1:]...)
		} else {
			c[i] = ev
		}
		out = append(out, c)
	}
	if h[0] == "R1" {
		out = append(out, append([]string{"R0"}, h[1:]...))
	}
	for i := 1; i < len(h); i++ {
		items, gasAt := parseBlock(h[i])
		render := func(items []rItem, gasAt int) string {
			if len(items) == 0 {
				return ""
			}
			l := make([]string, len(items))
			for k, it := range items {
				if it.box {
					l[k] = "B:" + strings.Join(it.subs, ";")
				} else {
					l[k] = it.text
				}
			}
			s := strings.Join(l, ",")
			if gasAt > 0 {
				s += fmt.Sprintf("@g%d", gasAt)
			}
			return s
		}
		if i < len(h)-1 || len(h) > 2 {
			put(i, "")
		}
		for k := range items {
			c := append(append([]rItem{}, items[:k]...), items[k+1:]...)
			g := gasAt
			if items[k].box {
				g = 0
			}
			if len(c) > 0 {
				put(i, render(c, g))
			}
		}
		for k, it := range items {
			if !it.box {
				continue
			}
			if gasAt > 0 {
				c := append([]rItem{}, items...)
				put(i, render(c, 0))
			}
			for s := range it.subs {
				if len(it.subs) == 1 {
					break
				}
				ns := append(append([]string{}, it.subs[:s]...), it.subs[s+1:]...)
				g := gasAt
				if g > 0 {
					if s+1 == g {
						continue
					}
					if s+1 < g {
						g--
					}
				}
				c := append([]rItem{}, items...)
				c[k] = rItem{box: true, subs: ns}
				put(i, render(c, g))
			}
			// a box with one sub-transaction left: the sub-transaction on its own
			if len(it.subs) == 1 && gasAt == 0 {
				c := append([]rItem{}, items...)
				c[k] = rItem{text: it.subs[0]}
				put(i, render(c, 0))
			}
		}
	}
	return out
}

func rBounds() map[string]interface{} {
	b := map[string]interface{}{"scenarios": rScenarioNames(), "max_blocks": rMaxBlocks(), "plain_items": rPlain, "sub_transactions": rSubs, "plain_items_in_blocks_without_a_box": rOddRegs}
	if core.Thorough() {
		b["plain_items_more"] = rPlainMore
		b["sub_transactions_more"] = rSubsMore
	}
	for d := 1; d <= rMaxBlocks(); d++ {
		b[fmt.Sprintf("blocks_in_menu_of_block_%d", d)] = len(rMenu(d))
	}
	return b
}

func rRuleText() string {
	t := "PHASE R (rolled-back work on the miner path; same BFS, scenarios R0 = C1, C2 registered, nobody votes / R1 = V and W vote C1): a block is a list of items = plain transactions and boxes B:s1;s2[;s3] (signed by X, sub-transactions by their own senders), optionally with the block gas limit reached at sub-transaction J (@gJ); built by the factory's real MineBlock (ApplyTxs: a failing transaction is undone with RevertToSnapshot and dropped), inserted into a real validator node; "
	if core.Thorough() {
		t += fmt.Sprintf("first block: %d blocks (every block of <= 2 plain items over %d letters; every box of <= 2 sub-transactions over %d letters x every @gJ with <= 1 plain neighbour out of %d, over %d letters also with a neighbour before AND after out of 6; boxes of 3 sub-transactions over 6 letters with <= 1 neighbour out of 4); second block from every distinct state: %d blocks; ", len(rMenu(1)), len(rPlain)+len(rPlainMore)+len(rOddRegs), len(rSubs)+len(rSubsMore)+len(rOddRegs), len(rPlain), len(rSubs), len(rMenu(2)))
	} else {
		t += fmt.Sprintf("one block after the prefix out of %d (every block of <= 2 plain items over %d letters; every box of <= 2 sub-transactions over %d letters, alone and with every @gJ, with <= 1 plain neighbour out of %d before or after); ", len(rMenu(1)), len(rPlain)+len(rOddRegs), len(rSubs), len(rPlain))
	}
	return t + "plain items: transfers over V's 200-LEMO step in both directions, vote / re-vote, top-up over the 100-LEMO step, unregister, a first registration, contract calls that forward 150 LEMO to V (ok / then REVERT / then invalid opcode), a vote for a non-candidate whose gas limit x price alone crosses V's step (discarded), register transactions whose isCandidate field is false in a first registration / neither true nor false; sub-transactions: top-up, vote, re-vote, transfer to the voter, unregister, a FIRST registration (deposit moved and votes set before the box is undone), a vote that always fails (failures also arise from the state: vote for the same candidate again, register / vote after unregistering); oracle = the tally equation on the state the miner saved AND on the validator's, after every block the miner produced whatever it discarded; a validator refusing the miner's block is a violation"
}

// rSelfCheck is the non-vacuity gate of phase R.
func rSelfCheck(r *core.Result) {
	need := []string{
		"R/hit/box-packaged",
		"R/hit/box-undone-by-last-sub-after/deposit-top-up",
		"R/hit/box-undone-by-last-sub-after/vote",
		"R/hit/box-undone-by-last-sub-after/transfer-to-voter",
		"R/hit/box-undone-by-last-sub-after/unregister",
		"R/hit/box-undone-by-last-sub-after/register",
		"R/hit/box-undone-at-gas-limit-after/register",
		"R/hit/register",
		"R/hit/box-undone-at-gas-limit-after/deposit-top-up",
		"R/hit/box-undone-at-gas-limit-after/vote",
		"R/hit/box-undone-at-gas-limit-after/unregister",
		"R/hit/gas-limit-reached-inside-box/at-sub-1",
		"R/hit/gas-limit-reached-inside-box/at-sub-2",
		"R/hit/plain-discarded(invalid)/discarded-vote-with-fee-over-a-step",
		"R/hit/plain-discarded(invalid)/vote",
		"R/hit/plain-discarded(invalid)/deposit-top-up",
		"R/hit/packaged-failed-call/contract-forwards-to-voter-then-reverts",
		"R/hit/packaged-failed-call/contract-forwards-to-voter-then-burns-all-gas",
		"R/hit/undone-work-in-a-block-that-moves-tallies",
		"R/hit/re-vote",
		"R/hit/top-up-crossing-a-deposit-step",
		"R/hit/unregister",
	}
	var missing []string
	for _, k := range need {
		ok := false
		for _, alt := range strings.Split(k, "|") {
			if r.Distinct[alt] {
				ok = true
			}
		}
		if !ok {
			missing = append(missing, k)
		}
	}
	if len(missing) > 0 {
		r.NotExhaustive("phase R coverage self-check: never hit " + strings.Join(missing, ", "))
	}
}

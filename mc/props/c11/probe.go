package main

import (
	"fmt"
	"os"
	"sort"
	"strings"

	"verifmc/core"
)

// devProbe: development aid and hand replay without a replay file:
//
//	C11_PROBE="R1 | tXV150,B:uC1+100;vXnc | vVC2" .build/c11        (phase 1 / phase R history, verbose)
//	C11_MENU=1 .build/c11 -tier quick                                (sizes of the menus)
func devProbe(safe core.RunFunc) bool {
	if os.Getenv("C11_MENU") != "" {
		for d := 1; d <= rMaxBlocks(); d++ {
			fmt.Printf("phase R, tier %s, block %d: %d blocks in the menu\n", core.Opt.Tier, d, len(rMenu(d)))
		}
		return true
	}
	if os.Getenv("C11_TCOUNT") != "" {
		for _, p := range tPlans() {
			sc := tScenarios[p.scen]
			a := tAlphabet(sc, p.alpha)
			fmt.Printf("%s %s letters=%d K=%d histories=%d\n", p.scen, p.alpha, len(a), p.k, len(windowHistories(sc, a, p.k)))
		}
		fmt.Println("total (deduplicated):", len(enumerateTerm()))
		return true
	}
	// C11_TPROBE="TA | - | xC2 | - | - | - | -"  (phase T history, from genesis, verbose)
	if p := os.Getenv("C11_TPROBE"); p != "" {
		var hist []string
		for _, f := range strings.Split(p, "|") {
			hist = append(hist, strings.TrimSpace(f))
		}
		r, trace := tRunOne(hist, true, true)
		for _, l := range trace {
			fmt.Println(l)
		}
		for _, v := range r.Violations {
			fmt.Printf("VIOLATION %s\n  %s\n", v.Fingerprint, v.What)
		}
		var keys []string
		for k, v := range r.Counters {
			keys = append(keys, fmt.Sprintf("%s=%d", k, v))
		}
		sort.Strings(keys)
		fmt.Println(strings.Join(keys, "\n"))
		return true
	}
	p := os.Getenv("C11_PROBE")
	if p == "" {
		return false
	}
	var hist []string
	for _, f := range strings.Split(p, "|") {
		hist = append(hist, strings.TrimSpace(f))
	}
	verbose = true
	lenient = true
	o := safe(hist)
	fmt.Printf("probe %v\n", hist)
	for _, t := range o.Tags {
		fmt.Println("  tag:", t)
	}
	for _, v := range o.Violations {
		fmt.Printf("VIOLATION %s\n%s\n", v.Fingerprint, v.What)
	}
	if o.Nondet != "" {
		fmt.Println("nondet:", o.Nondet)
	}
	return true
}

package main

// Stage "frame": raw bytes on a connection that has completed the encrypted handshake. The remote
// knows the session key. Every case runs the real Peer.Run (read loop + heartbeat loop) over a
// scripted connection with a consumer that takes delivered messages like the protocol manager
// does; a second pass over the same bytes with the frame hooks names the error class.

import (
	"bytes"
	"encoding/binary"
	"fmt"
	"io"

	"github.com/LemoFoundationLtd/lemochain-core/network/p2p"
)

type Family struct {
	Name string
	Cost int // relative cost of one case (1 = a few hundred microseconds)
	Gen  func(w *world, thorough bool, emit func(func() Case))
}

func remoteNodeID() p2p.NodeID {
	var id p2p.NodeID
	copy(id[:], remoteID().NodeID)
	return id
}

// errClass shortens an error of the frame / handshake layer to a stable class name.
func errClass(err error) string {
	if err == nil {
		return "ok"
	}
	s := err.Error()
	if len(s) > 60 {
		s = s[:60]
	}
	return "err:" + s
}

// playFrames runs the read side of a handshaken connection over the script.
func playFrames(m *meter, end error, chunks ...[]byte) string {
	conn := newScript(end, chunks...)
	total := conn.total()
	p := p2p.VerifSessionPeer(conn, fixedSession, remoteNodeID())
	delivered := 0
	consumerDone := make(chan struct{})
	setAsyncHook(func() { p.Close() })
	m.begin()
	go func() {
		defer close(consumerDone)
		for {
			msg, err := p.ReadMsg()
			if err != nil || msg == nil {
				return
			}
			delivered++
		}
	}()
	p.Run() // returns when the read loop has given up and closed the peer
	<-consumerDone
	// a message that was queued when the peer closed may be lost to the consumer (ReadMsg chooses
	// between the queue and the stop signal): it still counts as delivered to the queue
	delivered += p2p.VerifQueued(p)
	m.end(total)
	// the statement: afterwards the connection is closed (the read loop only ends by closing)
	state := "dropped-before-end-of-input"
	if conn.readAll() {
		state = "read-to-end"
	}
	if !p2p.VerifStopped(p) || !conn.isClosed() {
		state += "/NOT-CLOSED"
	}
	// second pass, frame hooks: which error ended it
	cls := "-"
	if total <= 1<<20 {
		c2 := newScript(end, chunks...)
		p2 := p2p.VerifSessionPeer(c2, fixedSession, remoteNodeID())
		for i := 0; i < 64; i++ {
			content, err := p2p.VerifReadConn(p2)
			if err != nil {
				cls = errClass(err)
				break
			}
			if err = framePeek(p2, content); err != nil {
				cls = errClass(err)
				break
			}
		}
	}
	d := fmt.Sprintf("%d", delivered)
	if delivered > 3 {
		d = "many"
	}
	return fmt.Sprintf("delivered=%s/%s/%s", d, cls, state)
}

// framePeek is what Peer.handle does up to queueing (unpack, code check), without queueing.
func framePeek(p p2p.IPeer, content []byte) error {
	code, _, err := p2p.VerifUnpackFrame(p, content)
	if err != nil {
		return err
	}
	if code > 0x1f {
		return p2p.ErrUnavailablePackage
	}
	return nil
}

var quickVals = []func(b byte) byte{
	func(b byte) byte { return 0x00 },
	func(b byte) byte { return 0xff },
	func(b byte) byte { return b ^ 0x01 },
	func(b byte) byte { return b ^ 0x80 },
}

// mutations of one byte: quick = {00, ff, ^01, ^80}, thorough = all 255 other values
func byteVals(orig byte, thorough bool) []byte {
	var l []byte
	if thorough {
		for v := 0; v < 256; v++ {
			if byte(v) != orig {
				l = append(l, byte(v))
			}
		}
		return l
	}
	seen := map[byte]bool{orig: true}
	for _, f := range quickVals {
		v := f(orig)
		if !seen[v] {
			seen[v] = true
			l = append(l, v)
		}
	}
	return l
}

func withByte(b []byte, pos int, v byte) []byte {
	c := append([]byte{}, b...)
	c[pos] = v
	return c
}

func statusReqFrame() []byte { return frame(fixedSession, 0x04, enc(struct{ R uint32 }{0})) }

func frameFamilies(w *world) []*Family {
	sample := func() []byte {
		return frame(fixedSession, 0x05, enc(struct {
			H    uint32
			Hash [32]byte
		}{3, w.hash("C")}))
	}
	var fams []*Family
	add := func(name string, cost int, gen func(thorough bool, emit func(func() Case))) {
		fams = append(fams, &Family{Name: "frame/" + name, Cost: cost, Gen: func(_ *world, th bool, emit func(func() Case)) { gen(th, emit) }})
	}
	ends := []struct {
		n string
		e error
	}{{"eof", io.EOF}, {"silent", errTimeout}}

	add("valid", 1, func(th bool, emit func(func() Case)) {
		for _, s := range w.samples() {
			s := s
			for _, e := range ends {
				e := e
				emit(func() Case {
					return Case{Name: fmt.Sprintf("frame/valid/%s/then-%s", s.name, e.n), Run: func(m *meter) string {
						return playFrames(m, e.e, frame(fixedSession, s.code, s.payload))
					}}
				})
			}
		}
	})
	add("code", 1, func(th bool, emit func(func() Case)) {
		codes := []uint32{}
		for c := uint32(0); c <= 0x21; c++ {
			codes = append(codes, c)
		}
		codes = append(codes, 0xff, 0x100, 0x10000, 1<<31, 1<<32-1)
		for _, c := range codes {
			c := c
			for _, pl := range [][]byte{nil, {0xc0}, bytes.Repeat([]byte{0x80}, 40)} {
				pl := pl
				emit(func() Case {
					return Case{Name: fmt.Sprintf("frame/code/%08x/payload=%d", c, len(pl)), Run: func(m *meter) string {
						return playFrames(m, io.EOF, frame(fixedSession, c, pl), statusReqFrame())
					}}
				})
			}
		}
	})
	add("ctlen", 1, func(th bool, emit func(func() Case)) {
		// ciphertexts of every length 0..64 (and a few larger ones): arbitrary bytes and a correct
		// encryption cut short
		good := cbc(fixedSession, pad(plainOf(0x04, bytes.Repeat([]byte{0x80}, 90))))
		lens := []int{}
		for l := 0; l <= 64; l++ {
			lens = append(lens, l)
		}
		lens = append(lens, 79, 80, 81, 95, 96, 97, 255, 256, 257, 4095, 4096, 4097, 65535, 65536, 65537)
		for _, l := range lens {
			l := l
			for _, kind := range []string{"zeros", "ff", "cut"} {
				kind := kind
				emit(func() Case {
					return Case{Name: fmt.Sprintf("frame/ctlen/len=%05d/%s", l, kind), Run: func(m *meter) string {
						var body []byte
						switch kind {
						case "zeros":
							body = make([]byte, l)
						case "ff":
							body = bytes.Repeat([]byte{0xff}, l)
						default:
							if l <= len(good) {
								body = good[:l]
							} else {
								body = append(append([]byte{}, good...), make([]byte, l-len(good))...)
							}
						}
						return playFrames(m, io.EOF, packet(body), statusReqFrame())
					}}
				})
			}
		}
	})
	add("declared", 40, func(th bool, emit func(func() Case)) {
		// the length field against what really follows
		decl := []uint32{0, 1, 15, 16, 17, 31, 32, 33, 1 << 16, 1 << 20, maxFrame - 1, maxFrame, maxFrame + 1, 1 << 31, 1<<32 - 1}
		for _, d := range decl {
			d := d
			for _, follow := range []int{0, 1, 16, 32} {
				follow := follow
				for _, e := range ends {
					e := e
					emit(func() Case {
						return Case{Name: fmt.Sprintf("frame/declared/%d/follow=%d/then-%s", d, follow, e.n), Run: func(m *meter) string {
							body := cbc(fixedSession, pad(plainOf(0x04, enc(struct{ R uint32 }{0}))))
							for len(body) < follow {
								body = append(body, body...)
							}
							return playFrames(m, e.e, packetLen(d, body[:follow]))
						}}
					})
				}
			}
		}
		// a frame of the maximal size that really arrives (the protocol's own limit)
		for _, size := range []int{maxFrame - 16, maxFrame} {
			size := size
			for _, valid := range []bool{false, true} {
				valid := valid
				emit(func() Case {
					return Case{Name: fmt.Sprintf("frame/declared/full=%d/valid=%v", size, valid), Run: func(m *meter) string {
						var body []byte
						if valid {
							body = cbc(fixedSession, pad(plainOf(0x1f, make([]byte, size-4-1))))
						} else {
							body = make([]byte, size)
						}
						return playFrames(m, io.EOF, packet(body))
					}}
				})
			}
		}
	})
	add("magic", 1, func(th bool, emit func(func() Case)) {
		fr := sample()
		for pos := 0; pos < 2; pos++ {
			for v := 0; v < 256; v++ {
				if byte(v) == fr[pos] {
					continue
				}
				pos, v := pos, v
				emit(func() Case {
					return Case{Name: fmt.Sprintf("frame/magic/pos=%d/val=%02x", pos, v), Run: func(m *meter) string {
						return playFrames(m, io.EOF, withByte(fr, pos, byte(v)), statusReqFrame())
					}}
				})
			}
		}
	})
	add("mut", 1, func(th bool, emit func(func() Case)) {
		// single byte mutations of whole valid frames (header and ciphertext)
		for _, s := range w.samples() {
			if !th && !s.quick {
				continue
			}
			s := s
			fr := frame(fixedSession, s.code, s.payload)
			if len(fr) > 460 {
				continue
			}
			for pos := range fr {
				for _, v := range byteVals(fr[pos], th) {
					pos, v := pos, v
					emit(func() Case {
						return Case{Name: fmt.Sprintf("frame/mut/%s/pos=%03d/val=%02x", s.name, pos, v), Run: func(m *meter) string {
							return playFrames(m, errTimeout, withByte(fr, pos, v), statusReqFrame())
						}}
					})
				}
			}
		}
	})
	add("pad", 1, func(th bool, emit func(func() Case)) {
		// correctly encrypted blocks whose padding is wrong: every value of the last byte, for
		// plaintexts of 1 and 2 blocks; and a padding that covers the whole plaintext
		for _, blocks := range []int{1, 2, 3} {
			for v := 0; v < 256; v++ {
				for _, fill := range []string{"same", "zero"} {
					blocks, v, fill := blocks, v, fill
					emit(func() Case {
						return Case{Name: fmt.Sprintf("frame/pad/blocks=%d/last=%02x/%s", blocks, v, fill), Run: func(m *meter) string {
							pl := make([]byte, 16*blocks)
							binary.BigEndian.PutUint32(pl, 0x04)
							if fill == "same" {
								for i := len(pl) - 1; i >= 0 && i >= len(pl)-v; i-- {
									pl[i] = byte(v)
								}
							}
							pl[len(pl)-1] = byte(v)
							return playFrames(m, io.EOF, packet(cbc(fixedSession, pl)), statusReqFrame())
						}}
					})
				}
			}
		}
	})
	add("plainlen", 1, func(th bool, emit func(func() Case)) {
		// correct encryption of plaintexts of every length 0..64: shorter than the code, the code
		// alone, code and payload
		for l := 0; l <= 64; l++ {
			for _, fill := range []byte{0x00, 0x04, 0xff} {
				l, fill := l, fill
				emit(func() Case {
					return Case{Name: fmt.Sprintf("frame/plainlen/len=%02d/fill=%02x", l, fill), Run: func(m *meter) string {
						return playFrames(m, io.EOF, framePlain(fixedSession, bytes.Repeat([]byte{fill}, l)), statusReqFrame())
					}}
				})
			}
		}
	})
	add("plain1", 1, func(th bool, emit func(func() Case)) {
		// every value of every byte of a 4..6 byte plaintext around a valid code
		for l := 1; l <= 6; l++ {
			base := plainOf(0x04, []byte{0xc1, 0x80})[:l]
			for pos := 0; pos < l; pos++ {
				for v := 0; v < 256; v++ {
					l, pos, v := l, pos, v
					emit(func() Case {
						return Case{Name: fmt.Sprintf("frame/plain1/len=%d/pos=%d/val=%02x", l, pos, v), Run: func(m *meter) string {
							return playFrames(m, io.EOF, framePlain(fixedSession, withByte(base, pos, byte(v))))
						}}
					})
				}
			}
		}
	})
	add("plain2", 1, func(th bool, emit func(func() Case)) {
		// single byte mutations (RLP boundary bytes) of the plaintext of valid frames
		for _, s := range w.samples() {
			if !th && !s.quick {
				continue
			}
			s := s
			pl := plainOf(s.code, s.payload)
			if len(pl) > 450 {
				continue
			}
			for pos := range pl {
				for _, v := range boundaryVals(pl[pos], th) {
					pos, v := pos, v
					emit(func() Case {
						return Case{Name: fmt.Sprintf("frame/plain2/%s/pos=%03d/val=%02x", s.name, pos, v), Run: func(m *meter) string {
							return playFrames(m, io.EOF, framePlain(fixedSession, withByte(pl, pos, v)))
						}}
					})
				}
			}
		}
	})
	add("prefix", 1, func(th bool, emit func(func() Case)) {
		// every truncation of a valid frame (and of two frames), then EOF / silence
		fr := append(sample(), statusReqFrame()...)
		for cut := 0; cut <= len(fr); cut++ {
			for _, e := range ends {
				cut, e := cut, e
				emit(func() Case {
					return Case{Name: fmt.Sprintf("frame/prefix/cut=%03d/then-%s", cut, e.n), Run: func(m *meter) string {
						return playFrames(m, e.e, fr[:cut])
					}}
				})
			}
		}
	})
	add("split", 1, func(th bool, emit func(func() Case)) {
		// every split of a frame into two reads (also inside the magic and the length field), and into
		// three reads; one byte per read
		fr := sample()
		for a := 0; a <= len(fr); a++ {
			a := a
			emit(func() Case {
				return Case{Name: fmt.Sprintf("frame/split/2/at=%03d", a), Run: func(m *meter) string {
					return playFrames(m, io.EOF, fr[:a], fr[a:], statusReqFrame())
				}}
			})
		}
		lim := 12
		if th {
			lim = len(fr)
		}
		for a := 0; a <= lim; a++ {
			for b := a; b <= lim; b++ {
				a, b := a, b
				emit(func() Case {
					return Case{Name: fmt.Sprintf("frame/split/3/at=%03d,%03d", a, b), Run: func(m *meter) string {
						return playFrames(m, io.EOF, fr[:a], fr[a:b], fr[b:], statusReqFrame())
					}}
				})
			}
		}
		emit(func() Case {
			return Case{Name: "frame/split/bytewise", Run: func(m *meter) string {
				var ch [][]byte
				for i := range fr {
					ch = append(ch, fr[i:i+1])
				}
				return playFrames(m, io.EOF, ch...)
			}}
		})
	})
	add("seq", 2, func(th bool, emit func(func() Case)) {
		// many frames back to back: more than the peer's message queue holds; heartbeats only; a bad
		// frame after good ones
		for _, n := range []int{2, 10, 11, 12, 13, 100, 1000} {
			n := n
			emit(func() Case {
				return Case{Name: fmt.Sprintf("frame/seq/status-requests=%d", n), Run: func(m *meter) string {
					return playFrames(m, io.EOF, bytes.Repeat(statusReqFrame(), n))
				}}
			})
			emit(func() Case {
				return Case{Name: fmt.Sprintf("frame/seq/heartbeats=%d", n), Run: func(m *meter) string {
					return playFrames(m, errTimeout, bytes.Repeat(frame(fixedSession, 0x01, nil), n))
				}}
			})
			emit(func() Case {
				return Case{Name: fmt.Sprintf("frame/seq/good=%d-then-bad", n), Run: func(m *meter) string {
					return playFrames(m, io.EOF, bytes.Repeat(statusReqFrame(), n), packet(make([]byte, 7)), statusReqFrame())
				}}
			})
		}
	})
	return fams
}

// RLP boundary bytes (the C14 alphabet)
var boundary = []byte{0x00, 0x01, 0x7f, 0x80, 0x81, 0xb7, 0xb8, 0xb9, 0xbf, 0xc0, 0xc1, 0xf7, 0xf8, 0xf9, 0xfa, 0xff}

func boundaryVals(orig byte, thorough bool) []byte {
	var l []byte
	for _, v := range boundary {
		if v != orig {
			l = append(l, v)
		}
	}
	return l
}

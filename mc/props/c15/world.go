package main

// The chain fixture of a worker: a block tree pre-mined by the block factory, the node under test
// (deputy d0 of 5, knows g <- f <- a1), the protocol manager plumbing and valid samples of every
// message.

import (
	"fmt"
	"os"
	"sort"

	"verifmc/core"
	"verifmc/node"
	"verifmc/vclock"
	"verifmc/vtask"

	"github.com/LemoFoundationLtd/lemochain-core/chain/types"
	"github.com/LemoFoundationLtd/lemochain-core/common"
	"github.com/LemoFoundationLtd/lemochain-core/common/rlp"
	"github.com/LemoFoundationLtd/lemochain-core/network"
	"github.com/LemoFoundationLtd/lemochain-core/network/p2p"
)

const nDep = 5

var t0 = node.GenesisTime + 1000

type world struct {
	blocks map[string]*types.Block // g f a1 C b1 O O2
	enc    map[string][]byte
	txNew  *types.Transaction
	txNew2 *types.Transaction
	txBox  *types.Transaction
	now    int64  // the node's clock (seconds)
	mineAt uint32 // a time at which d0 is in turn on a1
	exp    uint64
	// the miner in turn on a1 other than d0 (a byzantine deputy builds absurd blocks with it) and its slot
	byz     *node.Key
	byzTime uint32
}

func slot(f *node.Factory, parent *types.Block, rank int, notBefore uint32) uint32 {
	tm, ok := node.SlotTime(f.DM, parent, node.Deputy(rank), nDep)
	if !ok {
		panic("harness: no slot")
	}
	for tm < notBefore {
		tm += nDep * 10
	}
	return tm
}

func buildWorld() *world {
	vclock.SetUnix(int64(t0) + 100000)
	vtask.SetPolicy(vtask.Drop)
	f := node.NewFactory(core.ScratchDir("c15f"), nDep)
	defer f.Destroy()
	w := &world{blocks: map[string]*types.Block{"g": f.BC.Genesis()}, enc: map[string][]byte{}}
	w.exp = uint64(t0 + 1500)
	var fund types.Transactions
	for i := 0; i < 3; i++ {
		fund = append(fund, node.Transfer(node.Founder(), node.User(i).Addr, node.Lemo(1000), w.exp+uint64(i)))
	}
	txT := node.Transfer(node.User(0), node.User(1).Addr, node.Lemo(1), w.exp)
	w.txNew = node.Transfer(node.User(1), node.User(2).Addr, node.Lemo(2), w.exp)
	w.txNew2 = node.Transfer(node.User(2), node.User(1).Addr, node.Lemo(3), w.exp)
	w.txBox = node.Box(node.User(0), w.exp, node.Transfer(node.User(0), node.User(2).Addr, node.Lemo(1), w.exp+7), node.Transfer(node.User(1), node.User(0).Addr, node.Lemo(1), w.exp+8))
	mk := func(name, parent string, rank int, txs types.Transactions) {
		p := w.blocks[parent]
		b, inv, err := f.Make(node.BlockSpec{Parent: p, Miner: node.Deputy(rank), Time: slot(f, p, rank, t0), Txs: txs, Extra: name})
		if err != nil || len(inv) > 0 {
			panic(fmt.Sprintf("harness: %s: %v %d", name, err, len(inv)))
		}
		w.blocks[name] = b
	}
	mk("f", "g", 1, fund)
	mk("a1", "f", 2, types.Transactions{txT})
	mk("C", "a1", 3, types.Transactions{w.txNew})
	mk("C2", "a1", 3, types.Transactions{w.txNew2}) // a second block of the same deputy at the same height: it is "evil" afterwards
	mk("b1", "f", 3, nil)
	mk("O", "C", 4, nil)
	mk("O2", "O", 1, nil)
	var last uint32
	names := make([]string, 0)
	for n := range w.blocks {
		names = append(names, n)
	}
	sort.Strings(names)
	for _, n := range names {
		b := w.blocks[n]
		e, err := rlp.EncodeToBytes(b)
		if err != nil {
			panic(err)
		}
		w.enc[n] = e
		if b.Time() > last {
			last = b.Time()
		}
	}
	w.now = int64(last) + 5
	w.mineAt = slot(f, w.blocks["a1"], 0, w.blocks["a1"].Time())
	w.byz = node.Deputy(3)
	w.byzTime = w.blocks["C"].Time()
	vtask.Reset()
	return w
}

// block returns a fresh copy of a fixture block as a receiver decodes it.
func (w *world) block(name string) *types.Block {
	var b types.Block
	if err := rlp.DecodeBytes(w.enc[name], &b); err != nil {
		panic(err)
	}
	return &b
}

func (w *world) hash(name string) common.Hash { return w.blocks[name].Hash() }

// ---------------------------------------------------------------------------------------------
// the node under test

type env struct {
	w     *world
	n     *node.Node
	disc  *p2p.DiscoverManager
	dir   string
	base  string // digest of the pristine node
	built int
	cases int
	// keepDisc: the next protocol manager shares the discovery table that was just created for a server
	keepDisc bool
}

var E *env

func newEnv(w *world) *env {
	e := &env{w: w}
	e.dir = core.ScratchDir("c15n")
	e.disc = p2p.NewDiscoverManager(e.dir)
	e.rebuild()
	return e
}

// policy of the background goroutines of the code under test: everything is a gated task the case
// drains at fixed points, except the loops that have to run next to their caller (owned real
// goroutines, see spawn) and the chain's feed forwarder (the manager is detached from the bus).
func setPolicy() {
	vtask.SetPolicy(vtask.Gated,
		"runFeedTranspondLoop", vtask.Drop,
		"network/p2p/peer.go", vtask.Real, // heartbeatLoop, readLoop
		"network/peer.go", vtask.Real, // the reader of the protocol handshake
		"protocol_manager.go:"+"", vtask.Gated,
	)
}

func (e *env) rebuild() {
	if e.n != nil {
		e.n.Quiesce()
		e.n.Close()
	}
	os.RemoveAll(e.dir + "/chain")
	vtask.Reset()
	vclock.SetUnix(e.w.now)
	n := node.NewNode(e.dir+"/chain", nDep, node.Deputy(0))
	for _, bn := range []string{"f", "a1"} {
		if err := n.BC.InsertBlock(e.w.block(bn)); err != nil {
			panic(fmt.Sprintf("harness: cannot insert %s: %v", bn, err))
		}
	}
	vtask.Reset() // the node's own confirm broadcasts of the fixture blocks
	n.Quiesce()
	e.n = n
	e.built++
	e.base = e.digest()
}

// digest: what a case may have changed in the node (decides whether it has to be restored).
func (e *env) digest() string {
	bc := e.n.BC
	s := fmt.Sprintf("%x/%x", bc.CurrentBlock().Hash().Bytes()[:6], bc.StableBlock().Hash().Bytes()[:6])
	for _, bn := range []string{"f", "a1"} {
		if b := bc.GetBlockByHash(e.w.hash(bn)); b != nil {
			s += fmt.Sprintf("/%d", len(b.Confirms))
		}
	}
	for _, bn := range []string{"C", "C2", "b1", "O", "O2"} {
		if bc.HasBlock(e.w.hash(bn)) {
			s += "/" + bn
		}
	}
	return s
}

// effects describes what changed relative to the pristine node, as outcome tags.
func (e *env) effects() (tags []string, chainChanged, poolChanged bool) {
	bc := e.n.BC
	if bc.CurrentBlock().Hash() != e.w.hash("a1") {
		tags = append(tags, "head-advanced")
		chainChanged = true
	}
	if bc.StableBlock().Height() != 0 {
		tags = append(tags, "stable-advanced")
		chainChanged = true
	}
	d := e.digest()
	if d != e.base {
		if !chainChanged {
			for _, bn := range []string{"C", "C2", "b1", "O", "O2"} {
				if bc.HasBlock(e.w.hash(bn)) {
					tags = append(tags, "fork-block-stored")
					break
				}
			}
		}
		chainChanged = true
		for i, bn := range []string{"f", "a1"} {
			_ = i
			if b := bc.GetBlockByHash(e.w.hash(bn)); b != nil && len(b.Confirms) != e.baseConfirms(bn) {
				tags = append(tags, "confirms+")
				break
			}
		}
	}
	if !e.n.Pool.IsEmpty() {
		tags = append(tags, "pool+")
		poolChanged = true
	}
	return
}

func (e *env) baseConfirms(bn string) int {
	// the pristine node has confirmed f and a1 itself (it is deputy d0): one confirm each
	return 1
}

// restore brings the node back to the pristine state after a case that changed it.
func (e *env) restore(chainChanged, poolChanged bool) string {
	if chainChanged {
		e.rebuild()
		return "node-rebuilt"
	}
	if poolChanged {
		txs := e.n.Pool.GetTxs(uint32(e.w.now), 1<<20)
		e.n.Pool.DelTxs(txs)
		if !e.n.Pool.IsEmpty() {
			// expired or otherwise not handed out: take the long way
			e.rebuild()
			return "node-rebuilt"
		}
		return "pool-emptied"
	}
	return ""
}

// ---------------------------------------------------------------------------------------------
// protocol manager per case

type pmCase struct {
	pm        *network.ProtocolManager
	sig       chan int      // step signals of the manager's loops, forwarded
	loopDone  chan struct{} // the block loop goroutine has ended
	loopPanic *panicInfo    // ... by a panic
	aborted   bool          // the watchdog gave up on the case while waiting
}

func (e *env) newPM() *pmCase {
	var id p2p.NodeID
	copy(id[:], e.n.Self.NodeID)
	if !e.keepDisc {
		e.disc = p2p.NewDiscoverManager(e.dir)
	}
	e.keepDisc = false
	pm := network.NewProtocolManager(node.ChainID, id, e.n.BC, e.n.DM, e.n.Pool, e.n.BC.TxGuard(), e.disc, 20, 1, e.dir)
	network.VerifC15UnSub(pm)
	c := &pmCase{pm: pm, sig: make(chan int, 256), loopDone: make(chan struct{})}
	steps := network.VerifC15SetTest(pm)
	loopEnd := make(chan *panicInfo, 1)
	spawn("c15:rcvBlockLoop", func() { network.VerifC15RcvBlockLoop(pm) }, loopEnd)
	// the pump: the loop's step signal is an unbuffered channel, somebody has to listen all the time
	go func() {
		for {
			select {
			case s := <-steps:
				select {
				case c.sig <- s:
				default:
				}
			case pi := <-loopEnd:
				c.loopPanic = pi
				close(c.loopDone)
				return
			}
		}
	}()
	return c
}

// addPeer registers a fake connection of the given identity with the manager.
func (c *pmCase) addPeer(k *node.Key) (*fakePeer, *network.VerifC15Peer) {
	var id p2p.NodeID
	copy(id[:], k.NodeID)
	fp := newFakePeer(id)
	np := network.VerifC15NewPeer(fp)
	network.VerifC15Register(c.pm, np)
	return fp, np
}

// waitStep blocks until the manager's loops report the given step (or the loop died, or the
// watchdog gave up).
func (c *pmCase) waitStep(m *meter, want int) {
	for {
		select {
		case s := <-c.sig:
			if s == want {
				return
			}
		case <-c.loopDone:
			return
		case <-m.stop:
			c.aborted = true
			return
		}
	}
}

func (c *pmCase) failed() bool {
	select {
	case <-c.loopDone:
		return true
	default:
	}
	return c.aborted
}

// close stops the manager's block loop and waits until its goroutine has gone.
func (c *pmCase) close(m *meter) {
	select {
	case <-c.loopDone:
		return
	default:
	}
	network.VerifC15Quit(c.pm)
	select {
	case <-c.loopDone:
	case <-m.stop:
	}
}

package main

// Stage "srv": several connections against the real server loop (Server.run: add-peer / delete-peer
// events) and the real protocol manager loops (Start: peer loop, block loop, ...) with the process
// event bus attached, over in-memory duplex connections. Covers what the single-connection stages
// cannot: a second and third connection with the same node id, connections that close at once,
// many peers handed over at the same moment.
//
// Liveness oracle: after the scenario a new connection of an unrelated identity (the "witness")
// still gets through — encrypted handshake, hand-over to the server loop, the node's protocol
// handshake — while the process uses at most a few seconds of CPU time (a budget in CPU time, not in
// wall time: a server loop that spins for ever is detected on a loaded machine too; a process in
// which nothing computes any more is caught by the worker's watchdog).
//
// The server loop chooses between its channels with a Go select, which picks at random among the
// ready ones; the harness does not own that choice. Scenarios whose outcome depends on it are
// repeated on fresh instances until every outcome class listed for them has been observed (at most
// maxTries times; a stuck server ends the repetition at once).

import (
	"fmt"
	"sort"
	"strings"
	"sync"
	"time"

	"verifmc/node"
	"verifmc/vtask"

	"github.com/LemoFoundationLtd/lemochain-core/network"
	"github.com/LemoFoundationLtd/lemochain-core/network/p2p"
)

const maxTries = 48
const cpuBudget = 6 * time.Second

func requestFor(id *node.Key) []byte {
	return memoized("req:"+id.Name, func() []byte {
		return packet(seal(nodePub(), remoteEph().Priv, enc(clientHello(id.Priv, remoteRnd().Priv, nodePub(), fixedNonce))))
	})
}

type srvWorld struct {
	srv     *p2p.Server
	pm      *network.ProtocolManager
	loopEnd chan *panicInfo
	stop    chan struct{} // closed when the CPU budget is used up or the watchdog gave up
	m       *meter
	sent    int
	mu      sync.Mutex
	start   time.Duration
}

func newSrvWorld(m *meter) *srvWorld {
	s := &srvWorld{m: m, stop: make(chan struct{}), loopEnd: make(chan *panicInfo, 1)}
	s.srv = server()
	var id p2p.NodeID
	copy(id[:], E.n.Self.NodeID)
	s.pm = network.NewProtocolManager(node.ChainID, id, E.n.BC, E.n.DM, E.n.Pool, E.n.BC.TxGuard(), E.disc, 20, 1, E.dir)
	s.pm.Start()
	s.start = cpuNow()
	go func() {
		for {
			select {
			case <-m.stop:
				close(s.stop)
				return
			case <-time.After(20 * time.Millisecond):
				if cpuNow()-s.start > cpuBudget {
					close(s.stop)
					return
				}
			}
		}
	}()
	return s
}

func (s *srvWorld) addSent(n int) { s.mu.Lock(); s.sent += n; s.mu.Unlock() }

func (s *srvWorld) startLoop() {
	spawn("c15:Server.run", func() { p2p.VerifServerLoop(s.srv) }, s.loopEnd)
}

func (s *srvWorld) stopped() bool {
	select {
	case <-s.stop:
		return true
	default:
		return false
	}
}

// dial performs the encrypted handshake of a remote with identity id (HandleConn on an owned
// goroutine, the case goroutine plays the remote). The hand-over to the server loop is pending or
// done when it returns.
func (s *srvWorld) dial(id *node.Key) *remote {
	d := newDuplex()
	r := &remote{d: d, m: s.m, stop: s.stop}
	end := make(chan *panicInfo, 1)
	spawn("c15:HandleConn", func() { s.srv.HandleConn(d, nil) }, end)
	req := requestFor(id)
	d.send(req)
	s.addSent(len(req))
	body, ok := r.nextPacket()
	select {
	case <-end:
	case <-s.stop:
		return nil
	}
	if !ok {
		return nil
	}
	plain, err := openFor(id.Priv, body)
	if err != nil {
		return nil
	}
	var resp authResp
	if decodeRLP(plain, &resp) != nil {
		return nil
	}
	r.key = sessionKey(remoteRnd().Priv, resp.RandomPubKey[:], resp.RespNonce[:], fixedNonce)
	return r
}

// greeted: the node's protocol handshake arrives on this connection.
func (r *remote) greeted() bool {
	code, _, ok := r.nextMsg()
	return ok && code == 0x02
}

// witness: an unrelated identity connects now and must be greeted.
func (s *srvWorld) witness(n int) bool {
	r := s.dial(node.K(fmt.Sprintf("witness-%d", n)))
	if r == nil {
		return false
	}
	ok := r.greeted()
	r.d.closeRemote()
	return ok
}

// finish stops the loops; with stuck loops the instance is abandoned. Nothing here takes the write
// lock of the event bus (Server.Stop and ProtocolManager.Stop do, and can wait for ever for it
// while a closing peer is delivering its delete event: a shutdown problem, not a network input).
func (s *srvWorld) finish(stuck bool) {
	if stuck {
		return
	}
	// the server loop ends first (an event it is delivering to the manager right now is still taken
	// there; its channels keep a reader), then it leaves the bus, then the manager stops
	p2p.VerifServerQuit(s.srv)
	select {
	case <-s.loopEnd:
	case <-s.stop:
		return
	}
	done := make(chan struct{})
	go func() {
		p2p.VerifServerUnsub(s.srv)
		s.pm.Stop()
		close(done)
	}()
	select {
	case <-done:
	case <-s.stop:
	}
}

type srvScenario struct {
	name string
	// run plays the scenario; it returns an outcome class, and stuck=true when the witness did not
	// get through
	run func(s *srvWorld) (class string, stuck bool)
	// tries: how often the scenario is repeated on fresh instances because its course depends on the
	// random choices of the server loop's select (0: once). A stuck server ends the repetition.
	tries int
}

func playSrv(m *meter, sc srvScenario) string {
	vtask.SetPolicy(vtask.Real, "runFeedTranspondLoop", vtask.Drop)
	defer setPolicy()
	seen := map[string]int{}
	m.begin()
	total := 0
	tries := 0
	want := sc.tries
	if want < 1 {
		want = 1
	}
	for tries < want {
		tries++
		s := newSrvWorld(m)
		class, stuck := sc.run(s)
		total += s.sent
		seen[class]++
		if stuck || s.stopped() {
			where := "?"
			if s.stopped() {
				var trace string
				where, trace = spinningAt()
				m.failDetail = trace
			}
			// the fingerprint names the place, not the scenario: several scenarios can run into one defect
			m.fail("C15/hang/srv/"+where, fmt.Sprintf("scenario %s (try %d, class %s): afterwards a new connection does not get through any more; the server side sits in %s", sc.name, tries, class, where))
			m.end(total)
			return "STUCK/" + class
		}
		s.finish(false)
		E.n.Quiesce()
		_, chainChanged, poolChanged := E.effects()
		noteRestore(E.restore(chainChanged, poolChanged))
	}
	m.end(total)
	m.items = tries * 4
	keys := make([]string, 0)
	for k := range seen {
		keys = append(keys, k)
	}
	sort.Strings(keys)
	out := strings.Join(keys, "+")
	if tries > 1 {
		out += fmt.Sprintf("/x%d", tries)
	}
	return out
}

func srvFamilies(w *world) []*Family {
	var fams []*Family
	A := node.K("remote")
	scenarios := []srvScenario{
		{name: "one-connection", run: func(s *srvWorld) (string, bool) {
			s.startLoop()
			r := s.dial(A)
			if r == nil || !r.greeted() {
				return "not-greeted", true
			}
			r.d.send(frame(r.key, 0x02, w.samples()[0].payload))
			r.d.send(frame(r.key, 0x04, enc(&network.GetLatestStatus{})))
			code, _, ok := r.nextMsg()
			cls := "answered"
			if !ok || code != 0x03 {
				cls = "not-answered"
			}
			r.d.closeRemote()
			return cls, !s.witness(0)
		}},
		{name: "same-id-twice/second-while-first-is-up", run: func(s *srvWorld) (string, bool) {
			s.startLoop()
			r1 := s.dial(A)
			if r1 == nil || !r1.greeted() {
				return "not-greeted", true
			}
			r1.d.send(frame(r1.key, 0x02, w.samples()[0].payload))
			r2 := s.dial(A)
			cls := "second-refused"
			if r2 != nil && r2.greeted() {
				cls = "second-greeted"
			}
			// (whether the first connection survives depends on timing: the delete event of the refused
			// one removes the table entry of the node id and with it, usually, the first connection)
			return cls, !s.witness(0)
		}},
		{name: "same-id-twice/handed-over-together", tries: 8, run: func(s *srvWorld) (string, bool) {
			r1, r2 := s.dial(A), s.dial(A)
			s.startLoop()
			if r1 == nil || r2 == nil {
				return "no-handshake", true
			}
			return "done", !s.witness(0)
		}},
		{name: "same-id-three-times/handed-over-together", tries: maxTries, run: func(s *srvWorld) (string, bool) {
			// three connections of one identity wait for the server loop when it starts; it runs into the
			// second and third while the delete-peer event of the one it refused is still queued
			r1, r2, r3 := s.dial(A), s.dial(A), s.dial(A)
			s.startLoop()
			if r1 == nil || r2 == nil || r3 == nil {
				return "no-handshake", true
			}
			return "done", !s.witness(0)
		}},
		{name: "served-peer-then-three-more-of-its-id-together", tries: maxTries, run: func(s *srvWorld) (string, bool) {
			// the first connection is registered with the protocol manager and alive; the delete events of
			// the refused ones make the manager close it (UnRegister looks the node id up), which sends one
			// more delete event while others are queued
			s.startLoop()
			r1 := s.dial(A)
			if r1 == nil || !r1.greeted() {
				return "not-greeted", true
			}
			r1.d.send(frame(r1.key, 0x02, w.samples()[0].payload))
			r1.d.send(frame(r1.key, 0x04, enc(&network.GetLatestStatus{})))
			for {
				code, _, ok := r1.nextMsg()
				if !ok {
					return "first-not-served", true
				}
				if code == 0x03 {
					break
				}
			}
			// three more at once, from three remote goroutines
			res := make(chan *remote, 3)
			for i := 0; i < 3; i++ {
				go func() { res <- s.dial(A) }()
			}
			for i := 0; i < 3; i++ {
				if r := <-res; r == nil {
					return "no-handshake", true
				}
			}
			return "done", !s.witness(0)
		}},
		{name: "same-id-three-times/one-after-the-other", run: func(s *srvWorld) (string, bool) {
			s.startLoop()
			for i := 0; i < 3; i++ {
				if r := s.dial(A); r == nil {
					return "no-handshake", true
				}
			}
			return "done", !s.witness(0)
		}},
		{name: "five-identities/handed-over-together", tries: 8, run: func(s *srvWorld) (string, bool) {
			var rs []*remote
			for i := 0; i < 5; i++ {
				rs = append(rs, s.dial(node.K(fmt.Sprintf("peer-%d", i))))
			}
			s.startLoop()
			n := 0
			for _, r := range rs {
				if r != nil && r.greeted() {
					n++
				}
			}
			return fmt.Sprintf("greeted=%d", n), !s.witness(0)
		}},
		{name: "three-connections-closed-at-once", run: func(s *srvWorld) (string, bool) {
			s.startLoop()
			for i := 0; i < 3; i++ {
				r := s.dial(node.K(fmt.Sprintf("peer-%d", i)))
				if r == nil {
					return "no-handshake", true
				}
				r.d.closeRemote()
			}
			return "done", !s.witness(0)
		}},
		{name: "three-connections-closed-together/handed-over-together", tries: 8, run: func(s *srvWorld) (string, bool) {
			var rs []*remote
			for i := 0; i < 3; i++ {
				rs = append(rs, s.dial(node.K(fmt.Sprintf("peer-%d", i))))
			}
			for _, r := range rs {
				if r != nil {
					r.d.closeRemote()
				}
			}
			s.startLoop()
			return "done", !s.witness(0)
		}},
		{name: "garbage-frame-from-three-peers", run: func(s *srvWorld) (string, bool) {
			s.startLoop()
			var rs []*remote
			for i := 0; i < 3; i++ {
				r := s.dial(node.K(fmt.Sprintf("peer-%d", i)))
				if r == nil || !r.greeted() {
					return "not-greeted", true
				}
				rs = append(rs, r)
			}
			for _, r := range rs {
				r.d.send(packet(make([]byte, 16)))
			}
			return "done", !s.witness(0)
		}},
		{name: "write-fault-then-the-same-id-again", run: func(s *srvWorld) (string, bool) {
			// the node cannot write its answer (the remote hung up); afterwards the server must have
			// forgotten the connection, and the same identity is welcome again
			cls := ""
			for _, e := range []error{errBrokenPipe, errTimeout} {
				if cls != "" {
					s.finish(false)
					s2 := newSrvWorld(s.m)
					s.srv, s.pm, s.loopEnd, s.stop, s.start = s2.srv, s2.pm, s2.loopEnd, s2.stop, s2.start
				}
				s.startLoop()
				r := s.dial(A)
				if r == nil || !r.greeted() {
					return "not-greeted", true
				}
				r.d.send(frame(r.key, 0x02, w.samples()[0].payload))
				r.d.failWrites(e)
				r.d.send(frame(r.key, 0x04, enc(&network.GetLatestStatus{})))
				r.d.waitUntil(func(d *duplex) bool { return d.failedWrite > 0 }, s.stop)
				r.d.closeRemote()
				for p2p.VerifConnectedCount(s.srv) > 0 {
					if s.stopped() {
						return "connection-never-forgotten", true
					}
					time.Sleep(200 * time.Microsecond)
				}
				r2 := s.dial(A)
				if r2 == nil || !r2.greeted() {
					return "same-id-refused-afterwards", true
				}
				cls += "welcome-again/"
			}
			return strings.TrimSuffix(cls, "/"), !s.witness(0)
		}},
		{name: "more-observers-than-the-limit-then-a-deputy", run: func(s *srvWorld) (string, bool) {
			// 21 non-deputy peers complete the protocol handshake and are served (the manager's limit is
			// 20 "delay nodes", counted before the new one); four more connect; then a deputy connects: it
			// is exempt from the limit and must be greeted (which also shows that the peer loop went on
			// after the connections it ignored)
			s.startLoop()
			served := 0
			for i := 0; i < 21; i++ {
				r := s.dial(node.K(fmt.Sprintf("observer-%d", i)))
				if r == nil || !r.greeted() {
					return fmt.Sprintf("observer-%d-not-greeted", i), true
				}
				r.d.send(frame(r.key, 0x02, w.samples()[0].payload))
				r.d.send(frame(r.key, 0x04, enc(&network.GetLatestStatus{})))
				for {
					code, _, ok := r.nextMsg()
					if !ok {
						return fmt.Sprintf("observer-%d-not-served", i), true
					}
					if code == 0x03 {
						served++
						break
					}
				}
			}
			for i := 21; i < 25; i++ {
				s.dial(node.K(fmt.Sprintf("observer-%d", i)))
			}
			r := s.dial(node.Deputy(1))
			dep := r != nil && r.greeted()
			return fmt.Sprintf("observers-served=%d/deputy-greeted=%v", served, dep), !dep
		}},
	}
	for _, sc := range scenarios {
		sc := sc
		fams = append(fams, &Family{Name: "srv/" + sc.name, Cost: 300, Gen: func(_ *world, th bool, emit func(func() Case)) {
			emit(func() Case {
				return Case{Name: "srv/" + sc.name, Run: func(m *meter) string { return playSrv(m, sc) }}
			})
		}})
	}
	return fams
}

// spinningAt names the lemochain-core function in which a running (not blocked) goroutine sits.
func spinningAt() (string, string) {
	buf := make([]byte, 4<<20)
	n := stackAll(buf)
	best, trace := "?", ""
	for _, g := range strings.Split(string(buf[:n]), "\n\n") {
		m := reGoroutine.FindStringSubmatch(g)
		if m == nil || !(strings.HasPrefix(m[2], "running") || strings.HasPrefix(m[2], "runnable")) {
			continue
		}
		var repo []string
		for _, f := range reFrame.FindAllStringSubmatch(g, -1) {
			if strings.Contains(f[1], "/verif") {
				continue
			}
			repo = append(repo, shortFunc(f[1]))
			if len(repo) == 5 {
				break
			}
		}
		if len(repo) > 0 {
			best = strings.Join(repo, " <- ")
			trace = g
			if len(trace) > 2500 {
				trace = trace[:2500]
			}
			break
		}
	}
	return best, trace
}

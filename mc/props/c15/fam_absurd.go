package main

// Decodable but semantically absurd objects: status / request grids, transactions of every type
// with nil / huge / negative fields in their data payload, blocks built by a byzantine deputy with
// absurd headers and bodies, confirm packets. They travel as messages through the dispatcher into
// the real chain, pool and discovery table.

import (
	"bytes"
	"encoding/json"
	"fmt"
	"math/big"
	"sort"
	"strings"

	"verifmc/node"

	"github.com/LemoFoundationLtd/lemochain-core/chain/params"
	"github.com/LemoFoundationLtd/lemochain-core/chain/transaction"
	"github.com/LemoFoundationLtd/lemochain-core/chain/types"
	"github.com/LemoFoundationLtd/lemochain-core/common"
	"github.com/LemoFoundationLtd/lemochain-core/common/merkle"
	"github.com/LemoFoundationLtd/lemochain-core/common/rlp"
	"github.com/LemoFoundationLtd/lemochain-core/network"
)

// rtx mirrors the wire form of a transaction (types.txdata), so that every field can be set freely.
type rtx struct {
	Type          uint16
	Version       uint8
	ChainID       uint16
	From          common.Address
	GasPayer      *common.Address `rlp:"nil"`
	Recipient     *common.Address `rlp:"nil"`
	RecipientName string
	GasPrice      *big.Int
	GasLimit      uint64
	GasUsed       uint64
	Amount        *big.Int
	Data          []byte
	Expiration    uint64
	Message       string
	Sigs          [][]byte
	GasPayerSigs  [][]byte
}

func (r *rtx) tx() (*types.Transaction, error) {
	var t types.Transaction
	if err := rlp.DecodeBytes(enc(r), &t); err != nil {
		return nil, err
	}
	return &t, nil
}

func fromTx(t *types.Transaction) *rtx {
	var r rtx
	if err := rlp.DecodeBytes(enc(t), &r); err != nil {
		panic(err)
	}
	return &r
}

// signed returns r signed by k (the default signer), as a wire mirror again.
func (r *rtx) signed(k *node.Key) *rtx {
	r.Sigs = nil
	t, err := r.tx()
	if err != nil {
		panic(err)
	}
	var out *rtx
	func() {
		defer func() {
			if recover() != nil {
				out = r // not signable (the signing hash itself trips over the payload): send it unsigned
			}
		}()
		s, err := types.MakeSigner().SignTx(t, k.Priv)
		if err != nil {
			out = r
			return
		}
		out = fromTx(s)
	}()
	return out
}

func big2(exp uint) *big.Int { return new(big.Int).Lsh(big.NewInt(1), exp) }

type namedTx struct {
	name string
	r    *rtx
}

func baseTx(w *world, typ uint16, to *common.Address, data []byte) *rtx {
	u := node.User(1)
	return &rtx{Type: typ, Version: 1, ChainID: node.ChainID, From: u.Addr, GasPayer: &u.Addr, Recipient: to,
		GasPrice: new(big.Int).Set(node.GasPrice), GasLimit: 3000000, Amount: new(big.Int), Data: data, Expiration: w.exp + 100}
}

// jsonAlphabet: what a field (or the whole payload) is replaced with
var jsonAlphabet = []string{`null`, `-1`, `0`, `1e400`, `""`, `"-1"`, `"0x"`, `"115792089237316195423570985008687907853269984665640564039457584007913129639936"`,
	`"-115792089237316195423570985008687907853269984665640564039457584007913129639936"`, `{}`, `[]`, `[null]`, `[[]]`, `true`, `"` + strings.Repeat("A", 5000) + `"`, `{"a":null}`}

// jsonVariants: the sample itself, every top-level replacement, every field removed or replaced by
// every alphabet value (one level below for nested objects and arrays of objects).
func jsonVariants(sampleJSON []byte) []namedPayload {
	var out []namedPayload
	out = append(out, namedPayload{"valid", sampleJSON})
	for i, a := range jsonAlphabet {
		out = append(out, namedPayload{fmt.Sprintf("whole=%d", i), []byte(a)})
	}
	out = append(out, namedPayload{"whole=deep-arrays", []byte(strings.Repeat("[", 20000) + strings.Repeat("]", 20000))})
	out = append(out, namedPayload{"whole=not-json", []byte("\x00\xff{")})
	var obj map[string]interface{}
	if json.Unmarshal(sampleJSON, &obj) != nil {
		return out
	}
	keys := make([]string, 0, len(obj))
	for k := range obj {
		keys = append(keys, k)
	}
	sort.Strings(keys)
	render := func(o map[string]interface{}) []byte { b, _ := json.Marshal(o); return b }
	clone := func() map[string]interface{} {
		var c map[string]interface{}
		json.Unmarshal(sampleJSON, &c)
		return c
	}
	for _, k := range keys {
		c := clone()
		delete(c, k)
		out = append(out, namedPayload{"without-" + k, render(c)})
		for i, a := range jsonAlphabet {
			c := clone()
			c[k] = json.RawMessage(a)
			out = append(out, namedPayload{fmt.Sprintf("%s=%d", k, i), render(c)})
		}
		// one level down
		switch sub := obj[k].(type) {
		case map[string]interface{}:
			sk := make([]string, 0)
			for s := range sub {
				sk = append(sk, s)
			}
			sort.Strings(sk)
			for _, s := range sk {
				for i, a := range jsonAlphabet {
					c := clone()
					c[k].(map[string]interface{})[s] = json.RawMessage(a)
					out = append(out, namedPayload{fmt.Sprintf("%s.%s=%d", k, s, i), render(c)})
				}
			}
		case []interface{}:
			if len(sub) > 0 {
				if el, ok := sub[0].(map[string]interface{}); ok {
					sk := make([]string, 0)
					for s := range el {
						sk = append(sk, s)
					}
					sort.Strings(sk)
					for _, s := range sk {
						for i, a := range jsonAlphabet {
							c := clone()
							c[k].([]interface{})[0].(map[string]interface{})[s] = json.RawMessage(a)
							out = append(out, namedPayload{fmt.Sprintf("%s[0].%s=%d", k, s, i), render(c)})
						}
					}
				}
				// the list repeated many times
				c := clone()
				var many []interface{}
				for i := 0; i < 2000; i++ {
					many = append(many, sub[0])
				}
				c[k] = many
				out = append(out, namedPayload{k + "=x2000", render(c)})
			}
		}
	}
	return out
}

func mustJSON(v interface{}) []byte {
	b, err := json.Marshal(v)
	if err != nil {
		panic(err)
	}
	return b
}

// typedSamples: a valid data payload for every transaction type that has one.
func typedSamples(w *world) map[uint16][]byte {
	code := common.HexToHash("0x11")
	id := common.HexToHash("0x22")
	u2 := node.User(2).Addr
	return map[uint16][]byte{
		params.RegisterTx:       mustJSON(node.CandidateProfile(node.User(1), "7009")),
		params.CreateAssetTx:    mustJSON(&types.Asset{Category: 1, IsDivisible: true, Decimal: 18, TotalSupply: big.NewInt(0), IsReplenishable: true, Profile: types.Profile{"name": "x", "symbol": "X", "description": "d", "suggestedGasLimit": "60000", "freeze": "false"}}),
		params.IssueAssetTx:     mustJSON(&types.IssueAsset{AssetCode: code, MetaData: "m", Amount: big.NewInt(100)}),
		params.ReplenishAssetTx: mustJSON(&types.ReplenishAsset{AssetCode: code, AssetId: id, Amount: big.NewInt(5)}),
		params.ModifyAssetTx:    mustJSON(&types.ModifyAssetInfo{AssetCode: code, UpdateProfile: types.Profile{"name": "y"}}),
		params.TransferAssetTx:  mustJSON(&types.TransferAsset{AssetId: id, Amount: big.NewInt(1), Input: []byte{1}}),
		params.ModifySignersTx:  mustJSON(&transaction.ModifySigners{Signers: types.Signers{{Address: node.User(1).Addr, Weight: 60}, {Address: u2, Weight: 50}}}),
		params.BoxTx:            w.txBox.Data(),
	}
}

// absurdTxs enumerates the transaction alphabet. quickOnly keeps the whole-payload variants and
// drops the per-field ones of the big payloads.
var absurdTxCache = map[bool][]namedTx{}

func absurdTxs(w *world, thorough bool) []namedTx {
	if l, ok := absurdTxCache[thorough]; ok {
		return l
	}
	l := buildAbsurdTxs(w, thorough)
	absurdTxCache[thorough] = l
	return l
}

func buildAbsurdTxs(w *world, thorough bool) []namedTx {
	var l []namedTx
	u1, u2 := node.User(1), node.User(2)
	add := func(name string, r *rtx, sign bool) {
		if sign {
			r = r.signed(u1)
		}
		l = append(l, namedTx{name, r})
	}
	// 1. typed payloads
	ts := typedSamples(w)
	types_ := make([]int, 0)
	for t := range ts {
		types_ = append(types_, int(t))
	}
	sort.Ints(types_)
	for _, ti := range types_ {
		t := uint16(ti)
		var to *common.Address
		if !types.IsToExist(t, nil) {
			to = &u2.Addr // the types that need a recipient (VerifyTxBody refuses the others with one)
		}
		for _, v := range jsonVariants(ts[t]) {
			if !thorough && strings.Contains(v.name, "=") && !strings.HasPrefix(v.name, "whole=") {
				// quick: per-field variants only with null, -1 and [null]
				if !(strings.HasSuffix(v.name, "=0") || strings.HasSuffix(v.name, "=1") || strings.HasSuffix(v.name, "=11")) {
					continue
				}
			}
			add(fmt.Sprintf("type=%d/data/%s", t, v.name), baseTx(w, t, to, v.b), true)
		}
	}
	// the same payloads under types that do not interpret them, unknown types, and contract code
	for _, t := range []uint16{params.OrdinaryTx, params.VoteTx, 11, 12, 255, 65535} {
		for _, d := range [][]byte{nil, []byte("null"), []byte(`{"subTxList":[null]}`), bytes.Repeat([]byte{0xff}, 2000)} {
			add(fmt.Sprintf("type=%d/data=%d-bytes:%.12x", t, len(d), d), baseTx(w, t, &u2.Addr, d), true)
		}
	}
	for i, codeHex := range []string{"", "00", "fe", "5b600056", "60006000f3", "7f" + strings.Repeat("ff", 32) + "6000526020600020", "60016000556001600055", "3d3d3d3d3d3d3d3d3d3d"} {
		add(fmt.Sprintf("type=1/code=%d", i), baseTx(w, params.CreateContractTx, nil, common.FromHex("0x"+codeHex)), true)
		add(fmt.Sprintf("type=0/call-data=%d", i), baseTx(w, params.OrdinaryTx, &u2.Addr, common.FromHex("0x"+codeHex)), true)
	}
	// 2. field extremes of an ordinary transfer
	type mod struct {
		n string
		f func(r *rtx)
	}
	mods := []mod{}
	for _, v := range []uint64{0, 1, 20999, 21000, 1 << 32, 1<<63 - 1, 1 << 63, 1<<64 - 1} {
		v := v
		mods = append(mods, mod{fmt.Sprintf("gasLimit=%d", v), func(r *rtx) { r.GasLimit = v }})
		mods = append(mods, mod{fmt.Sprintf("gasUsed=%d", v), func(r *rtx) { r.GasUsed = v }})
	}
	for _, e := range []uint{0, 1, 30, 64, 128, 255, 256, 257, 4096} {
		e := e
		mods = append(mods, mod{fmt.Sprintf("gasPrice=2^%d", e), func(r *rtx) { r.GasPrice = big2(e) }})
		mods = append(mods, mod{fmt.Sprintf("amount=2^%d", e), func(r *rtx) { r.Amount = big2(e) }})
	}
	mods = append(mods, mod{"gasPrice=0", func(r *rtx) { r.GasPrice = new(big.Int) }}, mod{"amount=balance+1", func(r *rtx) { r.Amount = new(big.Int).Add(node.Lemo(1002), big.NewInt(1)) }})
	now := uint64(w.now)
	for _, v := range []uint64{0, 1, now - 1, now, now + 1800, now + 1801, 1 << 32, 1<<64 - 1} {
		v := v
		mods = append(mods, mod{fmt.Sprintf("expiration=%d", v), func(r *rtx) { r.Expiration = v }})
	}
	for _, v := range []uint16{0, 1, 199, 201, 65535} {
		v := v
		mods = append(mods, mod{fmt.Sprintf("chainID=%d", v), func(r *rtx) { r.ChainID = v }})
	}
	for _, v := range []uint8{0, 2, 127, 128, 255} {
		v := v
		mods = append(mods, mod{fmt.Sprintf("version=%d", v), func(r *rtx) { r.Version = v }})
	}
	for _, n := range []int{1, 100, 101, 100000} {
		n := n
		mods = append(mods, mod{fmt.Sprintf("toName=%d", n), func(r *rtx) { r.RecipientName = strings.Repeat("a", n) }})
		mods = append(mods, mod{fmt.Sprintf("message=%d", n*10), func(r *rtx) { r.Message = strings.Repeat("m", n*10) }})
	}
	mods = append(mods, mod{"toName=illegal", func(r *rtx) { r.RecipientName = "a b\x00" }}, mod{"message=bad-utf8", func(r *rtx) { r.Message = "\xff\xfe" }})
	mods = append(mods, mod{"to=nil", func(r *rtx) { r.Recipient = nil }}, mod{"gasPayer=nil", func(r *rtx) { r.GasPayer = nil }}, mod{"gasPayer=other", func(r *rtx) { r.GasPayer = &u2.Addr }},
		mod{"from=zero", func(r *rtx) { r.From = common.Address{} }}, mod{"to=self", func(r *rtx) { r.Recipient = &u1.Addr }}, mod{"to=zero", func(r *rtx) { r.Recipient = &common.Address{} }})
	for _, m := range mods {
		r := baseTx(w, params.OrdinaryTx, &u2.Addr, nil)
		r.Amount = node.Lemo(1)
		m.f(r)
		add("field/"+m.n, r, true)
	}
	// 3. signature lists
	good := baseTx(w, params.OrdinaryTx, &u2.Addr, nil).signed(u1)
	sig := good.Sigs[0]
	sigVariants := map[string][][]byte{
		"none": nil, "empty-sig": {{}}, "short-64": {sig[:64]}, "long-66": {append(append([]byte{}, sig...), 0)}, "zero-65": {make([]byte, 65)}, "ff-65": {bytes.Repeat([]byte{0xff}, 65)},
		"v=4": {withByte(sig, 64, 4)}, "v=27": {withByte(sig, 64, 27)}, "r=0": {append(make([]byte, 32), sig[32:]...)}, "twice": {sig, sig}, "high-s": {node.ReencodeSig(sig)},
		"x1000": func() [][]byte {
			var l [][]byte
			for i := 0; i < 1000; i++ {
				l = append(l, sig)
			}
			return l
		}(),
		"one-huge": {bytes.Repeat([]byte{1}, 100000)},
	}
	names := make([]string, 0)
	for n := range sigVariants {
		names = append(names, n)
	}
	sort.Strings(names)
	for _, n := range names {
		r := *good
		r.Sigs = sigVariants[n]
		add("sigs/"+n, &r, false)
		r2 := *good
		r2.GasPayerSigs = sigVariants[n]
		add("gasPayerSigs/"+n, &r2, false)
	}
	return l
}

// ---------------------------------------------------------------------------------------------
// blocks of a byzantine deputy

// byzBlock builds a block on a1 by the deputy whose turn it is, lets mod change it, recomputes the
// transaction root (when asked) and signs the header with the deputy's key.
func byzBlock(w *world, mod func(b *types.Block), fixTxRoot, sign bool) *types.Block {
	parent := w.blocks["a1"]
	c := w.blocks["C"]
	h := &types.Header{ParentHash: parent.Hash(), MinerAddress: c.MinerAddress(), Height: parent.Height() + 1, GasLimit: c.GasLimit(), Time: c.Time(),
		VersionRoot: parent.VersionRoot(), TxRoot: merkle.EmptyTrieHash, LogRoot: merkle.EmptyTrieHash}
	b := &types.Block{Header: h}
	if mod != nil {
		mod(b)
	}
	if fixTxRoot {
		func() {
			defer func() { recover() }() // the root of an absurd list may not be computable: leave it
			b.Header.TxRoot = b.Txs.MerkleRootSha()
		}()
	}
	if sign {
		sd := node.SignConfirm(w.byz, b.Header.Hash())
		b.Header.SignData = sd[:]
	}
	return b
}

func encBlocks(bs ...*types.Block) (out []byte, ok bool) {
	defer func() {
		if recover() != nil {
			out, ok = nil, false
		}
	}()
	b, err := rlp.EncodeToBytes(types.Blocks(bs))
	if err != nil {
		return nil, false
	}
	return b, true
}

type namedBlock struct {
	name string
	mod  func(b *types.Block)
	// fix: recompute the tx root; sign: sign as the deputy in turn
	fix, sign bool
}

func absurdBlocks(w *world, thorough bool) []namedBlock {
	var l []namedBlock
	add := func(n string, f func(b *types.Block)) {
		l = append(l, namedBlock{n + "/signed", f, true, true}, namedBlock{n + "/unsigned", f, true, false})
	}
	add("plain", func(b *types.Block) {})
	for _, v := range []uint32{0, 1, 2, 3, 4, 1000, 1000000, 1 << 31, 1<<32 - 1} {
		v := v
		add(fmt.Sprintf("height=%d", v), func(b *types.Block) { b.Header.Height = v })
	}
	pt := w.blocks["a1"].Time()
	for _, v := range []uint32{0, 1, pt - 1, pt, pt + 1, uint32(w.now), uint32(w.now) + 1, uint32(w.now) + 2, uint32(w.now) + 100, 1<<32 - 1} {
		v := v
		add(fmt.Sprintf("time=%d", v), func(b *types.Block) { b.Header.Time = v })
	}
	for _, v := range []uint64{0, 1, 21000, 1 << 32, 1<<63 - 1, 1<<64 - 1} {
		v := v
		add(fmt.Sprintf("gasLimit=%d", v), func(b *types.Block) { b.Header.GasLimit = v })
		add(fmt.Sprintf("gasUsed=%d", v), func(b *types.Block) { b.Header.GasUsed = v })
		add(fmt.Sprintf("gasLimit=%d/with-tx", v), func(b *types.Block) { b.Header.GasLimit = v; b.Txs = types.Transactions{w.txNew} })
	}
	for _, pn := range []string{"g", "f", "C", "O"} {
		pn := pn
		add("parent="+pn, func(b *types.Block) { b.Header.ParentHash = w.hash(pn) })
	}
	add("parent=zero", func(b *types.Block) { b.Header.ParentHash = common.Hash{} })
	for _, n := range []int{1, 256, 257, 100000} {
		n := n
		add(fmt.Sprintf("extra=%d", n), func(b *types.Block) { b.Header.Extra = strings.Repeat("e", n) })
		add(fmt.Sprintf("deputyRoot=%d", n), func(b *types.Block) { b.Header.DeputyRoot = bytes.Repeat([]byte{7}, n) })
	}
	add("miner=zero", func(b *types.Block) { b.Header.MinerAddress = common.Address{} })
	add("miner=other-deputy", func(b *types.Block) { b.Header.MinerAddress = node.Deputy(1).Addr })
	add("versionRoot=zero", func(b *types.Block) { b.Header.VersionRoot = common.Hash{} })
	add("logRoot=zero", func(b *types.Block) { b.Header.LogRoot = common.Hash{} })
	add("txRoot-wrong", func(b *types.Block) { b.Txs = types.Transactions{w.txNew} })
	// signature shapes
	for _, n := range []int{0, 1, 64, 66, 130, 100000} {
		n := n
		l = append(l, namedBlock{fmt.Sprintf("signData=%d-bytes", n), func(b *types.Block) { b.Header.SignData = bytes.Repeat([]byte{1}, n) }, true, false})
	}
	l = append(l, namedBlock{"signData=outsider", func(b *types.Block) {
		sd := node.SignConfirm(node.K("outsider"), b.Header.Hash())
		b.Header.SignData = sd[:]
	}, true, false})
	l = append(l, namedBlock{"signData=deputy-not-in-turn", func(b *types.Block) {
		b.Header.MinerAddress = node.Deputy(1).Addr
		sd := node.SignConfirm(node.Deputy(1), b.Header.Hash())
		b.Header.SignData = sd[:]
	}, true, false})
	// deputy nodes
	dn := func(i int) *types.DeputyNode {
		return &types.DeputyNode{MinerAddress: node.Deputy(i % 5).Addr, NodeID: node.Deputy(i % 5).NodeID, Rank: uint32(i), Votes: big.NewInt(int64(i))}
	}
	for _, n := range []int{1, 5, 6, 10000} {
		n := n
		add(fmt.Sprintf("deputyNodes=%d", n), func(b *types.Block) {
			for i := 0; i < n; i++ {
				b.DeputyNodes = append(b.DeputyNodes, dn(i))
			}
			h := b.DeputyNodes.MerkleRootSha()
			b.Header.DeputyRoot = h[:]
		})
	}
	add("deputyNodes/odd-fields", func(b *types.Block) {
		b.DeputyNodes = types.DeputyNodes{
			{MinerAddress: common.Address{}, NodeID: nil, Rank: 1<<32 - 1, Votes: big2(300)},
			{MinerAddress: node.Deputy(0).Addr, NodeID: bytes.Repeat([]byte{1}, 63), Rank: 0, Votes: new(big.Int)},
			{MinerAddress: node.Deputy(0).Addr, NodeID: bytes.Repeat([]byte{1}, 100000), Rank: 0, Votes: new(big.Int)},
		}
	})
	// confirms
	for _, n := range []int{1, 4, 5, 10000} {
		n := n
		add(fmt.Sprintf("confirms=%d-junk", n), func(b *types.Block) {
			for i := 0; i < n; i++ {
				var s types.SignData
				s[0], s[1], s[2] = byte(i), byte(i>>8), 1
				b.Confirms = append(b.Confirms, s)
			}
		})
	}
	l = append(l, namedBlock{"confirms=all-deputies-twice", func(b *types.Block) {
		h := b.Header.Hash()
		for r := 0; r < 2; r++ {
			for i := 0; i < 5; i++ {
				b.Confirms = append(b.Confirms, node.SignConfirm(node.Deputy(i), h))
			}
		}
	}, true, true})
	// change logs of other blocks, many times
	for _, n := range []int{1, 1000} {
		n := n
		add(fmt.Sprintf("changeLogs=C-x%d", n), func(b *types.Block) {
			for i := 0; i < n; i++ {
				b.ChangeLogs = append(b.ChangeLogs, w.block("C").ChangeLogs...)
			}
		})
		add(fmt.Sprintf("changeLogs=C-x%d/root-fixed", n), func(b *types.Block) {
			for i := 0; i < n; i++ {
				b.ChangeLogs = append(b.ChangeLogs, w.block("C").ChangeLogs...)
			}
			b.Header.LogRoot = b.ChangeLogs.MerkleRootSha()
		})
	}
	// transaction lists
	for _, n := range []int{2, 100, 2000} {
		n := n
		add(fmt.Sprintf("txs=same-x%d", n), func(b *types.Block) {
			for i := 0; i < n; i++ {
				b.Txs = append(b.Txs, w.txNew)
			}
		})
		add(fmt.Sprintf("txs=distinct-x%d", n), func(b *types.Block) {
			for i := 0; i < n; i++ {
				b.Txs = append(b.Txs, node.Transfer(node.User(1), node.User(2).Addr, big.NewInt(int64(i+1)), w.exp+100))
			}
		})
	}
	return l
}

// ---------------------------------------------------------------------------------------------

func absurdFamilies(w *world) []*Family {
	var fams []*Family
	add := func(name string, cost int, gen func(thorough bool, emit func(func() Case))) {
		fams = append(fams, &Family{Name: "msg/" + name, Cost: cost, Gen: func(_ *world, th bool, emit func(func() Case)) { gen(th, emit) }})
	}
	one := func(name string, code uint32, payload []byte, opt playOpt) Case {
		return Case{Name: name, Run: func(m *meter) string { return playMsgs(m, []wire{{code, payload}}, opt) }}
	}
	heights := []uint32{0, 1, 2, 3, 1<<32 - 1}
	hashes := []string{"g", "f", "a1", "C", "zero"}
	hv := func(n string) common.Hash {
		if n == "zero" {
			return common.Hash{}
		}
		return w.hash(n)
	}
	add("03/absurd", 1, func(th bool, emit func(func() Case)) {
		for _, ch := range heights {
			for _, sh := range heights {
				for _, chn := range hashes {
					for _, shn := range hashes {
						emit(func() Case {
							return one(fmt.Sprintf("msg/03/absurd/cur=%d:%s/sta=%d:%s", ch, chn, sh, shn), 0x03, enc(&network.LatestStatus{CurHeight: ch, CurHash: hv(chn), StaHeight: sh, StaHash: hv(shn)}), playOpt{})
						})
					}
				}
			}
		}
	})
	add("05/absurd", 1, func(th bool, emit func(func() Case)) {
		for _, h := range heights {
			for _, hn := range hashes {
				emit(func() Case {
					return one(fmt.Sprintf("msg/05/absurd/%d:%s", h, hn), 0x05, enc(&network.BlockHashData{Height: h, Hash: hv(hn)}), playOpt{})
				})
			}
		}
	})
	ranges := []uint32{0, 1, 2, 3, 10, 11, 99, 100000, 1 << 31, 1<<32 - 1}
	for _, code := range []uint32{0x07, 0x0e} {
		code := code
		add(fmt.Sprintf("%02x/absurd", code), 2, func(th bool, emit func(func() Case)) {
			for _, from := range ranges {
				for _, to := range ranges {
					emit(func() Case {
						return one(fmt.Sprintf("msg/%02x/absurd/from=%d/to=%d", code, from, to), code, enc(&network.GetBlocksData{From: from, To: to}), playOpt{})
					})
				}
			}
		})
	}
	add("0a/absurd", 1, func(th bool, emit func(func() Case)) {
		for _, h := range heights {
			for _, hn := range hashes {
				emit(func() Case {
					return one(fmt.Sprintf("msg/0a/absurd/%d:%s", h, hn), 0x0a, enc(&network.GetConfirmInfo{Height: h, Hash: hv(hn)}), playOpt{})
				})
			}
		}
	})
	sigs := func(h common.Hash) map[string]types.SignData {
		m := map[string]types.SignData{}
		for i := 0; i < 5; i++ {
			m[fmt.Sprintf("d%d", i)] = node.SignConfirm(node.Deputy(i), h)
		}
		m["outsider"] = node.SignConfirm(node.K("outsider"), h)
		m["other-hash"] = node.SignConfirm(node.Deputy(3), common.HexToHash("0x1234"))
		m["zero"] = types.SignData{}
		var ff types.SignData
		for i := range ff {
			ff[i] = 0xff
		}
		m["ff"] = ff
		d3 := node.SignConfirm(node.Deputy(3), h)
		m["high-s"] = types.BytesToSignData(node.ReencodeSig(d3[:]))
		v4 := d3
		v4[64] = 4
		m["v=4"] = v4
		return m
	}
	add("09/absurd", 1, func(th bool, emit func(func() Case)) {
		for _, hn := range hashes {
			for _, h := range heights {
				ss := sigs(hv(hn))
				names := make([]string, 0)
				for n := range ss {
					names = append(names, n)
				}
				sort.Strings(names)
				for _, sn := range names {
					emit(func() Case {
						return one(fmt.Sprintf("msg/09/absurd/%s/height=%d/sig=%s", hn, h, sn), 0x09, enc(&network.BlockConfirmData{Hash: hv(hn), Height: h, SignInfo: ss[sn]}), playOpt{})
					})
				}
			}
		}
		// signatures of the wrong length (the wire type is a 65 byte array)
		for _, n := range []int{0, 1, 64, 66, 130, 100000} {
			body := append(append(append([]byte{}, enc(w.hash("a1"))...), enc(uint32(2))...), enc(bytes.Repeat([]byte{1}, n))...)
			emit(func() Case {
				return one(fmt.Sprintf("msg/09/absurd/sig-length=%d", n), 0x09, append(listHeader(len(body)), body...), playOpt{})
			})
		}
	})
	add("0b/absurd", 2, func(th bool, emit func(func() Case)) {
		for _, hn := range hashes {
			for _, h := range []uint32{0, 2, 3, 1<<32 - 1} {
				ss := sigs(hv(hn))
				packs := map[string][]types.SignData{
					"empty": nil, "d3": {ss["d3"]}, "d3-twice": {ss["d3"], ss["d3"]}, "d3+high-s": {ss["d3"], ss["high-s"]}, "miner+self": {ss["d2"], ss["d0"]},
					"all": {ss["d0"], ss["d1"], ss["d2"], ss["d3"], ss["d4"]}, "junk": {ss["zero"], ss["ff"], ss["outsider"], ss["other-hash"], ss["v=4"]},
				}
				for _, n := range []int{100, 10000} {
					var l []types.SignData
					for i := 0; i < n; i++ {
						s := ss["d3"]
						s[1], s[2] = byte(i), byte(i>>8)
						l = append(l, s)
					}
					packs[fmt.Sprintf("junk-x%d", n)] = l
					var v []types.SignData
					for i := 0; i < n; i++ {
						v = append(v, ss[fmt.Sprintf("d%d", 1+i%4)])
					}
					packs[fmt.Sprintf("valid-repeated-x%d", n)] = v
				}
				names := make([]string, 0)
				for n := range packs {
					names = append(names, n)
				}
				sort.Strings(names)
				for _, pn := range names {
					emit(func() Case {
						return one(fmt.Sprintf("msg/0b/absurd/%s/height=%d/pack=%s", hn, h, pn), 0x0b, enc(&network.BlockConfirms{Height: h, Hash: hv(hn), Pack: packs[pn]}), playOpt{})
					})
				}
			}
		}
	})
	add("0d/absurd", 1, func(th bool, emit func(func() Case)) {
		good := nodeString(node.K("peer-x"), "10.1.2.3:7001")
		id := good[:128]
		var nodes []namedPayload
		addN := func(n string, s ...string) {
			nodes = append(nodes, namedPayload{n, enc(&network.DiscoverResData{Sequence: 1, Nodes: s})})
		}
		addN("none")
		addN("empty-string", "")
		addN("only-at", "@")
		addN("two-ats", id+"@1.2.3.4:5@6")
		for _, n := range []int{0, 1, 2, 63, 64, 126, 127, 128, 129, 130, 256} {
			addN(fmt.Sprintf("id-hex-chars=%d", n), strings.Repeat("a", n)+"@1.2.3.4:7001")
			if n <= 128 {
				addN(fmt.Sprintf("id-prefix=%d", n), id[:n]+"@1.2.3.4:7001")
			}
		}
		addN("id-not-hex", strings.Repeat("z", 128)+"@1.2.3.4:7001")
		addN("id-0x", "0x"+id[:126]+"@1.2.3.4:7001")
		addN("id-0X-odd", "0X"+id[:125]+"g@1.2.3.4:7001")
		addN("id-not-on-curve", strings.Repeat("1", 128)+"@1.2.3.4:7001")
		addN("id-zero", strings.Repeat("0", 128)+"@1.2.3.4:7001")
		addN("id-self", nodeString(node.Deputy(0), "1.2.3.4:7001"))
		addN("id-upper", strings.ToUpper(id)+"@1.2.3.4:7001")
		for _, ep := range []string{"", ":", "1.2.3.4", "1.2.3.4:", ":7001", "1.2.3.4:-1", "1.2.3.4:65536", "1.2.3.4:99999999999999999999", "999.2.3.4:1", "::1:7001", "[::1]:7001", "host:7001", "1.2.3.4:7001:1", "1.2.3.4:0x10", strings.Repeat("1", 100000) + ":1", "1.2.3.4:" + strings.Repeat("1", 100000)} {
			name := ep
			if len(name) > 24 {
				name = fmt.Sprintf("%s..(%d)", name[:12], len(ep))
			}
			addN("endpoint="+name, id+"@"+ep)
		}
		addN("overlong", id+"@"+strings.Repeat("x", 1000000))
		addN("same-x10000", func() []string {
			var l []string
			for i := 0; i < 10000; i++ {
				l = append(l, good)
			}
			return l
		}()...)
		addN("junk-x10000", func() []string {
			var l []string
			for i := 0; i < 10000; i++ {
				l = append(l, fmt.Sprintf("%0128x@1.2.3.4:7001", i))
			}
			return l
		}()...)
		for _, p := range nodes {
			emit(func() Case { return one("msg/0d/absurd/"+p.name, 0x0d, p.b, playOpt{}) })
		}
		for _, seq := range []uint64{0, 1, 1 << 32, 1<<64 - 1} {
			emit(func() Case {
				return one(fmt.Sprintf("msg/0c/absurd/seq=%d", seq), 0x0c, enc(&network.DiscoverReqData{Sequence: uint(seq)}), playOpt{})
			})
			emit(func() Case {
				return one(fmt.Sprintf("msg/0d/absurd/seq=%d", seq), 0x0d, enc(&network.DiscoverResData{Sequence: uint(seq), Nodes: []string{good}}), playOpt{})
			})
		}
	})
	// transactions: into the pool (TxsMsg), executed by a validator (a byzantine deputy's block that
	// carries them), executed by the node's own miner (TxsMsg, then the node mines)
	add("06/absurd", 3, func(th bool, emit func(func() Case)) {
		for _, t := range absurdTxs(w, th) {
			t := t
			emit(func() Case {
				return Case{Name: "msg/06/absurd/" + t.name + "/pool", Run: func(m *meter) string {
					return playMsgs(m, []wire{{0x06, enc([]*rtx{t.r})}}, playOpt{})
				}}
			})
			emit(func() Case {
				return Case{Name: "msg/06/absurd/" + t.name + "/in-block", Run: func(m *meter) string {
					tx, err := t.r.tx()
					if err != nil {
						return "06/not-decodable"
					}
					b := byzBlock(w, func(b *types.Block) { b.Txs = types.Transactions{tx} }, true, true)
					p, ok := encBlocks(b)
					if !ok {
						return "06/not-encodable"
					}
					return playMsgs(m, []wire{{0x08, p}}, playOpt{})
				}}
			})
		}
		// lists
		sizes := []int{0, 2, 1000}
		if th {
			sizes = append(sizes, 10000)
		}
		for _, n := range sizes {
			n := n
			emit(func() Case {
				return Case{Name: fmt.Sprintf("msg/06/absurd/list/same-x%d", n), Run: func(m *meter) string {
					var l types.Transactions
					for i := 0; i < n; i++ {
						l = append(l, w.txNew)
					}
					return playMsgs(m, []wire{{0x06, enc(l)}}, playOpt{items: n})
				}}
			})
			emit(func() Case {
				return Case{Name: fmt.Sprintf("msg/06/absurd/list/distinct-x%d", n), Run: func(m *meter) string {
					var l types.Transactions
					for i := 0; i < n; i++ {
						l = append(l, node.Transfer(node.User(1), node.User(2).Addr, big.NewInt(int64(i+1)), w.exp+100))
					}
					return playMsgs(m, []wire{{0x06, enc(l)}}, playOpt{items: n})
				}}
			})
		}
	})
	add("06/mined", 60, func(th bool, emit func(func() Case)) {
		// the miner path: one representative per payload class (thorough: every transaction)
		seen := map[string]bool{}
		for _, t := range absurdTxs(w, th) {
			t := t
			if !th {
				cls := t.name
				if i := strings.LastIndex(cls, "="); i > 0 && strings.Contains(cls, "/data/") && !strings.Contains(cls, "whole=") {
					cls = cls[:strings.LastIndex(cls, "/")] // per-field variants: one per type
				}
				if seen[cls] {
					continue
				}
				seen[cls] = true
			}
			emit(func() Case {
				return Case{Name: "msg/06/mined/" + t.name, Run: func(m *meter) string {
					return playMsgs(m, []wire{{0x06, enc([]*rtx{t.r})}}, playOpt{mine: true})
				}}
			})
		}
	})
	add("08/absurd", 4, func(th bool, emit func(func() Case)) {
		for _, nb := range absurdBlocks(w, th) {
			nb := nb
			emit(func() Case {
				return Case{Name: "msg/08/absurd/" + nb.name, Run: func(m *meter) string {
					b := byzBlock(w, nb.mod, nb.fix, nb.sign)
					p, ok := encBlocks(b)
					if !ok {
						return "08/not-encodable"
					}
					return playMsgs(m, []wire{{0x08, p}}, playOpt{})
				}}
			})
		}
		// list shapes
		for _, n := range []int{0, 2, 100} {
			n := n
			emit(func() Case {
				return Case{Name: fmt.Sprintf("msg/08/absurd/list/C-x%d", n), Run: func(m *meter) string {
					var l types.Blocks
					for i := 0; i < n; i++ {
						l = append(l, w.blocks["C"])
					}
					return playMsgs(m, []wire{{0x08, enc(l)}}, playOpt{})
				}}
			})
		}
		emit(func() Case {
			return Case{Name: "msg/08/absurd/list/all-fixture-blocks-reversed", Run: func(m *meter) string {
				return playMsgs(m, []wire{{0x08, enc(types.Blocks{w.blocks["O2"], w.blocks["O"], w.blocks["C"], w.blocks["b1"], w.blocks["a1"], w.blocks["f"], w.blocks["g"]})}}, playOpt{waitQueue: true})
			}}
		})
	})
	return fams
}

//go:build verif
// +build verif

package p2p

// More hooks for the C15 verification harness in /verif (build tag "verif" only): the server's main
// loop without a listener. They add no behaviour of their own.

// VerifServerLoop attaches the server (see VerifConnServer) to the event bus again and runs its main
// loop — the add-peer and delete-peer events — on the calling goroutine until VerifServerQuit.
func VerifServerLoop(srv *Server) {
	srv.sub()
	srv.run()
}

// VerifServerQuit detaches the server from the event bus and ends its main loop.
func VerifServerQuit(srv *Server) {
	srv.unSub()
	close(srv.quitCh)
}

// VerifConnectedCount is the size of the server's connection table.
func VerifConnectedCount(srv *Server) int {
	srv.peersMux.Lock()
	defer srv.peersMux.Unlock()
	return len(srv.connectedNodes)
}

//go:build verif
// +build verif

package p2p

// More hooks for the C15 verification harness in /verif (build tag "verif" only): the server's main
// loop without a listener. They add no behaviour of their own.

// VerifServerLoop attaches the server (see VerifConnServer) to the event bus again and runs its main
// loop — the add-peer and delete-peer events — on the calling goroutine until VerifServerQuit.
func VerifServerLoop(srv *Server) {
	srv.sub()
	srv.run()
}

// VerifServerQuit ends the main loop. Stop detaches the server from the event bus first, which takes
// the bus's write lock — and that lock can wait for ever for a closing peer that still tries to
// deliver its delete-peer event to this loop, while the loop itself waits behind the pending writer.
// So the loop ends first, its channels are read for ever afterwards (late events of closing peers
// find a reader), and VerifServerUnsub detaches the server once the loop has gone.
func VerifServerQuit(srv *Server) {
	close(srv.quitCh)
	go func() {
		for {
			select {
			case <-srv.delPeerCh:
			case <-srv.addPeerCh:
			}
		}
	}()
}

// VerifServerUnsub detaches the server from the event bus.
func VerifServerUnsub(srv *Server) { srv.unSub() }

// VerifConnectedCount is the size of the server's connection table.
func VerifConnectedCount(srv *Server) int {
	srv.peersMux.Lock()
	defer srv.peersMux.Unlock()
	return len(srv.connectedNodes)
}

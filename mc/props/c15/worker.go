package main

// Worker side: runs cases one at a time, each under a watchdog, with every goroutine of the code
// under test owned by the harness (gated task or wrapped real goroutine), measures allocation and
// classifies the outcome.

import (
	"bufio"
	"encoding/json"
	"fmt"
	"os"
	"regexp"
	"runtime"
	"runtime/debug"
	"runtime/metrics"
	"sort"
	"strings"
	"sync"
	"sync/atomic"
	"syscall"
	"time"

	"verifmc/core"
	"verifmc/node"
	"verifmc/vclock"
	"verifmc/vtask"

	"github.com/LemoFoundationLtd/lemochain-core/common/log"
)

// ---------------------------------------------------------------------------------------------
// panics

type panicInfo struct {
	Msg   string `json:"msg"`
	Func  string `json:"func"`  // innermost lemochain-core function on the panicking stack
	Site  string `json:"site"`  // goroutine: "case" or the go statement that started it
	Stack string `json:"stack"` // trimmed
}

var noRecover = os.Getenv("C15_NORECOVER") != ""

var reFrame = regexp.MustCompile(`(?m)^(github\.com/LemoFoundationLtd/lemochain-core/[^\s(]+(?:\([^)]*\)[^\s(]*)*)\(`)
var reDigits = regexp.MustCompile(`0x[0-9a-f]+|[0-9]+`)

func shortFunc(full string) string {
	// github.com/LemoFoundationLtd/lemochain-core/network/p2p.(*Peer).unpackFrame -> p2p.(*Peer).unpackFrame
	if i := strings.LastIndex(full, "/"); i >= 0 {
		full = full[i+1:]
	}
	// closures: p2p.(*Peer).foo.func1 -> keep
	return full
}

func normMsg(s string) string {
	s = strings.TrimPrefix(s, "runtime error: ")
	s = reDigits.ReplaceAllString(s, "N")
	if len(s) > 90 {
		s = s[:90]
	}
	return s
}

func capturePanic(r interface{}, site string) *panicInfo {
	st := string(debug.Stack())
	// the frames above the panic call belong to the recovery machinery
	if i := strings.Index(st, "\npanic("); i >= 0 {
		st = st[i+1:]
	}
	fn := "?"
	for _, m := range reFrame.FindAllStringSubmatch(st, -1) {
		f := m[1]
		if strings.Contains(f, "/verif") {
			continue
		}
		fn = shortFunc(f)
		break
	}
	if len(st) > 3000 {
		st = st[:3000]
	}
	return &panicInfo{Msg: normMsg(fmt.Sprint(r)), Func: fn, Site: site, Stack: st}
}

func (p *panicInfo) fingerprint(stage string) string {
	return fmt.Sprintf("C15/panic/%s/%s/%s", stage, p.Func, p.Msg)
}

// ---------------------------------------------------------------------------------------------
// owned goroutines

var (
	liveSpawned int64
	asyncMu     sync.Mutex
	asyncPanics []*panicInfo
	asyncSig    = make(chan struct{}, 1)
)

// spawn runs f on a goroutine the harness owns: a panic is recorded and attributed to the running
// case instead of killing the worker (unless C15_NORECOVER asks for the real behaviour).
func spawn(site string, f func(), end chan *panicInfo) {
	atomic.AddInt64(&liveSpawned, 1)
	go func() {
		var pi *panicInfo
		defer func() {
			atomic.AddInt64(&liveSpawned, -1)
			if end != nil {
				end <- pi
			}
		}()
		if !noRecover {
			defer func() {
				if r := recover(); r != nil {
					pi = capturePanic(r, site)
					asyncMu.Lock()
					asyncPanics = append(asyncPanics, pi)
					hook := onAsyncPanic
					asyncMu.Unlock()
					if hook != nil {
						hook()
					}
					select {
					case asyncSig <- struct{}{}:
					default:
					}
				}
			}()
		}
		f()
	}()
}

// onAsyncPanic: what the running case wants done when one of its goroutines panics (typically:
// close the connection, so that the goroutines waiting for the dead one end as well).
var onAsyncPanic func()

func setAsyncHook(f func()) { asyncMu.Lock(); onAsyncPanic = f; asyncMu.Unlock() }

func liveNow() int64 { return atomic.LoadInt64(&liveSpawned) }

func takeAsyncPanic() *panicInfo {
	asyncMu.Lock()
	defer asyncMu.Unlock()
	if len(asyncPanics) == 0 {
		return nil
	}
	p := asyncPanics[0]
	asyncPanics = nil
	return p
}

// drain runs every gated task to completion on the calling goroutine (tasks may queue more).
func drain() int {
	// not vtask.Pending() in a loop: it copies the whole queue, which would show up in the case's
	// allocation count (quadratic in the number of queued tasks)
	return vtask.RunAll()
}

// ---------------------------------------------------------------------------------------------
// allocation meter

var allocSample = []metrics.Sample{{Name: "/gc/heap/allocs:bytes"}}

func totalAlloc() uint64 {
	metrics.Read(allocSample)
	return allocSample[0].Value.Uint64()
}

const allocSlack = 2*maxFrame + 1<<20

// perItem: what every further item of a flood (message, or block / confirm / transaction / node
// string inside one message) may cost on top of 64 bytes per byte: bookkeeping and answers that are
// bounded by the protocol's own constants (100 nodes per discovery answer, 10 blocks per packet, the
// 10240 entries of the orphan cache). Growth without bound still exceeds it at the sizes explored.
const perItem = 128 << 10

func allocBound(input int) uint64 { return 64*uint64(input) + allocSlack }

func allocBoundItems(input, items int) uint64 {
	b := allocBound(input)
	if items > 1 {
		b += uint64(items-1) * perItem
	}
	return b
}

// ---------------------------------------------------------------------------------------------
// cases and outcomes

type Case struct {
	Name string
	// Run plays the remote party. It calls m.begin() right before the first byte reaches the code
	// under test and m.end(inputBytes) after everything the input caused has finished.
	Run func(m *meter) string
}

type meter struct {
	a0, a1           uint64
	began            bool
	input            int
	items            int           // items of a flood (default 1), see perItem
	stop             chan struct{} // closed when the watchdog gives up on the case
	notes            []string
	tags             []string
	failFP, failWhat string
	failDetail       string
}

func (m *meter) begin() { m.a0 = totalAlloc(); m.began = true }
func (m *meter) end(input int) {
	m.a1 = totalAlloc()
	m.input = input
	if m.items < 1 {
		m.items = 1
	}
}
func (m *meter) tag(s string) { m.tags = append(m.tags, s) }

// fail: the case itself has established a violation (a hang it detected by its own criterion).
func (m *meter) fail(fp, what string) { m.failFP, m.failWhat = fp, what }

func stackAll(buf []byte) int { return runtime.Stack(buf, true) }

type caseResult struct {
	Name             string
	Outcome          string
	Input            int
	Items            int
	Alloc            uint64
	Panic            *panicInfo
	Stuck            string // non-empty: the case did not finish; the stack of the case goroutine
	Busy             bool   // with Stuck: the process kept computing
	CPUus            int64
	Restore          string
	FailFP, FailWhat string
	FailDetail       string
	Notes            []string
	Aborted          int // the case was cut off after the node had sent this many bytes (far beyond the yardstick)
}

func cpuNow() time.Duration {
	var ru syscall.Rusage
	syscall.Getrusage(syscall.RUSAGE_SELF, &ru)
	return time.Duration(ru.Utime.Nano() + ru.Stime.Nano())
}

var reGoroutine = regexp.MustCompile(`(?m)^goroutine (\d+) \[([^\]]+)\]:`)

func goid() string {
	var b [64]byte
	n := runtime.Stack(b[:], false)
	f := strings.Fields(string(b[:n]))
	if len(f) > 1 {
		return f[1]
	}
	return "?"
}

// stackOf extracts the trace of goroutine id from a full dump.
func stackOf(dump, id string) (state, trace string) {
	for _, g := range strings.Split(dump, "\n\n") {
		m := reGoroutine.FindStringSubmatch(g)
		if m != nil && m[1] == id {
			return m[2], g
		}
	}
	return "gone", ""
}

// blockedAt summarises where a blocked goroutine sits: primitive and the repo frames above it.
func blockedAt(trace string) string {
	lines := strings.Split(trace, "\n")
	var prim string
	var repo []string
	for _, l := range lines {
		if strings.HasPrefix(l, "\t") || strings.HasPrefix(l, "goroutine ") {
			continue
		}
		fn := l
		if i := strings.LastIndex(fn, "("); i > 0 {
			fn = fn[:i]
		}
		if strings.HasPrefix(fn, "sync.") || strings.HasPrefix(fn, "runtime.chan") || strings.HasPrefix(fn, "runtime.selectgo") || strings.HasPrefix(fn, "runtime.gopark") || strings.HasPrefix(fn, "runtime.sema") {
			if strings.HasPrefix(fn, "sync.") && (prim == "" || strings.HasPrefix(prim, "runtime.") || strings.HasPrefix(prim, "sync.runtime")) {
				prim = fn
			} else if prim == "" {
				prim = fn
			}
			continue
		}
		if strings.Contains(fn, "lemochain-core/") && len(repo) < 3 {
			repo = append(repo, shortFunc(fn))
		}
	}
	prim = strings.NewReplacer("(*", "", ")", "", "lockSlow", "Lock").Replace(prim)
	return prim + " in " + strings.Join(repo, " <- ")
}

type limits struct {
	watchdog time.Duration // first look at a case that has not finished
	hard     time.Duration // a computing case is given up after this
}

var stuckExit = false

// runCase executes one case under the watchdog.
func runCase(c Case, lim limits) caseResult {
	journal(c.Name)
	res := caseResult{Name: c.Name}
	m := &meter{stop: make(chan struct{})}
	done := make(chan struct{})
	var id atomic.Value
	cpu0 := cpuNow()
	takeAsyncPanic()
	setAsyncHook(nil)
	var gr caseResult // written by the case goroutine, read only after done is closed
	go func() {
		defer close(done)
		id.Store(goid())
		if !noRecover {
			defer func() {
				if r := recover(); r != nil {
					switch v := r.(type) {
					case abortAlloc:
						gr.Aborted = v.sent
					case *panicInfo:
						gr.Panic = v
					default:
						gr.Panic = capturePanic(r, "case")
					}
				}
			}()
		}
		gr.Outcome = c.Run(m)
	}()
	timer := time.NewTimer(lim.watchdog)
	defer timer.Stop()
	start := time.Now()
	lastCPU := cpu0
	idleLooks := 0
	abandoned := false
loop:
	for {
		select {
		case <-done:
			break loop
		case <-asyncSig:
			// a goroutine the case started has panicked: the case itself may wait for it for ever
			select {
			case <-done:
			case <-time.After(100 * time.Millisecond):
				abandoned = true
			}
			break loop
		case <-timer.C:
			// not finished: is the process computing, or is everything asleep?
			now := cpuNow()
			used := now - lastCPU
			lastCPU = now
			if used < 30*time.Millisecond {
				idleLooks++
			} else {
				idleLooks = 0
			}
			if idleLooks >= 2 || time.Since(start) > lim.hard {
				buf := make([]byte, 4<<20)
				n := runtime.Stack(buf, true)
				gid, _ := id.Load().(string)
				_, tr := stackOf(string(buf[:n]), gid)
				where := blockedAt(tr)
				// the case goroutine may wait for an owned goroutine that is the one really stuck
				if strings.Contains(tr, "main.") && !strings.Contains(where, " in ") || strings.HasSuffix(where, " in ") {
					where = deepestRepoBlock(string(buf[:n]), where)
				}
				res.Stuck = where
				res.Busy = idleLooks < 2
				if len(tr) > 6000 {
					tr = tr[:6000]
				}
				res.Outcome = "STUCK:" + where
				close(m.stop)
				stuckExit = true
				break loop
			}
			timer.Reset(3 * time.Second)
		}
	}
	res.CPUus = int64((cpuNow() - cpu0) / time.Microsecond)
	if res.Stuck != "" {
		return res
	}
	if abandoned {
		// the case goroutine is left behind; its result variables are not read
		close(m.stop)
	} else {
		res.Outcome, res.Panic, res.Aborted = gr.Outcome, gr.Panic, gr.Aborted
	}
	if p := takeAsyncPanic(); p != nil {
		res.Panic = p
	}
	if m.began && m.a1 >= m.a0 {
		res.Alloc = m.a1 - m.a0
	}
	res.Input = m.input
	res.Items = m.items
	if !abandoned {
		res.FailFP, res.FailWhat, res.FailDetail, res.Notes = m.failFP, m.failWhat, m.failDetail, m.notes
	}
	if res.Panic != nil {
		res.Outcome = "PANIC:" + res.Panic.Func
	} else if len(m.tags) > 0 {
		res.Outcome += "/" + strings.Join(m.tags, "/")
	}
	return res
}

// deepestRepoBlock looks through all goroutines for one that is blocked inside lemochain-core code
// on a lock (the usual shape of a self-deadlock) and describes it.
func deepestRepoBlock(dump, fallback string) string {
	best := ""
	for _, g := range strings.Split(dump, "\n\n") {
		m := reGoroutine.FindStringSubmatch(g)
		if m == nil {
			continue
		}
		st := m[2]
		if !(strings.HasPrefix(st, "sync.Mutex.Lock") || strings.HasPrefix(st, "sync.RWMutex") || strings.HasPrefix(st, "semacquire")) {
			continue
		}
		if !strings.Contains(g, "lemochain-core/network") && !strings.Contains(g, "lemochain-core/chain") {
			continue
		}
		w := blockedAt(g)
		if best == "" || len(w) > len(best) {
			best = w
		}
	}
	if best != "" {
		return best
	}
	return fallback
}

// ---------------------------------------------------------------------------------------------
// journal: the case about to run, for attributing a dead worker

var journalFile *os.File

func journal(name string) {
	if journalFile == nil {
		p := os.Getenv("VERIF_JOURNAL")
		if p == "" {
			return
		}
		f, err := os.OpenFile(p, os.O_CREATE|os.O_WRONLY|os.O_TRUNC, 0644)
		if err != nil {
			return
		}
		journalFile = f
	}
	b := make([]byte, 256)
	copy(b, name)
	for i := len(name); i < len(b); i++ {
		b[i] = ' '
	}
	b[255] = '\n'
	journalFile.WriteAt(b, 0)
}

// ---------------------------------------------------------------------------------------------
// worker protocol: one JSON command per line on stdin, one JSON reply per line on stdout

type command struct {
	Fam     string `json:"fam"`
	Lo, Hi  int
	Skip    []int  `json:"skip,omitempty"`
	Only    string `json:"only,omitempty"` // run the single case with this name (replay / confirmation)
	WatchS  int    `json:"watch_s"`
	HardS   int    `json:"hard_s"`
	Quit    bool   `json:"quit,omitempty"`
	Verbose bool   `json:"verbose,omitempty"`
}

type violation struct {
	FP     string      `json:"fp"`
	What   string      `json:"what"`
	Case   string      `json:"case"`
	Fam    string      `json:"fam"`
	Kind   string      `json:"kind"` // panic | alloc | stuck
	Detail interface{} `json:"detail,omitempty"`
}

type reply struct {
	Fam        string `json:"fam"`
	Lo, Hi     int
	Ran        int            `json:"ran"`
	Next       int            `json:"next"` // first index not run (== Hi unless the worker stopped early)
	Outcomes   map[string]int `json:"outcomes"`
	Violations []violation    `json:"violations,omitempty"`
	Stuck      *violation     `json:"stuck,omitempty"` // suspected hang: to be confirmed by the parent
	Notes      []string       `json:"notes,omitempty"`
	Samples    []interface{}  `json:"samples,omitempty"`
	CPUms      int64          `json:"cpu_ms"`
	InputBytes int64          `json:"input_bytes"`
	MaxAlloc   uint64         `json:"max_alloc"`
	Restores   map[string]int `json:"restores,omitempty"`
	Exit       bool           `json:"exit,omitempty"`  // the worker ends after this reply (recycle / stuck)
	Cases      []caseResult   `json:"cases,omitempty"` // verbose
}

func stageOf(fam string) string {
	if i := strings.Index(fam, "/"); i > 0 {
		return fam[:i]
	}
	return fam
}

func workerMain() {
	node.Quiet()
	debug.SetGCPercent(200)
	setPolicy()
	vtask.Spawn = func(site string, f func()) { spawn(site, f, nil) }
	w := buildWorld()
	setPolicy()
	E = newEnv(w)
	if os.Getenv("C15_LOG") != "" {
		log.Setup(log.LevelDebug, false, true) // development: the code under test talks on stderr
	}
	fams := families(w)
	byName := map[string]*Family{}
	for _, f := range fams {
		byName[f.Name] = f
	}
	in := bufio.NewReaderSize(os.Stdin, 1<<20)
	out := bufio.NewWriter(os.Stdout)
	total := 0
	for {
		line, err := in.ReadBytes('\n')
		if err != nil {
			return
		}
		var cmd command
		if err := json.Unmarshal(line, &cmd); err != nil {
			fmt.Fprintln(os.Stderr, "bad command:", err)
			os.Exit(2)
		}
		if cmd.Quit {
			return
		}
		f := byName[cmd.Fam]
		if f == nil {
			fmt.Fprintln(os.Stderr, "unknown family", cmd.Fam)
			os.Exit(2)
		}
		rep := runChunk(f, cmd)
		total += rep.Ran
		if total > 60000 || E.built > 400 {
			rep.Exit = true
		}
		b, _ := json.Marshal(rep)
		out.Write(b)
		out.WriteByte('\n')
		out.Flush()
		if rep.Exit {
			// leave without running deferred closes of an instance that may hold locks
			os.Exit(0)
		}
	}
}

func runChunk(f *Family, cmd command) *reply {
	rep := &reply{Fam: f.Name, Lo: cmd.Lo, Hi: cmd.Hi, Outcomes: map[string]int{}, Restores: map[string]int{}}
	lim := limits{time.Duration(cmd.WatchS) * time.Second, time.Duration(cmd.HardS) * time.Second}
	skip := map[int]bool{}
	for _, s := range cmd.Skip {
		skip[s] = true
	}
	stage := stageOf(f.Name)
	idx := 0
	var cpuUs int64
	rep.Next = cmd.Hi
	stopped := false
	f.Gen(E.w, core.Thorough(), func(mk func() Case) {
		i := idx
		idx++
		if stopped {
			return
		}
		var c Case
		if cmd.Only != "" {
			if c = mk(); c.Name != cmd.Only {
				return
			}
		} else if i < cmd.Lo || i >= cmd.Hi || skip[i] {
			return
		} else {
			c = mk()
		}
		vclock.SetUnix(E.w.now)
		r := runCase(c, lim)
		rep.Ran++
		cpuUs += r.CPUus
		rep.InputBytes += int64(r.Input)
		prefix := stage
		if stage == "seq" || stage == "pipe" || stage == "srv" {
			prefix = f.Name
		}
		key := prefix + "/" + r.Outcome
		if r.Stuck != "" {
			rep.Outcomes[stage+"/"+r.Outcome]++
			kind := "blocked"
			if r.Busy {
				kind = "computing"
			}
			rep.Stuck = &violation{FP: "C15/stuck/" + stage + "/" + r.Stuck, What: fmt.Sprintf("case %s did not finish (%s): %s", c.Name, kind, r.Stuck), Case: c.Name, Fam: f.Name, Kind: "stuck", Detail: map[string]interface{}{"busy": r.Busy}}
			rep.Next = i + 1
			rep.Exit = true
			stopped = true
			return
		}
		rep.Notes = append(rep.Notes, r.Notes...)
		if r.FailFP != "" {
			rep.Violations = appendV(rep.Violations, violation{FP: r.FailFP, What: r.FailWhat, Case: c.Name, Fam: f.Name, Kind: "hang", Detail: r.FailDetail})
			// something of that case is still spinning or blocked: this worker ends here
			rep.Outcomes[key]++
			rep.Next = i + 1
			rep.Exit = true
			stopped = true
			return
		}
		if r.Panic != nil {
			key = stage + "/PANIC:" + r.Panic.Func
			rep.Violations = appendV(rep.Violations, violation{FP: r.Panic.fingerprint(stage), What: fmt.Sprintf("panic %q in %s (goroutine: %s) on case %s", r.Panic.Msg, r.Panic.Func, r.Panic.Site, c.Name), Case: c.Name, Fam: f.Name, Kind: "panic", Detail: r.Panic})
			vtask.Reset()
			if stage != "hs" && stage != "frame" {
				// whatever instance was involved may hold locks: start from a fresh node
				E.rebuildAfterPanic()
				rep.Restores["node-rebuilt-after-panic:"+f.Name]++
			}
		} else if r.Aborted > 0 {
			key = prefix + "/ABORTED-UNBOUNDED-RESPONSE"
			rep.Violations = appendV(rep.Violations, violation{FP: fmt.Sprintf("C15/alloc/%s/unbounded-response", f.Name), What: fmt.Sprintf("case %s: the node had built and sent %d bytes when the case was cut off (input: a few bytes; bound %d)", c.Name, r.Aborted, allocBound(r.Input)), Case: c.Name, Fam: f.Name, Kind: "alloc", Detail: map[string]interface{}{"sent": r.Aborted}})
			vtask.Reset()
			E.rebuildAfterPanic()
			rep.Restores["node-rebuilt-after-abort:"+f.Name]++
		} else if r.Alloc > allocBoundItems(r.Input, r.Items) {
			key += "/ALLOC"
			rep.Violations = appendV(rep.Violations, violation{FP: fmt.Sprintf("C15/alloc/%s", f.Name), What: fmt.Sprintf("case %s: %d bytes received in %d item(s), %d bytes allocated (bound %d)", c.Name, r.Input, r.Items, r.Alloc, allocBoundItems(r.Input, r.Items)), Case: c.Name, Fam: f.Name, Kind: "alloc", Detail: map[string]interface{}{"input": r.Input, "alloc": r.Alloc}})
		}
		rep.Outcomes[key]++
		if r.Alloc > rep.MaxAlloc && r.Alloc <= allocBoundItems(r.Input, r.Items) {
			rep.MaxAlloc = r.Alloc
		}
		if r.CPUus > 5000000 {
			rep.Notes = append(rep.Notes, fmt.Sprintf("%s: slow case: %.1fs of computing (CPU time is not judged)", c.Name, float64(r.CPUus)/1e6))
		}
		if len(rep.Samples) < 2 && (i%97 == 13 || cmd.Only != "") {
			rep.Samples = append(rep.Samples, map[string]interface{}{"case": c.Name, "outcome": key, "input_bytes": r.Input, "allocated": r.Alloc})
		}
		if cmd.Verbose {
			rep.Cases = append(rep.Cases, r)
		}
	})
	rep.CPUms = cpuUs / 1000
	if cmd.Only == "" && !stopped && idx < cmd.Hi {
		rep.Notes = append(rep.Notes, fmt.Sprintf("family %s has %d cases, chunk asked for %d..%d", f.Name, idx, cmd.Lo, cmd.Hi))
	}
	for k, v := range restoreCounts {
		rep.Restores[k+":"+f.Name] += v
		delete(restoreCounts, k)
	}
	return rep
}

var restoreCounts = map[string]int{}

func noteRestore(kind string) {
	if kind != "" {
		restoreCounts[kind]++
	}
}

func allocClass(outcome string) string {
	// outcome class without counts that vary between cases
	return reDigits.ReplaceAllString(outcome, "N")
}

func appendV(l []violation, v violation) []violation {
	for _, o := range l {
		if o.FP == v.FP {
			return l
		}
	}
	return append(l, v)
}

func (e *env) rebuildAfterPanic() {
	// the old instance is abandoned without Close (a lock may be held); it gets a new directory
	e.n = nil
	e.dir = core.ScratchDir("c15n")
	scratchDirs = append(scratchDirs, e.dir)
	e.rebuild()
}

var scratchDirs []string

func sortedKeys(m map[string]int) []string {
	l := make([]string, 0, len(m))
	for k := range m {
		l = append(l, k)
	}
	sort.Strings(l)
	return l
}

package main

// Stage "msg": well-framed messages handed to the real dispatcher (ProtocolManager.work) of a
// fresh protocol manager on the node under test, for every message code. Background goroutines the
// handlers start are gated tasks drained on the case goroutine; the block loop runs on an owned
// goroutine and is followed through the manager's own step signal.

import (
	"bytes"
	"encoding/binary"
	"fmt"
	"sort"
	"strings"

	"verifmc/node"
	"verifmc/vclock"

	"github.com/LemoFoundationLtd/lemochain-core/chain/types"
	"github.com/LemoFoundationLtd/lemochain-core/common"
	"github.com/LemoFoundationLtd/lemochain-core/network"
	"github.com/LemoFoundationLtd/lemochain-core/network/p2p"
)

type sample struct {
	name    string
	code    uint32
	payload []byte
	quick   bool // part of the quick tier's mutation families
}

type wire struct {
	code    uint32
	payload []byte
}

// waitQueue as the code of a wire element: wait for one pass of the orphan queue timer
const waitQueue = 0xffff0001

func frameLen(payload int) int { return 6 + (payload+4+16)/16*16 }

var sampleCache []sample

func (w *world) samples() []sample {
	if sampleCache != nil {
		return sampleCache
	}
	var l []sample
	add := func(name string, code uint32, v interface{}, quick bool) {
		var b []byte
		if raw, ok := v.([]byte); ok {
			b = raw
		} else {
			b = enc(v)
		}
		l = append(l, sample{name, code, b, quick})
	}
	g, f, a1, C := w.hash("g"), w.hash("f"), w.hash("a1"), w.hash("C")
	_ = f
	add("handshake", 0x02, &network.ProtocolHandshake{ChainID: node.ChainID, GenesisHash: g, NodeVersion: 1, LatestStatus: network.LatestStatus{CurHeight: 2, CurHash: a1, StaHeight: 0, StaHash: g}}, false)
	add("status-same", 0x03, &network.LatestStatus{CurHeight: 2, CurHash: a1, StaHeight: 0, StaHash: g}, true)
	add("status-ahead", 0x03, &network.LatestStatus{CurHeight: 3, CurHash: C, StaHeight: 0, StaHash: g}, false)
	add("get-status", 0x04, &network.GetLatestStatus{Revert: 0}, true)
	add("hash-unknown", 0x05, &network.BlockHashData{Height: 3, Hash: C}, true)
	add("hash-known", 0x05, &network.BlockHashData{Height: 2, Hash: a1}, false)
	add("tx", 0x06, types.Transactions{w.txNew}, true)
	add("txs", 0x06, types.Transactions{w.txNew, w.txNew2}, false)
	add("box", 0x06, types.Transactions{w.txBox}, false)
	add("get-blocks", 0x07, &network.GetBlocksData{From: 0, To: 2}, true)
	add("get-block", 0x07, &network.GetBlocksData{From: 1, To: 1}, false)
	add("next", 0x08, types.Blocks{w.blocks["C"]}, true)
	add("orphan", 0x08, types.Blocks{w.blocks["O"]}, false)
	add("fork", 0x08, types.Blocks{w.blocks["b1"]}, false)
	add("known", 0x08, types.Blocks{w.blocks["a1"]}, false)
	add("two", 0x08, types.Blocks{w.blocks["C"], w.blocks["O"]}, false)
	add("confirm-known", 0x09, &network.BlockConfirmData{Hash: a1, Height: 2, SignInfo: node.SignConfirm(node.Deputy(3), a1)}, true)
	add("confirm-unknown", 0x09, &network.BlockConfirmData{Hash: C, Height: 3, SignInfo: node.SignConfirm(node.Deputy(1), C)}, false)
	add("get-confirms", 0x0a, &network.GetConfirmInfo{Height: 2, Hash: a1}, true)
	add("get-confirms-by-height", 0x0a, &network.GetConfirmInfo{Height: 1}, false)
	add("confirms", 0x0b, &network.BlockConfirms{Height: 2, Hash: a1, Pack: []types.SignData{node.SignConfirm(node.Deputy(3), a1)}}, true)
	add("confirms-enough", 0x0b, &network.BlockConfirms{Height: 2, Hash: a1, Pack: []types.SignData{node.SignConfirm(node.Deputy(1), a1), node.SignConfirm(node.Deputy(3), a1), node.SignConfirm(node.Deputy(4), a1)}}, false)
	add("discover-req", 0x0c, &network.DiscoverReqData{Sequence: 1}, true)
	add("one-node", 0x0d, &network.DiscoverResData{Sequence: 1, Nodes: []string{nodeString(node.K("peer-x"), "10.1.2.3:7001")}}, true)
	add("three-nodes", 0x0d, &network.DiscoverResData{Sequence: 1, Nodes: []string{nodeString(node.K("peer-x"), "10.1.2.3:7001"), nodeString(node.K("peer-y"), "10.1.2.4:7002"), nodeString(node.Deputy(2), "10.1.2.5:7003")}}, false)
	add("get-blocks-logs", 0x0e, &network.GetBlocksData{From: 0, To: 2}, true)
	sampleCache = l
	return l
}

func nodeString(k *node.Key, endpoint string) string {
	return fmt.Sprintf("%x@%s", k.NodeID, endpoint)
}

// ---------------------------------------------------------------------------------------------

type abortAlloc struct{ sent int }

// playMsgs delivers the messages in order to one protocol manager through one registered peer and
// then asks for the node's status.
//
// opts: mine — after the messages the node (deputy d0) mines a block at its next slot, executing
// what its pool holds; waitQueue — wait for one pass of the orphan-block queue timer at the end.
type playOpt struct {
	mine      bool
	waitQueue bool
	noStatus  bool
	inputLen  int // overrides the sum of frame lengths
	items     int // items of a flood inside one message (default: the number of messages)
	peer      *node.Key
}

func playMsgs(m *meter, msgs []wire, opt playOpt) string {
	c := E.newPM()
	pk := opt.peer
	if pk == nil {
		pk = node.Deputy(1)
	}
	fp, np := c.addPeer(pk)
	input := 0
	for _, w := range msgs {
		if w.code != waitQueue {
			input += frameLen(len(w.payload))
		}
	}
	if opt.inputLen > 0 {
		input = opt.inputLen
	}
	items := len(msgs)
	if opt.items > items {
		items = opt.items
	}
	fp.budget = int(allocBoundItems(input, items)) * 2
	verdict := "ok"
	var first uint32 = 0xffff
	if len(msgs) > 0 {
		first = msgs[0].code
	}
	m.begin()
	dropped := false
	for _, w := range msgs {
		if w.code == waitQueue {
			// not a message: the manager's 500 ms timer looks through the orphan cache
			c.waitStep(m, network.VerifC15QueueTimerSignal)
			drain()
			continue
		}
		err := c.deliver(m, w, np)
		if c.failed() {
			break
		}
		if err != nil {
			// handleMsg returns the error and handlePeer closes the connection
			verdict = "err:" + strings.Replace(err.Error(), " error: ", ":", 1)
			fp.Close()
			dropped = true
			break
		}
	}
	if opt.waitQueue && !c.failed() {
		c.waitStep(m, network.VerifC15QueueTimerSignal)
		drain()
	}
	if opt.mine && !c.failed() {
		vclock.SetUnix(int64(E.w.mineAt))
		E.n.BC.MineBlock(node.HugeTimeout)
		drain()
		vclock.SetUnix(E.w.now)
	}
	sent := fp.takeSent()
	answered := false
	if !dropped && !opt.noStatus && !c.failed() && !fp.isClosed() {
		// liveness: a following valid request is answered
		if err := c.deliver(m, wire{0x04, enc(&network.GetLatestStatus{})}, np); err == nil {
			for _, s := range fp.takeSent() {
				if s == 0x03 {
					answered = true
				}
			}
		}
	}
	cc, bc := network.VerifC15CacheSizes(c.pm)
	registered := network.VerifC15Registered(c.pm)
	c.close(m)
	E.n.Quiesce()
	m.items = len(msgs)
	if opt.items > m.items {
		m.items = opt.items
	}
	m.end(input)
	if c.loopPanic != nil {
		panic(c.loopPanic) // re-raised on the case goroutine; runCase prefers the recorded async panic
	}
	tags, chainChanged, poolChanged := E.effects()
	if cc > 0 {
		tags = append(tags, "confirm-cached")
	}
	if bc > 0 {
		tags = append(tags, "orphan-cached")
	}
	if fp.isClosed() && !dropped {
		tags = append(tags, "peer-closed")
	}
	if registered == 0 {
		tags = append(tags, "unregistered")
	}
	if len(sent) > 0 {
		set := map[uint32]bool{}
		for _, s := range sent {
			set[s] = true
		}
		var l []string
		for s := range set {
			l = append(l, fmt.Sprintf("%02x", s))
		}
		sort.Strings(l)
		tags = append(tags, "sent="+strings.Join(l, ","))
	}
	if !dropped && !opt.noStatus && !fp.isClosed() && !answered {
		tags = append(tags, "UNANSWERED")
	}
	noteRestore(E.restore(chainChanged, poolChanged))
	key := fmt.Sprintf("%02x/%s", first, verdict)
	if len(msgs) != 1 {
		key = verdict
	}
	if len(tags) > 0 {
		key += "/" + strings.Join(tags, "/")
	}
	return key
}

// deliver hands one message to the dispatcher and runs everything it started to completion.
func (c *pmCase) deliver(m *meter, w wire, np *network.VerifC15Peer) error {
	msg := &p2p.Msg{Code: p2p.MsgCode(w.code), Content: w.payload, ReceivedAt: vclock.Now()}
	err := network.VerifC15Work(c.pm, msg, np)
	if err == nil && w.code == 0x08 {
		c.waitStep(m, network.VerifC15RcvBlocksSignal)
	}
	drain()
	return err
}

// ---------------------------------------------------------------------------------------------
// generic adversarial RLP payloads (not derived from a sample)

type namedPayload struct {
	name string
	b    []byte
}

func be(n uint64, width int) []byte {
	b := make([]byte, 8)
	binary.BigEndian.PutUint64(b, n)
	return b[8-width:]
}

func nest(depth int, inner []byte) []byte {
	// lists nested depth deep around inner, with correct length headers (built from the inside out
	// without copying the body once per level)
	heads := make([][]byte, depth)
	n := len(inner)
	total := n
	for i := 0; i < depth; i++ {
		heads[i] = listHeader(n)
		n += len(heads[i])
		total += len(heads[i])
	}
	b := make([]byte, 0, total)
	for i := depth - 1; i >= 0; i-- {
		b = append(b, heads[i]...)
	}
	return append(b, inner...)
}

func listHeader(n int) []byte {
	if n < 56 {
		return []byte{0xc0 + byte(n)}
	}
	l := be(uint64(n), 8)
	for len(l) > 1 && l[0] == 0 {
		l = l[1:]
	}
	return append([]byte{0xf7 + byte(len(l))}, l...)
}

func strHeader(n int) []byte {
	if n < 56 {
		return []byte{0x80 + byte(n)}
	}
	l := be(uint64(n), 8)
	for len(l) > 1 && l[0] == 0 {
		l = l[1:]
	}
	return append([]byte{0xb7 + byte(len(l))}, l...)
}

var rlpPayloadCache = map[bool][]namedPayload{}

func rlpPayloads(thorough bool) []namedPayload {
	if l, ok := rlpPayloadCache[thorough]; ok {
		return l
	}
	l := buildRlpPayloads(thorough)
	rlpPayloadCache[thorough] = l
	return l
}

func buildRlpPayloads(thorough bool) []namedPayload {
	var l []namedPayload
	add := func(n string, b []byte) { l = append(l, namedPayload{n, b}) }
	add("empty", nil)
	for v := 0; v < 256; v++ {
		if !thorough && !bytes.Contains(boundary, []byte{byte(v)}) {
			continue
		}
		add(fmt.Sprintf("byte=%02x", v), []byte{byte(v)})
	}
	// headers that announce 2^32 / 2^63 / 2^64-1 bytes or elements, alone and followed by a little data
	for _, h := range []byte{0xb8, 0xb9, 0xba, 0xbb, 0xbf, 0xf8, 0xf9, 0xfa, 0xfb, 0xff} {
		width := int(h&0x0f) - 7
		if h < 0xc0 {
			width = int(h) - 0xb7
		} else {
			width = int(h) - 0xf7
		}
		for _, v := range []uint64{0, 1, 55, 56, 0xffff, 1 << 24, 1<<32 - 1, 1 << 32, 1 << 62, 1 << 63, 1<<64 - 1} {
			lenb := be(v, 8)[8-width:]
			if width < 8 && v>>(8*uint(width)) != 0 {
				continue
			}
			for _, tail := range []int{0, 3, 64} {
				add(fmt.Sprintf("header=%02x/len=%d/tail=%d", h, v, tail), append(append([]byte{h}, lenb...), bytes.Repeat([]byte{0x01}, tail)...))
			}
		}
	}
	// a list whose first element claims to be huge
	for _, v := range []uint64{1 << 24, 1<<32 - 1, 1 << 40, 1<<64 - 1} {
		inner := append([]byte{0xbf}, be(v, 8)...)
		add(fmt.Sprintf("list-with-huge-string=%d", v), append(listHeader(len(inner)), inner...))
		inner = append([]byte{0xff}, be(v, 8)...)
		add(fmt.Sprintf("list-with-huge-list=%d", v), append(listHeader(len(inner)), inner...))
	}
	// nesting
	depths := []int{1, 2, 3, 4, 5, 8, 16, 32, 64, 1000}
	if thorough {
		depths = nil
		for d := 1; d <= 64; d++ {
			depths = append(depths, d)
		}
		depths = append(depths, 1000, 100000)
	}
	for _, d := range depths {
		add(fmt.Sprintf("nested-lists=%d", d), nest(d, nil))
		add(fmt.Sprintf("nested-lists=%d/around-byte", d), nest(d, []byte{0x01}))
	}
	// wide lists
	for _, n := range []int{1, 2, 55, 56, 1000, 100000} {
		for _, el := range [][]byte{{0x80}, {0xc0}, {0x01}, {0xc1, 0x80}} {
			body := bytes.Repeat(el, n)
			add(fmt.Sprintf("list-of-%d-x-%x", n, el), append(listHeader(len(body)), body...))
		}
	}
	// strings
	for _, n := range []int{1, 32, 55, 56, 64, 65, 1000, 100000} {
		add(fmt.Sprintf("string-of-%d", n), append(strHeader(n), bytes.Repeat([]byte{0x61}, n)...))
		inner := append(strHeader(n), bytes.Repeat([]byte{0x61}, n)...)
		add(fmt.Sprintf("list-with-string-of-%d", n), append(listHeader(len(inner)), inner...))
	}
	return l
}

// ---------------------------------------------------------------------------------------------

func msgFamilies(w *world) []*Family {
	var fams []*Family
	add := func(name string, cost int, gen func(thorough bool, emit func(func() Case))) {
		fams = append(fams, &Family{Name: "msg/" + name, Cost: cost, Gen: func(_ *world, th bool, emit func(func() Case)) { gen(th, emit) }})
	}
	one := func(name string, code uint32, payload []byte, opt playOpt) Case {
		return Case{Name: name, Run: func(m *meter) string { return playMsgs(m, []wire{{code, payload}}, opt) }}
	}
	// every code 0..0x1f with the generic adversarial payloads
	for code := uint32(0); code <= 0x1f; code++ {
		code := code
		add(fmt.Sprintf("%02x/rlp", code), 1, func(th bool, emit func(func() Case)) {
			for _, p := range rlpPayloads(th) {
				emit(func() Case { return one(fmt.Sprintf("msg/%02x/rlp/%s", code, p.name), code, p.b, playOpt{}) })
			}
		})
	}
	bycode := map[uint32][]sample{}
	for _, s := range w.samples() {
		if s.code != 0x02 {
			bycode[s.code] = append(bycode[s.code], s)
		}
	}
	codes := []uint32{}
	for c := range bycode {
		codes = append(codes, c)
	}
	sort.Slice(codes, func(i, j int) bool { return codes[i] < codes[j] })
	for _, code := range codes {
		code := code
		ss := bycode[code]
		opt := playOpt{}
		add(fmt.Sprintf("%02x/sample", code), 4, func(th bool, emit func(func() Case)) {
			for _, s := range ss {
				emit(func() Case { return one(fmt.Sprintf("msg/%02x/sample/%s", code, s.name), code, s.payload, opt) })
				if code == 0x06 {
					emit(func() Case {
						return one(fmt.Sprintf("msg/%02x/sample/%s/then-the-node-mines", code, s.name), code, s.payload, playOpt{mine: true})
					})
				}
			}
		})
		add(fmt.Sprintf("%02x/trunc", code), 1, func(th bool, emit func(func() Case)) {
			for _, s := range ss {
				for cut := 0; cut < len(s.payload); cut++ {
					if !th && !s.quick && cut%7 != 0 {
						continue
					}
					emit(func() Case {
						return one(fmt.Sprintf("msg/%02x/trunc/%s/cut=%04d", code, s.name, cut), code, s.payload[:cut], opt)
					})
				}
				// and with trailing bytes
				for _, extra := range [][]byte{{0x00}, {0x80}, {0xc0}, bytes.Repeat([]byte{0xff}, 9)} {
					emit(func() Case {
						return one(fmt.Sprintf("msg/%02x/trunc/%s/trailing=%x", code, s.name, extra), code, append(append([]byte{}, s.payload...), extra...), opt)
					})
				}
			}
		})
		add(fmt.Sprintf("%02x/mut", code), 1, func(th bool, emit func(func() Case)) {
			// single byte mutations over the 16 RLP boundary bytes at every position
			for _, s := range ss {
				if !th && !s.quick {
					continue
				}
				for pos := range s.payload {
					for _, v := range boundaryVals(s.payload[pos], th) {
						emit(func() Case {
							return one(fmt.Sprintf("msg/%02x/mut/%s/pos=%04d/val=%02x", code, s.name, pos, v), code, withByte(s.payload, pos, v), opt)
						})
					}
				}
			}
		})
		add(fmt.Sprintf("%02x/mut256", code), 1, func(th bool, emit func(func() Case)) {
			if !th {
				return
			}
			for _, s := range ss {
				if len(s.payload) > 450 {
					continue
				}
				isB := map[byte]bool{}
				for _, v := range boundary {
					isB[v] = true
				}
				for pos := range s.payload {
					for v := 0; v < 256; v++ {
						if byte(v) == s.payload[pos] || isB[byte(v)] {
							continue
						}
						emit(func() Case {
							return one(fmt.Sprintf("msg/%02x/mut256/%s/pos=%04d/val=%02x", code, s.name, pos, v), code, withByte(s.payload, pos, byte(v)), opt)
						})
					}
				}
			}
		})
		add(fmt.Sprintf("%02x/mut2", code), 1, func(th bool, emit func(func() Case)) {
			// pairs of boundary bytes at adjacent positions
			if !th {
				return
			}
			for _, s := range ss {
				if len(s.payload) > 200 {
					continue
				}
				for pos := 0; pos+1 < len(s.payload); pos++ {
					for _, v1 := range boundary {
						for _, v2 := range boundary {
							if v1 == s.payload[pos] || v2 == s.payload[pos+1] {
								continue
							}
							b := withByte(s.payload, pos, v1)
							b[pos+1] = v2
							emit(func() Case {
								return one(fmt.Sprintf("msg/%02x/mut2/%s/pos=%04d/val=%02x%02x", code, s.name, pos, v1, v2), code, b, opt)
							})
						}
					}
				}
			}
		})
	}
	fams = append(fams, absurdFamilies(w)...)
	return fams
}

var zeroHash common.Hash

package main

// Stage "hs": bytes before and during the encrypted handshake, through the real
// Server.HandleConn of a server that is marked running but listens nowhere. Role "server": the
// remote dialed the node and sends the request; role "client": the node dialed the remote (which it
// knows by node id) and the remote answers. Nobody is authenticated here: the only thing the remote
// needs is the node's public key (its node id).

import (
	"bytes"
	"crypto/ecdsa"
	"fmt"
	"io"
	"sync"

	"verifmc/node"

	"github.com/LemoFoundationLtd/lemochain-core/network/p2p"
)

// server: a fresh server (and discovery table) per case, so that no case sees what an earlier one left
func server() *p2p.Server {
	E.disc = p2p.NewDiscoverManager(E.dir)
	return p2p.VerifConnServer(p2p.Config{Name: "verif", PrivateKey: node.Deputy(0).Priv, Port: 7001}, E.disc)
}

func nodePub() *ecdsa.PublicKey { return &node.Deputy(0).Priv.PublicKey }

// playHandshake runs HandleConn over the script. client: the node is the dialing side.
func playHandshake(m *meter, client bool, end error, chunks ...[]byte) string {
	srv := server()
	conn := newScript(end, chunks...)
	total := conn.total()
	var rid *p2p.NodeID
	role := "server"
	if client {
		id := remoteNodeID()
		rid = &id
		role = "client"
	}
	m.begin()
	err := srv.HandleConn(conn, rid)
	drain() // the hand-over of the new peer to the server loop
	peer := p2p.VerifAddedPeer(srv)
	m.end(total)
	// HandleConn reports the result of its bookkeeping, not of the handshake: a second pass over the
	// same bytes with the handshake hooks names the error class
	c2 := newScript(end, chunks...)
	var herr error
	if client {
		_, _, herr = p2p.VerifClientHandshake(c2, node.Deputy(0).Priv, rid)
	} else {
		_, _, herr = p2p.VerifServerHandshake(c2, node.Deputy(0).Priv)
	}
	cls := errClass(herr)
	if herr == nil && err != nil {
		cls = "ok/refused:" + err.Error()
	}
	if (herr == nil) != (peer != nil) && !(herr == nil && err != nil) {
		cls += "/PASSES-DISAGREE"
	}
	out := role + "/" + cls
	if conn.isClosed() {
		out += "/dropped"
	} else {
		out += "/kept"
	}
	if peer != nil {
		out += "/peer-added"
		peer.Close()
	} else {
		out += "/no-peer"
	}
	if herr != nil && !conn.isClosed() {
		out += "/NOT-CLOSED"
	}
	return out
}

var memo = map[string][]byte{}
var memoMu sync.Mutex

func memoized(k string, f func() []byte) []byte {
	memoMu.Lock()
	b, ok := memo[k]
	memoMu.Unlock()
	if !ok {
		b = f() // deterministic: computing it twice is harmless
		memoMu.Lock()
		memo[k] = b
		memoMu.Unlock()
	}
	return append([]byte{}, b...)
}

func requestPlain() []byte {
	return memoized("req-plain", func() []byte { return enc(clientHello(remoteID().Priv, remoteRnd().Priv, nodePub(), fixedNonce)) })
}
func responsePlain() []byte {
	return memoized("resp-plain", func() []byte { return enc(serverHello(remoteRnd().Priv, fixedNonce)) })
}
func validRequest() []byte {
	return memoized("req", func() []byte { return packet(seal(nodePub(), remoteEph().Priv, requestPlain())) })
}
func validResponse() []byte {
	return memoized("resp", func() []byte { return packet(seal(nodePub(), remoteEph().Priv, responsePlain())) })
}

func hsFamilies(w *world) []*Family {
	var fams []*Family
	add := func(name string, cost int, gen func(thorough bool, emit func(func() Case))) {
		fams = append(fams, &Family{Name: "hs/" + name, Cost: cost, Gen: func(_ *world, th bool, emit func(func() Case)) { gen(th, emit) }})
	}
	roles := []struct {
		n      string
		client bool
		valid  func() []byte
		plain  func() []byte
	}{
		{"server", false, validRequest, requestPlain},
		{"client", true, validResponse, responsePlain},
	}
	ends := []struct {
		n string
		e error
	}{{"eof", io.EOF}, {"silent", errTimeout}}
	for _, r := range roles {
		r := r
		hs := func(name string, chunks func() [][]byte, end error) Case {
			return Case{Name: name, Run: func(m *meter) string { return playHandshake(m, r.client, end, chunks()...) }}
		}
		one := func(name string, b func() []byte, end error) Case {
			return hs(name, func() [][]byte { return [][]byte{b()} }, end)
		}
		add(r.n+"/valid", 8, func(th bool, emit func(func() Case)) {
			for _, e := range ends {
				emit(func() Case { return one(fmt.Sprintf("hs/%s/valid/then-%s", r.n, e.n), r.valid, e.e) })
			}
			// identities: a deputy, the node itself, the all-zero nonce
			for _, id := range []string{"d1", "d0", "outsider"} {
				id := id
				emit(func() Case {
					return one(fmt.Sprintf("hs/%s/valid/identity=%s", r.n, id), func() []byte {
						if r.client {
							return r.valid()
						}
						return packet(seal(nodePub(), remoteEph().Priv, enc(clientHello(node.K(id).Priv, remoteRnd().Priv, nodePub(), fixedNonce))))
					}, errTimeout)
				})
			}
			// the same valid packet twice, and followed by a frame
			emit(func() Case {
				return hs(fmt.Sprintf("hs/%s/valid/twice", r.n), func() [][]byte { return [][]byte{r.valid(), r.valid()} }, errTimeout)
			})
		})
		add(r.n+"/prefix", 2, func(th bool, emit func(func() Case)) {
			n := len(r.valid())
			for cut := 0; cut < n; cut++ {
				for _, e := range ends {
					cut, e := cut, e
					emit(func() Case {
						return one(fmt.Sprintf("hs/%s/prefix/cut=%03d/then-%s", r.n, cut, e.n), func() []byte { return r.valid()[:cut] }, e.e)
					})
				}
			}
		})
		add(r.n+"/split", 8, func(th bool, emit func(func() Case)) {
			n := len(r.valid())
			for a := 0; a <= n; a++ {
				a := a
				emit(func() Case {
					return hs(fmt.Sprintf("hs/%s/split/2/at=%03d", r.n, a), func() [][]byte { v := r.valid(); return [][]byte{v[:a], v[a:]} }, errTimeout)
				})
			}
			lim := 8
			if th {
				lim = 40
			}
			for a := 0; a <= lim; a++ {
				for b := a; b <= lim; b++ {
					a, b := a, b
					emit(func() Case {
						return hs(fmt.Sprintf("hs/%s/split/3/at=%03d,%03d", r.n, a, b), func() [][]byte { v := r.valid(); return [][]byte{v[:a], v[a:b], v[b:]} }, errTimeout)
					})
				}
			}
			emit(func() Case {
				return hs(fmt.Sprintf("hs/%s/split/bytewise", r.n), func() [][]byte {
					v := r.valid()
					var ch [][]byte
					for i := range v {
						ch = append(ch, v[i:i+1])
					}
					return ch
				}, errTimeout)
			})
		})
		add(r.n+"/magic", 1, func(th bool, emit func(func() Case)) {
			for pos := 0; pos < 2; pos++ {
				for v := 0; v < 256; v++ {
					pos, v := pos, v
					if byte(v) == magic[pos] {
						continue
					}
					emit(func() Case {
						return one(fmt.Sprintf("hs/%s/magic/pos=%d/val=%02x", r.n, pos, v), func() []byte { return withByte(r.valid(), pos, byte(v)) }, errTimeout)
					})
				}
			}
		})
		add(r.n+"/len", 6, func(th bool, emit func(func() Case)) {
			// the length field against what follows; nothing is authenticated yet, so the 64 KiB limit of
			// the handshake reader is all that may be allocated on the remote's word
			n := uint32(len(r.valid()) - 6)
			decl := []uint32{0, 1, 2, 64, 65, 96, 97, 98, 113, 114, n - 1, n, n + 1, 1000, 65535, 65536, 65537, 1 << 20, 1 << 24, maxFrame, maxFrame + 1, 1 << 30, 1<<30 + 1, 1 << 31, 1<<32 - 1}
			for _, d := range decl {
				for _, follow := range []string{"nothing", "valid-body", "as-declared-zeros"} {
					for _, e := range ends {
						d, follow, e := d, follow, e
						if follow == "as-declared-zeros" && d > 1<<20 {
							continue
						}
						emit(func() Case {
							return one(fmt.Sprintf("hs/%s/len/declared=%d/%s/then-%s", r.n, d, follow, e.n), func() []byte {
								var body []byte
								switch follow {
								case "valid-body":
									body = r.valid()[6:]
								case "as-declared-zeros":
									body = make([]byte, d)
								}
								return packetLen(d, body)
							}, e.e)
						})
					}
				}
			}
		})
		add(r.n+"/mut", 6, func(th bool, emit func(func() Case)) {
			// single byte mutations of the whole packet (magic, length, ephemeral key, ciphertext, tag)
			v0 := r.valid()
			for pos := range v0 {
				for _, v := range byteVals(v0[pos], th) {
					pos, v := pos, v
					emit(func() Case {
						return one(fmt.Sprintf("hs/%s/mut/pos=%03d/val=%02x", r.n, pos, v), func() []byte { return withByte(r.valid(), pos, v) }, errTimeout)
					})
				}
			}
		})
		add(r.n+"/sealed-em", 6, func(th bool, emit func(func() Case)) {
			// correctly authenticated envelopes whose encrypted part has every length 0..48 (shorter
			// than the cipher's block: no IV) and a few larger ones
			lens := []int{}
			for l := 0; l <= 48; l++ {
				lens = append(lens, l)
			}
			lens = append(lens, 63, 64, 65, 1000, 65000, 65535-97)
			for _, l := range lens {
				for _, fill := range []byte{0x00, 0xc0, 0xff} {
					l, fill := l, fill
					emit(func() Case {
						return one(fmt.Sprintf("hs/%s/sealed-em/len=%05d/fill=%02x", r.n, l, fill), func() []byte {
							return packet(sealEM(nodePub(), remoteEph().Priv, bytes.Repeat([]byte{fill}, l)))
						}, errTimeout)
					})
				}
			}
			// ephemeral key formats: compressed / hybrid markers, point not on the curve, infinity
			for _, first := range []byte{0x00, 0x02, 0x03, 0x04, 0x05, 0x06, 0x07} {
				first := first
				emit(func() Case {
					return one(fmt.Sprintf("hs/%s/sealed-em/ephemeral-marker=%02x", r.n, first), func() []byte {
						return packet(withByte(seal(nodePub(), remoteEph().Priv, r.plain()), 0, first))
					}, errTimeout)
				})
			}
			emit(func() Case {
				return one(fmt.Sprintf("hs/%s/sealed-em/ephemeral=zero-point", r.n), func() []byte {
					e := seal(nodePub(), remoteEph().Priv, r.plain())
					for i := 1; i < 65; i++ {
						e[i] = 0
					}
					return packet(e)
				}, errTimeout)
			})
		})
		add(r.n+"/plain-trunc", 6, func(th bool, emit func(func() Case)) {
			// correctly sealed plaintexts: every truncation of the RLP
			p := r.plain()
			for cut := 0; cut <= len(p); cut++ {
				cut := cut
				emit(func() Case {
					return one(fmt.Sprintf("hs/%s/plain-trunc/cut=%03d", r.n, cut), func() []byte { return packet(seal(nodePub(), remoteEph().Priv, r.plain()[:cut])) }, errTimeout)
				})
			}
		})
		add(r.n+"/plain-mut", 8, func(th bool, emit func(func() Case)) {
			// correctly sealed plaintexts: single byte mutations of the RLP (signature, keys, nonce, headers)
			p := r.plain()
			for pos := range p {
				vals := boundaryVals(p[pos], th)
				if th {
					vals = byteVals(p[pos], true)
				} else if pos > 8 && pos%4 != 0 {
					vals = []byte{p[pos] ^ 0x01, 0x00}
				}
				for _, v := range vals {
					if v == p[pos] {
						continue
					}
					pos, v := pos, v
					emit(func() Case {
						return one(fmt.Sprintf("hs/%s/plain-mut/pos=%03d/val=%02x", r.n, pos, v), func() []byte { return packet(seal(nodePub(), remoteEph().Priv, withByte(r.plain(), pos, v))) }, errTimeout)
					})
				}
			}
		})
		add(r.n+"/plain-rlp", 6, func(th bool, emit func(func() Case)) {
			for _, p := range rlpPayloads(th) {
				if len(p.b) > 60000 {
					continue
				}
				p := p
				emit(func() Case {
					return one(fmt.Sprintf("hs/%s/plain-rlp/%s", r.n, p.name), func() []byte { return packet(seal(nodePub(), remoteEph().Priv, p.b)) }, errTimeout)
				})
			}
		})
		add(r.n+"/plain-shape", 8, func(th bool, emit func(func() Case)) {
			// well-formed RLP of the right shape with absurd field values
			type shape struct {
				n string
				b func() []byte
			}
			var shapes []shape
			zero64 := make([]byte, 64)
			ones64 := bytes.Repeat([]byte{0xff}, 64)
			if !r.client {
				base := func() *authReq { return clientHello(remoteID().Priv, remoteRnd().Priv, nodePub(), fixedNonce) }
				shapes = append(shapes,
					shape{"pubkey=zero", func() []byte { m := base(); copy(m.ClientPubKey[:], zero64); return enc(m) }},
					shape{"pubkey=ff", func() []byte { m := base(); copy(m.ClientPubKey[:], ones64); return enc(m) }},
					shape{"pubkey=node-itself", func() []byte { m := base(); copy(m.ClientPubKey[:], node.Deputy(0).NodeID); return enc(m) }},
					shape{"signature=zero", func() []byte { m := base(); m.Signature = [65]byte{}; return enc(m) }},
					shape{"signature=ff", func() []byte { m := base(); copy(m.Signature[:], bytes.Repeat([]byte{0xff}, 65)); return enc(m) }},
					shape{"signature-v=4", func() []byte { m := base(); m.Signature[64] = 4; return enc(m) }},
					shape{"signature-v=27", func() []byte { m := base(); m.Signature[64] = 27; return enc(m) }},
					shape{"signature-v=255", func() []byte { m := base(); m.Signature[64] = 255; return enc(m) }},
					shape{"signature-r=0", func() []byte { m := base(); copy(m.Signature[:32], make([]byte, 32)); return enc(m) }},
					shape{"signature-s=0", func() []byte { m := base(); copy(m.Signature[32:64], make([]byte, 32)); return enc(m) }},
					shape{"signature-r=order", func() []byte {
						m := base()
						copy(m.Signature[:32], nodePub().Curve.Params().N.Bytes())
						return enc(m)
					}},
					shape{"nonce=zero", func() []byte { m := base(); m.InitNonce = [32]byte{}; return enc(m) }},
					shape{"all-zero", func() []byte { return enc(new(authReq)) }},
					shape{"extra-field", func() []byte {
						m := base()
						return enc([]interface{}{m.Signature, m.ClientPubKey, m.InitNonce, uint(7)})
					}},
					shape{"missing-field", func() []byte { m := base(); return enc([]interface{}{m.Signature, m.ClientPubKey}) }},
					shape{"fields-too-long", func() []byte {
						return enc([]interface{}{bytes.Repeat([]byte{1}, 66), bytes.Repeat([]byte{1}, 65), bytes.Repeat([]byte{1}, 33)})
					}},
					shape{"fields-too-short", func() []byte {
						return enc([]interface{}{bytes.Repeat([]byte{1}, 64), bytes.Repeat([]byte{1}, 63), bytes.Repeat([]byte{1}, 31)})
					}},
				)
			} else {
				base := func() *authResp { return serverHello(remoteRnd().Priv, fixedNonce) }
				shapes = append(shapes,
					shape{"random-pubkey=zero", func() []byte { m := base(); copy(m.RandomPubKey[:], zero64); return enc(m) }},
					shape{"random-pubkey=ff", func() []byte { m := base(); copy(m.RandomPubKey[:], ones64); return enc(m) }},
					shape{"random-pubkey=node-itself", func() []byte { m := base(); copy(m.RandomPubKey[:], node.Deputy(0).NodeID); return enc(m) }},
					shape{"nonce=zero", func() []byte { m := base(); m.RespNonce = [32]byte{}; return enc(m) }},
					shape{"all-zero", func() []byte { return enc(new(authResp)) }},
					shape{"extra-field", func() []byte { m := base(); return enc([]interface{}{m.RandomPubKey, m.RespNonce, uint(7)}) }},
					shape{"missing-field", func() []byte { m := base(); return enc([]interface{}{m.RandomPubKey}) }},
					shape{"fields-too-long", func() []byte {
						return enc([]interface{}{bytes.Repeat([]byte{1}, 65), bytes.Repeat([]byte{1}, 33)})
					}},
					shape{"request-instead-of-response", func() []byte {
						return enc(clientHello(remoteID().Priv, remoteRnd().Priv, nodePub(), fixedNonce))
					}},
				)
			}
			for _, s := range shapes {
				s := s
				emit(func() Case {
					return one(fmt.Sprintf("hs/%s/plain-shape/%s", r.n, s.n), func() []byte { return packet(seal(nodePub(), remoteEph().Priv, s.b())) }, errTimeout)
				})
			}
		})
	}
	return fams
}

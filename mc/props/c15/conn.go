package main

// Connections the remote party is played through. None of them looks at deadlines: the node's
// clock is virtual, and "the remote stays silent until the read deadline passes" is modelled by a
// timeout error the remote side triggers explicitly (end of script / Expire).

import (
	"crypto/ecdsa"
	"errors"
	"io"
	"net"
	"sync"
	"time"

	"github.com/LemoFoundationLtd/lemochain-core/network/p2p"
)

type timeoutErr struct{}

func (timeoutErr) Error() string   { return "i/o timeout (modelled read deadline)" }
func (timeoutErr) Timeout() bool   { return true }
func (timeoutErr) Temporary() bool { return true }

var errTimeout net.Error = timeoutErr{}
var errClosedConn = errors.New("use of closed connection")
var errBrokenPipe = errors.New("write: broken pipe (the remote hung up)")

type addr string

func (a addr) Network() string { return "verif" }
func (a addr) String() string  { return string(a) }

// ---------------------------------------------------------------------------------------------
// scriptConn: the remote is a fixed list of chunks; every Read returns bytes of one chunk only (so
// a list of chunks is a split of the byte stream into reads). After the script Read returns `end`
// (timeout = silent remote whose deadline passes, io.EOF = remote closed).

type scriptConn struct {
	mu       sync.Mutex
	chunks   [][]byte
	end      error
	pos, off int
	consumed int
	wrote    int
	out      []byte // what the node wrote (first outCap bytes)
	writes   int
	closed   bool
	// onWrite, when set, sees every write of the node (interactive scripts append chunks)
	onWrite func(c *scriptConn, b []byte)
}

const outCap = 1 << 16

func newScript(end error, chunks ...[]byte) *scriptConn {
	return &scriptConn{chunks: chunks, end: end}
}

func (c *scriptConn) total() int {
	n := 0
	for _, ch := range c.chunks {
		n += len(ch)
	}
	return n
}

func (c *scriptConn) Read(p []byte) (int, error) {
	c.mu.Lock()
	defer c.mu.Unlock()
	if c.closed {
		return 0, errClosedConn
	}
	for c.pos < len(c.chunks) && c.off >= len(c.chunks[c.pos]) {
		c.pos++
		c.off = 0
	}
	if c.pos >= len(c.chunks) {
		return 0, c.end
	}
	if len(p) == 0 {
		return 0, nil
	}
	n := copy(p, c.chunks[c.pos][c.off:])
	c.off += n
	c.consumed += n
	return n, nil
}

func (c *scriptConn) Write(p []byte) (int, error) {
	c.mu.Lock()
	if c.closed {
		c.mu.Unlock()
		return 0, errClosedConn
	}
	c.wrote += len(p)
	c.writes++
	if len(c.out) < outCap {
		k := outCap - len(c.out)
		if k > len(p) {
			k = len(p)
		}
		c.out = append(c.out, p[:k]...)
	}
	f := c.onWrite
	c.mu.Unlock()
	if f != nil {
		f(c, p)
	}
	return len(p), nil
}

// push appends a chunk to the script (used by interactive scripts from onWrite).
func (c *scriptConn) push(b []byte) {
	c.mu.Lock()
	c.chunks = append(c.chunks, b)
	c.mu.Unlock()
}

func (c *scriptConn) Close() error {
	c.mu.Lock()
	defer c.mu.Unlock()
	if c.closed {
		return errClosedConn
	}
	c.closed = true
	return nil
}
func (c *scriptConn) isClosed() bool { c.mu.Lock(); defer c.mu.Unlock(); return c.closed }
func (c *scriptConn) readAll() bool {
	c.mu.Lock()
	defer c.mu.Unlock()
	return c.consumed == c.totalLocked()
}
func (c *scriptConn) LocalAddr() net.Addr              { return addr("node:7001") }
func (c *scriptConn) RemoteAddr() net.Addr             { return addr("10.9.8.7:7007") }
func (c *scriptConn) SetDeadline(time.Time) error      { return nil }
func (c *scriptConn) SetReadDeadline(time.Time) error  { return nil }
func (c *scriptConn) SetWriteDeadline(time.Time) error { return nil }
func (c *scriptConn) totalLocked() int {
	n := 0
	for _, ch := range c.chunks {
		n += len(ch)
	}
	return n
}

// ---------------------------------------------------------------------------------------------
// duplex: an in-memory connection whose remote end is driven by the case goroutine while the
// node's own goroutines (read loop, handlers) run concurrently.

type duplex struct {
	mu         sync.Mutex
	cond       *sync.Cond
	in         []byte // remote -> node, not yet read
	sent       int    // bytes the remote sent
	remoteEOF  bool   // remote closed its end
	expire     bool   // the next blocked Read returns a timeout (once)
	out        []byte // node -> remote, not yet taken by the remote
	wrote      int
	nodeClosed bool
	waiting    int // node goroutines blocked in Read
	// write faults: from now on every Write of the node fails with this error (the remote hung up /
	// stopped reading until the node's write deadline passed)
	writeErr    error
	failedWrite int
}

func newDuplex() *duplex {
	d := &duplex{}
	d.cond = sync.NewCond(&d.mu)
	return d
}

func (d *duplex) Read(p []byte) (int, error) {
	d.mu.Lock()
	defer d.mu.Unlock()
	for {
		if d.nodeClosed {
			return 0, errClosedConn
		}
		if len(d.in) > 0 {
			n := copy(p, d.in)
			d.in = d.in[n:]
			d.cond.Broadcast()
			return n, nil
		}
		if d.remoteEOF {
			return 0, io.EOF
		}
		if d.expire {
			d.expire = false
			return 0, errTimeout
		}
		d.waiting++
		d.cond.Broadcast()
		d.cond.Wait()
		d.waiting--
	}
}

func (d *duplex) Write(p []byte) (int, error) {
	d.mu.Lock()
	defer d.mu.Unlock()
	if d.nodeClosed {
		return 0, errClosedConn
	}
	if d.writeErr != nil {
		d.failedWrite++
		d.cond.Broadcast()
		return 0, d.writeErr
	}
	if d.remoteEOF {
		return 0, io.ErrClosedPipe
	}
	d.wrote += len(p)
	d.out = append(d.out, p...)
	d.cond.Broadcast()
	return len(p), nil
}

func (d *duplex) Close() error {
	d.mu.Lock()
	defer d.mu.Unlock()
	if d.nodeClosed {
		return errClosedConn
	}
	d.nodeClosed = true
	d.cond.Broadcast()
	return nil
}
func (d *duplex) LocalAddr() net.Addr              { return addr("node:7001") }
func (d *duplex) RemoteAddr() net.Addr             { return addr("10.9.8.7:7007") }
func (d *duplex) SetDeadline(time.Time) error      { return nil }
func (d *duplex) SetReadDeadline(time.Time) error  { return nil }
func (d *duplex) SetWriteDeadline(time.Time) error { return nil }

// remote side
func (d *duplex) send(b []byte) {
	d.mu.Lock()
	d.in = append(d.in, b...)
	d.sent += len(b)
	d.cond.Broadcast()
	d.mu.Unlock()
}
func (d *duplex) failWrites(err error) { d.mu.Lock(); d.writeErr = err; d.mu.Unlock() }
func (d *duplex) closeRemote()         { d.mu.Lock(); d.remoteEOF = true; d.cond.Broadcast(); d.mu.Unlock() }
func (d *duplex) fireDeadline()        { d.mu.Lock(); d.expire = true; d.cond.Broadcast(); d.mu.Unlock() }
func (d *duplex) closedByNode() bool   { d.mu.Lock(); defer d.mu.Unlock(); return d.nodeClosed }

// waitUntil blocks until pred (evaluated under the lock) holds or the node closed the connection;
// stop aborts the wait (watchdog of the case). It reports whether pred held.
func (d *duplex) waitUntil(pred func(d *duplex) bool, stop <-chan struct{}) bool {
	done := make(chan struct{})
	defer close(done)
	go func() {
		select {
		case <-stop:
			d.mu.Lock()
			d.cond.Broadcast()
			d.mu.Unlock()
		case <-done:
		}
	}()
	d.mu.Lock()
	defer d.mu.Unlock()
	for {
		if pred(d) {
			return true
		}
		if d.nodeClosed {
			return false
		}
		select {
		case <-stop:
			return false
		default:
		}
		d.cond.Wait()
	}
}

// takeOut removes and returns what the node has written so far.
func (d *duplex) takeOut() []byte {
	d.mu.Lock()
	defer d.mu.Unlock()
	b := d.out
	d.out = nil
	return b
}

// ---------------------------------------------------------------------------------------------
// fakePeer: a p2p.IPeer for the message dispatcher stage. It records what the node sends.

type fakePeer struct {
	mu     sync.Mutex
	id     p2p.NodeID
	sent   []uint32 // codes, in order
	sentB  int
	closed bool
	status int32
	inbox  chan *p2p.Msg
	stop   chan struct{}
	budget int // bytes the node may send in this case before the case is aborted (0: no limit)
}

func newFakePeer(id p2p.NodeID) *fakePeer {
	return &fakePeer{id: id, inbox: make(chan *p2p.Msg, 16), stop: make(chan struct{})}
}

func (f *fakePeer) ReadMsg() (*p2p.Msg, error) {
	select {
	case <-f.stop:
		return nil, io.EOF
	case m := <-f.inbox:
		return m, nil
	}
}
func (f *fakePeer) WriteMsg(code p2p.MsgCode, msg []byte) error {
	f.mu.Lock()
	defer f.mu.Unlock()
	if f.closed {
		return errClosedConn
	}
	f.sent = append(f.sent, uint32(code))
	f.sentB += len(msg)
	if f.budget > 0 && f.sentB > f.budget {
		// far beyond the allocation yardstick already: do not wait for the end of a loop that may
		// run for hours
		panic(abortAlloc{f.sentB})
	}
	if len(f.sent) > 4096 {
		f.sent = f.sent[:4096]
	}
	return nil
}
func (f *fakePeer) SetWriteDeadline(time.Duration) {}
func (f *fakePeer) RNodeID() *p2p.NodeID           { return &f.id }
func (f *fakePeer) RAddress() string               { return "10.9.8.7:7007" }
func (f *fakePeer) LAddress() string               { return "node:7001" }
func (f *fakePeer) DoHandshake(*ecdsa.PrivateKey, *p2p.NodeID) error {
	return nil
}
func (f *fakePeer) Run() error          { <-f.stop; return nil }
func (f *fakePeer) NeedReConnect() bool { return false }
func (f *fakePeer) SetStatus(s int32)   { f.mu.Lock(); f.status = s; f.mu.Unlock() }
func (f *fakePeer) Close() {
	f.mu.Lock()
	if !f.closed {
		f.closed = true
		close(f.stop)
	}
	f.mu.Unlock()
}
func (f *fakePeer) isClosed() bool { f.mu.Lock(); defer f.mu.Unlock(); return f.closed }
func (f *fakePeer) takeSent() []uint32 {
	f.mu.Lock()
	defer f.mu.Unlock()
	s := f.sent
	f.sent = nil
	return s
}

package main

// What a remote party can compute: ECIES envelopes for the node's public key (with ANY encrypted
// part, also ones the repo's own Encrypt never produces), handshake packets, AES-CBC frames for a
// known session key. Everything here is deterministic (fixed ephemeral keys and IVs), so that a
// case is the same bytes in every run.

import (
	"bytes"
	"crypto/aes"
	"crypto/cipher"
	"crypto/ecdsa"
	"crypto/elliptic"
	"crypto/hmac"
	"crypto/sha256"
	"encoding/binary"

	"verifmc/node"

	"github.com/LemoFoundationLtd/lemochain-core/common/crypto"
	"github.com/LemoFoundationLtd/lemochain-core/common/crypto/ecies"
	"github.com/LemoFoundationLtd/lemochain-core/common/rlp"
)

var magic = []byte{0x5a, 0x48}

const maxFrame = 25 * 1024 * 1024 // params.MaxPackageLength

// packet = magic, 4 byte big endian length, body (both the handshake and the frame layer)
func packet(body []byte) []byte { return packetLen(uint32(len(body)), body) }

func packetLen(declared uint32, body []byte) []byte {
	b := make([]byte, 6, 6+len(body))
	copy(b, magic)
	binary.BigEndian.PutUint32(b[2:], declared)
	return append(b, body...)
}

// ---------------------------------------------------------------------------------------------
// ECIES (ECIES_AES128_SHA256 on secp256k1), SEC 1 5.1 as implemented by common/crypto/ecies

func kdf(z []byte) (ke, km []byte) {
	// NIST SP 800-56 concatenation KDF, 32 bytes: one SHA-256 block with counter 1 (the repo's
	// concatKDF runs reps+1 rounds and cuts to kdLen)
	h := sha256.New()
	h.Write([]byte{0, 0, 0, 1})
	h.Write(z)
	k := h.Sum(nil)
	ke = k[:16]
	m := sha256.Sum256(k[16:32])
	return ke, m[:]
}

// sealEM builds the envelope R || em || HMAC(em) for pub with an arbitrary encrypted part em
// (normally iv || ciphertext). eph is the sender's ephemeral key.
func sealEM(pub *ecdsa.PublicKey, eph *ecdsa.PrivateKey, em []byte) []byte {
	z, err := ecies.ImportECDSA(eph).GenerateShared(ecies.ImportECDSAPublic(pub), 16, 16)
	if err != nil {
		panic(err)
	}
	_, km := kdf(z)
	mac := hmac.New(sha256.New, km)
	mac.Write(em)
	tag := mac.Sum(nil)
	rb := elliptic.Marshal(pub.Curve, eph.PublicKey.X, eph.PublicKey.Y)
	out := make([]byte, 0, len(rb)+len(em)+len(tag))
	out = append(out, rb...)
	out = append(out, em...)
	return append(out, tag...)
}

var fixedIV = bytes.Repeat([]byte{0x42}, 16)

// seal encrypts plaintext m for pub (AES-128-CTR with a fixed IV) and wraps it.
func seal(pub *ecdsa.PublicKey, eph *ecdsa.PrivateKey, m []byte) []byte {
	z, err := ecies.ImportECDSA(eph).GenerateShared(ecies.ImportECDSAPublic(pub), 16, 16)
	if err != nil {
		panic(err)
	}
	ke, _ := kdf(z)
	blk, _ := aes.NewCipher(ke)
	ctr := cipher.NewCTR(blk, fixedIV)
	em := make([]byte, 16+len(m))
	copy(em, fixedIV)
	ctr.XORKeyStream(em[16:], m)
	return sealEM(pub, eph, em)
}

// ---------------------------------------------------------------------------------------------
// encrypted handshake, remote side

type authReq struct {
	Signature    [65]byte
	ClientPubKey [64]byte
	InitNonce    [32]byte
}

type authResp struct {
	RandomPubKey [64]byte
	RespNonce    [32]byte
}

func xorBytes(a, b []byte) []byte {
	r := make([]byte, len(a))
	for i := range a {
		r[i] = a[i] ^ b[i]
	}
	return r
}

// clientHello is the plaintext (RLP) of the request a dialing remote with identity key `id` sends
// to the node `srv`; rnd is its ephemeral ("random") key.
func clientHello(id, rnd *ecdsa.PrivateKey, srv *ecdsa.PublicKey, nonce []byte) *authReq {
	token, err := ecies.ImportECDSA(id).GenerateShared(ecies.ImportECDSAPublic(srv), 16, 16)
	if err != nil {
		panic(err)
	}
	sig, err := crypto.Sign(xorBytes(token, nonce), rnd)
	if err != nil {
		panic(err)
	}
	m := new(authReq)
	copy(m.Signature[:], sig)
	copy(m.ClientPubKey[:], crypto.PrivateKeyToNodeID(id))
	copy(m.InitNonce[:], nonce)
	return m
}

func enc(v interface{}) []byte {
	b, err := rlp.EncodeToBytes(v)
	if err != nil {
		panic(err)
	}
	return b
}

// serverHello is the plaintext of the answer a listening remote sends to the dialing node.
func serverHello(rnd *ecdsa.PrivateKey, nonce []byte) *authResp {
	m := new(authResp)
	copy(m.RandomPubKey[:], elliptic.Marshal(rnd.Curve, rnd.PublicKey.X, rnd.PublicKey.Y)[1:])
	copy(m.RespNonce[:], nonce)
	return m
}

// sessionKey derives the AES key both sides end up with. mine is the ephemeral key of the side
// that computes, theirs the other side's ephemeral public key (64 bytes).
func sessionKey(mine *ecdsa.PrivateKey, theirs []byte, respNonce, initNonce []byte) []byte {
	pub := crypto.ToECDSAPub(append([]byte{4}, theirs...))
	if pub == nil || pub.X == nil {
		return nil
	}
	token, err := ecies.ImportECDSA(mine).GenerateShared(ecies.ImportECDSAPublic(pub), 16, 16)
	if err != nil {
		return nil
	}
	return crypto.Keccak256(token, crypto.Keccak256(respNonce, initNonce))[:16]
}

// openFor decrypts an envelope addressed to key k (the remote reads the node's handshake packets).
func openFor(k *ecdsa.PrivateKey, envelope []byte) ([]byte, error) {
	return ecies.ImportECDSA(k).Decrypt(envelope, nil, nil)
}

// fixed remote keys
var (
	remoteID  = func() *node.Key { return node.K("remote") }
	remoteEph = func() *node.Key { return node.K("remote-eph") }
	remoteRnd = func() *node.Key { return node.K("remote-rnd") }
)

var fixedNonce = bytes.Repeat([]byte{0x17}, 32)

// ---------------------------------------------------------------------------------------------
// frames: AES-128-CBC, key = session key, IV = session key, PKCS5 padding, plaintext = 4 byte code + payload

var fixedSession = []byte("verif-c15-aeskey")

func pad(p []byte) []byte {
	n := 16 - len(p)%16
	return append(append([]byte{}, p...), bytes.Repeat([]byte{byte(n)}, n)...)
}

// cbc encrypts whole blocks without padding.
func cbc(key, blocks []byte) []byte {
	blk, err := aes.NewCipher(key)
	if err != nil {
		panic(err)
	}
	out := make([]byte, len(blocks))
	cipher.NewCBCEncrypter(blk, key[:16]).CryptBlocks(out, blocks)
	return out
}

func plainOf(code uint32, payload []byte) []byte {
	p := make([]byte, 4, 4+len(payload))
	binary.BigEndian.PutUint32(p, code)
	return append(p, payload...)
}

// frame is a well-formed frame for (code, payload) under key.
func frame(key []byte, code uint32, payload []byte) []byte {
	return packet(cbc(key, pad(plainOf(code, payload))))
}

// framePlain encrypts an arbitrary plaintext (any length, also shorter than the code) correctly.
func framePlain(key, plain []byte) []byte { return packet(cbc(key, pad(plain))) }

package main

// Sequences of messages on one connection to one protocol manager: pairs of valid samples, pairs
// over the code alphabet, floods of confirms for unknown blocks and of orphan blocks, confirms
// before their block, every request in a row.

import (
	"fmt"
	"strings"

	"verifmc/node"

	"github.com/LemoFoundationLtd/lemochain-core/chain/types"
	"github.com/LemoFoundationLtd/lemochain-core/common"
	"github.com/LemoFoundationLtd/lemochain-core/common/merkle"
	"github.com/LemoFoundationLtd/lemochain-core/network"
)

// junkOrphan is a minimal decodable block of the given height whose parent nobody knows.
func junkOrphan(height uint32, salt byte) *types.Block {
	var parent common.Hash
	parent[0], parent[1], parent[2], parent[3], parent[31] = byte(height>>24), byte(height>>16), byte(height>>8), byte(height), salt|1
	return &types.Block{Header: &types.Header{ParentHash: parent, Height: height, TxRoot: merkle.EmptyTrieHash, LogRoot: merkle.EmptyTrieHash, Time: 1}}
}

func seqFamilies(w *world) []*Family {
	var fams []*Family
	add := func(name string, cost int, gen func(thorough bool, emit func(func() Case))) {
		fams = append(fams, &Family{Name: "seq/" + name, Cost: cost, Gen: func(_ *world, th bool, emit func(func() Case)) { gen(th, emit) }})
	}
	seq := func(name string, opt playOpt, msgs func() []wire) Case {
		return Case{Name: name, Run: func(m *meter) string { return playMsgs(m, msgs(), opt) }}
	}
	add("pair", 6, func(th bool, emit func(func() Case)) {
		// every ordered pair of valid samples
		ss := w.samples()
		for _, a := range ss {
			for _, b := range ss {
				if a.code == 0x02 || b.code == 0x02 {
					continue
				}
				a, b := a, b
				emit(func() Case {
					return seq(fmt.Sprintf("seq/pair/%s,%s", a.name, b.name), playOpt{}, func() []wire { return []wire{{a.code, a.payload}, {b.code, b.payload}} })
				})
			}
		}
	})
	add("code-pair", 1, func(th bool, emit func(func() Case)) {
		// every ordered pair over the code alphabet 0..0x1f x {empty payload, empty list, the valid sample}
		type el struct {
			n string
			w wire
		}
		var alpha []el
		first := map[uint32]sample{}
		for _, s := range w.samples() {
			if _, ok := first[s.code]; !ok {
				first[s.code] = s
			}
		}
		for code := uint32(0); code <= 0x1f; code++ {
			alpha = append(alpha, el{fmt.Sprintf("%02x:empty", code), wire{code, nil}}, el{fmt.Sprintf("%02x:c0", code), wire{code, []byte{0xc0}}})
			if s, ok := first[code]; ok && code != 0x02 {
				alpha = append(alpha, el{fmt.Sprintf("%02x:%s", code, s.name), wire{code, s.payload}})
			}
		}
		for _, a := range alpha {
			for _, b := range alpha {
				if !th && (a.w.payload == nil || len(a.w.payload) == 1) {
					// quick: a failing first message ends the connection anyway; keep pairs that start with a sample
					continue
				}
				a, b := a, b
				emit(func() Case {
					return seq(fmt.Sprintf("seq/code-pair/%s,%s", a.n, b.n), playOpt{}, func() []wire { return []wire{a.w, b.w} })
				})
			}
		}
	})
	add("confirms-for-unknown-blocks", 4000, func(th bool, emit func(func() Case)) {
		counts := []int{100, 10241}
		if th {
			counts = []int{100, 10240, 10241, 12000}
		}
		for _, n := range counts {
			n := n
			emit(func() Case {
				return seq(fmt.Sprintf("seq/confirms-for-unknown-blocks/distinct-heights=%d", n), playOpt{}, func() []wire {
					var l []wire
					for i := 0; i < n; i++ {
						var h common.Hash
						h[0], h[1], h[2] = byte(i>>16), byte(i>>8), byte(i)
						l = append(l, wire{0x09, enc(&network.BlockConfirmData{Hash: h, Height: uint32(10 + i), SignInfo: types.SignData{1}})})
					}
					return l
				})
			})
		}
		emit(func() Case {
			return seq("seq/confirms-for-unknown-blocks/one-height-x10000", playOpt{}, func() []wire {
				var l []wire
				for i := 0; i < 10000; i++ {
					var s types.SignData
					s[0], s[1] = byte(i>>8), byte(i)
					l = append(l, wire{0x09, enc(&network.BlockConfirmData{Hash: w.hash("C"), Height: 3, SignInfo: s})})
				}
				return l
			})
		})
		emit(func() Case {
			return seq("seq/confirms-for-unknown-blocks/one-height-10000-hashes", playOpt{}, func() []wire {
				var l []wire
				for i := 0; i < 10000; i++ {
					var h common.Hash
					h[0], h[1], h[2] = byte(i>>16), byte(i>>8), byte(i)
					l = append(l, wire{0x09, enc(&network.BlockConfirmData{Hash: h, Height: 3, SignInfo: types.SignData{1}})})
				}
				return l
			})
		})
	})
	add("orphans", 400, func(th bool, emit func(func() Case)) {
		counts := []int{100, 10240, 10241}
		if th {
			counts = append(counts, 12000, 30000)
		}
		for _, n := range counts {
			n := n
			emit(func() Case {
				return seq(fmt.Sprintf("seq/orphans/one-message/distinct-heights=%d", n), playOpt{items: n}, func() []wire {
					var l types.Blocks
					for i := 0; i < n; i++ {
						l = append(l, junkOrphan(uint32(10+i), 0))
					}
					return []wire{{0x08, enc(l)}}
				})
			})
			emit(func() Case {
				return seq(fmt.Sprintf("seq/orphans/one-message/descending-heights=%d", n), playOpt{items: n}, func() []wire {
					var l types.Blocks
					for i := n - 1; i >= 0; i-- {
						l = append(l, junkOrphan(uint32(10+i), 0))
					}
					return []wire{{0x08, enc(l)}}
				})
			})
		}
		emit(func() Case {
			return seq("seq/orphans/one-height-x10000", playOpt{items: 10000}, func() []wire {
				var l types.Blocks
				for i := 0; i < 10000; i++ {
					b := junkOrphan(77, 0)
					b.Header.GasUsed = uint64(i)
					l = append(l, b)
				}
				return []wire{{0x08, enc(l)}}
			})
		})
		emit(func() Case {
			return seq("seq/orphans/messages=300-distinct-heights", playOpt{}, func() []wire {
				var l []wire
				for i := 0; i < 300; i++ {
					l = append(l, wire{0x08, enc(types.Blocks{junkOrphan(uint32(10+i), 0)})})
				}
				return l
			})
		})
		// real orphans whose parents arrive later: O2, O, then C; the queue timer connects them
		emit(func() Case {
			return seq("seq/orphans/O2,O,C", playOpt{waitQueue: true}, func() []wire {
				return []wire{{0x08, w.enc1("O2")}, {0x08, w.enc1("O")}, {0x08, w.enc1("C")}}
			})
		})
		emit(func() Case {
			return seq("seq/orphans/O,C,wait,O2", playOpt{waitQueue: true}, func() []wire {
				return []wire{{0x08, w.enc1("O")}, {0x08, w.enc1("C")}, {0x08, w.enc1("O2")}}
			})
		})
		emit(func() Case {
			return seq("seq/orphans/height-0-and-1-of-another-genesis", playOpt{}, func() []wire {
				return []wire{{0x08, enc(types.Blocks{junkOrphan(0, 0)})}, {0x08, enc(types.Blocks{junkOrphan(1, 0)})}}
			})
		})
	})
	add("confirm-before-block", 30, func(th bool, emit func(func() Case)) {
		C := w.hash("C")
		cf := func(i int) wire {
			return wire{0x09, enc(&network.BlockConfirmData{Hash: C, Height: 3, SignInfo: node.SignConfirm(node.Deputy(i), C)})}
		}
		blk := wire{0x08, w.enc1("C")}
		emit(func() Case {
			return seq("seq/confirm-before-block/d1,C", playOpt{}, func() []wire { return []wire{cf(1), blk} })
		})
		emit(func() Case {
			return seq("seq/confirm-before-block/d1,d2,d4,C", playOpt{}, func() []wire { return []wire{cf(1), cf(2), cf(4), blk} })
		})
		emit(func() Case {
			return seq("seq/confirm-before-block/d1,d1,outsider,C", playOpt{}, func() []wire {
				return []wire{cf(1), cf(1), {0x09, enc(&network.BlockConfirmData{Hash: C, Height: 3, SignInfo: node.SignConfirm(node.K("outsider"), C)})}, blk}
			})
		})
		emit(func() Case {
			return seq("seq/confirm-before-block/wrong-height,C", playOpt{}, func() []wire {
				return []wire{{0x09, enc(&network.BlockConfirmData{Hash: C, Height: 9, SignInfo: node.SignConfirm(node.Deputy(1), C)})}, blk}
			})
		})
		emit(func() Case {
			return seq("seq/confirm-before-block/junk-x1000,C", playOpt{}, func() []wire {
				var l []wire
				for i := 0; i < 1000; i++ {
					var s types.SignData
					s[0], s[1] = byte(i>>8), byte(i)
					l = append(l, wire{0x09, enc(&network.BlockConfirmData{Hash: C, Height: 3, SignInfo: s})})
				}
				return append(l, blk)
			})
		})
		emit(func() Case {
			return seq("seq/blocks-then-confirms/C,all-confirms", playOpt{}, func() []wire {
				return []wire{blk, {0x0b, enc(&network.BlockConfirms{Height: 3, Hash: C, Pack: []types.SignData{node.SignConfirm(node.Deputy(1), C), node.SignConfirm(node.Deputy(2), C), node.SignConfirm(node.Deputy(4), C)}})}, {0x0a, enc(&network.GetConfirmInfo{Height: 3, Hash: C})}}
			})
		})
	})
	add("every-request", 30, func(th bool, emit func(func() Case)) {
		emit(func() Case {
			return seq("seq/every-request/all-samples-in-order", playOpt{mine: true}, func() []wire {
				var l []wire
				for _, s := range w.samples() {
					if s.code != 0x02 {
						l = append(l, wire{s.code, s.payload})
					}
				}
				return l
			})
		})
		for _, n := range []int{100, 10000} {
			n := n
			emit(func() Case {
				return seq(fmt.Sprintf("seq/status-requests/x%d", n), playOpt{}, func() []wire {
					var l []wire
					for i := 0; i < n; i++ {
						l = append(l, wire{0x04, enc(&network.GetLatestStatus{})})
					}
					return l
				})
			})
			emit(func() Case {
				return seq(fmt.Sprintf("seq/get-blocks/x%d", n), playOpt{}, func() []wire {
					var l []wire
					for i := 0; i < n; i++ {
						l = append(l, wire{0x07, enc(&network.GetBlocksData{From: 0, To: 2})})
					}
					return l
				})
			})
		}
	})
	add("discover", 200, func(th bool, emit func(func() Case)) {
		// the discovery table filled by one peer, then queried: what does a 20 byte request cost?
		for _, n := range []int{100, 10000} {
			for _, q := range []int{1, 100, 1000} {
				n, q := n, q
				emit(func() Case {
					return seq(fmt.Sprintf("seq/discover/fill=%d/requests=%d", n, q), playOpt{items: n + q}, func() []wire {
						var nodes []string
						for i := 0; i < n; i++ {
							nodes = append(nodes, nodeString(node.K(fmt.Sprintf("found-%d", i)), fmt.Sprintf("10.%d.%d.%d:7001", i>>16&255, i>>8&255, i&255)))
						}
						l := []wire{{0x0d, enc(&network.DiscoverResData{Sequence: 1, Nodes: nodes})}}
						for i := 0; i < q; i++ {
							l = append(l, wire{0x0c, enc(&network.DiscoverReqData{Sequence: 1})})
						}
						return l
					})
				})
			}
		}
	})
	add("block-cache", 12, func(th bool, emit func(func() Case)) {
		// every sequence up to the length bound over blocks that drive the orphan cache: junk orphans of
		// three heights (two of them naming the deputy E as miner, who becomes "evil" when its two
		// blocks of one height arrive: the manager then removes its cached blocks), the two blocks of E
		// (one message, and one by one), real orphans whose parent arrives later, and the queue timer
		E := w.blocks["C"].MinerAddress()
		jo := func(h uint32, miner common.Address, salt byte) []byte {
			b := junkOrphan(h, salt)
			b.Header.MinerAddress = miner
			return enc(types.Blocks{b})
		}
		type sym struct {
			n string
			w wire
		}
		alpha := []sym{
			{"J10e", wire{0x08, jo(10, E, 0)}},
			{"J11e", wire{0x08, jo(11, E, 0)}},
			{"J12x", wire{0x08, jo(12, node.Deputy(1).Addr, 0)}},
			{"EE", wire{0x08, enc(types.Blocks{w.blocks["C"], w.blocks["C2"]})}},
			{"O", wire{0x08, w.enc1("O")}},
		}
		maxLen := 4
		if th {
			alpha = append(alpha,
				sym{"J10e'", wire{0x08, jo(10, E, 2)}},
				sym{"C", wire{0x08, w.enc1("C")}},
				sym{"C2", wire{0x08, w.enc1("C2")}},
				sym{"O2", wire{0x08, w.enc1("O2")}},
				sym{"T", wire{waitQueue, nil}},
			)
		}
		var rec func(prefix []int)
		rec = func(prefix []int) {
			if len(prefix) > 0 {
				p := append([]int{}, prefix...)
				emit(func() Case {
					var names []string
					var msgs []wire
					for _, i := range p {
						names = append(names, alpha[i].n)
						msgs = append(msgs, alpha[i].w)
					}
					return seq("seq/block-cache/"+strings.Join(names, ","), playOpt{}, func() []wire { return msgs })
				})
			}
			if len(prefix) == maxLen {
				return
			}
			for i := range alpha {
				if alpha[i].n == "T" {
					// the timer only matters when something is cached, and waits half a second of real time: at most one per sequence
					seenT := len(prefix) == 0
					for _, j := range prefix {
						if alpha[j].n == "T" {
							seenT = true
						}
					}
					if seenT {
						continue
					}
				}
				rec(append(prefix, i))
			}
		}
		rec(nil)
	})
	return fams
}

func (w *world) enc1(name string) []byte { return enc(types.Blocks{w.blocks[name]}) }

package main

// Stage "pipe": one whole connection through the real stack with real concurrency — encrypted
// handshake in Server.HandleConn, Peer.Run (read loop, heartbeat loop), the protocol manager's
// per-connection routine (protocol handshake, registration, message loop) and the handlers with
// their own goroutines — over an in-memory duplex connection. The case goroutine plays the remote.
// The harness does what Server.run and peerLoop do with a new peer (start Run, start handlePeer).

import (
	"bytes"
	"encoding/binary"
	"fmt"
	"time"

	"verifmc/vtask"

	"github.com/LemoFoundationLtd/lemochain-core/common/rlp"
	"github.com/LemoFoundationLtd/lemochain-core/network"
	"github.com/LemoFoundationLtd/lemochain-core/network/p2p"
)

type remote struct {
	d    *duplex
	m    *meter
	key  []byte
	buf  []byte          // bytes of the node not yet parsed
	stop <-chan struct{} // aborts waits (default: the watchdog's signal)
}

func (r *remote) stopCh() <-chan struct{} {
	if r.stop != nil {
		return r.stop
	}
	return r.m.stop
}

func decodeRLP(b []byte, v interface{}) error { return rlp.DecodeBytes(b, v) }

// nextPacket waits for one whole packet (magic, length, body) from the node.
func (r *remote) nextPacket() ([]byte, bool) {
	for {
		r.buf = append(r.buf, r.d.takeOut()...)
		if len(r.buf) >= 6 {
			n := int(binary.BigEndian.Uint32(r.buf[2:6]))
			if len(r.buf) >= 6+n {
				body := r.buf[6 : 6+n]
				r.buf = r.buf[6+n:]
				return body, true
			}
		}
		if !r.d.waitUntil(func(d *duplex) bool { return len(d.out) > 0 }, r.stopCh()) {
			return nil, false
		}
	}
}

// nextMsg waits for the next non-heartbeat message of the node.
func (r *remote) nextMsg() (uint32, []byte, bool) {
	for {
		body, ok := r.nextPacket()
		if !ok {
			return 0, nil, false
		}
		plain, err := aesOpen(r.key, body)
		if err != nil || len(plain) < 4 {
			return 0, nil, false
		}
		code := binary.BigEndian.Uint32(plain)
		if code == 0x01 {
			continue
		}
		return code, plain[4:], true
	}
}

type pipeOpt struct {
	hsCode    uint32
	hsPayload []byte
	noHS      bool // the remote never sends a protocol handshake
	msgs      []wire
	raw       [][]byte                  // raw bytes sent after the protocol handshake instead of msgs
	rawK      func(key []byte) [][]byte // ... that need the session key
	// incomplete: the raw bytes end inside a frame; the remote then stays silent until the node's read
	// deadline passes (modelled: the deadline fires once the node waits for bytes that do not come)
	incomplete bool
	// write faults: faultHS - the node's protocol handshake cannot be written; fault - nothing can be
	// written from the moment the remote sends msgs; after: what the remote does then
	faultHS error
	fault   error
	after   string // "silent" (until the node's read deadline passes) | "hangup" | "more-requests"
}

func playPipe(m *meter, opt pipeOpt) string {
	// in this stage every goroutine of the code under test is a real one the harness owns
	vtask.SetPolicy(vtask.Real, "runFeedTranspondLoop", vtask.Drop)
	defer setPolicy()
	srv := server()
	E.keepDisc = true
	c := E.newPM()
	d := newDuplex()
	r := &remote{d: d, m: m}
	m.begin()
	hcEnd := make(chan *panicInfo, 1)
	var hcErr error
	spawn("c15:HandleConn", func() { hcErr = srv.HandleConn(d, nil) }, hcEnd)
	d.send(validRequest())
	base := liveNow() - 1 // HandleConn itself is counted below
	var runEnd, hpEnd chan *panicInfo
	finish := func(out string) string {
		d.closeRemote()
		// everything the connection started has to end; then the manager goes. The peer handler of a
		// closed connection stays blocked in its message cache for ever (counted, not awaited).
		leave := int64(1) // the manager's block loop
		if runEnd != nil {
			select {
			case <-runEnd:
			case <-m.stop:
				return "aborted"
			}
			select {
			case <-hpEnd:
			case <-time.After(20 * time.Millisecond):
				leave++
				noteRestore("handlePeer-never-returned")
			}
		}
		for i := 0; i < 400 && liveNow()-base > leave; i++ {
			time.Sleep(250 * time.Microsecond)
		}
		c.close(m)
		E.n.Quiesce()
		m.end(d.sent)
		tags, chainChanged, poolChanged := E.effects()
		for _, t := range tags {
			out += "/" + t
		}
		noteRestore(E.restore(chainChanged, poolChanged))
		return out
	}
	body, ok := r.nextPacket()
	select {
	case <-hcEnd:
	case <-m.stop:
		return "aborted"
	}
	if !ok || hcErr != nil {
		return finish("dropped/encrypted-handshake:" + errClass(hcErr))
	}
	plain, err := openFor(remoteID().Priv, body)
	if err != nil {
		return finish("HARNESS:cannot-open-response")
	}
	var resp authResp
	if err := rlp.DecodeBytes(plain, &resp); err != nil {
		return finish("HARNESS:cannot-decode-response")
	}
	r.key = sessionKey(remoteRnd().Priv, resp.RandomPubKey[:], resp.RespNonce[:], fixedNonce)
	// the hand-over goroutine of HandleConn is a real goroutine here
	var peer p2p.IPeer
	for peer == nil {
		if peer = p2p.VerifAddedPeer(srv); peer == nil {
			select {
			case <-m.stop:
				return "aborted/LOST-PEER"
			default:
			}
			time.Sleep(100 * time.Microsecond)
		}
	}
	runEnd = make(chan *panicInfo, 1)
	hpEnd = make(chan *panicInfo, 1)
	if opt.faultHS != nil {
		d.failWrites(opt.faultHS)
	}
	spawn("c15:Peer.Run", func() { peer.Run() }, runEnd)
	np := network.VerifC15NewPeer(peer)
	spawn("c15:handlePeer", func() { network.VerifC15HandlePeer(c.pm, np) }, hpEnd)
	if opt.faultHS != nil || opt.fault != nil {
		return finish(playFault(m, r, opt))
	}
	// the node's protocol handshake
	code, _, ok := r.nextMsg()
	if !ok || code != 0x02 {
		return finish(fmt.Sprintf("NO-PROTOCOL-HANDSHAKE:%v/%02x", ok, code))
	}
	if opt.noHS {
		// the manager gives up after 8 real seconds
		ok := d.waitUntil(func(d *duplex) bool { return false }, m.stop)
		_ = ok
		return finish("dropped/no-handshake")
	}
	d.send(frame(r.key, opt.hsCode, opt.hsPayload))
	for _, w := range opt.msgs {
		d.send(frame(r.key, w.code, w.payload))
	}
	for _, b := range opt.raw {
		d.send(b)
	}
	if opt.rawK != nil {
		for _, b := range opt.rawK(r.key) {
			d.send(b)
		}
	}
	// liveness: a valid status request is answered, or the connection is closed
	d.send(frame(r.key, 0x04, enc(&network.GetLatestStatus{})))
	if opt.incomplete {
		if d.waitUntil(func(d *duplex) bool { return d.waiting > 0 && len(d.in) == 0 }, m.stop) {
			d.fireDeadline()
		}
	}
	sent := map[uint32]bool{}
	answered := false
	for {
		code, _, ok := r.nextMsg()
		if !ok {
			break
		}
		sent[code] = true
		if code == 0x03 {
			answered = true
			break
		}
	}
	out := "dropped"
	if answered {
		out = "answered"
	} else if !d.closedByNode() {
		select {
		case <-m.stop:
			return "aborted"
		default:
		}
		out = "UNANSWERED"
	}
	if network.VerifC15Registered(c.pm) > 0 {
		out += "/registered"
	}
	if sent[0x07] {
		out += "/asked-for-blocks"
	}
	return finish(out)
}

// playFault: the remote's part of a connection on which the node's writes fail.
func playFault(m *meter, r *remote, opt pipeOpt) string {
	d := r.d
	if opt.faultHS == nil {
		code, _, ok := r.nextMsg()
		if !ok || code != 0x02 {
			return "NO-PROTOCOL-HANDSHAKE"
		}
		d.send(frame(r.key, opt.hsCode, opt.hsPayload))
		d.failWrites(opt.fault)
		for _, w := range opt.msgs {
			d.send(frame(r.key, w.code, w.payload))
		}
	} else {
		// the node's first write fails; the remote sends its own handshake all the same
		d.send(frame(r.key, opt.hsCode, opt.hsPayload))
	}
	// wait for the failed write (or for the node to give up the connection without writing)
	d.waitUntil(func(d *duplex) bool { return d.failedWrite > 0 }, m.stop)
	failed := d.failedWrite
	switch opt.after {
	case "hangup":
		d.closeRemote()
	case "more-requests":
		for i := 0; i < 3; i++ {
			d.send(frame(r.key, 0x04, enc(&network.GetLatestStatus{})))
		}
		fallthrough
	default:
		// silent: the node's read deadline passes once it waits for bytes that do not come
		if d.waitUntil(func(d *duplex) bool { return d.waiting > 0 && len(d.in) == 0 }, m.stop) {
			d.fireDeadline()
		}
	}
	// the statement: at worst the node drops the connection. Wait for that.
	d.waitUntil(func(d *duplex) bool { return false }, m.stop)
	out := "write-failed/dropped"
	if failed == 0 {
		out = "no-write/dropped"
	}
	if !d.closedByNode() {
		out += "/NOT-CLOSED"
	}
	return out
}

func aesOpen(key, body []byte) ([]byte, error) {
	p := p2p.VerifSessionPeer(nil, key, p2p.NodeID{})
	code, payload, err := p2p.VerifUnpackFrame(p, body)
	if err != nil {
		return nil, err
	}
	return plainOf(uint32(code), payload), nil
}

func pipeFamilies(w *world) []*Family {
	var fams []*Family
	add := func(name string, cost int, gen func(thorough bool, emit func(func() Case))) {
		fams = append(fams, &Family{Name: "pipe/" + name, Cost: cost, Gen: func(_ *world, th bool, emit func(func() Case)) { gen(th, emit) }})
	}
	hs := w.samples()[0]
	pipe := func(name string, opt pipeOpt) Case {
		return Case{Name: name, Run: func(m *meter) string { return playPipe(m, opt) }}
	}
	add("valid", 20, func(th bool, emit func(func() Case)) {
		emit(func() Case {
			return pipe("pipe/valid/handshake-then-status-request", pipeOpt{hsCode: 0x02, hsPayload: hs.payload})
		})
	})
	add("no-handshake", 2000, func(th bool, emit func(func() Case)) {
		emit(func() Case { return pipe("pipe/no-handshake/silent", pipeOpt{noHS: true}) })
	})
	add("handshake-code", 20, func(th bool, emit func(func() Case)) {
		// the first message of every code, with the handshake payload and with its own sample
		for code := uint32(0); code <= 0x1f; code++ {
			emit(func() Case {
				return pipe(fmt.Sprintf("pipe/handshake-code/%02x/handshake-payload", code), pipeOpt{hsCode: code, hsPayload: hs.payload})
			})
			emit(func() Case { return pipe(fmt.Sprintf("pipe/handshake-code/%02x/empty", code), pipeOpt{hsCode: code}) })
		}
		for _, s := range w.samples()[1:] {
			emit(func() Case {
				return pipe(fmt.Sprintf("pipe/handshake-code/%02x/sample=%s", s.code, s.name), pipeOpt{hsCode: s.code, hsPayload: s.payload})
			})
		}
	})
	add("handshake-absurd", 20, func(th bool, emit func(func() Case)) {
		heights := []uint32{0, 1, 2, 3, 1000000, 1<<32 - 1}
		hashes := []string{"g", "a1", "C", "zero"}
		for _, ch := range heights {
			for _, sh := range heights {
				for _, chn := range hashes {
					for _, shn := range hashes {
						if !th && (chn != "C" && shn != "zero" && ch != sh) {
							continue
						}
						hv := func(n string) (h [32]byte) {
							if n != "zero" {
								h = w.hash(n)
							}
							return
						}
						p := &network.ProtocolHandshake{ChainID: 200, GenesisHash: w.hash("g"), NodeVersion: 1, LatestStatus: network.LatestStatus{CurHeight: ch, CurHash: hv(chn), StaHeight: sh, StaHash: hv(shn)}}
						emit(func() Case {
							return pipe(fmt.Sprintf("pipe/handshake-absurd/cur=%d:%s/sta=%d:%s", ch, chn, sh, shn), pipeOpt{hsCode: 0x02, hsPayload: enc(p)})
						})
					}
				}
			}
		}
		for _, v := range []struct {
			n string
			p *network.ProtocolHandshake
		}{
			{"chain-id=0", &network.ProtocolHandshake{ChainID: 0, GenesisHash: w.hash("g"), NodeVersion: 1}},
			{"chain-id=65535", &network.ProtocolHandshake{ChainID: 65535, GenesisHash: w.hash("g"), NodeVersion: 1}},
			{"other-genesis", &network.ProtocolHandshake{ChainID: 200, GenesisHash: w.hash("C"), NodeVersion: 1}},
			{"version=2^32-1", &network.ProtocolHandshake{ChainID: 200, GenesisHash: w.hash("g"), NodeVersion: 1<<32 - 1}},
			{"all-zero", &network.ProtocolHandshake{}},
		} {
			emit(func() Case { return pipe("pipe/handshake-absurd/"+v.n, pipeOpt{hsCode: 0x02, hsPayload: enc(v.p)}) })
		}
	})
	add("handshake-trunc", 20, func(th bool, emit func(func() Case)) {
		for cut := 0; cut < len(hs.payload); cut++ {
			if !th && cut%5 != 0 {
				continue
			}
			emit(func() Case {
				return pipe(fmt.Sprintf("pipe/handshake-trunc/cut=%03d", cut), pipeOpt{hsCode: 0x02, hsPayload: hs.payload[:cut]})
			})
		}
	})
	add("handshake-rlp", 20, func(th bool, emit func(func() Case)) {
		for _, p := range rlpPayloads(false) {
			if len(p.b) > 4096 && !th {
				continue
			}
			emit(func() Case { return pipe("pipe/handshake-rlp/"+p.name, pipeOpt{hsCode: 0x02, hsPayload: p.b}) })
		}
	})
	add("handshake-mut", 20, func(th bool, emit func(func() Case)) {
		for pos := range hs.payload {
			for _, v := range boundaryVals(hs.payload[pos], th) {
				if !th && pos%3 != 0 {
					continue
				}
				emit(func() Case {
					return pipe(fmt.Sprintf("pipe/handshake-mut/pos=%03d/val=%02x", pos, v), pipeOpt{hsCode: 0x02, hsPayload: withByte(hs.payload, pos, v)})
				})
			}
		}
	})
	add("after-handshake", 25, func(th bool, emit func(func() Case)) {
		for _, s := range w.samples()[1:] {
			emit(func() Case {
				return pipe("pipe/after-handshake/sample="+s.name, pipeOpt{hsCode: 0x02, hsPayload: hs.payload, msgs: []wire{{s.code, s.payload}}})
			})
			emit(func() Case {
				return pipe("pipe/after-handshake/truncated="+s.name, pipeOpt{hsCode: 0x02, hsPayload: hs.payload, msgs: []wire{{s.code, s.payload[:len(s.payload)/2]}}})
			})
		}
		for code := uint32(0); code <= 0x21; code++ {
			emit(func() Case {
				return pipe(fmt.Sprintf("pipe/after-handshake/code=%02x/empty", code), pipeOpt{hsCode: 0x02, hsPayload: hs.payload, msgs: []wire{{code, nil}}})
			})
		}
		// raw garbage after the protocol handshake
		raws := map[string][]byte{
			"7-byte-frame":       packet(make([]byte, 7)),
			"zero-length-frame":  packetLen(0, nil),
			"bad-magic":          []byte{0, 0, 0, 0, 0, 16, 1, 2, 3},
			"too-long":           packetLen(maxFrame+1, nil),
			"max-declared-empty": packetLen(maxFrame, nil),
			"16-zero-bytes":      packet(make([]byte, 16)),
			"junk":               bytes.Repeat([]byte{0x5a}, 1000),
		}
		for _, n := range []string{"7-byte-frame", "zero-length-frame", "bad-magic", "too-long", "max-declared-empty", "16-zero-bytes", "junk"} {
			emit(func() Case {
				return pipe("pipe/after-handshake/raw="+n, pipeOpt{hsCode: 0x02, hsPayload: hs.payload, raw: [][]byte{raws[n]}, incomplete: n == "max-declared-empty"})
			})
		}
		// frames with a plaintext shorter than the code, under the real session key
		for l := 0; l < 4; l++ {
			l := l
			emit(func() Case {
				return pipe(fmt.Sprintf("pipe/after-handshake/short-plaintext=%d", l), pipeOpt{hsCode: 0x02, hsPayload: hs.payload, rawK: func(key []byte) [][]byte {
					return [][]byte{framePlain(key, make([]byte, l))}
				}})
			})
		}
	})
	add("after-handshake-rlp", 25, func(th bool, emit func(func() Case)) {
		// thorough: the generic adversarial payloads for every code through the whole stack
		if !th {
			return
		}
		for code := uint32(0); code <= 0x1f; code++ {
			for _, p := range rlpPayloads(false) {
				if len(p.b) > 4096 {
					continue
				}
				emit(func() Case {
					return pipe(fmt.Sprintf("pipe/after-handshake-rlp/%02x/%s", code, p.name), pipeOpt{hsCode: 0x02, hsPayload: hs.payload, msgs: []wire{{code, p.b}}})
				})
			}
		}
	})
	add("write-fault", 1500, func(th bool, emit func(func() Case)) {
		// every request that makes the node write, with the write failing
		faults := []struct {
			n string
			e error
		}{{"broken-pipe", errBrokenPipe}, {"deadline", errTimeout}}
		for _, f := range faults {
			for _, after := range []string{"silent", "hangup", "more-requests"} {
				emit(func() Case {
					return pipe(fmt.Sprintf("pipe/write-fault/protocol-handshake/%s/then-%s", f.n, after), pipeOpt{hsCode: 0x02, hsPayload: hs.payload, faultHS: f.e, after: after})
				})
				for _, s := range w.samples()[1:] {
					// the requests the node answers or reacts to by writing; "tx" stands for the others (the
					// first failing write is a heartbeat then, 5 real seconds later)
					switch s.name {
					case "get-status", "hash-unknown", "status-ahead", "get-blocks", "get-block", "orphan", "two", "get-confirms", "get-confirms-by-height", "discover-req", "get-blocks-logs", "tx":
					default:
						continue
					}
					emit(func() Case {
						return pipe(fmt.Sprintf("pipe/write-fault/%s/%s/then-%s", s.name, f.n, after), pipeOpt{hsCode: 0x02, hsPayload: hs.payload, msgs: []wire{{s.code, s.payload}}, fault: f.e, after: after})
					})
				}
			}
		}
	})
	return fams
}

package main

// Part A: the two out-of-order caches as components, against a sorted multimap.

import (
	"fmt"
	"sort"
	"strconv"
	"strings"

	"verifmc/core"

	"github.com/LemoFoundationLtd/lemochain-core/chain/types"
	"github.com/LemoFoundationLtd/lemochain-core/common"
	"github.com/LemoFoundationLtd/lemochain-core/network"
)

var (
	aHeights = []int{3, 5, 7, 9}
	aTags    = []string{"a", "b"}
	aClears  = []int{2, 3, 5, 6, 9}
	aDepth   = 8
	ccDepth  = 6
)

type aBlock struct {
	name   string
	height int
	blk    *types.Block
	hash   common.Hash
}

var (
	aBlocks  []*aBlock
	aByName  = map[string]*aBlock{}
	aByHash  = map[common.Hash]*aBlock{}
	aSigners = []string{"s1", "s2"}
)

func init() {
	for _, h := range aHeights {
		for ti, t := range aTags {
			b := &types.Block{Header: &types.Header{Height: uint32(h), Time: uint32(1000 + ti), Extra: "c20-" + t}}
			ab := &aBlock{name: fmt.Sprintf("%d%s", h, t), height: h, blk: b, hash: b.Hash()}
			aBlocks = append(aBlocks, ab)
			aByName[ab.name] = ab
			aByHash[ab.hash] = ab
		}
	}
}

func aViolation(hist []string, fp, what string) core.Violation {
	return core.Violation{Fingerprint: prop + "/" + fp, What: what + fmt.Sprintf("; history %v", hist), Replay: map[string]interface{}{"history": append([]string{}, hist...)}}
}

func groupsString(gs []network.VerifC20Group) string {
	var sb strings.Builder
	for _, g := range gs {
		fmt.Fprintf(&sb, "%d[", g.Height)
		names := []string{}
		for _, x := range g.Hashes {
			if ab, ok := aByHash[x]; ok {
				names = append(names, ab.name)
			} else {
				names = append(names, fmt.Sprintf("%x", x[:3]))
			}
		}
		sort.Strings(names)
		sb.WriteString(strings.Join(names, " ") + "]")
	}
	return sb.String()
}

// runBC replays a history of BlockCache events; the model is the set of names present.
func runBC(hist []string, trace bool) core.Outcome {
	hit("histories/A:bc")
	c := network.NewBlockCache()
	model := map[string]bool{}
	var out core.Outcome
	modelString := func() string { return strings.Join(sortedKeys(model), " ") }
	for step, e := range hist[1:] {
		f := strings.Fields(e)
		class := ""
		groupsBefore := network.VerifC20BlockGroups(c)
		switch f[0] {
		case "add":
			b := aByName[f[1]]
			// class by the stored height groups (an emptied group still counts as a position)
			var hs []int
			for _, g := range groupsBefore {
				hs = append(hs, int(g.Height))
			}
			switch {
			case len(hs) == 0:
				class = "add-into-empty"
			case b.height < hs[0]:
				class = "add-before-first"
			case b.height > hs[len(hs)-1]:
				class = "add-after-last"
			default:
				class = "add-between"
				for _, h := range hs {
					if h == b.height {
						class = "add-existing-height"
					}
				}
			}
			c.Add(b.blk)
			model[b.name] = true
		case "rm":
			b := aByName[f[1]]
			switch {
			case !model[b.name]:
				class = "remove-absent"
			default:
				class = "remove-present"
				last := true
				for n := range model {
					if n != b.name && aByName[n].height == b.height {
						last = false
					}
				}
				if last {
					class = "remove-last-of-height"
				}
			}
			c.Remove(b.blk)
			delete(model, b.name)
		case "clear":
			h, _ := strconv.Atoi(f[1])
			class = "clear"
			c.Clear(uint32(h))
			for n := range model {
				if aByName[n].height <= h {
					delete(model, n)
				}
			}
		case "it":
			// Iterate with a callback that accepts all / nothing / one height / one block
			accept := func(ab *aBlock) bool {
				switch {
				case f[1] == "all":
					return true
				case f[1] == "none":
					return false
				case strings.HasPrefix(f[1], "h"):
					h, _ := strconv.Atoi(f[1][1:])
					return ab.height == h
				}
				return ab.name == f[1]
			}
			visited := map[string]int{}
			c.Iterate(func(b *types.Block) bool {
				ab := aByHash[b.Hash()]
				visited[ab.name]++
				return accept(ab)
			})
			class = "iterate-accept-none"
			// every block is visited exactly once
			for n := range model {
				if visited[n] != 1 {
					out.Violations = append(out.Violations, aViolation(hist[:step+2], "blockcache/iterate-misses-or-repeats-block/after="+lastClass(hist[:step+1]), fmt.Sprintf("Iterate visited block %s %d times; model {%s}; stored groups %s", n, visited[n], modelString(), groupsString(groupsBefore))))
				}
			}
			for n := range visited {
				if !model[n] {
					out.Violations = append(out.Violations, aViolation(hist[:step+2], "blockcache/iterate-visits-absent-block", fmt.Sprintf("Iterate visited block %s which is not in the cache; model {%s}; stored groups %s", n, modelString(), groupsString(groupsBefore))))
				}
			}
			for n := range model {
				if accept(aByName[n]) {
					delete(model, n)
					class = "iterate-accept-some"
				}
			}
		default:
			return core.Outcome{Nondet: "unknown event " + e}
		}
		hit("A/bc/ev=" + class)
		out.Tags = append(out.Tags, "A/bc/ev="+class)
		// comparison with the model after the event
		groups := network.VerifC20BlockGroups(c)
		after := "after=" + class
		content := map[string]int{}
		seenHeight := map[uint32]int{}
		ascending := true
		for i, g := range groups {
			seenHeight[g.Height]++
			if i > 0 && groups[i-1].Height >= g.Height {
				ascending = false
			}
			for _, x := range g.Hashes {
				ab, ok := aByHash[x]
				if !ok || uint32(ab.height) != g.Height {
					out.Violations = append(out.Violations, aViolation(hist[:step+2], "blockcache/block-under-wrong-height/"+after, fmt.Sprintf("group %d holds block %x", g.Height, x[:4])))
					continue
				}
				content[ab.name]++
			}
		}
		if trace {
			fmt.Printf("  %-10s (%s) -> stored groups %s | model {%s} | Size=%d FirstHeight=%d\n", e, class, groupsString(groups), modelString(), c.Size(), c.FirstHeight())
		}
		var lost, phantom []string
		for n := range model {
			if content[n] == 0 {
				lost = append(lost, n)
			}
		}
		for n := range content {
			if !model[n] {
				phantom = append(phantom, n)
			}
		}
		sort.Strings(lost)
		sort.Strings(phantom)
		dupGroup := false
		for _, k := range seenHeight {
			if k > 1 {
				dupGroup = true
			}
		}
		minH := 0
		for n := range model {
			if h := aByName[n].height; minH == 0 || h < minH {
				minH = h
			}
		}
		fh := int(c.FirstHeight())
		// one report per state, the most fundamental difference first (a lost block also shows in Size etc.)
		switch {
		case len(out.Violations) > 0:
		case len(lost) > 0:
			out.Violations = append(out.Violations, aViolation(hist[:step+2], "blockcache/block-lost/"+after, fmt.Sprintf("block(s) %v were added and never removed but are not in the cache; stored groups %s (before the event %s); model {%s}", lost, groupsString(groups), groupsString(groupsBefore), modelString())))
		case len(phantom) > 0:
			out.Violations = append(out.Violations, aViolation(hist[:step+2], "blockcache/removed-block-still-there/"+after, fmt.Sprintf("block(s) %v are in the cache although they were removed; stored groups %s (before the event %s); model {%s}", phantom, groupsString(groups), groupsString(groupsBefore), modelString())))
		case dupGroup:
			out.Violations = append(out.Violations, aViolation(hist[:step+2], "blockcache/height-listed-twice/"+after, fmt.Sprintf("one height has two groups: stored groups %s (before the event %s); model {%s}", groupsString(groups), groupsString(groupsBefore), modelString())))
		case !ascending:
			out.Violations = append(out.Violations, aViolation(hist[:step+2], "blockcache/height-groups-not-ascending/"+after, fmt.Sprintf("stored groups %s (before the event %s); model {%s}", groupsString(groups), groupsString(groupsBefore), modelString())))
		case c.Size() != len(model):
			out.Violations = append(out.Violations, aViolation(hist[:step+2], "blockcache/size-differs/"+after, fmt.Sprintf("Size()=%d, model has %d block(s) {%s}; stored groups %s", c.Size(), len(model), modelString(), groupsString(groups))))
		case fh != minH:
			// FirstHeight: the smallest height in the cache. A group that Iterate emptied stays in the list
			// until Clear/Remove/Add reach it and FirstHeight then names it; the statement says nothing about
			// that (it only steers which parent the drain timer asks for), so it is counted, not asserted.
			if len(groups) > 0 && len(groups[0].Hashes) == 0 && fh == int(groups[0].Height) {
				hit("A/bc/FirstHeight-names-an-emptied-group(not asserted)")
			} else {
				out.Violations = append(out.Violations, aViolation(hist[:step+2], "blockcache/first-height-differs/"+after, fmt.Sprintf("FirstHeight()=%d, smallest height in the model %d {%s}; stored groups %s", fh, minH, modelString(), groupsString(groups))))
			}
		}
		if len(out.Violations) > 0 {
			return out
		}
	}
	groups := network.VerifC20BlockGroups(c)
	out.Key = "bc|" + groupsString(groups) + "|" + modelString()
	out.Tags = append(out.Tags, fmt.Sprintf("A/bc/size=%d/groups=%d", len(model), len(groups)))
	if len(hist)-1 < aDepth {
		for _, b := range aBlocks {
			out.Enabled = append(out.Enabled, "add "+b.name)
		}
		for _, b := range aBlocks {
			out.Enabled = append(out.Enabled, "rm "+b.name)
		}
		for _, h := range aClears {
			out.Enabled = append(out.Enabled, fmt.Sprintf("clear %d", h))
		}
		out.Enabled = append(out.Enabled, "it all", "it none")
		for _, h := range aHeights {
			out.Enabled = append(out.Enabled, fmt.Sprintf("it h%d", h))
		}
		for _, n := range sortedKeys(model) {
			out.Enabled = append(out.Enabled, "it "+n)
		}
	}
	return out
}

func lastClass(h []string) string {
	if len(h) <= 1 {
		return "start"
	}
	return strings.Fields(h[len(h)-1])[0]
}

// ---------------------------------------------------------------------------------------------
// ConfirmCache: Push / Pop / Clear against map (height, hash) -> multiset of signatures

func runCC(hist []string, trace bool) core.Outcome {
	hit("histories/A:cc")
	c := network.NewConfirmCache()
	targets := []string{"3a", "3b", "5a"}
	model := map[string][]string{} // block name -> signer tags in arrival order
	sigOf := func(s string) types.SignData {
		var sd types.SignData
		copy(sd[:], []byte("sig-"+s))
		return sd
	}
	var out core.Outcome
	modelString := func() string {
		var l []string
		for _, t := range targets {
			if len(model[t]) > 0 {
				l = append(l, t+"="+strings.Join(model[t], ","))
			}
		}
		return strings.Join(l, " ")
	}
	for step, e := range hist[1:] {
		f := strings.Fields(e)
		class := f[0]
		switch f[0] {
		case "push":
			b := aByName[f[1]]
			c.Push(&network.BlockConfirmData{Hash: b.hash, Height: uint32(b.height), SignInfo: sigOf(f[2])})
			model[b.name] = append(model[b.name], f[2])
		case "pop":
			b := aByName[f[1]]
			got := c.Pop(uint32(b.height), b.hash)
			var gl []string
			for _, d := range got {
				if d.Hash != b.hash || d.Height != uint32(b.height) {
					out.Violations = append(out.Violations, aViolation(hist[:step+2], "confirmcache/pop-returns-confirm-of-another-block", fmt.Sprintf("Pop(%s) returned a confirmation of height %d hash %x", b.name, d.Height, d.Hash[:4])))
				}
				gl = append(gl, strings.TrimRight(strings.TrimPrefix(string(d.SignInfo[:6]), "sig-"), "\x00"))
			}
			want := append([]string{}, model[b.name]...)
			sort.Strings(gl)
			sort.Strings(want)
			if strings.Join(gl, ",") != strings.Join(want, ",") {
				out.Violations = append(out.Violations, aViolation(hist[:step+2], "confirmcache/pop-content-differs", fmt.Sprintf("Pop(%s) returned [%s], pushed and not yet popped or cleared: [%s]", b.name, strings.Join(gl, ","), strings.Join(want, ","))))
			}
			if len(want) == 0 {
				class = "pop-empty"
			}
			delete(model, b.name)
		case "clear":
			h, _ := strconv.Atoi(f[1])
			c.Clear(uint32(h))
			for _, t := range targets {
				if aByName[t].height <= h {
					delete(model, t)
				}
			}
		default:
			return core.Outcome{Nondet: "unknown event " + e}
		}
		hit("A/cc/ev=" + class)
		out.Tags = append(out.Tags, "A/cc/ev="+class)
		n := 0
		for _, l := range model {
			n += len(l)
		}
		list, _ := network.VerifC20CachedConfirms(c)
		if trace {
			fmt.Printf("  %-12s -> model {%s} | Size=%d stored=%d\n", e, modelString(), c.Size(), len(list))
		}
		if c.Size() != n || len(list) != n {
			out.Violations = append(out.Violations, aViolation(hist[:step+2], "confirmcache/size-differs/after="+f[0], fmt.Sprintf("Size()=%d, %d stored, model has %d {%s}", c.Size(), len(list), n, modelString())))
		}
		if len(out.Violations) > 0 {
			return out
		}
	}
	out.Key = "cc|" + modelString()
	out.Tags = append(out.Tags, "A/cc/heights="+fmt.Sprint(len(model)))
	if len(hist)-1 < ccDepth {
		for _, t := range targets {
			for _, s := range aSigners {
				out.Enabled = append(out.Enabled, fmt.Sprintf("push %s %s", t, s))
			}
		}
		for _, t := range targets {
			out.Enabled = append(out.Enabled, "pop "+t)
		}
		for _, h := range []int{2, 3, 4, 5} {
			out.Enabled = append(out.Enabled, fmt.Sprintf("clear %d", h))
		}
	}
	return out
}

// ---------------------------------------------------------------------------------------------
// the caches' own size limit: more than 10240 heights empty the cache (and must not block)

func runLimit(hist []string, trace bool) core.Outcome {
	hit("histories/A:lim")
	var out core.Outcome
	if len(hist) == 1 {
		return core.Outcome{Key: "lim", Enabled: []string{"bc 10241 heights", "cc 10241 heights", "bc 10241 heights descending"}}
	}
	const n = 10241
	switch hist[1] {
	case "bc 10241 heights", "bc 10241 heights descending":
		c := network.NewBlockCache()
		for i := 0; i < n; i++ {
			h := 100 + i
			if strings.HasSuffix(hist[1], "descending") {
				h = 100 + n - i
			}
			c.Add(&types.Block{Header: &types.Header{Height: uint32(h)}})
			if i == n-2 && c.Size() != n-1 {
				out.Violations = append(out.Violations, aViolation(hist, "blockcache/size-differs/after=10240-heights", fmt.Sprintf("Size()=%d after %d blocks at distinct heights", c.Size(), n-1)))
			}
		}
		// the 10241st height is documented to reset the cache
		visited := 0
		c.Iterate(func(*types.Block) bool { visited++; return false })
		if c.Size() != visited || (visited != 0 && visited != n) {
			out.Violations = append(out.Violations, aViolation(hist, "blockcache/inconsistent-after-limit", fmt.Sprintf("Size()=%d, Iterate visits %d after %d heights", c.Size(), visited, n)))
		}
		hit("A/bc/ev=limit-10241/size-after=%d", c.Size())
		out.Tags = append(out.Tags, fmt.Sprintf("A/bc/limit/size-after=%d", c.Size()))
	case "cc 10241 heights":
		c := network.NewConfirmCache()
		for i := 0; i < n; i++ {
			c.Push(&network.BlockConfirmData{Height: uint32(100 + i), Hash: common.Hash{byte(i), byte(i >> 8)}})
		}
		list, _ := network.VerifC20CachedConfirms(c)
		if c.Size() != len(list) || (len(list) != 0 && len(list) != n) {
			out.Violations = append(out.Violations, aViolation(hist, "confirmcache/inconsistent-after-limit", fmt.Sprintf("Size()=%d, %d stored after %d heights", c.Size(), len(list), n)))
		}
		hit("A/cc/ev=limit-10241/size-after=%d", c.Size())
		out.Tags = append(out.Tags, fmt.Sprintf("A/cc/limit/size-after=%d", c.Size()))
	default:
		return core.Outcome{Nondet: "unknown event " + hist[1]}
	}
	if len(out.Violations) == 0 {
		out.Key = "lim|" + hist[1]
	}
	return out
}

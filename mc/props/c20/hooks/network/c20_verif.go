//go:build verif
// +build verif

package network

import (
	"sort"

	"github.com/LemoFoundationLtd/lemochain-core/common"
)

// Hooks for the C20 verification harness in /verif (build tag "verif" only): read-only views of the
// out-of-order caches of the protocol manager and an entry to the stable-block loop. They add no
// behaviour of their own. (The entry points shared with C15 are in c15_verif.go.)

// VerifC20Caches returns the two caches of a protocol manager.
func VerifC20Caches(pm *ProtocolManager) (*ConfirmCache, *BlockCache) {
	return pm.confirmsCache, pm.blockCache
}

// VerifC20Group is one height group of a BlockCache as it is stored (a group may be empty).
type VerifC20Group struct {
	Height uint32
	Hashes []common.Hash // sorted
	SameAs int           // index of an earlier list entry that is this very group object, -1 if none
}

// VerifC20BlockGroups copies the internal group list of a BlockCache, in storage order.
func VerifC20BlockGroups(c *BlockCache) []VerifC20Group {
	c.lock.Lock()
	defer c.lock.Unlock()
	out := make([]VerifC20Group, 0, len(c.cache))
	first := make(map[*blocksSameHeight]int)
	for i, g := range c.cache {
		vg := VerifC20Group{Height: g.Height, SameAs: -1}
		if j, ok := first[g]; ok {
			vg.SameAs = j
		} else {
			first[g] = i
		}
		for h := range g.Blocks {
			vg.Hashes = append(vg.Hashes, h)
		}
		sort.Slice(vg.Hashes, func(i, j int) bool { return string(vg.Hashes[i][:]) < string(vg.Hashes[j][:]) })
		out = append(out, vg)
	}
	return out
}

// VerifC20Confirm is one cached confirmation.
type VerifC20Confirm struct {
	Height uint32
	Hash   common.Hash
	Sig    []byte
}

// VerifC20CachedConfirms copies the content of a ConfirmCache, sorted by (height, hash); the
// signatures of one block stay in arrival order. heights is the number of height entries (empty ones
// included: that is what the 10240 limit counts).
func VerifC20CachedConfirms(c *ConfirmCache) (list []VerifC20Confirm, heights int) {
	c.lock.Lock()
	defer c.lock.Unlock()
	for height, byHash := range c.cache {
		for hash, confirms := range byHash {
			for _, d := range confirms {
				list = append(list, VerifC20Confirm{Height: height, Hash: hash, Sig: append([]byte{}, d.SignInfo[:]...)})
			}
		}
	}
	sort.SliceStable(list, func(i, j int) bool {
		if list[i].Height != list[j].Height {
			return list[i].Height < list[j].Height
		}
		return string(list[i].Hash[:]) < string(list[j].Hash[:])
	})
	return list, len(c.cache)
}

// VerifC20StableBlockLoop is the loop Start() runs for stable-block notifications (returns when the
// manager quits); VerifC20StableBlockSignal is the value the step signal (VerifC15SetTest) carries
// after one notification was processed.
func VerifC20StableBlockLoop(pm *ProtocolManager) { pm.stableBlockLoop() }

const VerifC20StableBlockSignal = testStableBlock

// VerifC20LoopVarShared reports whether closures made in a `for ... range` loop of this file share
// one loop variable, as the module's `go 1.14` line says they do. The harness lists this file for
// rewriting (the unreachable go statement makes the rewriter touch it), so the answer tells whether
// rewritten files are still compiled with the module's language version.
func VerifC20LoopVarShared() bool {
	var fs []func() int
	for _, v := range []int{1, 2} {
		fs = append(fs, func() int { return v })
	}
	if len(fs) == 0 {
		go func() {}()
	}
	return fs[0]() == 2
}

package main

import (
	"crypto/ecdsa"
	"encoding/json"
	"fmt"
	"os"
	"path/filepath"
	"sort"
	"sync"
	"time"

	"verifmc/core"
	"verifmc/node"
	"verifmc/vclock"
	"verifmc/vtask"

	"github.com/LemoFoundationLtd/lemochain-core/chain/types"
	"github.com/LemoFoundationLtd/lemochain-core/common"
	"github.com/LemoFoundationLtd/lemochain-core/common/rlp"
	"github.com/LemoFoundationLtd/lemochain-core/network/p2p"
)

const prop = "C20"

// virtual "now" of every run: behind it lie the genesis and all block times of the segments
const nowUnix = int64(node.GenesisTime) + 1000

// ---------------------------------------------------------------------------------------------
// hit counters (per event class). A worker process keeps cumulative counts and rewrites its own file
// after every history; the parent sums the files of all workers after the search.

var (
	hitMu   sync.Mutex
	hits    = map[string]int64{}
	hitFile string
)

func hit(f string, a ...interface{}) {
	k := f
	if len(a) > 0 {
		k = fmt.Sprintf(f, a...)
	}
	hitMu.Lock()
	hits[k]++
	hitMu.Unlock()
}

func flushHits() {
	dir := os.Getenv("C20_HITS_DIR")
	if dir == "" {
		return
	}
	if hitFile == "" {
		hitFile = filepath.Join(dir, fmt.Sprintf("%d.json", os.Getpid()))
	}
	hitMu.Lock()
	b, _ := json.Marshal(hits)
	hitMu.Unlock()
	tmp := hitFile + ".tmp"
	if os.WriteFile(tmp, b, 0644) == nil {
		os.Rename(tmp, hitFile)
	}
}

func collectHits(dir string) map[string]int64 {
	sum := map[string]int64{}
	ents, _ := os.ReadDir(dir)
	for _, e := range ents {
		if filepath.Ext(e.Name()) != ".json" {
			continue
		}
		b, err := os.ReadFile(filepath.Join(dir, e.Name()))
		if err != nil {
			continue
		}
		m := map[string]int64{}
		if json.Unmarshal(b, &m) == nil {
			for k, v := range m {
				sum[k] += v
			}
		}
	}
	return sum
}

// ---------------------------------------------------------------------------------------------
// pre-mined linear segment on a genesis with 3 deputies (built once per worker process)

type segment struct {
	n     int
	enc   [][]byte      // [k] = RLP of block k (1..n)
	hash  []common.Hash // [0] = genesis
	miner []int         // deputy index of the miner of block k
}

var segCache = map[string]*segment{}

const deputies = 3

// gatePolicy: every `go` statement of the instrumented packages becomes a pending task; the loop
// that forwards the engine's feeds to the event bus is not started (the harness takes its place).
func gatePolicy() {
	vtask.SetPolicy(vtask.Gated, "runFeedTranspondLoop", vtask.Drop)
}

// buildSegment mines n blocks on genesis. kind "rot": miners d0,d1,d2,d0,...; kind "alt": d0,d1,d0,...
// (for the scenarios in which the node under test is deputy d2 itself).
func buildSegment(kind string, n int) *segment {
	key := fmt.Sprintf("%s/%d", kind, n)
	if s, ok := segCache[key]; ok {
		return s
	}
	vtask.Reset()
	gatePolicy()
	vclock.SetUnix(nowUnix)
	dir := core.ScratchDir("c20f")
	f := node.NewFactory(dir, deputies)
	s := &segment{n: n, enc: make([][]byte, n+1), hash: make([]common.Hash, n+1), miner: make([]int, n+1)}
	parent := f.BC.Genesis()
	s.hash[0] = parent.Hash()
	for k := 1; k <= n; k++ {
		m := (k - 1) % 3
		if kind == "alt" {
			m = (k - 1) % 2
		}
		t, ok := node.SlotTime(f.DM, parent, node.Deputy(m), deputies)
		if !ok {
			panic(fmt.Sprintf("harness: no slot for block %d miner d%d", k, m))
		}
		blk, _, err := f.Make(node.BlockSpec{Parent: parent, Miner: node.Deputy(m), Time: t, Extra: fmt.Sprintf("c20-%d", k)})
		if err != nil {
			panic(fmt.Sprintf("harness: cannot build block %d: %v", k, err))
		}
		if int64(blk.Time()) > nowUnix {
			panic("harness: segment reaches beyond the virtual clock")
		}
		enc, err := rlp.EncodeToBytes(blk)
		if err != nil {
			panic(err)
		}
		s.enc[k], s.hash[k], s.miner[k] = enc, blk.Hash(), m
		parent = blk
	}
	vtask.Reset()
	f.Destroy()
	segCache[key] = s
	return s
}

func (s *segment) block(k int) *types.Block {
	var out types.Block
	if err := rlp.DecodeBytes(s.enc[k], &out); err != nil {
		panic(err)
	}
	return &out
}

// heightOf maps a hash back to the segment height (-1: not a block of the segment).
func (s *segment) heightOf(h common.Hash) int {
	for k, x := range s.hash {
		if x == h {
			return k
		}
	}
	return -1
}

// confirmer of block k: a deputy that is neither its miner nor (in the deputy scenarios) the node itself
func (s *segment) signer(k int, self string) int {
	for d := 0; d < deputies; d++ {
		c := (s.miner[k] + 1 + d) % deputies
		if c != s.miner[k] && fmt.Sprintf("d%d", c) != self {
			return c
		}
	}
	panic("no signer")
}

func (s *segment) confirmSig(k int, self string) types.SignData {
	return node.SignConfirm(node.Deputy(s.signer(k, self)), s.hash[k])
}

// ---------------------------------------------------------------------------------------------
// scripted remote: what the protocol manager sees as a connection. It records what the node writes
// and never answers.

type sentMsg struct {
	peer    string
	code    p2p.MsgCode
	content []byte
}

type mockConn struct {
	name   string
	id     p2p.NodeID
	mu     *sync.Mutex
	sent   *[]sentMsg
	closed bool
	status int32
}

func newMockConn(name string, k *node.Key, mu *sync.Mutex, sent *[]sentMsg) *mockConn {
	m := &mockConn{name: name, mu: mu, sent: sent}
	copy(m.id[:], k.NodeID)
	return m
}

func (m *mockConn) ReadMsg() (*p2p.Msg, error) { select {} }
func (m *mockConn) WriteMsg(code p2p.MsgCode, msg []byte) error {
	m.mu.Lock()
	*m.sent = append(*m.sent, sentMsg{m.name, code, append([]byte{}, msg...)})
	m.mu.Unlock()
	return nil
}
func (m *mockConn) SetWriteDeadline(time.Duration)                           {}
func (m *mockConn) RNodeID() *p2p.NodeID                                     { return &m.id }
func (m *mockConn) RAddress() string                                         { return "10.0.0.1:7001" }
func (m *mockConn) LAddress() string                                         { return "10.0.0.2:7001" }
func (m *mockConn) DoHandshake(prv *ecdsa.PrivateKey, id *p2p.NodeID) error { return nil }
func (m *mockConn) Run() error                                               { return nil }
func (m *mockConn) NeedReConnect() bool                                      { return false }
func (m *mockConn) SetStatus(s int32)                                        { m.status = s }
func (m *mockConn) Close()                                                   { m.closed = true }

func sortedKeys(m map[string]bool) []string {
	l := make([]string, 0, len(m))
	for k := range m {
		l = append(l, k)
	}
	sort.Strings(l)
	return l
}

// Package ptime stands in for package time inside network/protocol_manager.go (OVERLAY pass
// import=time=verifmc/props/c20/ptime). It offers exactly the subset that file uses. Timers made by
// NewTimer never fire by themselves: the harness fires them (Fire), so the 500 ms drain of the
// out-of-order block cache becomes an event of the explorer. Now is the harness clock (vclock).
package ptime

import (
	"sync"
	"time"

	"verifmc/vclock"
)

type Duration = time.Duration
type Time = time.Time

const (
	Nanosecond  = time.Nanosecond
	Microsecond = time.Microsecond
	Millisecond = time.Millisecond
	Second      = time.Second
	Minute      = time.Minute
	Hour        = time.Hour
)

// Timer has the part of time.Timer's surface the rewritten file touches: the channel and Reset/Stop.
type Timer struct {
	C     chan Time
	D     Duration
	armed bool
}

var (
	mu     sync.Mutex
	timers []*Timer
)

func Now() Time { return vclock.Now() }

func NewTimer(d Duration) *Timer {
	t := &Timer{C: make(chan Time, 1), D: d, armed: true}
	mu.Lock()
	timers = append(timers, t)
	mu.Unlock()
	return t
}

// Reset re-arms the timer (as time.Timer.Reset does); the return value says whether it was armed.
func (t *Timer) Reset(d Duration) bool {
	mu.Lock()
	defer mu.Unlock()
	was := t.armed
	t.armed, t.D = true, d
	return was
}

func (t *Timer) Stop() bool {
	mu.Lock()
	defer mu.Unlock()
	was := t.armed
	t.armed = false
	return was
}

// Fire makes the oldest armed timer with duration d expire (its channel receives the time). It
// reports whether there was one.
func Fire(d Duration) bool {
	mu.Lock()
	defer mu.Unlock()
	for _, t := range timers {
		if t.armed && t.D == d {
			t.armed = false
			select {
			case t.C <- vclock.Now():
			default:
			}
			return true
		}
	}
	return false
}

// Forget drops every timer (a new instance of the object under test starts with none).
func Forget() { mu.Lock(); timers = nil; mu.Unlock() }

// C20 — sync converges: any delivery order of blocks, confirmations and transactions gives the same node.
//
// Engine E2 (breadth-first search over event histories, every history executed on the real code):
//
//	A  network.BlockCache / network.ConfirmCache as components against a sorted multimap
//	B  the whole receive path: real ProtocolManager (its own rcvBlockLoop / stableBlockLoop, step mode)
//	   on a real chain; scripted remotes; the 500 ms cache-drain timer and every `go` statement are
//	   events of the explorer; end state compared with the node that received the same messages in order
//	C  TxsMsg batches: the per-transaction goroutines of handleTxsMsg in every order
//
// A history is [sub-search, event, event, ...]; sub-searches: A:bc, A:cc, A:lim, B:<scenario>, C.
package main

import (
	"bufio"
	"fmt"
	"os"
	"sort"
	"strings"

	"verifmc/core"
	"verifmc/node"

	"github.com/LemoFoundationLtd/lemochain-core/network"
)

func subSearches() []string {
	l := []string{"A:bc", "A:cc", "A:lim", "C"}
	for _, sc := range scenarios {
		if !sc.thorough || core.Thorough() {
			l = append(l, "B:"+sc.name)
		}
	}
	if only := os.Getenv("C20_ONLY"); only != "" {
		var f []string
		for _, x := range l {
			for _, o := range strings.Split(only, ",") {
				if x == o {
					f = append(f, x)
				}
			}
		}
		l = f
	}
	return l
}

var traceRun bool

func run(hist []string) core.Outcome {
	defer flushHits()
	if len(hist) == 0 {
		return core.Outcome{Key: "root", Enabled: subSearches()}
	}
	switch {
	case hist[0] == "A:bc":
		return runBC(hist, traceRun)
	case hist[0] == "A:cc":
		return runCC(hist, traceRun)
	case hist[0] == "A:lim":
		return runLimit(hist, traceRun)
	case hist[0] == "C":
		return runC(hist, traceRun)
	case strings.HasPrefix(hist[0], "B:"):
		sc := findScenario(hist[0][2:])
		if sc == nil {
			return core.Outcome{Nondet: "unknown scenario " + hist[0]}
		}
		return runB(sc, hist, traceRun)
	}
	return core.Outcome{Nondet: "unknown sub-search " + hist[0]}
}

// died turns a dead worker into a violation: a panic in a goroutine of the code under test (the
// receive loops run on their own goroutines) or a hang (a step that never reports back).
func died(hist []string, tail string) *core.Violation {
	part := "?"
	if len(hist) > 0 {
		part = hist[0]
		if strings.HasPrefix(part, "B:") {
			part = "B"
		}
	}
	last := ""
	if len(hist) > 1 {
		last = strings.Fields(hist[len(hist)-1])[0]
		last = strings.TrimRight(last, "0123456789")
	}
	if strings.Contains(tail, "per-run limit exceeded") {
		return &core.Violation{Fingerprint: fmt.Sprintf("%s/hang/part=%s/last-event=%s", prop, part, last), What: fmt.Sprintf("history %v does not finish (a step of the code under test blocks for good)", hist), Replay: map[string]interface{}{"history": hist, "stderr": clipTail(tail)}}
	}
	line := "worker died"
	for _, l := range strings.Split(tail, "\n") {
		if strings.HasPrefix(l, "panic:") || strings.HasPrefix(l, "fatal error:") {
			line = l
			break
		}
	}
	if len(line) > 100 {
		line = line[:100]
	}
	return &core.Violation{Fingerprint: fmt.Sprintf("%s/crash/part=%s/%s", prop, part, line), What: fmt.Sprintf("history %v kills the process: %s", hist, line), Replay: map[string]interface{}{"history": hist, "stderr": clipTail(tail)}}
}

func clipTail(s string) string {
	if len(s) > 6000 {
		return s[:6000]
	}
	return s
}

func main() {
	core.ParseFlags()
	node.Quiet()
	setCTier(core.Thorough())
	if !network.VerifC20LoopVarShared() {
		// part C is about a closure over a loop variable: a build that gives rewritten files other loop
		// semantics than the real build (module go 1.14) would hide it
		fmt.Fprintln(os.Stderr, "infrastructure error: the instrumented build does not keep the module's go 1.14 loop-variable semantics")
		os.Exit(2)
	}
	safe := core.SafeRun(prop, run)
	if core.Opt.Replay != "" {
		var rp struct {
			History []string `json:"history"`
		}
		if err := core.LoadReplay(core.Opt.Replay, &rp); err != nil {
			fmt.Println(err)
			os.Exit(2)
		}
		replayWatchdog()
		traceRun = true
		fmt.Printf("replay %q\n", rp.History)
		o := safe(rp.History)
		if o.Nondet != "" {
			fmt.Println("history not executable:", o.Nondet)
			os.Exit(2)
		}
		for _, v := range o.Violations {
			fmt.Printf("VIOLATION-REPLAYED %s\n  %s\n", v.Fingerprint, v.What)
		}
		if len(o.Violations) > 0 {
			os.Exit(1)
		}
		fmt.Println("no violation")
		return
	}
	core.ServeIfWorker(safe)

	r := core.NewResult(prop, "model_checking")
	r.Rule = "Breadth-first search over event histories, every history executed on the real code; a history is [sub-search, events...]. " +
		"A: histories of BlockCache events (Add of 8 blocks = heights 3,5,7,9 x two hashes, Remove, Clear(h) for h in 2,3,5,6,9, Iterate accepting all / nothing / one height / one block) up to depth 8 and of ConfirmCache events (Push of 2 signatures for 3 blocks, Pop, Clear) up to depth 6, compared after every event with a sorted multimap (Size, FirstHeight, stored groups, Iterate content); state = stored group list + model; plus the caches' own 10240-height limit. " +
		"B: delivery histories on the real ProtocolManager + real chain: alphabet = deliver message i of the scenario (blocks of a pre-mined linear segment, bare or carrying their confirmation, one or several per message; confirmation broadcasts; each at most twice, at most one duplicate per history, the duplicate from the second peer where there are two), fire the 500 ms cache-drain timer, release one pending background task (insertBlock of a cached block, InsertConfirms; in the stable* scenarios also the stable-block notification and the cache clearing it starts; in the race* scenarios also 'the confirmation of block k is handled while insertBlock(k) is between popping the early confirmations and storing the block'); every scenario is explored until no event leads to a new state; state = (delivered vector, duplicate spent, chain blocks with sorted confirm lists, current, stable, stored block-cache groups, confirm cache, pending task labels, peer status). In every state in which each message has been delivered at least once the instance is drained (tasks oldest first, timer ticks until nothing moves) and compared with the node that received the same messages in ascending order. " +
		"C: every TxsMsg batch of 1..L tokens over {valid transfers, expired, (expires too far ahead,) wrong chain id, (low gas price,) already on chain} plus two- and three-message histories over a smaller alphabet x every release order of the per-transaction tasks, also interleaved with the arrival of the next message. " +
		"Distinct outcome = (part, scenario, current height, stable height, cached blocks) / batch shape / event class / model size."
	r.Assume = []string{
		"B: a step of the receive loop, a message handler and a released background task each run to completion before the next event; the only interleaving inside such a body that is explored is a ConfirmMsg handled at the entry of chain.InsertBlock inside insertBlock (scenarios race*). Clearing the caches up to a stable height commutes with everything a receive step does above that height, so it is only placed between steps",
		"B: the scripted remotes record the node's block requests and never answer them (an answer is one more delivery of a block, i.e. the duplication already in the alphabet); BestToSync's random choice between eligible peers is not enumerated (it only selects the recipient of a request; requests are not part of the state)",
		"B: tasks with no path back into the receive path of this closed system (RequestBlocks writes, the engine's current/confirm/fetch feeds, JudgeDeputy, batchConfirmStable, FetchRemoteConfirms) run as soon as they are created; so do the stable-block notification and the cache clearing except in the stable* scenarios; the notification reaches the manager through the real event bus: the harness stands in for runFeedTranspondLoop (subscribed to the engine's stable feed, it calls subscribe.Send(NewStableBlock) when the explorer says so); txConfirmLoop and peerLoop are not started; peers are registered directly (no handshake) and are the connections of deputies d0 and d1",
		"B: ConfirmsMsg packs are outside the alphabet: a node only receives them as answers to its own GetConfirmsMsg, which it sends for blocks it already has; confirmations that arrive before their block are ConfirmMsg broadcasts",
		"B: 3 deputies (a block is stable with its miner's signature and one confirmation); the node is an observer except in the deputy* scenarios (deputy d2; segment mined by d0 and d1); linear segments of 4..6 blocks without transactions on genesis; one block per height, so the map iteration order inside a height group of BlockCache.Iterate has nothing to permute (part A has two blocks per height and compares order-insensitively within a height)",
		"C: the per-transaction goroutines run after handleTxsMsg has returned, in every order (they may also start while the loop is still going; that only adds behaviours); valid = the real VerifyTxBody accepts it at the node's clock and the real TxGuard does not find it on the current fork (checked per token when the fixture is built)",
		"the instrumented build keeps the module's go 1.14 loop-variable semantics (no //line directives in rewritten files); part C depends on it",
	}

	hitsDir := core.ScratchDir("c20hits")
	defer os.RemoveAll(hitsDir)
	os.Setenv("C20_HITS_DIR", hitsDir)
	dump := os.Getenv("VERIF_BFS_DUMP")
	ownDump := dump == ""
	if ownDump {
		dump = hitsDir + "/bfs.dump"
		os.Setenv("VERIF_BFS_DUMP", dump)
	}
	core.BFS(r, core.BFSConfig{Prop: prop, Run: safe, MaxDepth: 64, Subprocess: true, RecycleEvery: 400, PerRunLimit: 60e9, DiedFingerprint: died})
	perScenario(r, dump)
	hits := collectHits(hitsDir)
	r.Extra["hits"] = hits
	var classes []string
	for k := range hits {
		if strings.HasPrefix(k, "A/") && strings.Contains(k, "/ev=") {
			classes = append(classes, k)
		}
	}
	sort.Strings(classes)
	r.Extra["A.event_classes_hit"] = classes
	r.Extra["A.depth_bound"] = aDepth
	// coverage self-check: the branches the property names must have been reached
	need := []string{"A/bc/ev=add-before-first", "A/bc/ev=add-between", "A/bc/ev=add-after-last", "A/bc/ev=add-existing-height", "A/bc/ev=add-into-empty",
		"A/bc/ev=remove-last-of-height", "A/bc/ev=iterate-accept-some", "A/bc/ev=clear", "A/cc/ev=push", "A/cc/ev=pop", "A/cc/ev=clear"}
	if os.Getenv("C20_ONLY") != "" {
		need = nil // a partial run (debugging aid) is not self-checked
	} else {
		need = append(need, "deliver/block-cached/before-first", "deliver/block-cached/after-last", "deliver/block-cached/between", "deliver/block-cached/into-empty",
			"deliver/confirm-cached-before-block", "deliver/confirm-for-known-block", "deliver/duplicate", "run/insertBlock/merged-early-confirms=1", "run/InsertConfirms",
			"run/stable-notification", "run/cache-clear", "task/request-blocks", "C/tasks=3", "terminal-checks")
	}
	for _, k := range need {
		if hits[k] == 0 && len(r.Violations) == 0 {
			r.NotExhaustive("coverage self-check: event class never reached: " + k)
		}
	}
	core.Finish(r)
}

// perScenario derives per-sub-search counts from the exploration dump (one line per executed history).
func perScenario(r *core.Result, path string) {
	f, err := os.Open(path)
	if err != nil {
		return
	}
	defer f.Close()
	type st struct {
		States      int `json:"states"`
		Transitions int `json:"transitions"`
		MaxDepth    int `json:"max_depth"`
	}
	per := map[string]*st{}
	seen := map[string]bool{}
	sc := bufio.NewScanner(f)
	sc.Buffer(make([]byte, 1<<20), 1<<24)
	for sc.Scan() {
		cols := strings.Split(sc.Text(), "\t")
		if len(cols) < 2 {
			continue
		}
		h := strings.Split(cols[0], " | ")
		s := per[h[0]]
		if s == nil {
			s = &st{}
			per[h[0]] = s
		}
		s.Transitions++
		if len(h)-1 > s.MaxDepth {
			s.MaxDepth = len(h) - 1
		}
		if k := h[0] + "/" + cols[1]; cols[1] != core.Hash("") && !seen[k] {
			seen[k] = true
			s.States++
		}
	}
	r.Extra["per_sub_search"] = per
}

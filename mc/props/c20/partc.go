package main

// Part C: TxsMsg batches through the real handler; the per-transaction goroutines are released in
// every order; the pool must end with every valid transaction exactly once.

import (
	"fmt"
	"sort"
	"strconv"
	"strings"
	"sync"

	"verifmc/core"
	"verifmc/node"
	"verifmc/vclock"
	"verifmc/vtask"

	"github.com/LemoFoundationLtd/lemochain-core/chain/txpool"
	"github.com/LemoFoundationLtd/lemochain-core/chain/types"
	"github.com/LemoFoundationLtd/lemochain-core/common"
	"github.com/LemoFoundationLtd/lemochain-core/common/rlp"
	"github.com/LemoFoundationLtd/lemochain-core/network"
	"github.com/LemoFoundationLtd/lemochain-core/network/p2p"
)

// tokens: v1..v4 valid transfers; e expired; f expires too far ahead; c wrong chain id; g gas price
// below the minimum; o valid body but already on the node's chain (in block 1)
var cValid = map[string]bool{"v1": true, "v2": true, "v3": true, "v4": true}

type cfix struct {
	n      *node.Node
	dir    string
	txs    map[string]*types.Transaction
	nameOf map[common.Hash]string
}

var cFix *cfix

func cFixture() *cfix {
	if cFix != nil {
		return cFix
	}
	vtask.Reset()
	gatePolicy()
	vclock.SetUnix(nowUnix)
	fx := &cfix{txs: map[string]*types.Transaction{}, nameOf: map[common.Hash]string{}}
	exp := uint64(nowUnix + 600)
	to := func(i int) common.Address { return node.User(i).Addr }
	fx.txs["v1"] = node.Transfer(node.Founder(), to(1), node.Lemo(1), exp)
	fx.txs["v2"] = node.Transfer(node.Founder(), to(2), node.Lemo(2), exp)
	fx.txs["v3"] = node.Transfer(node.User(3), to(4), node.Lemo(3), exp)
	fx.txs["v4"] = node.Transfer(node.Founder(), to(4), node.Lemo(4), exp+1)
	fx.txs["e"] = node.Transfer(node.Founder(), to(1), node.Lemo(1), uint64(nowUnix-1))
	fx.txs["f"] = node.Transfer(node.Founder(), to(1), node.Lemo(1), uint64(nowUnix+1801))
	fx.txs["c"] = node.Tx(node.TxSpec{From: node.Founder(), To: addrPtr(to(1)), Amount: node.Lemo(1), Exp: exp, ChainID: node.ChainID + 1})
	fx.txs["g"] = node.Tx(node.TxSpec{From: node.Founder(), To: addrPtr(to(1)), Amount: node.Lemo(1), Exp: exp, GasPrice: node.Lemo(0).SetInt64(1)})
	fx.txs["o"] = node.Transfer(node.Founder(), to(0), node.Lemo(1), exp)
	for n, tx := range fx.txs {
		fx.nameOf[tx.Hash()] = n
	}
	if len(fx.nameOf) != len(fx.txs) {
		panic("harness: two tokens are the same transaction")
	}
	// block 1 (single deputy: stable at once) carries o
	fdir := core.ScratchDir("c20cf")
	f := node.NewFactory(fdir, 1)
	g := f.BC.Genesis()
	t, ok := node.SlotTime(f.DM, g, node.Deputy(0), 1)
	if !ok {
		panic("harness: no slot")
	}
	b1, invalid, err := f.Make(node.BlockSpec{Parent: g, Miner: node.Deputy(0), Time: t, Txs: types.Transactions{fx.txs["o"]}})
	if err != nil || len(invalid) != 0 || len(b1.Txs) != 1 {
		panic(fmt.Sprintf("harness: cannot build block 1 with the on-chain transaction: %v invalid=%d", err, len(invalid)))
	}
	wire := node.Wire(b1)
	vtask.Reset()
	f.Destroy()
	fx.dir = core.ScratchDir("c20c")
	fx.n = node.NewNode(fx.dir, 1, node.K("observer"))
	if err := fx.n.BC.InsertBlock(wire); err != nil {
		panic(fmt.Sprintf("harness: block 1 refused: %v", err))
	}
	vtask.RunAll()
	fx.n.Quiesce()
	if fx.n.BC.CurrentBlock().Height() != 1 {
		panic("harness: part C node is not at block 1")
	}
	// the tokens have the classes the alphabet claims (asked of the real code)
	for n, tx := range fx.txs {
		bodyOK := tx.VerifyTxBody(node.ChainID, uint64(nowUnix), false) == nil
		onChain := fx.n.BC.TxGuard().ExistTx(fx.n.BC.CurrentBlock().Hash(), tx)
		want := cValid[n] || n == "o"
		if bodyOK != want || onChain != (n == "o") {
			panic(fmt.Sprintf("harness: token %s: VerifyTxBody ok=%v, on chain=%v", n, bodyOK, onChain))
		}
	}
	cFix = fx
	return fx
}

func addrPtr(a common.Address) *common.Address { return &a }

// alphabets
var (
	cTokens     = []string{"v1", "v2", "v3", "e", "c", "o"}
	cMaxLen     = 3
	cFollowToks = []string{"v1", "v2", "e"} // batches of the multi-message histories
	cFollowLen  = 2
	cMaxMsgs    = 2
)

func setCTier(thorough bool) {
	if thorough {
		cTokens = []string{"v1", "v2", "v3", "v4", "e", "f", "c", "g", "o"}
		cMaxLen = 4
		cMaxMsgs = 3
	}
}

func seqs(tokens []string, maxLen int) []string {
	var out []string
	level := [][]string{{}}
	for l := 1; l <= maxLen; l++ {
		var next [][]string
		for _, p := range level {
			for _, t := range tokens {
				q := append(append([]string{}, p...), t)
				next = append(next, q)
				out = append(out, strings.Join(q, ","))
			}
		}
		level = next
	}
	return out
}

func isFollow(spec string) bool {
	toks := strings.Split(spec, ",")
	if len(toks) > cFollowLen {
		return false
	}
	for _, t := range toks {
		ok := false
		for _, x := range cFollowToks {
			if x == t {
				ok = true
			}
		}
		if !ok {
			return false
		}
	}
	return true
}

type cworld struct {
	fx     *cfix
	pool   *txpool.TxPool
	pm     *network.ProtocolManager
	peer   *network.VerifC15Peer
	msgs   []string // batch specs delivered so far
	labels []string // parallel to vtask.Pending(): "<message>.<position among the tasks of that message>"
}

func newCWorld() *cworld {
	fx := cFixture()
	vtask.Reset()
	gatePolicy()
	vclock.SetUnix(nowUnix)
	w := &cworld{fx: fx, pool: txpool.NewTxPool()}
	var nid p2p.NodeID
	copy(nid[:], node.K("observer").NodeID)
	w.pm = network.NewProtocolManager(node.ChainID, nid, fx.n.BC, fx.n.DM, w.pool, fx.n.BC.TxGuard(), p2p.NewDiscoverManager(fx.dir), 10, 1, fx.dir)
	// no loop of the manager runs in this part: nothing may wait on the event bus (NewTx after AddTx)
	network.VerifC15UnSub(w.pm)
	var mu sync.Mutex
	var sent []sentMsg
	w.peer = network.VerifC15NewPeer(newMockConn("P", node.Deputy(0), &mu, &sent))
	return w
}

func (w *cworld) deliver(spec string) {
	var txs types.Transactions
	for _, t := range strings.Split(spec, ",") {
		tx, ok := w.fx.txs[t]
		if !ok {
			panic("harness: unknown token " + t)
		}
		txs = append(txs, tx)
	}
	buf, err := rlp.EncodeToBytes(&txs)
	if err != nil {
		panic(err)
	}
	before := len(vtask.Pending())
	if err := network.VerifC15Work(w.pm, &p2p.Msg{Code: p2p.TxsMsg, Content: buf}, w.peer); err != nil {
		panic(fmt.Sprintf("harness: TxsMsg refused: %v", err))
	}
	n := len(vtask.Pending()) - before
	for i := 0; i < n; i++ {
		w.labels = append(w.labels, fmt.Sprintf("%d.%d", len(w.msgs), i))
	}
	w.msgs = append(w.msgs, spec)
	hit("C/tasks=%d", n)
}

// pooled: name -> number of times the pool hands it out
func (w *cworld) pooled() map[string]int {
	m := map[string]int{}
	for _, tx := range w.pool.GetTxs(uint32(nowUnix), 10000) {
		n, ok := w.fx.nameOf[tx.Hash()]
		if !ok {
			n = fmt.Sprintf("unknown-%x", tx.Hash().Bytes()[:3])
		}
		m[n]++
	}
	return m
}

func pooledString(m map[string]int) string {
	var l []string
	for n, k := range m {
		l = append(l, fmt.Sprintf("%sx%d", n, k))
	}
	sort.Strings(l)
	return strings.Join(l, " ")
}

// shape: the valid tokens renamed in order of first appearance, every body-invalid token "i", on chain "o"
func shape(msgs []string) string {
	ren := map[string]string{}
	var out []string
	for _, spec := range msgs {
		var l []string
		for _, t := range strings.Split(spec, ",") {
			switch {
			case cValid[t]:
				if _, ok := ren[t]; !ok {
					ren[t] = fmt.Sprintf("v%d", len(ren)+1)
				}
				l = append(l, ren[t])
			case t == "o":
				l = append(l, "o")
			default:
				l = append(l, "i")
			}
		}
		out = append(out, strings.Join(l, ","))
	}
	return strings.Join(out, ";")
}

// check returns the symptom ("" = fine) and a description.
func (w *cworld) check(final bool) (string, string) {
	p := w.pooled()
	for n, k := range p {
		switch {
		case n == "o":
			return "on-chain-tx-in-pool", fmt.Sprintf("transaction o is in block 1 of the node's chain and was pooled again; pool {%s}", pooledString(p))
		case !cValid[n]:
			return "invalid-tx-in-pool", fmt.Sprintf("transaction %s does not pass VerifyTxBody and is in the pool; pool {%s}", n, pooledString(p))
		case k > 1:
			return "valid-tx-in-pool-twice", fmt.Sprintf("transaction %s is handed out %d times; pool {%s}", n, k, pooledString(p))
		}
	}
	if final {
		for _, spec := range w.msgs {
			for _, t := range strings.Split(spec, ",") {
				if cValid[t] && p[t] == 0 {
					return "valid-tx-not-in-pool", fmt.Sprintf("transaction %s was received in a batch, passes VerifyTxBody, is not on the chain, every per-transaction task has run, and it is not in the pool; pool {%s}", t, pooledString(p))
				}
			}
		}
	}
	return "", ""
}

// replayC executes a part C history; returns the world and the symptom of the first failing check.
func replayC(hist []string, trace bool) (w *cworld, symptom, what, nondet string) {
	w = newCWorld()
	for _, e := range hist[1:] {
		switch {
		case strings.HasPrefix(e, "msg "):
			w.deliver(e[4:])
		case strings.HasPrefix(e, "r"):
			i, err := strconv.Atoi(e[1:])
			if err != nil || i < 0 || i >= len(w.labels) {
				return w, "", "", fmt.Sprintf("no pending task for %q (pending %v)", e, w.labels)
			}
			w.labels = append(w.labels[:i], w.labels[i+1:]...)
			vtask.Run(i)
			if len(vtask.Pending()) != len(w.labels) {
				return w, "", "", "a per-transaction task started another task"
			}
		default:
			return w, "", "", "unknown event " + e
		}
		s, wh := w.check(len(w.labels) == 0)
		if trace {
			fmt.Printf("  %-14s -> pool {%s} pending %v %s\n", e, pooledString(w.pooled()), w.labels, s)
		}
		if s != "" {
			return w, s, wh, ""
		}
	}
	return w, "", "", ""
}

// A part C history in abstract form: message arrivals and task runs named by (message, token position).
type cact struct {
	isMsg    bool
	msg, pos int
}

func makesTask(t string) bool { return cValid[t] || t == "o" } // passes VerifyTxBody

func parseC(hist []string) (msgs [][]string, acts []cact) {
	var pend []cact
	for _, e := range hist[1:] {
		if strings.HasPrefix(e, "msg ") {
			toks := strings.Split(e[4:], ",")
			for p, t := range toks {
				if makesTask(t) {
					pend = append(pend, cact{false, len(msgs), p})
				}
			}
			acts = append(acts, cact{true, len(msgs), 0})
			msgs = append(msgs, toks)
		} else {
			i, _ := strconv.Atoi(e[1:])
			acts = append(acts, pend[i])
			pend = append(pend[:i], pend[i+1:]...)
		}
	}
	return
}

func emitC(msgs [][]string, acts []cact) []string {
	h := []string{"C"}
	var pend []cact
	for _, a := range acts {
		if a.isMsg {
			h = append(h, "msg "+strings.Join(msgs[a.msg], ","))
			for p, t := range msgs[a.msg] {
				if makesTask(t) {
					pend = append(pend, cact{false, a.msg, p})
				}
			}
			continue
		}
		idx := -1
		for i, p := range pend {
			if p == a {
				idx = i
			}
		}
		if idx < 0 {
			return nil
		}
		h = append(h, fmt.Sprintf("r%d", idx))
		pend = append(pend[:idx], pend[idx+1:]...)
	}
	return h
}

// shrinkC removes tokens (with the run of their task; a message that becomes empty disappears) while
// the same symptom remains; the relative order of everything else is kept.
func shrinkC(hist []string, symptom string) []string {
	msgs, acts := parseC(hist)
	cur := hist
	for changed := true; changed; {
		changed = false
	outer:
		for m := range msgs {
			for p := range msgs[m] {
				drop := len(msgs[m]) == 1
				var nm [][]string
				for k := range msgs {
					switch {
					case k == m && drop:
					case k == m:
						nm = append(nm, append(append([]string{}, msgs[k][:p]...), msgs[k][p+1:]...))
					default:
						nm = append(nm, append([]string{}, msgs[k]...))
					}
				}
				if len(nm) == 0 {
					continue
				}
				var na []cact
				for _, a := range acts {
					if a.msg == m && ((a.isMsg && drop) || (!a.isMsg && a.pos == p)) {
						continue
					}
					if !a.isMsg && a.msg == m && a.pos > p {
						a.pos--
					}
					if drop && a.msg > m {
						a.msg--
					}
					na = append(na, a)
				}
				cand := emitC(nm, na)
				if cand == nil {
					continue
				}
				if _, s, _, nd := replayC(cand, false); nd == "" && s == symptom {
					msgs, acts, cur = nm, na, cand
					changed = true
					break outer
				}
			}
		}
	}
	return cur
}

func runC(hist []string, trace bool) core.Outcome {
	hit("histories/C")
	var out core.Outcome
	w, symptom, what, nondet := replayC(hist, trace)
	if nondet != "" {
		return core.Outcome{Nondet: nondet}
	}
	if symptom != "" {
		min := shrinkC(hist, symptom)
		mw, _, mwhat, _ := replayC(min, false)
		_ = what
		fp := fmt.Sprintf("%s/txs/%s/batch=%s", prop, symptom, shape(mw.msgs))
		out.Violations = append(out.Violations, core.Violation{Fingerprint: fp, What: fmt.Sprintf("TxsMsg %v, tasks released as in the history: %s; history %v (shrunk from %v)", mw.msgs, mwhat, min, hist), Replay: map[string]interface{}{"history": min, "found_as": hist}})
		return out
	}
	p := w.pooled()
	if len(w.labels) == 0 && len(w.msgs) > 0 {
		hit("C/evaluations")
		hit("C/pooled=%d", len(p))
		out.Tags = append(out.Tags, fmt.Sprintf("C/shape=%s", shape(w.msgs)))
	}
	l := append([]string{}, w.labels...)
	sort.Strings(l)
	out.Key = fmt.Sprintf("C|%s|%s|%s", strings.Join(w.msgs, ";"), pooledString(p), strings.Join(l, ","))
	// enabled: the next message, the release of any pending task
	if len(w.msgs) == 0 {
		for _, s := range seqs(cTokens, cMaxLen) {
			out.Enabled = append(out.Enabled, "msg "+s)
		}
	} else if len(w.msgs) < cMaxMsgs {
		all := true
		for _, s := range w.msgs {
			if !isFollow(s) {
				all = false
			}
		}
		if all {
			toks, ln := cFollowToks, cFollowLen
			if len(w.msgs) == 2 { // third message: the smallest alphabet
				toks, ln = []string{"v1", "v2"}, 2
				for _, s := range w.msgs {
					if strings.Contains(s, "e") {
						all = false
					}
				}
			}
			if all {
				for _, s := range seqs(toks, ln) {
					out.Enabled = append(out.Enabled, "msg "+s)
				}
			}
		}
	}
	for i := range w.labels {
		out.Enabled = append(out.Enabled, fmt.Sprintf("r%d", i))
	}
	return out
}

package main

// Part B: the whole receive path. A real ProtocolManager (own rcvBlockLoop and stableBlockLoop in the
// manager's step mode) on a real chain.BlockChain; messages come from scripted remotes through the
// real dispatcher; the 500 ms drain timer and every `go` statement are events of the explorer.

import (
	"fmt"
	"os"
	"runtime"
	"sort"
	"strconv"
	"strings"
	"sync"
	"time"

	"verifmc/core"
	"verifmc/node"
	"verifmc/props/c20/ptime"
	"verifmc/vclock"
	"verifmc/vtask"

	"github.com/LemoFoundationLtd/lemochain-core/chain"
	"github.com/LemoFoundationLtd/lemochain-core/chain/types"
	"github.com/LemoFoundationLtd/lemochain-core/common"
	"github.com/LemoFoundationLtd/lemochain-core/common/rlp"
	"github.com/LemoFoundationLtd/lemochain-core/common/subscribe"
	"github.com/LemoFoundationLtd/lemochain-core/network"
	"github.com/LemoFoundationLtd/lemochain-core/network/p2p"
)

type msgSpec struct {
	name    string
	blocks  []int // heights of the blocks of a BlocksMsg, in message order
	carry   bool  // the blocks carry their confirmation in the body
	confirm int   // height of the block a ConfirmMsg is about (0: a BlocksMsg)
}

func (m msgSpec) minHeight() int {
	if m.confirm > 0 {
		return m.confirm
	}
	mh := m.blocks[0]
	for _, h := range m.blocks {
		if h < mh {
			mh = h
		}
	}
	return mh
}

type scenario struct {
	name       string
	seg        string // "rot": miners d0,d1,d2,...; "alt": d0,d1,d0,...
	nblocks    int
	self       string // "obs" or "d2"
	msgs       []msgSpec
	peers      int
	gateStable bool // the stable notification and the cache clearing it starts are explorer events
	race       bool // a ConfirmMsg may be handled at the entry of chain.InsertBlock
	nodup      bool // no message is delivered twice
	thorough   bool // thorough tier only
}

var scenarios []*scenario

func defScenario(name, seg string, nblocks int, self string, peers int, flags string, thorough bool, msgs string) {
	sc := &scenario{name: name, seg: seg, nblocks: nblocks, self: self, peers: peers, thorough: thorough,
		gateStable: strings.Contains(flags, "stable"), race: strings.Contains(flags, "race"), nodup: strings.Contains(flags, "nodup")}
	for _, f := range strings.Fields(msgs) {
		m := msgSpec{name: f}
		kv := strings.SplitN(f, ":", 2)
		switch kv[0] {
		case "c":
			m.confirm, _ = strconv.Atoi(kv[1])
		case "b", "bc":
			m.carry = kv[0] == "bc"
			for _, x := range strings.Split(kv[1], ",") {
				h, _ := strconv.Atoi(x)
				m.blocks = append(m.blocks, h)
			}
		default:
			panic("bad message spec " + f)
		}
		sc.msgs = append(sc.msgs, m)
	}
	scenarios = append(scenarios, sc)
}

func init() {
	// quick and thorough
	// blocks carrying their confirmation in the body, one per message; 5 heights: every insertion
	// position of the block cache (before / between / after, with 3 and more groups present)
	defScenario("carry5", "rot", 5, "obs", 2, "", false, "bc:1 bc:2 bc:3 bc:4 bc:5")
	// several blocks per message, overlapping messages, one confirmation broadcast
	defScenario("batch4", "rot", 4, "obs", 2, "", false, "b:1,2 b:3,4 b:2,3 c:4")
	// bare blocks and confirmation broadcasts (before / after their blocks)
	defScenario("conf4", "rot", 4, "obs", 2, "", false, "b:1 b:2 b:3 b:4 c:3 c:4")
	// the node is deputy d2: it signs what it inserts
	defScenario("deputy4", "alt", 4, "d2", 2, "", false, "b:1 b:2 b:3 b:4 c:2")
	// a confirmation handled while insertBlock is between popping the early confirmations and storing the block
	defScenario("race4", "rot", 4, "obs", 2, "race", false, "b:1 b:2 b:3 b:4 c:4")
	// the stable notification and the cache clearing are delivered at any later moment
	defScenario("stable4", "rot", 4, "obs", 1, "stable", false, "b:1 b:2 b:3 b:4 c:2")

	// thorough only
	defScenario("carry4", "rot", 4, "obs", 2, "", true, "bc:1 bc:2 bc:3 bc:4")
	defScenario("carry6", "rot", 6, "obs", 1, "", true, "bc:1 bc:2 bc:3 bc:4 bc:5 bc:6")
	defScenario("batch5", "rot", 5, "obs", 2, "", true, "b:1,2 b:3,4 b:2,3 b:4,5 c:5")
	defScenario("conf4-7", "rot", 4, "obs", 2, "", true, "b:1 b:2 c:2 b:3 c:3 b:4 c:4")
	defScenario("conf4-all", "rot", 4, "obs", 2, "", true, "b:1 c:1 b:2 c:2 b:3 c:3 b:4 c:4")
	defScenario("conf5", "rot", 5, "obs", 2, "", true, "b:1 b:2 b:3 b:4 b:5 c:3 c:5")
	defScenario("conf5-all", "rot", 5, "obs", 1, "nodup", true, "b:1 c:1 b:2 c:2 b:3 c:3 b:4 c:4 b:5 c:5")
	defScenario("conf6", "rot", 6, "obs", 2, "", true, "b:1 b:2 b:3 b:4 b:5 b:6 c:3 c:6")
	defScenario("deputy5", "alt", 5, "d2", 2, "", true, "b:1 b:2 b:3 b:4 b:5 c:3 c:5")
	defScenario("race5", "rot", 5, "obs", 2, "race", true, "b:1 b:2 b:3 b:4 b:5 c:3 c:5")
	defScenario("stable5", "rot", 5, "obs", 1, "stable", true, "b:1 b:2 b:3 b:4 b:5 c:3 c:5")
}

func findScenario(name string) *scenario {
	for _, s := range scenarios {
		if s.name == name {
			return s
		}
	}
	return nil
}

// ---------------------------------------------------------------------------------------------

// chainW is what the protocol manager holds as its chain: the real BlockChain, observed at InsertBlock.
type chainW struct {
	*chain.BlockChain
	w *bworld
}

func (c *chainW) InsertBlock(b *types.Block) error {
	w := c.w
	h := w.sg.heightOf(b.Hash())
	merged := len(b.Confirms) - w.wireConfirms[b.Hash()]
	hit("run/insertBlock/merged-early-confirms=%d", merged)
	if inj := w.inject; inj >= 0 && w.sc.msgs[inj].confirm == h {
		// the handler goroutine of another connection gets its turn here: the early confirmations of
		// this block have been popped, the block is not stored yet
		w.inject = -1
		w.injectedKinds["confirm-handled-during-insertBlock"] = true
		hit("inject/confirm-during-insertBlock")
		w.sendConfirm(inj, w.peers[len(w.peers)-1])
		w.delivered[inj]++
	}
	err := c.BlockChain.InsertBlock(b)
	if err != nil {
		hit("run/insertBlock/err=%s", err.Error())
	} else {
		hit("run/insertBlock/ok")
	}
	if w.trace {
		fmt.Printf("      chain.InsertBlock(h=%d, %d confirm(s) in body, %d merged from the cache) -> %v\n", b.Height(), len(b.Confirms), merged, err)
	}
	return err
}

// HasBlock: the second window. handleConfirmMsg looks at the chain and then pushes into the cache; the
// receive loop (or a released insertBlock task) may insert the block in between.
func (c *chainW) HasBlock(hash common.Hash) bool {
	has := c.BlockChain.HasBlock(hash)
	w := c.w
	if ev := w.nested; ev != "" && !has && hash == w.nestedHash {
		w.nested = ""
		if nd := w.apply(ev); nd != "" {
			panic("harness: nested event " + ev + ": " + nd)
		}
		if c.BlockChain.HasBlock(hash) {
			w.injectedKinds["block-inserted-during-handleConfirmMsg"] = true
			hit("inject/block-inserted-during-handleConfirmMsg")
		}
		if w.trace {
			fmt.Printf("      (the handler saw HasBlock=false before %q ran; it goes on with that answer)\n", ev)
		}
	}
	return has
}

func (c *chainW) InsertConfirms(height uint32, hash common.Hash, sigs []types.SignData) {
	hit("run/InsertConfirms")
	c.BlockChain.InsertConfirms(height, hash, sigs)
	if c.w.trace {
		fmt.Printf("      chain.InsertConfirms(h=%d, %d sig(s))\n", height, len(sigs))
	}
}

type bworld struct {
	sc    *scenario
	sg    *segment
	trace bool

	n        *node.Node
	pm       *network.ProtocolManager
	cw       *chainW
	sig      <-chan int
	peers    []*network.VerifC15Peer
	conns    []*mockConn
	sentMu   sync.Mutex
	sent     []sentMsg
	seenSent int
	stableCh chan *types.Block
	sub      subscribe.Subscription
	loops    sync.WaitGroup

	delivered    []int
	dupSpent     bool
	gotBlock     []bool // block k was part of a delivered BlocksMsg
	wireConfirms map[common.Hash]int
	labels       []string       // parallel to vtask.Pending()
	notes        []*types.Block // stable notifications not yet handed to the event bus
	handed       []int          // heights the last cache drain handed to insertBlock, in order
	clearHeight  uint32
	inject       int // index of the confirmation message to be handled at the next matching InsertBlock, -1: none
	nested       string      // event to run between handleConfirmMsg's look at the chain and its push into the cache
	nestedHash   common.Hash // ... when it asks for this block
	injectedKinds map[string]bool
	viols        []core.Violation
	hist         []string
}

func (w *bworld) viol(fp, what string) {
	for _, v := range w.viols {
		if v.Fingerprint == prop+"/"+fp {
			return
		}
	}
	w.viols = append(w.viols, core.Violation{Fingerprint: prop + "/" + fp, What: what, Replay: map[string]interface{}{"history": append([]string{}, w.hist...), "messages(m0..)": w.msgNames()}})
}

func (w *bworld) msgNames() []string {
	l := make([]string, len(w.sc.msgs))
	for i, m := range w.sc.msgs {
		l[i] = m.name
	}
	return l
}

func newWorld(sc *scenario, trace bool) *bworld {
	sg := buildSegment(sc.seg, sc.nblocks)
	vtask.Reset()
	gatePolicy()
	ptime.Forget()
	vclock.SetUnix(nowUnix)
	w := &bworld{sc: sc, sg: sg, trace: trace, inject: -1, wireConfirms: map[common.Hash]int{}, injectedKinds: map[string]bool{}}
	self := node.K("observer")
	if sc.self != "obs" {
		var i int
		fmt.Sscanf(sc.self[1:], "%d", &i)
		self = node.Deputy(i)
	}
	dir := core.ScratchDir("c20")
	w.n = node.NewNode(dir, deputies, self)
	if w.n.BC.Genesis().Hash() != sg.hash[0] {
		panic("harness: the node's genesis differs from the factory's")
	}
	w.cw = &chainW{BlockChain: w.n.BC, w: w}
	var nid p2p.NodeID
	copy(nid[:], self.NodeID)
	w.pm = network.NewProtocolManager(node.ChainID, nid, w.cw, w.n.DM, w.n.Pool, w.n.BC.TxGuard(), p2p.NewDiscoverManager(dir), 10, 1, dir)
	w.sig = network.VerifC15SetTest(w.pm)
	w.stableCh = make(chan *types.Block, 256)
	w.sub = chain.VerifC20SubscribeStable(w.n.BC, w.stableCh)
	// the remotes are the connections of deputies d0 and d1 (blocks and confirmations come from deputies)
	for i := 0; i < sc.peers; i++ {
		c := newMockConn(string(rune('P'+i)), node.Deputy(i), &w.sentMu, &w.sent)
		p := network.VerifC15NewPeer(c)
		network.VerifC15Register(w.pm, p)
		w.conns = append(w.conns, c)
		w.peers = append(w.peers, p)
	}
	w.loops.Add(2)
	go func() { defer w.loops.Done(); network.VerifC15RcvBlockLoop(w.pm) }()
	go func() { defer w.loops.Done(); network.VerifC20StableBlockLoop(w.pm) }()
	w.delivered = make([]int, len(sc.msgs))
	w.gotBlock = make([]bool, sc.nblocks+1)
	return w
}

func (w *bworld) close() {
	network.VerifC15UnSub(w.pm)
	network.VerifC15Quit(w.pm)
	done := make(chan struct{})
	go func() { w.loops.Wait(); close(done) }()
wait:
	for {
		select {
		case <-w.sig: // a loop that was about to report a step (the harness gave up in the middle of one)
		case <-done:
			break wait
		}
	}
	w.sub.Unsubscribe()
	vtask.Reset()
	ptime.Forget()
	w.n.Destroy()
}

func (w *bworld) wait(want int, what string) {
	got := <-w.sig
	if got != want {
		panic(fmt.Sprintf("harness: step signal %d while waiting for %d (%s)", got, want, what))
	}
}

// sendConfirm hands the ConfirmMsg of message i to the real dispatcher as if it came from peer p.
func (w *bworld) sendConfirm(i int, p *network.VerifC15Peer) {
	h := w.sc.msgs[i].confirm
	data := &network.BlockConfirmData{Hash: w.sg.hash[h], Height: uint32(h), SignInfo: w.sg.confirmSig(h, w.sc.self)}
	buf, err := rlp.EncodeToBytes(data)
	if err != nil {
		panic(err)
	}
	known := w.n.BC.HasBlock(w.sg.hash[h])
	if known {
		hit("deliver/confirm-for-known-block")
	} else {
		hit("deliver/confirm-cached-before-block")
	}
	// the handler starts its InsertConfirms goroutine (if it does) before it returns: what is pending
	// before the call gets its label first, what appears during the call is this confirmation's
	w.labelPending(0)
	if err := network.VerifC15Work(w.pm, &p2p.Msg{Code: p2p.ConfirmMsg, Content: buf}, p); err != nil {
		panic(fmt.Sprintf("harness: ConfirmMsg refused: %v", err))
	}
	w.labelPending(h)
}

// labelPending gives every task that has no label yet its label.
func (w *bworld) labelPending(confirmHeight int) {
	sites := vtask.Pending()
	if len(sites) < len(w.labels) {
		panic("harness: pending task list shrank")
	}
	for len(w.labels) < len(sites) {
		w.labels = append(w.labels, w.labelFor(sites[len(w.labels)], confirmHeight))
	}
}

func (w *bworld) inCache(h int) bool {
	_, bc := network.VerifC20Caches(w.pm)
	for _, g := range network.VerifC20BlockGroups(bc) {
		for _, x := range g.Hashes {
			if x == w.sg.hash[h] {
				return true
			}
		}
	}
	return false
}

func (w *bworld) deliver(i, inj int) {
	m := w.sc.msgs[i]
	p := w.peers[0]
	if w.delivered[i] > 0 {
		hit("deliver/duplicate")
		w.dupSpent = true
		p = w.peers[len(w.peers)-1]
	}
	w.delivered[i]++
	if m.confirm > 0 {
		w.sendConfirm(i, p)
		w.settle(m.confirm)
		return
	}
	var blocks types.Blocks
	for _, h := range m.blocks {
		b := w.sg.block(h)
		if m.carry {
			b.Confirms = append(b.Confirms, w.sg.confirmSig(h, w.sc.self))
		}
		w.wireConfirms[b.Hash()] = len(b.Confirms)
		blocks = append(blocks, b)
		w.gotBlock[h] = true
	}
	buf, err := rlp.EncodeToBytes(&blocks)
	if err != nil {
		panic(err)
	}
	// classification of what the receive loop does with each block (coverage only)
	stable := int(w.n.BC.StableBlock().Height())
	_, bc := network.VerifC20Caches(w.pm)
	var heights []int
	wasCached := map[int]bool{}
	for _, g := range network.VerifC20BlockGroups(bc) {
		heights = append(heights, int(g.Height))
		for _, x := range g.Hashes {
			wasCached[w.sg.heightOf(x)] = true
		}
	}
	w.inject = inj
	if err := network.VerifC15Work(w.pm, &p2p.Msg{Code: p2p.BlocksMsg, Content: buf}, p); err != nil {
		panic(fmt.Sprintf("harness: BlocksMsg refused: %v", err))
	}
	w.wait(network.VerifC15RcvBlocksSignal, "received block list")
	w.inject = -1
	for _, h := range m.blocks {
		switch {
		case h <= stable:
			hit("deliver/block-not-above-stable")
		case w.inCache(h) && wasCached[h]:
			hit("deliver/block-cached-again")
		case w.inCache(h):
			pos := "between"
			switch {
			case len(heights) == 0:
				pos = "into-empty"
			case h < heights[0]:
				pos = "before-first"
			case h > heights[len(heights)-1]:
				pos = "after-last"
			default:
				for _, x := range heights {
					if x == h {
						pos = "existing-height"
					}
				}
			}
			hit("deliver/block-cached/" + pos)
			heights = append(heights, h)
			sort.Ints(heights)
			wasCached[h] = true
		case w.n.BC.HasBlock(w.sg.hash[h]):
			hit("deliver/block-in-chain-after-delivery")
		default:
			hit("deliver/block-neither-cached-nor-in-chain")
		}
	}
	w.settle(0)
}

func (w *bworld) tick() {
	_, bc := network.VerifC20Caches(w.pm)
	before := network.VerifC20BlockGroups(bc)
	if !ptime.Fire(500 * time.Millisecond) {
		panic("harness: the cache drain timer is not armed")
	}
	w.wait(network.VerifC15QueueTimerSignal, "cache drain")
	after := map[common.Hash]bool{}
	for _, g := range network.VerifC20BlockGroups(bc) {
		for _, x := range g.Hashes {
			after[x] = true
		}
	}
	w.handed = w.handed[:0]
	for _, g := range before {
		if g.SameAs >= 0 {
			continue // a corrupted list may name one group object twice: Iterate finds it empty the second time
		}
		for _, x := range g.Hashes {
			if !after[x] {
				w.handed = append(w.handed, w.sg.heightOf(x))
			}
		}
	}
	hit("tick/handed-to-insertBlock=%d", len(w.handed))
	w.settle(0)
}

func (w *bworld) isAuto(label string) bool {
	if strings.HasPrefix(label, "auto:") {
		return true
	}
	if strings.HasPrefix(label, "clear:") && !w.sc.gateStable {
		return true
	}
	return false
}

func (w *bworld) labelFor(site string, confirmHeight int) string {
	switch {
	case strings.Contains(site, "pm.insertBlock"):
		if len(w.handed) == 0 {
			panic("harness: an insertBlock task without a block handed over by the cache drain: " + site)
		}
		h := w.handed[0]
		w.handed = w.handed[1:]
		return fmt.Sprintf("ins:%d", h)
	case strings.Contains(site, "protocol_manager.go") && strings.Contains(site, "InsertConfirms"):
		if confirmHeight == 0 {
			panic("harness: an InsertConfirms task outside a confirmation delivery: " + site)
		}
		return fmt.Sprintf("cf:%d", confirmHeight)
	case strings.Contains(site, "protocol_manager.go") && strings.Contains(site, "confirmsCache.Clear"):
		return fmt.Sprintf("clear:%d", w.clearHeight)
	case strings.Contains(site, "RequestBlocks"):
		return "auto:request-blocks"
	case strings.Contains(site, "protocol_manager.go"):
		// any other goroutine of the manager (none in the tree as it is; a repaired tree may start one):
		// an event of the explorer, named by what it calls
		s := site[strings.LastIndex(site, ":")+1:]
		if len(s) > 30 {
			s = s[:30]
		}
		return "x:" + strings.ReplaceAll(strings.ReplaceAll(s, " ", ""), "^", "")
	}
	// engine tasks: feeds, own batch confirms, delayed confirm fetch, evil-deputy judgement
	s := site
	if i := strings.LastIndex(s, ":"); i >= 0 {
		s = s[i+1:]
	}
	if len(s) > 24 {
		s = s[:24]
	}
	return "auto:" + s
}

func (w *bworld) runTask(i int) {
	l := w.labels[i]
	w.labels = append(w.labels[:i], w.labels[i+1:]...)
	switch {
	case strings.HasPrefix(l, "auto:request"):
		hit("task/request-blocks")
	case strings.HasPrefix(l, "clear:"):
		hit("run/cache-clear")
	}
	vtask.Run(i)
}

// settle labels the tasks the last body created, runs the ones that have no way back into the receive
// path (and, outside the stable* scenarios, the stable notification chain) and leaves the others pending.
func (w *bworld) settle(confirmHeight int) {
	for {
		w.labelPending(confirmHeight)
		ran := false
		for i, l := range w.labels {
			if w.isAuto(l) {
				w.runTask(i)
				ran = true
				break
			}
		}
		if ran {
			continue
		}
		select {
		case b := <-w.stableCh:
			w.notes = append(w.notes, b)
			continue
		default:
		}
		if !w.sc.gateStable && len(w.notes) > 0 {
			w.notify(0)
			continue
		}
		break
	}
	w.scanRequests()
	w.n.Quiesce()
}

// notify hands stable notification i to the event bus (what runFeedTranspondLoop does) and lets the
// manager's stableBlockLoop process it.
func (w *bworld) notify(i int) {
	b := w.notes[i]
	w.notes = append(w.notes[:i], w.notes[i+1:]...)
	hit("run/stable-notification")
	w.clearHeight = b.Height()
	subscribe.Send(subscribe.NewStableBlock, b)
	w.wait(network.VerifC20StableBlockSignal, "stable notification")
}

// scanRequests looks at what the node wrote to its peers since the last call.
func (w *bworld) scanRequests() {
	w.sentMu.Lock()
	defer w.sentMu.Unlock()
	for ; w.seenSent < len(w.sent); w.seenSent++ {
		s := w.sent[w.seenSent]
		if s.code != p2p.GetBlocksMsg {
			hit("sent/code=%d", s.code)
			continue
		}
		var q network.GetBlocksData
		if err := rlp.DecodeBytes(s.content, &q); err != nil {
			w.viol("sync/request-not-decodable", fmt.Sprintf("the node sent a block request that does not decode: %x", s.content))
			continue
		}
		hit("request/height=%d", q.From)
		if q.From > q.To || int(q.To) > w.sc.nblocks {
			hit("request/outside-segment(from=%d,to=%d)", q.From, q.To)
		}
	}
}

// ---------------------------------------------------------------------------------------------

type bobs struct {
	cur, stable   int
	curHash       common.Hash
	stableHash    common.Hash
	inChain       []bool
	confirms      []string
	groups        []network.VerifC20Group
	cached        []network.VerifC20Confirm
	peerHeight    []uint32
	cacheBlocks   int
	cacheConfirms int
}

func (w *bworld) observe() bobs {
	var o bobs
	c, s := w.n.BC.CurrentBlock(), w.n.BC.StableBlock()
	o.cur, o.stable, o.curHash, o.stableHash = int(c.Height()), int(s.Height()), c.Hash(), s.Hash()
	o.inChain = make([]bool, w.sc.nblocks+1)
	o.confirms = make([]string, w.sc.nblocks+1)
	for k := 1; k <= w.sc.nblocks; k++ {
		b, err := w.n.DB.GetBlockByHash(w.sg.hash[k])
		if err != nil {
			o.confirms[k] = "-"
			continue
		}
		o.inChain[k] = true
		cs := make([]string, 0, len(b.Confirms))
		for _, x := range b.Confirms {
			cs = append(cs, fmt.Sprintf("%x", x[:4]))
		}
		sort.Strings(cs)
		o.confirms[k] = strings.Join(cs, ",")
	}
	cc, bc := network.VerifC20Caches(w.pm)
	o.groups = network.VerifC20BlockGroups(bc)
	o.cached, _ = network.VerifC20CachedConfirms(cc)
	o.cacheConfirms, o.cacheBlocks = network.VerifC15CacheSizes(w.pm)
	for _, p := range w.peers {
		o.peerHeight = append(o.peerHeight, network.VerifC15PeerStatus(p).CurHeight)
	}
	return o
}

func (w *bworld) groupString(gs []network.VerifC20Group) string {
	var sb strings.Builder
	for _, g := range gs {
		fmt.Fprintf(&sb, "%d[", g.Height)
		for i, x := range g.Hashes {
			if i > 0 {
				sb.WriteByte(' ')
			}
			if h := w.sg.heightOf(x); h >= 0 {
				fmt.Fprintf(&sb, "b%d", h)
			} else {
				fmt.Fprintf(&sb, "%x", x[:3])
			}
		}
		sb.WriteString("]")
	}
	return sb.String()
}

func (w *bworld) key(o bobs) string {
	var sb strings.Builder
	// which message the one duplicate was spent on, and what each peer is known to have (its status only
	// steers whom the node asks for blocks), have no influence on what any later event does to the chain
	// or the caches: both are projected out
	var d strings.Builder
	for _, n := range w.delivered {
		if n > 0 {
			d.WriteByte('1')
		} else {
			d.WriteByte('0')
		}
	}
	fmt.Fprintf(&sb, "%s|d=%s|dup=%v|cur=%d|st=%d|", w.sc.name, d.String(), w.dupSpent, o.cur, o.stable)
	for k := 1; k <= w.sc.nblocks; k++ {
		sb.WriteString(o.confirms[k] + ";")
	}
	fmt.Fprintf(&sb, "|bc=%s|cc=", w.groupString(o.groups))
	for _, c := range o.cached {
		fmt.Fprintf(&sb, "%d:%x ", c.Height, c.Sig[:3])
	}
	l := append([]string{}, w.labels...)
	sort.Strings(l)
	fmt.Fprintf(&sb, "|p=%s", strings.Join(l, ","))
	if w.sc.gateStable {
		nh := make([]int, 0, len(w.notes))
		for _, b := range w.notes {
			nh = append(nh, int(b.Height()))
		}
		sort.Ints(nh)
		fmt.Fprintf(&sb, "|n=%v", nh)
	}
	return sb.String()
}

func (w *bworld) pendingIns(h int) bool {
	for _, l := range w.labels {
		if l == fmt.Sprintf("ins:%d", h) {
			return true
		}
	}
	return false
}

// checkKept: a block of the segment that was delivered is in the chain, or waits in the cache, or is
// on its way from the cache into the chain, unless the chain is already stable above it.
func (w *bworld) checkKept(o bobs, after string) {
	for k := 1; k <= w.sc.nblocks; k++ {
		if !w.gotBlock[k] || o.inChain[k] || k <= o.stable || w.inCache(k) || w.pendingIns(k) {
			continue
		}
		w.viol("sync/received-block-dropped", fmt.Sprintf("%s: block %d was delivered and is neither in the chain nor in the block cache nor on its way from the cache into the chain (stable height %d) after %q; block cache %s; history %v", w.sc.name, k, o.stable, after, w.groupString(o.groups), w.hist))
	}
}

func (w *bworld) complete() bool {
	for _, d := range w.delivered {
		if d == 0 {
			return false
		}
	}
	return true
}

// drain: everything that is pending runs (oldest first) and the drain timer ticks until nothing moves.
func (w *bworld) drain() {
	for round := 0; ; round++ {
		if round > 200 {
			panic("harness: drain does not reach quiescence")
		}
		moved := false
		for len(w.labels) > 0 {
			w.runTask(0)
			w.settle(0)
			moved = true
		}
		for len(w.notes) > 0 {
			w.notify(0)
			w.settle(0)
			moved = true
		}
		if moved {
			continue
		}
		_, bc := network.VerifC20Caches(w.pm)
		if len(network.VerifC20BlockGroups(bc)) == 0 {
			return
		}
		w.tick()
		if len(w.labels) == 0 && len(w.notes) == 0 {
			return
		}
	}
}

type refState struct {
	cur, stable         common.Hash
	curH, stableH       int
}

var refCache = map[string]refState{}

// reference: the node that receives the same messages in order (ascending height, a block before
// the confirmations of it), with everything drained after each message.
func reference(sc *scenario) refState {
	if r, ok := refCache[sc.name]; ok {
		return r
	}
	w := newWorld(sc, false)
	defer w.close()
	order := make([]int, len(sc.msgs))
	for i := range order {
		order[i] = i
	}
	sort.SliceStable(order, func(a, b int) bool {
		ma, mb := sc.msgs[order[a]], sc.msgs[order[b]]
		ka, kb := 2*ma.minHeight(), 2*mb.minHeight()
		if ma.confirm > 0 {
			ka++
		}
		if mb.confirm > 0 {
			kb++
		}
		return ka < kb
	})
	for _, i := range order {
		w.deliver(i, -1)
		w.drain()
	}
	o := w.observe()
	r := refState{o.curHash, o.stableHash, o.cur, o.stable}
	if r.cur != w.sg.hash[sc.nblocks] {
		panic(fmt.Sprintf("harness: the in-order node of scenario %s does not reach the tip of the segment (current height %d)", sc.name, o.cur))
	}
	if len(w.viols) > 0 {
		panic(fmt.Sprintf("harness: the in-order run of scenario %s violates a check: %v", sc.name, w.viols[0].What))
	}
	refCache[sc.name] = r
	return r
}

// finalCheck is destructive: it drains the instance and compares with the in-order node.
func (w *bworld) finalCheck() {
	ref := reference(w.sc) // (cached: runB computed it before this instance was created)
	w.drain()
	o := w.observe()
	suffix := ""
	if len(w.injectedKinds) > 0 {
		suffix = "/with-" + strings.Join(sortedKeys(w.injectedKinds), "+")
	}
	diff := []string{}
	if o.curHash != ref.cur {
		diff = append(diff, "current")
	}
	if o.stableHash != ref.stable {
		diff = append(diff, "stable")
	}
	if len(diff) > 0 {
		w.viol("sync/final-state-differs/"+strings.Join(diff, "+")+suffix,
			fmt.Sprintf("%s: after all messages were delivered and everything was drained the node is at current=%d stable=%d, the node that received the same messages in order is at current=%d stable=%d; block cache %s, %d cached confirmation(s); history %v",
				w.sc.name, o.cur, o.stable, ref.curH, ref.stableH, w.groupString(o.groups), len(o.cached), w.hist))
	}
	for _, g := range o.groups {
		for _, x := range g.Hashes {
			h := w.sg.heightOf(x)
			if h > o.stable {
				w.viol("sync/block-left-in-cache-after-drain"+suffix, fmt.Sprintf("%s: block %d is still in the block cache after everything was delivered and drained (current=%d stable=%d, cache %s); history %v", w.sc.name, h, o.cur, o.stable, w.groupString(o.groups), w.hist))
			}
		}
	}
	for _, c := range o.cached {
		if int(c.Height) > o.stable && w.n.BC.HasBlock(c.Hash) {
			w.viol("sync/confirm-left-in-cache-for-known-block"+suffix, fmt.Sprintf("%s: a confirmation of block %d is still in the confirmation cache although the block is in the chain and not stable (current=%d stable=%d); history %v", w.sc.name, c.Height, o.cur, o.stable, w.hist))
		}
	}
	w.checkKept(o, "drain")
	hit("terminal-checks")
}

// ---------------------------------------------------------------------------------------------

func parseEvent(e string) (base string, inj int) {
	inj = -1
	if i := strings.Index(e, "^"); i >= 0 {
		inj, _ = strconv.Atoi(e[i+1:])
		e = e[:i]
	}
	return e, inj
}

func (w *bworld) apply(e string) (nondet string) {
	if i := strings.Index(e, "~"); i >= 0 {
		// "m<j>~<event>": <event> runs inside the delivery of confirmation message j, between the handler's
		// look at the chain and its push into the confirmation cache
		j, err := strconv.Atoi(strings.TrimPrefix(e[:i], "m"))
		if err != nil || j < 0 || j >= len(w.sc.msgs) || w.sc.msgs[j].confirm == 0 || w.delivered[j] != 0 {
			return "bad nested event " + e
		}
		w.nested, w.nestedHash = e[i+1:], w.sg.hash[w.sc.msgs[j].confirm]
		w.deliver(j, -1)
		if w.nested != "" {
			// the handler did not ask the chain for this block (a changed tree may decide differently):
			// nothing ran in between, this was the plain delivery of message j
			w.nested = ""
			hit("inject/handler-did-not-look-at-the-chain")
		}
		return ""
	}
	base, inj := parseEvent(e)
	switch {
	case base == "tick":
		w.tick()
	case strings.HasPrefix(base, "m"):
		i, err := strconv.Atoi(base[1:])
		if err != nil || i < 0 || i >= len(w.sc.msgs) {
			return "unknown event " + e
		}
		if w.delivered[i] >= 2 || (w.delivered[i] == 1 && w.dupSpent) {
			return "message delivered too often: " + e
		}
		w.deliver(i, inj)
	case strings.HasPrefix(base, "t:"):
		l := base[2:]
		idx := -1
		for i, x := range w.labels {
			if x == l {
				idx = i
				break
			}
		}
		if idx < 0 {
			return fmt.Sprintf("no pending task %q (pending %v)", l, w.labels)
		}
		ch := 0
		if strings.HasPrefix(l, "cf:") {
			ch, _ = strconv.Atoi(l[3:])
		}
		w.inject = inj
		w.runTask(idx)
		w.inject = -1
		w.settle(ch)
	case strings.HasPrefix(base, "n:"):
		h, _ := strconv.Atoi(base[2:])
		idx := -1
		for i, b := range w.notes {
			if int(b.Height()) == h {
				idx = i
				break
			}
		}
		if idx < 0 {
			return "no pending stable notification " + e
		}
		w.notify(idx)
		w.settle(0)
	default:
		return "unknown event " + e
	}
	return ""
}

func (w *bworld) enabled(o bobs) []string {
	var ev []string
	sc := w.sc
	undeliveredConfirm := func(h int) []int {
		var l []int
		if !sc.race || o.inChain[h] {
			return nil
		}
		for j, m := range sc.msgs {
			if m.confirm == h && w.delivered[j] == 0 {
				l = append(l, j)
			}
		}
		return l
	}
	for i, m := range sc.msgs {
		if w.delivered[i] == 0 || (w.delivered[i] == 1 && !w.dupSpent && !sc.nodup) {
			ev = append(ev, fmt.Sprintf("m%d", i))
			for _, h := range m.blocks {
				for _, j := range undeliveredConfirm(h) {
					ev = append(ev, fmt.Sprintf("m%d^%d", i, j))
				}
			}
		}
	}
	if sc.race {
		for j, m := range sc.msgs {
			h := m.confirm
			if h == 0 || w.delivered[j] != 0 || o.inChain[h] {
				continue
			}
			for i, bm := range sc.msgs {
				if w.delivered[i] == 0 || (w.delivered[i] == 1 && !w.dupSpent && !sc.nodup) {
					for _, x := range bm.blocks {
						if x == h {
							ev = append(ev, fmt.Sprintf("m%d~m%d", j, i))
						}
					}
				}
			}
			if w.pendingIns(h) {
				ev = append(ev, fmt.Sprintf("m%d~t:ins:%d", j, h))
			}
		}
	}
	if len(o.groups) > 0 {
		ev = append(ev, "tick")
	}
	seen := map[string]bool{}
	for _, l := range w.labels {
		if seen[l] {
			continue
		}
		seen[l] = true
		ev = append(ev, "t:"+l)
		if strings.HasPrefix(l, "ins:") {
			h, _ := strconv.Atoi(l[4:])
			for _, j := range undeliveredConfirm(h) {
				ev = append(ev, fmt.Sprintf("t:%s^%d", l, j))
			}
		}
	}
	seenN := map[int]bool{}
	for _, b := range w.notes {
		if h := int(b.Height()); !seenN[h] {
			seenN[h] = true
			ev = append(ev, fmt.Sprintf("n:%d", h))
		}
	}
	return ev
}

// runB replays a history of scenario sc on a fresh node.
func runB(sc *scenario, hist []string, trace bool) core.Outcome {
	hit("histories/" + sc.name)
	ref := reference(sc) // built before this instance: one protocol manager at a time is on the event bus
	w := newWorld(sc, trace)
	defer w.close()
	w.hist = hist
	var out core.Outcome
	if trace {
		fmt.Printf("scenario %s: messages %v, node=%s, in-order node ends at current=%d stable=%d\n", sc.name, w.msgNames(), sc.self, ref.curH, ref.stableH)
	}
	for i, e := range hist[1:] {
		if nd := w.apply(e); nd != "" {
			return core.Outcome{Nondet: fmt.Sprintf("event %d (%s): %s", i, e, nd)}
		}
		o := w.observe()
		if trace {
			fmt.Printf("  %-10s -> %s\n", e, w.key(o))
		}
		w.checkKept(o, e)
	}
	o := w.observe()
	key := w.key(o)
	en := w.enabled(o)
	out.Tags = append(out.Tags, fmt.Sprintf("B/%s/cur=%d/st=%d/cached=%d", sc.name, o.cur, o.stable, o.cacheBlocks))
	if w.complete() {
		w.finalCheck()
		if trace {
			fo := w.observe()
			fmt.Printf("  (drained)  -> current=%d stable=%d block cache %q, %d cached confirmation(s)\n", fo.cur, fo.stable, w.groupString(fo.groups), len(fo.cached))
		}
	}
	out.Violations = w.viols
	if len(w.viols) == 0 {
		out.Key = key
		out.Enabled = en
	}
	return out
}

// watchdog for replays run by hand (the explorer has its own per-history limit)
func replayWatchdog() {
	go func() {
		time.Sleep(5 * time.Minute)
		buf := make([]byte, 1<<20)
		n := runtime.Stack(buf, true)
		os.Stderr.Write(buf[:n])
		fmt.Println("HANG: the replay did not finish within 5 minutes")
		os.Exit(1)
	}()
}

// C10 — election integrity: at every block the published top-candidate list equals the full sort
// (votes descending, ties by address ascending) of all currently registered candidates according to
// that block's account state, cut to the maximum size; the deputy list of a term-snapshot block is
// the first N entries of the list at its parent, ranks 0..N-1, votes non-increasing, loadable as a
// term by every node; on every fork; the same for a node that restarted as for one that did not.
//
// Engine E2 (explicit-state BFS over event histories on the real objects, a fresh database / fresh
// nodes per history). The first event of a history names a scenario (sub-alphabet + bounds).
//
// Layer A (layera.go): store.ChainDatabase with the list limit lowered to 3, driven through the real
// account.Manager (setters of candidate_vote_tx.go, MergeChangeLogs, Finalise, Save ->
// CandidatesRanking). Events: nb/ns/nc P ops (block on live parent P; left unconfirmed / stabilised
// at once / process death inside its stabilisation), st B, rs (clean stop + reopen).
// Layer B (layerb.go): whole nodes, real register / vote / unregister / transfer transactions, a
// short term (TermDuration 4, InterimDuration 1), two deputies per term of three list slots; one node
// never restarts, its twin is restarted by rs events.
package main

import (
	"encoding/json"
	"fmt"
	"os"
	"os/exec"
	"path/filepath"
	"sort"
	"strconv"
	"strings"
	"sync"
	"time"

	"verifmc/core"
	"verifmc/node"
	"verifmc/vorder"

	"github.com/LemoFoundationLtd/lemochain-core/chain/params"
	"github.com/LemoFoundationLtd/lemochain-core/store"
)

const prop = "C10"

type replayT struct {
	History []string `json:"history"`
	FoundAs []string `json:"found_as,omitempty"`
}

// ---------------------------------------------------------------------------------------------
// tiers

func addA(s *scenA) { scenariosA[s.Name] = s }

var prefix3 = []string{"ns 0 r:c1=3+r:c2=2+r:c3=1"}

func setTier() {
	th := core.Thorough()
	pick := func(q, t int) int {
		if th {
			return t
		}
		return q
	}
	all5 := []string{"g", "c1", "c2", "c3", "c4"}
	// fill: from the genesis list [g:0] upwards — the list fills, overflows, empties again
	addA(&scenA{Name: "A:fill", Cands: []string{"g", "c1", "c2", "c3"}, Votes: []int64{0, 1, 2}, RegVotes: []int64{1, 2}, MaxOps: 1,
		MaxRestarts: 1, Depth: pick(4, 7)})
	// full1: a full list with one candidate outside; one op per block incl. touches; restart anywhere
	addA(&scenA{Name: "A:full1", Cands: all5, Votes: []int64{0, 1, 2, 3}, RegVotes: []int64{1, 3}, MaxOps: 1, Touch: true, RegUnreg: true,
		MaxRestarts: 1, Depth: pick(3, 4), Prefix: prefix3})
	// full2: two ops per block (unregister + register, two unregisters, up + down …)
	addA(&scenA{Name: "A:full2", Cands: all5, Votes: []int64{0, 1, 2, 3}, RegVotes: []int64{1, 3}, MaxOps: 2,
		MaxRestarts: 1, Depth: 2, Prefix: prefix3})
	// chain: unconfirmed chains, stabilisation of several blocks at once, two restarts
	addA(&scenA{Name: "A:chain", Cands: all5, Votes: []int64{0, 1, 3}, RegVotes: []int64{2}, MaxOps: 1, Unconf: true, MaxUnconf: 3,
		MaxRestarts: 2, Depth: 3, Prefix: prefix3})
	// fork: any live parent, forks pruned by stabilisation
	addA(&scenA{Name: "A:fork", Cands: []string{"g", "c1", "c3", "c4"}, Votes: []int64{1, 4}, RegVotes: []int64{2}, MaxOps: 1, Empty: true,
		AnyParent: true, Unconf: true, MaxUnconf: 4, MaxRestarts: 1, Depth: 3, Prefix: prefix3})
	// crash: process death inside SetStableBlock
	addA(&scenA{Name: "A:crash", Cands: all5, Votes: []int64{0, 1, 2, 3}, RegVotes: []int64{1, 3}, MaxOps: 1, Crash: true,
		MaxRestarts: 1, Depth: pick(2, 4), Prefix: prefix3})
	// wide: one block with up to three ops over six candidates, on a never restarted and on a restarted database
	wide := []string{"g", "c1", "c2", "c3", "c4", "c5"}
	addA(&scenA{Name: "A:wide", Cands: wide, Votes: []int64{0, 1, 2, 3}, RegVotes: []int64{1, 2, 3}, MaxOps: pick(2, 3), Touch: true,
		Depth: 1, Prefix: prefix3})
	addA(&scenA{Name: "A:wide-rs", Cands: wide, Votes: []int64{0, 1, 2, 3}, RegVotes: []int64{1, 2, 3}, MaxOps: pick(2, 3), Touch: true,
		Depth: 1, Prefix: append(append([]string{}, prefix3...), "rs")})
	if th {
		addA(&scenA{Name: "A:full2d", Cands: []string{"c1", "c2", "c3", "c4"}, Votes: []int64{1, 3}, RegVotes: []int64{1, 3}, MaxOps: 2,
			MaxRestarts: 1, Depth: 3, Prefix: prefix3})
		addA(&scenA{Name: "A:fork4", Cands: []string{"c1", "c3", "c4"}, Votes: []int64{1, 4}, RegVotes: []int64{2}, MaxOps: 1, Empty: true,
			AnyParent: true, Unconf: true, MaxUnconf: 4, MaxRestarts: 1, Depth: 4, Prefix: prefix3})
		addA(&scenA{Name: "A:tree", Cands: []string{"c1", "c4"}, Votes: []int64{1}, RegVotes: []int64{2}, MaxOps: 1,
			AnyParent: true, Unconf: true, MaxUnconf: 6, MaxRestarts: 1, Depth: 6, Prefix: prefix3})
	}
	// the scenario the shrinker and hand-written replays use: no prefix, everything executable is allowed
	scenariosA["A:free"] = &scenA{Name: "A:free", Cands: wide, Votes: []int64{0, 1, 2, 3, 4}, RegVotes: []int64{1, 2, 3}, MaxOps: 3, Touch: true, RegUnreg: true,
		Empty: true, AnyParent: true, Unconf: true, MaxUnconf: 9, MaxRestarts: 9, Crash: true, Depth: 0}
	setTierB(th)
	// other map iteration orders: the blocks with several ops / several transactions are where a map
	// holds several keys (VoteTop.MergeCandidates, the persisted-candidate cache at startup,
	// Manager.Save, MergeChangeLogs, ChangeVotesByBalance)
	for p := 2; p <= vorder.Policies; p++ {
		orderVariants = append(orderVariants, fmt.Sprintf("A:wide@p%d", p), fmt.Sprintf("A:wide-rs@p%d", p))
	}
	if th {
		orderVariants = append(orderVariants, "A:full2@p2", "A:full2d@p2", "A:chain@p2", "B:pairs@p2", "B:term@p2")
	}
}

// orderVariants: scenarios that are explored a second time (or more) under other controlled map
// iteration orders ("<scenario>@p<policy>", see mc/vorder). Every other history runs under policy 1
// (every instrumented map loop in sorted key order), so that the exploration is deterministic.
var orderVariants []string

// splitScenario separates "<scenario>@p<N>" into the scenario name and the iteration-order policy.
func splitScenario(name string) (base string, policy int) {
	if i := strings.Index(name, "@p"); i >= 0 {
		p, err := strconv.Atoi(name[i+2:])
		if err != nil || p < 1 || p > vorder.Policies {
			panic(errInvalidHistory)
		}
		return name[:i], p
	}
	return name, 1
}

// rootEvents: layer B first (its snapshot blocks sit deep in a history; when a deadline cuts a depth
// short, the cut falls on the wide layer A scenarios), then layer A, then the order variants.
func rootEvents() []string {
	var a, b []string
	for n := range scenariosA {
		if n != "A:free" {
			a = append(a, n)
		}
	}
	for n := range scenariosB {
		if !strings.HasPrefix(n, "B:free") {
			b = append(b, n)
		}
	}
	sort.Strings(a)
	sort.Strings(b)
	v := append([]string{}, orderVariants...)
	sort.Strings(v)
	return append(append(b, a...), v...)
}

// ---------------------------------------------------------------------------------------------

func run(hist []string) core.Outcome {
	if len(hist) == 0 {
		return core.Outcome{Key: "root", Enabled: rootEvents()}
	}
	_, policy := splitScenario(hist[0])
	vorder.SetPolicy(policy)
	defer vorder.SetPolicy(1)
	switch {
	case strings.HasPrefix(hist[0], "A:"):
		return runLayerA(hist)
	case strings.HasPrefix(hist[0], "B:"):
		return runLayerB(hist)
	}
	panic("harness: unknown scenario " + hist[0])
}

var safe core.RunFunc

// ---------------------------------------------------------------------------------------------
// shrinking. A failing history is first rewritten into the free scenario of its layer (the
// scenario's prefix becomes ordinary events), then events and single ops are removed greedily while
// a violation of the same class remains. The fingerprint is class + shape of the minimal history.

func class(fp string) string {
	if i := strings.Index(fp, "/min="); i >= 0 {
		fp = fp[:i]
	}
	return fp
}

func createsBlock(ev string) bool {
	return strings.HasPrefix(ev, "nb ") || strings.HasPrefix(ev, "ns ") || strings.HasPrefix(ev, "nc ")
}

// removeEventA drops event i of a layer A history; dropping a block re-attaches later references to
// it to its parent and renumbers the blocks created after it (the replay rejects what is not executable).
func removeEventA(h []string, i int) []string {
	cand := append(append([]string{}, h[:i]...), h[i+1:]...)
	if !createsBlock(h[i]) {
		return cand
	}
	id := 1
	for _, e := range h[1:i] {
		if createsBlock(e) {
			id++
		}
	}
	parent, _ := strconv.Atoi(strings.Fields(h[i])[1])
	for j := i; j < len(cand); j++ {
		f := strings.Fields(cand[j])
		if len(f) < 2 {
			continue
		}
		n, _ := strconv.Atoi(f[1])
		if n == id {
			n = parent
		} else if n > id {
			n--
		}
		f[1] = strconv.Itoa(n)
		cand[j] = strings.Join(f, " ")
	}
	return cand
}

func kindSeqA(evs []string) string {
	l := make([]string, len(evs))
	for i, e := range evs {
		f := strings.Fields(e)
		l[i] = f[0]
		if len(f) == 3 {
			l[i] = f[0] + "[" + opKinds(parseOps(f[2])) + "]"
		}
	}
	return strings.Join(l, ",")
}

func toFree(hist []string) []string {
	base, policy := splitScenario(hist[0])
	suffix := ""
	if policy != 1 {
		suffix = fmt.Sprintf("@p%d", policy)
	}
	if strings.HasPrefix(base, "A:") {
		sc := scenariosA[base]
		out := []string{"A:free" + suffix}
		out = append(out, sc.Prefix...)
		return append(out, hist[1:]...)
	}
	free := "B:free"
	if scenariosB[base] != nil && scenariosB[base].Prefix == "tie" {
		free = "B:free-tie"
	}
	return append([]string{free + suffix}, hist[1:]...)
}

func minimise(o core.Outcome, hist []string) core.Outcome {
	layerA := strings.HasPrefix(hist[0], "A:")
	for vi, v := range o.Violations {
		if strings.Contains(v.Fingerprint, "/panic/") {
			continue
		}
		cl := class(v.Fingerprint)
		var hit core.Violation
		fails := func(c []string) bool {
			count("shrink_runs", 1)
			for _, w := range safe(c).Violations {
				if class(w.Fingerprint) == cl {
					hit = w
					return true
				}
			}
			return false
		}
		free := toFree(hist)
		if !fails(free) {
			// the class does not survive the translation (should not happen): keep the original
			o.Violations[vi].Fingerprint = cl + "/min=unshrunk"
			continue
		}
		var min []string
		if layerA {
			min = core.Shrink(free, 1, removeEventA, fails)
			// single ops of a block
			for changed := true; changed; {
				changed = false
				for i := 1; i < len(min); i++ {
					f := strings.Fields(min[i])
					if len(f) != 3 || f[2] == "-" {
						continue
					}
					ops := strings.Split(f[2], "+")
					for k := range ops {
						rest := append(append([]string{}, ops[:k]...), ops[k+1:]...)
						w := strings.Join(rest, "+")
						if w == "" {
							w = "-"
						}
						cand := append([]string{}, min...)
						cand[i] = f[0] + " " + f[1] + " " + w
						if fails(cand) {
							min = cand
							changed = true
							break
						}
					}
				}
			}
			// an "ns" that can be an "nb" (the stabilisation is not needed)
			for i := 1; i < len(min); i++ {
				if strings.HasPrefix(min[i], "ns ") {
					cand := append([]string{}, min...)
					cand[i] = "nb " + min[i][3:]
					if fails(cand) {
						min = cand
					}
				}
			}
		} else {
			min = shrinkB(free, fails)
		}
		// the same case must give the same verdict every time
		stable := true
		for k := 0; k < 2; k++ {
			if !fails(min) {
				stable = false
			}
		}
		fp := cl + "/min="
		if layerA {
			fp += kindSeqA(min[1:])
		} else {
			fp += kindSeqB(min[1:])
		}
		if _, policy := splitScenario(min[0]); policy != 1 {
			// the case needed another map iteration order than the sorted one
			fp += fmt.Sprintf("/map-order-policy=%d", policy)
		}
		what := hit.What
		if !stable {
			what += " [NOT REPRODUCIBLE on re-run]"
		} else {
			what += " [minimal history, re-run twice with the same verdict]"
		}
		o.Violations[vi] = core.Violation{Fingerprint: fp, What: what, Replay: replayT{History: min, FoundAs: hist}}
	}
	return o
}

// shrinkAll minimises every violation in a child process of its own (a panic in a goroutine of the
// code under test must not take the parent down), at most Opt.Workers at a time.
func shrinkAll(vs []core.Violation) []core.Violation {
	exe, err := os.Executable()
	must(err)
	dir := core.ScratchDir("c10shrink")
	defer os.RemoveAll(dir)
	out := make([]core.Violation, len(vs))
	sem := make(chan struct{}, core.Opt.Workers)
	var wg sync.WaitGroup
	for i := range vs {
		out[i] = vs[i]
		if strings.Contains(vs[i].Fingerprint, "/panic/") || strings.Contains(vs[i].Fingerprint, "/worker-died/") {
			continue
		}
		wg.Add(1)
		go func(i int) {
			defer wg.Done()
			sem <- struct{}{}
			defer func() { <-sem }()
			file := filepath.Join(dir, fmt.Sprintf("v%d.json", i))
			b, _ := json.Marshal(vs[i])
			must(os.WriteFile(file+".in", b, 0644))
			cmd := exec.Command(exe, "-tier", core.Opt.Tier, "-worker", "shrink", "-out", file)
			cmd.Env = append(os.Environ(), "GOMAXPROCS=2")
			if err := cmd.Run(); err != nil {
				out[i].What += fmt.Sprintf(" [not minimised: the shrinking process failed: %v]", err)
				return
			}
			rb, err := os.ReadFile(file)
			var v core.Violation
			if err != nil || json.Unmarshal(rb, &v) != nil {
				out[i].What += " [not minimised: no result from the shrinking process]"
				return
			}
			out[i] = v
		}(i)
	}
	wg.Wait()
	return out
}

func shrinkWorker() {
	b, err := os.ReadFile(core.Opt.Out + ".in")
	must(err)
	var v struct {
		Fingerprint string  `json:"fingerprint"`
		What        string  `json:"what"`
		Replay      replayT `json:"replay"`
	}
	must(json.Unmarshal(b, &v))
	o := core.Outcome{Violations: []core.Violation{{Fingerprint: v.Fingerprint, What: v.What, Replay: v.Replay}}}
	o = minimise(o, v.Replay.History)
	flushStats()
	cleanupWork()
	rb, _ := json.Marshal(o.Violations[0])
	must(os.WriteFile(core.Opt.Out, rb, 0644))
}

// ---------------------------------------------------------------------------------------------

func loadHistory() []string {
	if h := os.Getenv("C10_HIST"); h != "" { // development convenience: events separated by '|'
		var out []string
		for _, e := range strings.Split(h, "|") {
			out = append(out, strings.TrimSpace(e))
		}
		return out
	}
	if core.Opt.Replay == "" {
		return nil
	}
	var rp replayT
	if err := core.LoadReplay(core.Opt.Replay, &rp); err != nil {
		fmt.Println(err)
		os.Exit(2)
	}
	return rp.History
}

func main() {
	core.ParseFlags()
	node.Quiet()
	node.DropEngineGoroutines() // see mc/node/tasks.go: confirms, feeds and the blacklist are not this property's subject
	store.VerifSetMaxCandidateCount(listLimit)
	params.TermDuration = termDuration
	params.InterimDuration = interimDuration
	setTier()
	safe = core.SafeRun(prop, run)

	if h := loadHistory(); h != nil {
		verbose = true
		fmt.Printf("replay %v\n", h)
		o := safe(h)
		cleanupWork()
		for _, v := range o.Violations {
			fmt.Printf("VIOLATION-REPLAYED %s\n%s\n", v.Fingerprint, v.What)
		}
		if len(o.Violations) > 0 {
			os.Exit(1)
		}
		fmt.Println("no violation")
		return
	}
	if core.Opt.Worker == "shrink" {
		shrinkWorker()
		return
	}
	core.ServeIfWorker(func(h []string) core.Outcome {
		o := safe(h)
		if len(o.Violations) > 0 {
			o.Key = "" // a violating state is not expanded
			o.Enabled = nil
		}
		flushStats()
		return o
	})

	statsDir := core.ScratchDir("c10stats")
	os.Setenv("C10_STATS", statsDir)
	r := core.NewResult(prop, "model_checking")
	r.Rule = ruleText
	r.Assume = assumptions
	sc := map[string]interface{}{}
	maxDepth := 0
	for n, s := range scenariosA {
		if n == "A:free" {
			continue
		}
		sc[n] = s
		if s.Depth > maxDepth {
			maxDepth = s.Depth
		}
	}
	for n, s := range scenariosB {
		if strings.HasPrefix(n, "B:free") {
			continue
		}
		sc[n] = s.describe()
		if d := s.depth(); d > maxDepth {
			maxDepth = d
		}
	}
	for _, v := range orderVariants {
		base, _ := splitScenario(v)
		if s := scenariosA[base]; s != nil && s.Depth > maxDepth {
			maxDepth = s.Depth
		}
		if s := scenariosB[base]; s != nil && s.depth() > maxDepth {
			maxDepth = s.depth()
		}
	}
	r.Extra["map_iteration_order"] = map[string]interface{}{"default_policy": 1, "variants": orderVariants,
		"meaning": "policy 1 = every instrumented map loop in sorted key order, 2 = reversed, 3..6 = the other permutations (all orders for maps of <= 3 keys), see mc/vorder"}
	r.Extra["scenarios"] = sc
	r.Extra["list_size_limit"] = listLimit
	if os.Getenv("C10_NO_BUDGET_CAP") != "" {
		// measurement runs
	} else if core.Thorough() {
		if core.Opt.Budget > 19*time.Minute {
			core.Opt.Budget = 19 * time.Minute
		}
	} else if core.Opt.Budget > 200*time.Second {
		core.Opt.Budget = 200 * time.Second
	}
	core.BFS(r, core.BFSConfig{Prop: prop, Run: safe, MaxDepth: maxDepth + 1, Subprocess: true, RecycleEvery: 2000, PerRunLimit: 180 * time.Second,
		DiedFingerprint: func(hist []string, tail string) *core.Violation {
			for _, l := range strings.Split(tail, "\n") {
				if strings.HasPrefix(l, "panic:") || strings.HasPrefix(l, "fatal error:") {
					if len(l) > 100 {
						l = l[:100]
					}
					return &core.Violation{Fingerprint: prop + "/worker-died/" + l, What: fmt.Sprintf("the process died while executing %v: %s", hist, l), Replay: replayT{History: hist}}
				}
			}
			return nil
		}})

	// the first violation of every class (BFS order: shortest history first) is minimised, each in a
	// process of its own, and re-fingerprinted on the minimal history
	r.Violations = shrinkAll(r.Violations)

	total := collectStats(statsDir)
	os.RemoveAll(statsDir)
	r.Extra["executed_on_implementation"] = total
	paths := map[string]int64{}
	for k, v := range total {
		if strings.HasPrefix(k, "branch:") {
			paths[strings.TrimPrefix(k, "branch:")] = v
		}
	}
	r.Extra["updateTop_paths_hit"] = paths
	// coverage self-check: the branches named in the property's anchors, ties, more candidates than slots
	for _, need := range []string{"branch:list-not-full(merge)", "branch:list-shrunk(re-rank-from-index)", "branch:min-not-lower(merge)",
		"branch:min-lower(re-rank-from-index)", "branch:startup(re-rank-of-persisted-candidates)", "oracle_lists_with_tie",
		"oracle_lists_with_more_candidates_than_slots", "oracle_lists_computed_after_a_restart", "snapshot_blocks_B", "term_loaded_checks"} {
		if total[need] == 0 {
			r.NotExhaustive("coverage self-check: " + need + " was never hit")
		}
	}
	for _, s := range sampleHistories() {
		r.Sample(s)
	}
	cleanupWork()
	core.Finish(r)
}

// sampleHistories runs a few fixed histories in this process and writes out what was observed.
func sampleHistories() []interface{} {
	var out []interface{}
	for _, h := range [][]string{
		{"A:fork", "nb 1 s:c3=4", "nb 1 r:c4=2", "st 2"},
		sampleB,
	} {
		if len(h) == 0 {
			continue
		}
		if strings.HasPrefix(h[0], "A:") && scenariosA[h[0]] == nil {
			continue
		}
		if strings.HasPrefix(h[0], "B:") && scenariosB[h[0]] == nil {
			continue
		}
		lastObserved = nil
		o := safe(h)
		verdict := "property holds on every live block"
		if len(o.Violations) > 0 {
			verdict = "VIOLATION " + o.Violations[0].Fingerprint
		}
		out = append(out, map[string]interface{}{"history": h, "observed": lastObserved, "verdict": verdict})
	}
	return out
}

var lastObserved []string

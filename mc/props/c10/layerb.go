package main

import "verifmc/core"

const (
	termDuration    = 4
	interimDuration = 1
)

type scenB struct{ Name string }

func (s *scenB) describe() interface{} { return s }
func (s *scenB) depth() int            { return 0 }

var scenariosB = map[string]*scenB{}
var sampleB []string

func setTierB(th bool)                                         {}
func runLayerB(hist []string) core.Outcome                     { return core.Outcome{} }
func toFreeB(hist []string) []string                           { return hist }
func shrinkB(h []string, fails func([]string) bool) []string   { return h }
func kindSeqB(evs []string) string                             { return "" }

var ruleText = "TODO"
var assumptions = []string{}

package main

// Layer B: whole nodes, real transactions, a short term. Two observer nodes receive every block:
// F never restarts, O is restarted by rs events (clean stop, reopen: deputynode.NewManager reloads
// the terms from the stored snapshot blocks, the store rebuilds the list from context.data). Blocks
// are built by the real BlockAssembler (ApplyTxs + Finalize + Seal with a real DPoVP as candidate
// loader) on F's state with the key of the deputy whose turn it is, travel as RLP bytes and are
// validated by both nodes' InsertBlock. Genesis has one deputy (d0: every block of term 0 is stable
// at once on every node), the deputy managers take 2 deputies per term, the list has 3 slots.

import (
	"bytes"
	"fmt"
	"math/big"
	"os"
	"sort"
	"strings"
	"time"

	"verifmc/core"
	"verifmc/node"

	"github.com/LemoFoundationLtd/lemochain-core/chain"
	"github.com/LemoFoundationLtd/lemochain-core/chain/account"
	"github.com/LemoFoundationLtd/lemochain-core/chain/consensus"
	"github.com/LemoFoundationLtd/lemochain-core/chain/deputynode"
	"github.com/LemoFoundationLtd/lemochain-core/chain/params"
	"github.com/LemoFoundationLtd/lemochain-core/chain/transaction"
	"github.com/LemoFoundationLtd/lemochain-core/chain/txpool"
	"github.com/LemoFoundationLtd/lemochain-core/chain/types"
	"github.com/LemoFoundationLtd/lemochain-core/common"
	"github.com/LemoFoundationLtd/lemochain-core/common/flag"
	"github.com/LemoFoundationLtd/lemochain-core/store"
)

const (
	termDuration    = 4
	interimDuration = 1
	deputyCount     = 2
)

var (
	kD0 = node.Deputy(0)
	kC1 = node.K("c1")
	kC2 = node.K("c2")
	kC3 = node.K("c3")
	kC4 = node.K("c4")
	kV  = node.User(0) // voter, 1090 LEMO = 5 votes
	kW  = node.User(1) // voter, 300 LEMO = 1 vote
)

type candB struct {
	name string
	key  *node.Key
}

var candsB = []candB{{"d0", kD0}, {"c1", kC1}, {"c2", kC2}, {"c3", kC3}, {"c4", kC4}}

// tie scenario: the four candidate keys in address order play the roles a < b < x < z (see prefixTie)
var tieRole [4]*node.Key

func init() {
	ks := []*node.Key{kC1, kC2, kC3, kC4}
	sort.Slice(ks, func(i, j int) bool { return bytes.Compare(ks[i].Addr[:], ks[j].Addr[:]) < 0 })
	copy(tieRole[:], ks)
}

func nameB(a common.Address) string {
	for _, c := range candsB {
		if c.key.Addr == a {
			return c.name
		}
	}
	switch a {
	case kV.Addr:
		return "V"
	case kW.Addr:
		return "W"
	case node.Founder().Addr:
		return "founder"
	}
	return "addr:" + a.Hex()[2:10]
}

// ---------------------------------------------------------------------------------------------
// transactions

type txDefB struct {
	name string
	kind string
	mk   func(exp uint64) *types.Transaction
}

var txsB = map[string]*txDefB{}

func profileB(k *node.Key, isCandidate string) map[string]string {
	p := node.CandidateProfile(k, "7100")
	p[types.CandidateKeyIsCandidate] = isCandidate
	return p
}

func init() {
	def := func(name, kind string, mk func(exp uint64) *types.Transaction) { txsB[name] = &txDefB{name, kind, mk} }
	min := params.MinCandidateDeposit
	reg := func(k *node.Key, extra int64) func(uint64) *types.Transaction {
		return func(exp uint64) *types.Transaction {
			return node.Register(k, new(big.Int).Add(min, node.Lemo(extra)), profileB(k, "true"), exp)
		}
	}
	topup := func(k *node.Key, lemo int64) func(uint64) *types.Transaction {
		return func(exp uint64) *types.Transaction { return node.Register(k, node.Lemo(lemo), profileB(k, "true"), exp) }
	}
	unreg := func(k *node.Key) func(uint64) *types.Transaction {
		return func(exp uint64) *types.Transaction { return node.Register(k, new(big.Int), profileB(k, "false"), exp) }
	}
	vote := func(from, to *node.Key) func(uint64) *types.Transaction {
		return func(exp uint64) *types.Transaction { return node.Vote(from, to.Addr, exp) }
	}
	xfer := func(from, to *node.Key, lemo int64) func(uint64) *types.Transaction {
		return func(exp uint64) *types.Transaction { return node.Transfer(from, to.Addr, node.Lemo(lemo), exp) }
	}
	def("rC3", "register", reg(kC3, 0))       // 50000 votes
	def("rC3+1", "register", reg(kC3, 100))   // 50001: ties with c2
	def("rC3+3", "register", reg(kC3, 300))   // 50003: between c2 and c1
	def("rC3+5", "register", reg(kC3, 500))   // 50005: above c1
	def("uC2+1", "top-up", topup(kC2, 100))   // 50002
	def("uC2+3", "top-up", topup(kC2, 300))   // 50004: ties with c1
	def("uC2+5", "top-up", topup(kC2, 500))   // 50006: overtakes c1
	def("xC1", "unregister", unreg(kC1))
	def("xC2", "unregister", unreg(kC2))
	def("xD0", "unregister", unreg(kD0))
	def("vVc2", "vote", vote(kV, kC2)) // +5
	def("vVc3", "vote", vote(kV, kC3))
	def("vVc1", "vote", vote(kV, kC1))
	def("vWc2", "vote", vote(kW, kC2)) // +1
	def("vWd0", "vote", vote(kW, kD0))
	def("vVtz", "vote", func(exp uint64) *types.Transaction { return node.Vote(kV, tieRole[3].Addr, exp) }) // tie scenario: V re-votes x -> z
	def("tFV", "transfer-to-voter", xfer(node.Founder(), kV, 1000)) // V: 5 -> 10 votes
	def("tVF", "transfer-from-voter", xfer(kV, node.Founder(), 500)) // V: 5 -> 2 votes
}

func txKinds(spec string) string {
	if spec == "-" {
		return "-"
	}
	var l []string
	for _, n := range strings.Split(spec, ",") {
		d := txsB[n]
		if d == nil {
			panic(errInvalidHistory)
		}
		who := strings.TrimLeft(n, "rxuvt")
		if i := strings.IndexAny(who, "+"); i >= 0 {
			who = who[:i]
		}
		l = append(l, d.kind+"("+who+")")
	}
	return strings.Join(l, ",")
}

const expBaseB = uint64(node.GenesisTime) + 1500

func prefixTxsB() types.Transactions {
	min := params.MinCandidateDeposit
	fo := node.Founder()
	e := expBaseB - 100
	fund := func(k *node.Key, amount *big.Int, i uint64) *types.Transaction { return node.Transfer(fo, k.Addr, amount, e+i) }
	return types.Transactions{
		fund(kV, node.Lemo(1090), 0),
		fund(kW, node.Lemo(300), 1),
		fund(kD0, node.Lemo(100), 2),
		fund(kC1, new(big.Int).Add(min, node.Lemo(2000)), 3),
		fund(kC2, new(big.Int).Add(min, node.Lemo(2000)), 4),
		fund(kC3, new(big.Int).Add(min, node.Lemo(2000)), 5),
		node.Register(kC1, new(big.Int).Add(min, node.Lemo(400)), profileB(kC1, "true"), e+6), // 50004 votes
		node.Register(kC2, new(big.Int).Add(min, node.Lemo(100)), profileB(kC2, "true"), e+7), // 50001 votes
	}
}

// prefixTie: four candidates besides d0. In address order a < b < x < z: a and b register with 50001
// votes, x with 50001 + the 5 votes of V, z with 50004. The list is [x:50006 z:50004 a:50001]; b (same
// votes as a, bigger address) is outside. When V moves its votes from x to z, x falls to 50001 and
// must leave the list in favour of b (b < x by address).
func prefixTie() types.Transactions {
	min := params.MinCandidateDeposit
	fo := node.Founder()
	e := expBaseB - 100
	txs := types.Transactions{node.Transfer(fo, kV.Addr, node.Lemo(1090), e)}
	for i, k := range tieRole {
		txs = append(txs, node.Transfer(fo, k.Addr, new(big.Int).Add(min, node.Lemo(2000)), e+1+uint64(i)))
	}
	dep := []int64{100, 100, 100, 400}
	for i, k := range tieRole {
		txs = append(txs, node.Register(k, new(big.Int).Add(min, node.Lemo(dep[i])), profileB(k, "true"), e+10+uint64(i)))
	}
	return append(txs, node.Vote(kV, tieRole[2].Addr, e+20))
}

// ---------------------------------------------------------------------------------------------
// scenarios

type scenB struct {
	Name         string
	Menu         map[int][]string // height -> blocks ("-" or tx names separated by commas)
	MaxHeight    int
	MaxRestarts  int
	RestartsFrom int    // restarts are events once the head has reached this height
	Prefix       string // "" = fund + register c1, c2; "tie" = prefixTie
	CrashUpTo    int    // "cb" events (block during whose stabilisation the twin node dies) up to this height
}

func heightKind(h int) string {
	switch {
	case h%termDuration == 0:
		return "snapshot"
	case h%termDuration == termDuration-1:
		return "parent-of-snapshot"
	case h > termDuration && h%termDuration == interimDuration+1:
		return "first-of-term"
	case h > termDuration && h%termDuration <= interimDuration:
		return "interim"
	}
	return "normal"
}

func (s *scenB) describe() interface{} {
	menu := map[string][]string{}
	for h, m := range s.Menu {
		menu[fmt.Sprintf("height_%02d(%s)", h, heightKind(h))] = m
	}
	prefix := "height 1: fund V (1090 LEMO = 5 votes), W (300 LEMO = 1 vote), d0, c1..c3; register c1 (50004 votes) and c2 (50001 votes)"
	if s.Prefix == "tie" {
		prefix = "height 1: four candidates, in address order a < b < x < z: a, b 50001 votes, x 50001 + V's 5, z 50004 (list [x z a], b outside on the tie with a)"
	}
	return map[string]interface{}{"block_menu_per_height": menu, "max_height": s.MaxHeight, "max_restarts": s.MaxRestarts, "prefix_block": prefix,
		"blocks_with_the_twin_node_dying_inside_stabilisation_up_to_height": s.CrashUpTo,
		"restarts_from_height": s.RestartsFrom, "term_duration": termDuration, "interim_duration": interimDuration,
		"deputies_per_term": deputyCount, "list_slots": listLimit,
		"txs": "r=register(deposit: min / +100 / +300 / +500 LEMO), u=top-up, x=unregister, v=vote/re-vote, t=transfer to/from the voter V"}
}

func (s *scenB) depth() int { return s.MaxHeight - 1 + s.MaxRestarts }

func (s *scenB) prefixTxs() types.Transactions {
	if s.Prefix == "tie" {
		return prefixTie()
	}
	return prefixTxsB()
}

var scenariosB = map[string]*scenB{}
var sampleB []string

func setTierB(th bool) {
	one := []string{"-", "rC3+3", "rC3+5", "uC2+3", "xC1", "xD0", "vVc2", "vWc2"}
	if th {
		scenariosB["B:term"] = &scenB{Name: "B:term", MaxHeight: 6, MaxRestarts: 1, Menu: map[int][]string{
			2: one, 3: one, 4: append(append([]string{}, one...), "uC2+5"), 5: {"-", "xC1"}, 6: {"-"}}}
		pairs := []string{"-", "rC3+3", "uC2+1", "xC1", "xD0", "vVc2", "vWc2", "tFV", "rC3", "rC3+1", "vVc2,vWc2", "xC1,rC3+3", "uC2+1,vWc2", "vVc2,xC1",
			"tFV,vVc2", "xD0,rC3", "rC3+3,vVc3", "xC1,xC2", "tVF,vWc2", "xC1,xD0", "vWd0,xD0"}
		scenariosB["B:pairs"] = &scenB{Name: "B:pairs", MaxHeight: 6, MaxRestarts: 1, Menu: map[int][]string{
			2: {"-"}, 3: pairs, 4: pairs, 5: {"-"}, 6: {"-"}}}
		scenariosB["B:two-terms"] = &scenB{Name: "B:two-terms", MaxHeight: 10, MaxRestarts: 1, RestartsFrom: 4, Menu: map[int][]string{
			2: {"-"}, 3: {"-", "rC3+5", "xD0"}, 4: {"-"}, 5: {"-"}, 6: {"-", "rC3+3"}, 7: {"-", "vVc2", "xC1", "uC2+3", "rC3+5"},
			8: {"-", "vVc2", "xC1", "uC2+3", "rC3+5"}, 9: {"-"}, 10: {"-"}}}
	} else {
		scenariosB["B:term"] = &scenB{Name: "B:term", MaxHeight: 6, MaxRestarts: 1, Menu: map[int][]string{
			2: {"-", "rC3+3", "xC1"}, 3: {"-", "rC3+5", "uC2+3", "xC1", "xD0", "vWc2"}, 4: {"-", "uC2+3", "xC1", "vVc2", "uC2+5"}, 5: {"-"}, 6: {"-"}}}
	}
	// tie: a listed candidate falls back to the votes of the last listed one (real re-vote transaction)
	scenariosB["B:tie"] = &scenB{Name: "B:tie", Prefix: "tie", MaxHeight: 3, MaxRestarts: 1, Menu: map[int][]string{2: {"-", "vVtz"}, 3: {"-", "vVtz"}}}
	// crash: the twin node dies inside the stabilisation of a block (see layer A, crashInStabilise)
	scenariosB["B:crash"] = &scenB{Name: "B:crash", MaxHeight: 3, MaxRestarts: 0, CrashUpTo: 3, Menu: map[int][]string{
		2: {"-", "rC3+5", "uC2+5", "xC1"}, 3: {"-", "rC3+5", "uC2+5", "xC1", "vWc2"}}}
	scenariosB["B:free"] = &scenB{Name: "B:free", MaxHeight: 14, MaxRestarts: 9, CrashUpTo: 14}
	scenariosB["B:free-tie"] = &scenB{Name: "B:free-tie", Prefix: "tie", MaxHeight: 14, MaxRestarts: 9, CrashUpTo: 14}
	sampleB = []string{"B:term", "b rC3+3", "rs", "b vWc2", "b -", "b -", "b -"}
}


// ---------------------------------------------------------------------------------------------
// nodes

func startB(dir string, self *node.Key, db *store.ChainDatabase) *node.Node {
	dm := deputynode.NewManager(deputyCount, db)
	pool := txpool.NewTxPool()
	bc, err := chain.NewBlockChain(chain.Config{ChainID: node.ChainID, MineTimeout: node.MineTimeout}, dm, db, flag.CmdFlags{}, pool)
	if err != nil {
		panic(err)
	}
	return &node.Node{Dir: dir, Deputies: deputyCount, Self: self, DB: db, DM: dm, Pool: pool, BC: bc}
}

func newNodeB(prefix string, self *node.Key) *node.Node {
	dir := core.ScratchDir(prefix)
	node.SetSelf(self)
	db := node.OpenDB(dir)
	node.SetupGenesis(db, 1)
	return startB(dir, self, db)
}

type worldB struct {
	sc       *scenB
	f, o     *node.Node
	head     *types.Block
	wires    []*types.Block
	restarts int
	crashes  int
	crashing bool
	poisoned bool // O's crash restart found persisted candidate records older than its stable account state (see layer A)
	blocks   int // block events so far
	o1       *core.Outcome
	full     []string
	lastKind string
}

func (w *worldB) close() {
	for _, n := range []*node.Node{w.f, w.o} {
		if n != nil {
			func() {
				defer func() { recover() }()
				n.Destroy()
			}()
			os.RemoveAll(n.Dir)
		}
	}
}

func (w *worldB) viol(fp, what string) {
	w.o1.Violations = append(w.o1.Violations, core.Violation{Fingerprint: prop + "/B/" + fp,
		What: what + fmt.Sprintf(" [history %v]", w.full), Replay: replayT{History: w.full}})
}

func catch(f func()) (err error) {
	defer func() {
		if p := recover(); p != nil {
			err = fmt.Errorf("panic: %v", p)
		}
	}()
	f()
	return nil
}

func firstLine(s string) string {
	if i := strings.IndexByte(s, '\n'); i >= 0 {
		s = s[:i]
	}
	if len(s) > 100 {
		s = s[:100]
	}
	return s
}

// deputiesAt: the deputies entitled to sign blocks at height h according to n's deputy manager.
func deputiesAt(n *node.Node, h uint32) types.DeputyNodes { return n.DM.GetDeputiesByHeight(h, true) }

func keyOfAddr(a common.Address) *node.Key {
	for _, c := range candsB {
		if c.key.Addr == a {
			return c.key
		}
	}
	return nil
}

// build runs the real assembler on n's state of parent: the honest miner's computation.
func build(n *node.Node, parent *types.Block, miner *node.Key, t uint32, txs types.Transactions) (block *types.Block, invalid types.Transactions, err error) {
	node.SetSelf(miner)
	defer n.Use()
	am := account.NewManager(parent.Hash(), n.DB)
	proc := transaction.NewTxProcessor(node.Founder().Addr, node.ChainID, n.BC, am, n.DB, n.DM)
	dp := consensus.NewDPoVP(consensus.Config{ChainID: node.ChainID, MineTimeout: node.MineTimeout, RewardManager: node.Founder().Addr},
		n.DB, n.DM, am, n.BC, txpool.NewTxPool(), txpool.NewTxGuard(parent.Time()))
	asm := consensus.NewBlockAssembler(am, n.DM, proc, dp)
	header, err := asm.PrepareHeader(parent.Header, "")
	if err != nil {
		return nil, nil, fmt.Errorf("PrepareHeader: %v", err)
	}
	header.Time = t
	cl := make(types.Transactions, len(txs))
	for i, tx := range txs {
		cl[i] = tx.Clone()
	}
	return asm.MineBlock(header, cl, node.HugeTimeout)
}

// minerFor picks the deputy (rank order) and the earliest time at which it is in turn on parent.
func (w *worldB) minerFor(parent *types.Block) (*node.Key, uint32) {
	deps := deputiesAt(w.f, parent.Height()+1)
	for _, d := range deps {
		k := keyOfAddr(d.MinerAddress)
		if k == nil {
			continue
		}
		if t, ok := node.SlotTime(w.f.DM, parent, k, len(deps)); ok {
			if t <= parent.Time() {
				t = parent.Time() + 1
				if t2, ok2 := slotAtOrAfter(w.f.DM, parent, k, len(deps), t); ok2 {
					t = t2
				} else {
					continue
				}
			}
			return k, t
		}
	}
	return nil, 0
}

func slotAtOrAfter(dm *deputynode.Manager, parent *types.Block, miner *node.Key, n int, from uint32) (uint32, bool) {
	for t := from; t < from+uint32(n+1)*uint32(node.MineTimeout/1000); t++ {
		addr, err := consensus.GetCorrectMiner(parent.Header, int64(t)*1000, int64(node.MineTimeout), dm)
		if err == nil && addr == miner.Addr {
			return t, true
		}
	}
	return 0, false
}

// ---------------------------------------------------------------------------------------------
// observations

type candStB struct {
	flag    string
	votes   *big.Int
	deposit string
}

type obsB struct {
	node   string
	got    []entry
	want   []entry
	reg    []entry
	index  []entry
	states map[string]candStB
	extra  string // balances / voteFor of the accounts the alphabet uses (state key only)
}

func toEntriesB(l []*store.Candidate) []entry {
	out := make([]entry, len(l))
	for i, c := range l {
		out[i] = entry{nameB(c.Address), c.Address, c.Total.Int64()}
	}
	return out
}

func observeB(n *node.Node, label string, hash common.Hash) obsB {
	o := obsB{node: label, states: map[string]candStB{}}
	o.got = toEntriesB(n.DB.GetCandidatesTop(hash))
	var cb *store.CBlock
	if n.DB.LastConfirm.Block != nil && n.DB.LastConfirm.Block.Hash() == hash {
		cb = n.DB.LastConfirm
	} else {
		cb = n.DB.UnConfirmBlocks[hash]
	}
	if cb != nil {
		o.index = toEntriesB(cb.CandidateTrieDB.GetAll())
		sort.Slice(o.index, func(i, j int) bool { return bytes.Compare(o.index[i].addr[:], o.index[j].addr[:]) < 0 })
	}
	am := account.NewManager(hash, n.DB)
	for _, c := range candsB {
		acc := am.GetAccount(c.key.Addr)
		v := acc.GetVotes()
		if v == nil {
			v = new(big.Int)
		}
		st := candStB{acc.GetCandidateState(types.CandidateKeyIsCandidate), new(big.Int).Set(v), acc.GetCandidateState(types.CandidateKeyDepositAmount)}
		o.states[c.name] = st
		if st.flag == types.IsCandidateNode {
			o.reg = append(o.reg, entry{c.name, c.key.Addr, v.Int64()})
		}
	}
	o.want = fullSort(o.reg, listLimit)
	var ex []string
	for _, k := range []*node.Key{kV, kW, kD0, kC1, kC2, kC3} {
		acc := am.GetAccount(k.Addr)
		ex = append(ex, fmt.Sprintf("%s:%s>%s", nameB(k.Addr), acc.GetBalance(), nameB(acc.GetVoteFor())))
	}
	o.extra = strings.Join(ex, ",")
	return o
}

func (o obsB) stateStr() string {
	var p []string
	for _, c := range candsB {
		s := o.states[c.name]
		if s.flag != "" {
			p = append(p, fmt.Sprintf("%s:%s/%s/%s", c.name, s.flag, s.votes, s.deposit))
		}
	}
	return strings.Join(p, ",")
}

func (o obsB) describe(height uint32, note string) string {
	return fmt.Sprintf("height %d %s (%s): registered %s; GetCandidatesTop = %s; full sort cut to %d = %s; index = %s",
		height, o.node, note, fmtList(sortedByName(o.reg)), fmtList(o.got), listLimit, fmtList(o.want), fmtList(o.index))
}

func sortedByName(l []entry) []entry {
	out := append([]entry{}, l...)
	sort.Slice(out, func(i, j int) bool { return out[i].name < out[j].name })
	return out
}

// diffKindB names what is wrong with a published list (same classes as layer A).
func diffKindB(o obsB, prev map[string]candStB) string {
	for _, e := range o.got {
		s, ok := o.states[e.name]
		if !ok || s.flag != types.IsCandidateNode {
			when := "unregistered-earlier"
			if p, ok := prev[e.name]; ok && p.flag == types.IsCandidateNode {
				when = "unregistered-in-this-block"
			}
			return "lists-unregistered-candidate(" + when + ")"
		}
	}
	for _, e := range o.got {
		if o.states[e.name].votes.Int64() != e.votes {
			return "stale-votes"
		}
	}
	inGot := map[string]bool{}
	for _, e := range o.got {
		inGot[e.name] = true
	}
	var missing []entry
	for _, e := range o.want {
		if !inGot[e.name] {
			missing = append(missing, e)
		}
	}
	if len(missing) > 0 {
		if len(o.got) < len(o.want) {
			return "registered-candidate-missing(list-too-short)"
		}
		inWant := map[string]bool{}
		for _, e := range o.want {
			inWant[e.name] = true
		}
		for _, e := range o.got {
			if !inWant[e.name] {
				for _, m := range missing {
					if m.votes == e.votes {
						return "wrong-member(loses-the-tie-by-address)"
					}
				}
			}
		}
		return "wrong-member(fewer-votes)"
	}
	if len(o.got) > len(o.want) {
		return "too-long"
	}
	return "wrong-order"
}

func fmtDeputies(l types.DeputyNodes) string {
	p := make([]string, len(l))
	for i, d := range l {
		p[i] = fmt.Sprintf("%s#%d:%s", nameB(d.MinerAddress), d.Rank, d.Votes)
	}
	return "[" + strings.Join(p, " ") + "]"
}

func termsOf(dm *deputynode.Manager) string {
	var sb strings.Builder
	for t := uint32(0); ; t++ {
		rec, err := dm.GetTermByHeight(t*termDuration, false)
		if err != nil {
			break
		}
		fmt.Fprintf(&sb, "T%d%s", rec.TermIndex, fmtDeputies(rec.Nodes))
	}
	return sb.String()
}

func (w *worldB) nodeLabel(n *node.Node) string {
	if n == w.f {
		return "F(never restarted)"
	}
	if w.crashes > 0 {
		return fmt.Sprintf("O(restarts=%d, crash-restarts=%d)", w.restarts, w.crashes)
	}
	return fmt.Sprintf("O(restarts=%d)", w.restarts)
}

func (w *worldB) nodeClass(n *node.Node) string {
	if n == w.f {
		return "node-never-restarted"
	}
	if w.restarts > 0 || w.crashes > 0 {
		return "node-restarted"
	}
	return "twin-node-not-yet-restarted"
}

// howB re-evaluates which path of Ranking / updateTop computed the list of block b on a node whose
// list at the parent was parentTop (see pathOfUpdateTop in layer A).
func howB(b *types.Block, parentTop []entry, prev, cur map[string]candStB) string {
	var voteLogs []entry
	for _, l := range b.ChangeLogs {
		if l.LogType == account.VotesLog {
			v := l.NewVal.(big.Int)
			voteLogs = append(voteLogs, entry{nameB(l.Address), l.Address, v.Int64()})
		}
	}
	unreg := map[common.Address]bool{}
	touched := map[common.Address]bool{}
	for _, l := range b.ChangeLogs {
		touched[l.Address] = true
	}
	for _, c := range candsB {
		// collectUnregisters: every account written by this block whose profile says "not a candidate"
		if touched[c.key.Addr] && cur[c.name].flag == types.NotCandidateNode {
			unreg[c.key.Addr] = true
		}
	}
	return pathOfUpdateTop(parentTop, voteLogs, unreg)
}

func indexStateB(o obsB) string {
	in := map[string]bool{}
	for _, e := range o.index {
		in[e.name] = true
	}
	for _, e := range o.reg {
		if !in[e.name] {
			return "index-lacks-registered-candidates"
		}
	}
	return "index-complete"
}

// checkLists evaluates the first clause on both nodes at their head; returns the observations.
// how(node index) names the code path that computed the list being checked.
func (w *worldB) checkLists(note string, prevF map[string]candStB, how func(i int, o obsB) string) (of, oo obsB, ok bool) {
	ok = true
	hash := w.head.Hash()
	obs := make([]obsB, 2)
	reported := map[string]bool{}
	for i, n := range []*node.Node{w.f, w.o} {
		var o obsB
		if err := catch(func() { o = observeB(n, w.nodeLabel(n), hash) }); err != nil {
			w.viol("list-not-readable/"+w.nodeClass(n)+"/"+firstLine(err.Error()), fmt.Sprintf("%s cannot publish the list of its head at height %d: %v", w.nodeLabel(n), w.head.Height(), err))
			return of, oo, false
		}
		obs[i] = o
		h := how(i, o)
		count("branch_B:"+h, 1)
		line := o.describe(w.head.Height(), note+", list computed by "+h)
		lastObserved = append(lastObserved, line)
		if verbose {
			fmt.Println("  " + line)
		}
		count("oracle_B_lists_compared", 1)
		if len(o.reg) > listLimit {
			count("oracle_B_lists_with_more_candidates_than_slots", 1)
		}
		if hasTie(o.reg) {
			count("oracle_B_lists_with_tie", 1)
		}
		if !sameList(o.got, o.want) {
			fp := fmt.Sprintf("top-list/%s/list-computed-by=%s", diffKindB(o, prevF), h)
			if strings.Contains(h, "re-rank-from-index") {
				fp += "/" + indexStateB(o)
			}
			if w.poisoned && n == w.o {
				fp = poisonedClass
			}
			if !reported[fp] { // the twin node failing in the same way is not reported a second time
				w.viol(fp, line)
				reported[fp] = true
			}
			ok = false
		}
	}
	if ok && obs[0].stateStr() != obs[1].stateStr() {
		w.viol("harness/account-states-of-the-two-nodes-differ", fmt.Sprintf("F: %s | O: %s", obs[0].stateStr(), obs[1].stateStr()))
		ok = false
	}
	return obs[0], obs[1], ok
}

// ---------------------------------------------------------------------------------------------
// events

func (w *worldB) restartO() bool {
	dir, self := w.o.Dir, w.o.Self
	w.o.Quiesce()
	w.o.Close()
	w.o = nil
	var n *node.Node
	if err := catch(func() {
		node.SetSelf(self)
		n = startB(dir, self, node.OpenDB(dir))
	}); err != nil {
		os.RemoveAll(dir)
		w.viol("restart-fails/"+firstLine(err.Error()), fmt.Sprintf("the node cannot be started again at height %d: %v", w.head.Height(), err))
		return false
	}
	w.o = n
	w.restarts++
	w.lastKind = "restart"
	count("restart_B", 1)
	if w.o.BC.CurrentBlock().Hash() != w.head.Hash() && !w.crashing {
		w.viol("restart-loses-the-head", fmt.Sprintf("after the restart the head is height %d, before it was %d", w.o.BC.CurrentBlock().Height(), w.head.Height()))
		return false
	}
	return true
}

// confirmIfNeeded hands the co-deputies' confirms to a node when a block of a term with several
// deputies is not stable by the miner's signature alone (so that layer B stays fork-free).
func (w *worldB) confirmIfNeeded(n *node.Node, b *types.Block, miner *node.Key) {
	if n.BC.StableBlock().Hash() == b.Hash() {
		return
	}
	var sigs []types.SignData
	for _, d := range deputiesAt(n, b.Height()) {
		if k := keyOfAddr(d.MinerAddress); k != nil && k != miner {
			sigs = append(sigs, node.SignConfirm(k, b.Hash()))
		}
	}
	n.Use()
	n.BC.InsertConfirms(b.Height(), b.Hash(), sigs)
}

// block builds the next block from spec on F's state, delivers it to both nodes and evaluates the
// oracles. ok=false: stop (violation or nothing to expand).
func (w *worldB) block(spec string, prefix bool, crashO bool) (ok bool) {
	parent := w.head
	height := parent.Height() + 1
	kind := heightKind(int(height))
	var txs types.Transactions
	if prefix {
		txs = w.sc.prefixTxs()
	} else if spec != "-" {
		for j, name := range strings.Split(spec, ",") {
			d := txsB[name]
			if d == nil {
				panic(errInvalidHistory)
			}
			txs = append(txs, d.mk(expBaseB+uint64(w.blocks*8+j)))
		}
	}
	w.lastKind = kind + "[" + txKinds(specOr(spec, prefix)) + "]"
	// the lists at the parent, as the statement defines them (both nodes were checked at the parent)
	parentF := observeB(w.f, "F", parent.Hash())
	parentTops := [][]entry{parentF.got, toEntriesB(w.o.DB.GetCandidatesTop(parent.Hash()))}
	miner, t := w.minerFor(parent)
	if miner == nil {
		w.viol("no-miner/"+kind, fmt.Sprintf("no deputy of the term in charge at height %d has a key of the fixture or a slot: deputies %s", height, fmtDeputies(deputiesAt(w.f, height))))
		return false
	}
	var b *types.Block
	var invalid types.Transactions
	var err error
	if perr := catch(func() { b, invalid, err = build(w.f, parent, miner, t, txs) }); perr != nil {
		err = perr
	}
	if err != nil {
		w.viol("block-not-producible/"+kind+"/"+firstLine(err.Error()), fmt.Sprintf("the assembler cannot produce block %d %q on the never restarted node's state: %v", height, spec, err))
		return false
	}
	if len(invalid) > 0 || len(b.Txs) != len(txs) {
		if prefix {
			panic(fmt.Sprintf("harness: prefix block lost %d transactions", len(invalid)))
		}
		// the assembler refused a transaction: the block that was produced is a shorter list, explored under its own name
		w.o1.Tags = append(w.o1.Tags, "B/discarded/"+txKinds(spec))
		count("blocks_B_with_discarded_tx", 1)
		return false
	}
	count("blocks_B", 1)
	if kind == "first-of-term" {
		count("first_blocks_of_a_new_term_B", 1)
	}
	// the restarted node computes the same block from its own state
	if deputynode.IsSnapshotBlock(height) {
		var bo *types.Block
		if perr := catch(func() { bo, _, err = build(w.o, parent, miner, t, txs) }); perr != nil || err != nil {
			w.viol("block-not-producible/"+kind+"/"+w.nodeClass(w.o), fmt.Sprintf("the assembler cannot produce block %d %q on %s: %v %v", height, spec, w.nodeLabel(w.o), perr, err))
			return false
		}
		if bo.Hash() != b.Hash() {
			w.viol("nodes-disagree-on-the-snapshot-block/"+w.nodeClass(w.o), fmt.Sprintf("snapshot block %d %q built on F carries deputies %s, built on %s it carries %s", height, spec, fmtDeputies(b.DeputyNodes), w.nodeLabel(w.o), fmtDeputies(bo.DeputyNodes)))
			return false
		}
	}
	wire := node.Wire(b)
	for _, n := range []*node.Node{w.f, w.o} {
		n.Use()
		var ierr error
		if crashO && n == w.o {
			// process death inside SetStableBlock at the rewrite of context.data (as in layer A): that Flush
			// fails, the engine gives up on the block, the process "dies" (stop, reopen)
			good := n.DB.Context.Path
			n.DB.Context.Path = n.Dir + "/no-such-directory/context.data"
			perr := catch(func() { ierr = n.BC.InsertBlock(node.Wire(b)) })
			n.DB.Context.Path = good
			if perr != nil {
				w.viol("crash-injection-panics/"+firstLine(perr.Error()), fmt.Sprintf("%s: %v", w.nodeLabel(n), perr))
				return false
			}
			if ierr == nil {
				// no candidate record in the commit: the crash point does not exist
				w.o1.Tags = append(w.o1.Tags, "B/crash-point-absent")
				count("crash_point_absent_B", 1)
				return false
			}
			count("crash_inside_stabilise_B", 1)
			w.crashing = true
			rok := w.restartO()
			w.crashing = false
			if !rok {
				return false
			}
			w.restarts-- // counted as a crash, not as a clean restart event
			w.crashes++
			if pers, perr := w.o.DB.Context.GetCandidates(); perr == nil {
				have := map[string]int64{}
				for _, e := range toEntriesB(pers) {
					have[e.name] = e.votes
				}
				for _, e := range observeB(w.o, "O", b.Hash()).reg {
					if v, ok := have[e.name]; !ok || v != e.votes {
						if !w.poisoned {
							count("crash_leaves_stale_persisted_candidate_records_B", 1)
						}
						w.poisoned = true
					}
				}
			}
			w.lastKind = "crash-in-" + kind + "[" + txKinds(spec) + "]"
			if w.o.BC.StableBlock().Hash() != b.Hash() {
				// the pointer had not moved: accounts ahead of the pointer, C08's subject (see layer A)
				w.o1.Tags = append(w.o1.Tags, "B/crash-before-pointer-move")
				count("crash_before_stable_pointer_moved_B(C08,not-judged)", 1)
				return false
			}
			continue
		}
		if perr := catch(func() { ierr = n.BC.InsertBlock(node.Wire(b)) }); perr != nil {
			ierr = perr
		}
		if ierr == nil && n.BC.CurrentBlock().Hash() != b.Hash() {
			ierr = fmt.Errorf("accepted but not the new head")
		}
		if ierr != nil {
			w.viol("honest-block-refused/"+kind+"/"+w.nodeClass(n)+"/"+firstLine(ierr.Error()), fmt.Sprintf("%s refuses block %d %q (%s, mined by %s, deputies %s): %v", w.nodeLabel(n), height, spec, kind, nameB(miner.Addr), fmtDeputies(b.DeputyNodes), ierr))
			return false
		}
		if perr := catch(func() { w.confirmIfNeeded(n, b, miner) }); perr != nil {
			w.viol("confirm-panics/"+kind+"/"+firstLine(perr.Error()), fmt.Sprintf("%s panics when block %d %q is confirmed: %v", w.nodeLabel(n), height, spec, perr))
			return false
		}
		if n.BC.StableBlock().Hash() != b.Hash() {
			w.viol("harness/block-not-stable", fmt.Sprintf("block %d is not stable on %s after the co-deputies' confirms", height, w.nodeLabel(n)))
			return false
		}
		n.Quiesce()
	}
	w.head = b
	w.wires = append(w.wires, wire)
	w.blocks++
	of, _, ok := w.checkLists("after-"+kind+"-block", parentF.states, func(i int, o obsB) string {
		if crashO && i == 1 {
			return "startup-after-crash-at-context.data-flush"
		}
		return howB(b, parentTops[i], parentF.states, o.states)
	})
	if !ok && !continuePastLists {
		return false
	}
	line := fmt.Sprintf("after block %d (%s, mined by %s): terms F %s | O %s", height, kind, nameB(miner.Addr), termsOf(w.f.DM), termsOf(w.o.DM))
	lastObserved = append(lastObserved, line)
	if verbose {
		fmt.Println("  " + line)
	}
	if deputynode.IsSnapshotBlock(height) {
		if !w.checkSnapshot(b, parentF, of, spec) {
			return false
		}
	}
	if termsOf(w.f.DM) != termsOf(w.o.DM) {
		w.viol("terms-differ/"+w.nodeClass(w.o), line)
		return false
	}
	return true
}

// continuePastLists (C10_CONTINUE=1, hand replays only): a wrong list does not end the run, so that
// its consequences (nodes that disagree on a snapshot block, a stuck node) can be written out.
var continuePastLists = os.Getenv("C10_CONTINUE") != ""

func specOr(spec string, prefix bool) string {
	if prefix {
		return "-"
	}
	return spec
}

// checkSnapshot: the second clause, on the accepted snapshot block b.
func (w *worldB) checkSnapshot(b *types.Block, parent obsB, post obsB, spec string) bool {
	count("snapshot_blocks_B", 1)
	want := parent.want
	if len(want) > deputyCount {
		want = want[:deputyCount]
	}
	if len(parent.want) > deputyCount {
		count("snapshot_with_more_listed_than_deputies", 1)
	}
	line := fmt.Sprintf("snapshot block %d mined with %q: DeputyNodes %s; published list of its parent %s", b.Height(), spec, fmtDeputies(b.DeputyNodes), fmtList(parent.got))
	lastObserved = append(lastObserved, line)
	if verbose {
		fmt.Println("  " + line)
	}
	bad := ""
	if len(b.DeputyNodes) != len(want) {
		bad = "wrong-number-of-deputies"
	}
	votesDiffer := false
	for i, d := range b.DeputyNodes {
		if bad != "" {
			break
		}
		if d.MinerAddress != want[i].addr {
			bad = "not-the-first-N-of-the-parent-list"
		} else if d.Rank != uint32(i) {
			bad = "ranks-not-0..N-1"
		} else if i > 0 && d.Votes.Cmp(b.DeputyNodes[i-1].Votes) > 0 {
			bad = "votes-increasing"
		}
		if k := keyOfAddr(d.MinerAddress); k != nil && !bytes.Equal(d.NodeID, k.NodeID) {
			bad = "node-id-is-not-the-candidate's"
		}
		if d.Votes.Int64() != want[i].votes {
			votesDiffer = true
		}
	}
	if votesDiffer {
		// the votes written into the block are those of the block's own post-state, the membership and
		// ranks those of the parent's list; counted, and a violation only when they are increasing
		count("snapshot_votes_differ_from_parent_list(post-state)", 1)
	}
	if bad != "" {
		w.viol("snapshot/"+bad, line+fmt.Sprintf("; the first %d of the full sort at the parent are %s", deputyCount, fmtList(want)))
		return false
	}
	// every node can load the new term from it
	var rec *deputynode.TermRecord
	if err := catch(func() { rec = deputynode.NewTermRecord(b.Height(), b.DeputyNodes) }); err != nil || rec == nil {
		w.viol("snapshot/term-not-loadable/"+firstLine(fmt.Sprint(err)), line+fmt.Sprintf("; NewTermRecord: %v", err))
		return false
	}
	for _, n := range []*node.Node{w.f, w.o} {
		count("term_loaded_checks", 1)
		got, err := n.DM.GetTermByHeight(b.Height(), false)
		if err != nil || fmtDeputies(got.Nodes) != fmtDeputies(b.DeputyNodes) {
			w.viol("snapshot/term-not-loaded/"+w.nodeClass(n), line+fmt.Sprintf("; %s has terms %s (%v)", w.nodeLabel(n), termsOf(n.DM), err))
			return false
		}
		// a deputy manager built from the stored blocks (what a start does) loads the same terms
		var dm2 *deputynode.Manager
		if err := catch(func() { dm2 = deputynode.NewManager(deputyCount, n.DB) }); err != nil {
			w.viol("snapshot/terms-not-loadable-from-store/"+firstLine(err.Error()), line+fmt.Sprintf("; deputynode.NewManager on the database of %s: %v", w.nodeLabel(n), err))
			return false
		}
		count("term_loaded_checks", 1)
		if termsOf(dm2) != termsOf(n.DM) {
			w.viol("snapshot/terms-from-store-differ/"+w.nodeClass(n), line+fmt.Sprintf("; loaded from the store: %s, in memory: %s", termsOf(dm2), termsOf(n.DM)))
			return false
		}
	}
	return true
}

// freshNode: a node that was not there receives the whole chain.
func (w *worldB) freshNode() bool {
	var n *node.Node
	ok := true
	err := catch(func() {
		n = newNodeB("c10bN", node.K("observerN"))
		for _, b := range w.wires {
			n.Use()
			enc := node.Wire(b)
			if e := n.BC.InsertBlock(enc); e != nil {
				w.viol("fresh-node-refuses-the-chain/"+heightKind(int(b.Height())), fmt.Sprintf("a fresh node refuses block %d (%s): %v", b.Height(), heightKind(int(b.Height())), e))
				ok = false
				return
			}
			if n.BC.StableBlock().Hash() != b.Hash() {
				var sigs []types.SignData
				miner, _ := b.SignerNodeID()
				for _, d := range deputiesAt(n, b.Height()) {
					if k := keyOfAddr(d.MinerAddress); k != nil && !bytes.Equal(k.NodeID, miner) {
						sigs = append(sigs, node.SignConfirm(k, b.Hash()))
					}
				}
				n.BC.InsertConfirms(b.Height(), b.Hash(), sigs)
			}
			n.Quiesce()
		}
		if !ok {
			return
		}
		count("fresh_node_syncs_B", 1)
		if n.BC.StableBlock().Hash() != w.head.Hash() || termsOf(n.DM) != termsOf(w.f.DM) {
			w.viol("fresh-node-ends-elsewhere", fmt.Sprintf("a fresh node that received the chain has stable height %d and terms %s; F has %d and %s", n.BC.StableBlock().Height(), termsOf(n.DM), w.head.Height(), termsOf(w.f.DM)))
			ok = false
			return
		}
		o := observeB(n, "N(fresh)", w.head.Hash())
		if !sameList(o.got, o.want) {
			w.viol("top-list/"+diffKindB(o, nil)+"/fresh-node", o.describe(w.head.Height(), "after-sync"))
			ok = false
		}
	})
	if n != nil {
		func() {
			defer func() { recover() }()
			n.Destroy()
		}()
		os.RemoveAll(n.Dir)
	}
	if err != nil {
		w.viol("fresh-node-panics/"+firstLine(err.Error()), fmt.Sprintf("a fresh node receiving the chain: %v", err))
		return false
	}
	return ok
}

// ---------------------------------------------------------------------------------------------

func (w *worldB) enabled() []string {
	var out []string
	h := int(w.head.Height()) + 1
	if h <= w.sc.MaxHeight {
		for _, m := range w.sc.Menu[h] {
			out = append(out, "b "+m)
			if h <= w.sc.CrashUpTo && m != "-" && w.crashes == 0 {
				out = append(out, "cb "+m)
			}
		}
	}
	if w.restarts < w.sc.MaxRestarts && int(w.head.Height()) >= w.sc.RestartsFrom && w.lastKind != "restart" {
		out = append(out, "rs")
	}
	return out
}

func runLayerB(full []string) (o core.Outcome) {
	base, _ := splitScenario(full[0])
	sc := scenariosB[base]
	if sc == nil {
		panic(errInvalidHistory)
	}
	evs := full[1:]
	w := &worldB{sc: sc, o1: &o, full: full}
	defer w.close()
	defer func() {
		if p := recover(); p != nil {
			if p == errInvalidHistory {
				o = core.Outcome{}
				return
			}
			panic(p)
		}
	}()
	count("histories_B", 1)
	t0 := time.Now()
	w.f = newNodeB("c10bF", node.K("observerF"))
	w.o = newNodeB("c10bO", node.K("observerO"))
	w.head = w.f.BC.Genesis()
	t0 = since("B_nodes", t0)
	if !w.block("-", true, false) {
		if len(o.Violations) == 0 {
			panic("harness: prefix block failed")
		}
		return o
	}
	ok := true
	for i, ev := range evs {
		core.Journal(fmt.Sprintf("%v @%d", full, i))
		if verbose {
			fmt.Printf("event %q\n", ev)
		}
		switch {
		case ev == "rs":
			ok = w.restartO()
			if ok {
				_, _, ok = w.checkLists("after-restart", nil, func(i int, o obsB) string {
					if i == 1 {
						return "startup(re-rank-of-persisted-candidates)"
					}
					return "unchanged"
				})
			}
		case strings.HasPrefix(ev, "b "):
			ok = w.block(ev[2:], false, false)
		case strings.HasPrefix(ev, "cb "):
			ok = w.block(ev[3:], false, true)
		default:
			panic(errInvalidHistory)
		}
		if !ok {
			break
		}
	}
	since("B_events", t0)
	if !ok {
		return o
	}
	t0 = time.Now()
	// a fresh node receives the chain (final state only: every prefix is a history of its own)
	if len(evs) > 0 && strings.HasSuffix(strings.Fields(evs[len(evs)-1])[0], "b") && (strings.HasPrefix(sc.Name, "B:free") || int(w.head.Height())%2 == 0 || int(w.head.Height()) == sc.MaxHeight) {
		if !w.freshNode() {
			return o
		}
	}
	since("B_fresh_node", t0)
	of := observeB(w.f, "F", w.head.Hash())
	oo := observeB(w.o, "O", w.head.Hash())
	pf, _ := w.f.DB.Context.GetCandidates()
	po, _ := w.o.DB.Context.GetCandidates()
	pl := func(l []*store.Candidate) string {
		e := toEntriesB(l)
		sort.Slice(e, func(i, j int) bool { return e[i].name < e[j].name })
		return fmtList(e)
	}
	o.Key = fmt.Sprintf("%s|h=%d|rs=%d/%d|last=%v|%s|%s|F:top%s idx%s pers%s|O:top%s idx%s pers%s|terms %s",
		full[0], w.head.Height(), w.restarts, w.crashes, w.lastKind == "restart", of.stateStr(), of.extra, fmtList(of.got), fmtList(of.index), pl(pf),
		fmtList(oo.got), fmtList(oo.index), pl(po), termsOf(w.o.DM))
	if len(evs) < sc.depth() {
		o.Enabled = w.enabled()
	}
	o.Tags = append(o.Tags, "B/"+w.lastKind)
	return o
}

// ---------------------------------------------------------------------------------------------
// shrinking (layer B): events, then single transactions of a block

func shrinkB(h []string, fails func([]string) bool) []string {
	// a removed block shifts the heights of the following ones: replacing it by an empty block keeps them
	min := append([]string{}, h...)
	for changed := true; changed; {
		changed = false
		for i := len(min) - 1; i >= 1; i-- {
			// drop trailing / any event
			cand := append(append([]string{}, min[:i]...), min[i+1:]...)
			if fails(cand) {
				min = cand
				changed = true
				continue
			}
			if strings.HasPrefix(min[i], "cb ") {
				cand = append([]string{}, min...)
				cand[i] = min[i][1:]
				if fails(cand) {
					min = cand
					changed = true
					continue
				}
			}
			if strings.HasPrefix(min[i], "b ") && min[i] != "b -" {
				cand = append([]string{}, min...)
				cand[i] = "b -"
				if fails(cand) {
					min = cand
					changed = true
					continue
				}
				txs := strings.Split(min[i][2:], ",")
				if len(txs) > 1 {
					for k := range txs {
						rest := append(append([]string{}, txs[:k]...), txs[k+1:]...)
						cand = append([]string{}, min...)
						cand[i] = "b " + strings.Join(rest, ",")
						if fails(cand) {
							min = cand
							changed = true
							break
						}
					}
				}
			}
		}
	}
	return min
}

func kindSeqB(evs []string) string {
	l := make([]string, len(evs))
	h := 1
	for i, e := range evs {
		if e == "rs" {
			l[i] = "rs"
			continue
		}
		h++
		if strings.HasPrefix(e, "cb ") {
			l[i] = "crash-in-" + heightKind(h) + "[" + txKinds(e[3:]) + "]"
			continue
		}
		l[i] = heightKind(h) + "[" + txKinds(e[2:]) + "]"
	}
	return strings.Join(l, ",")
}

var ruleText = "BFS over event histories on the real code, a fresh database / fresh nodes per history; the first event names a scenario (sub-alphabet + bounds). " +
	"Layer A: events nb/ns/nc P ops (block of candidate effects r: register, s: votes change, u: unregister, t: other account change, x: register and unregister in one block, " +
	"on live parent P, left unconfirmed / stabilised at once / with the process dying inside its stabilisation), st B (SetStableBlock of any unconfirmed block), rs (clean stop + reopen), " +
	"executed through account.Manager (the setters the transactions call, MergeChangeLogs, Finalise, Save -> CandidatesRanking) and store.ChainDatabase with the list limit set to 3; " +
	"oracle after every history on every live block of every fork: GetCandidatesTop == full sort (votes desc, address asc) of the registered candidates read from that block's own account view, cut to 3, " +
	"and that account view == the model. Layer B: events = blocks of real transactions (register, top-up, vote, re-vote, unregister, transfer) built by the real assembler with a real DPoVP as candidate loader " +
	"and inserted into two real nodes (one never restarted, one restarted by rs events), TermDuration=4, InterimDuration=1, 2 deputies of 3 list slots; oracle per accepted block on both nodes: list == full sort " +
	"from the node's account state; snapshot block: built identically from both nodes' states, DeputyNodes == first 2 of the full sort at the parent, ranks 0..1, votes non-increasing, NewTermRecord accepts them, " +
	"both nodes and a deputy manager loaded from the store hold the same terms; both nodes accept every block; the next term's blocks are mined by the elected deputies; a fresh node accepts the whole chain. " +
	"A state is the canonical form of (per live block: candidate state, published list, in-memory index content, accounts written) + persisted candidate records + restarts used (A) / " +
	"(height, candidate and voter accounts, list, index and persisted records of both nodes, term list, restarts used) (B); a violating state is not expanded; " +
	"distinct outcome = code path that computed the newest list x number of live blocks, event kind x op kinds (A), block kind x transaction kinds (B)."

var assumptions = []string{
	"restart = clean stop (asynchronous store writer drained, Close, reopen); one crash point is enumerated: process death inside SetStableBlock between the move of the stable pointer and the rewrite of context.data (RunContext.Flush); all other crash points, torn writes and the write-ahead recovery are C08's subject",
	"what a block hands to Ranking: Manager.Save writes every changed account once and passes the VotesLogs that survive MergeChangeLogs, i.e. at most one per account, only when old != new (log_compressor.go), sorted by address; so layer A's ops are one effect per candidate account and block: register (CandidateLog + VotesLog 0->v, v = deposit/100 LEMO >= 50000 > 0), votes change of a registered candidate (VotesLog), unregister (CandidateStateLog isCandidate=false + VotesLog v->0, which vanishes when v was 0, + refund), register and unregister in one block (no VotesLog at all), any other write (no VotesLog); the setters are the ones candidate_vote_tx.go and tx_processor.go call",
	"only the genesis deputy (deposit 0) can be registered with 0 votes: every other candidate keeps floor(deposit/100 LEMO) >= 50000 votes (C11); votes are never negative (C11)",
	"an unregistered candidate never registers again (ErrRegisterAgain) and its votes stay 0 (vote and balance adjustments test isCandidate)",
	"layer A replaces transactions by their effects on the candidate accounts; layer B runs the real transactions and confirms layer A's findings with them",
	"layer B is fork free: blocks of term 0 are stable by the single genesis deputy's signature, blocks of later terms get the co-deputies' confirms at once; forks are layer A's subject",
	"block timestamps lie in the past of the wall clock; no oracle depends on time; the engine's goroutines (feeds, own confirms, blacklist) are dropped",
}

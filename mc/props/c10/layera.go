package main

// Layer A: the real store.ChainDatabase (list limit lowered to 3) driven through the real
// account.Manager, against a map-based model of the candidate accounts.

import (
	"bytes"
	"fmt"
	"math/big"
	"path/filepath"
	"sort"
	"strconv"
	"strings"
	"time"

	"verifmc/core"
	"verifmc/node"

	"github.com/LemoFoundationLtd/lemochain-core/chain/account"
	"github.com/LemoFoundationLtd/lemochain-core/chain/types"
	"github.com/LemoFoundationLtd/lemochain-core/common"
	"github.com/LemoFoundationLtd/lemochain-core/store"
)

const listLimit = 3

// ---------------------------------------------------------------------------------------------
// candidate alphabet. g is the genesis deputy (registered by the real genesis with 0 votes and a
// deposit of 0). c1..c4 share 39 of the 40 nibbles of their index key ("candidate:0x…") and sort
// c1 < c2 < c3 < c4 by address; c5 differs in the first nibble and sorts before all of them, so that
// the order of registration, the order of names and the order of addresses all differ somewhere.

type candDef struct {
	name string
	addr common.Address
}

var candDefs []*candDef
var candByName = map[string]*candDef{}

func init() {
	p39 := "7" + strings.Repeat("c1", 19)
	add := func(name string, a common.Address) {
		c := &candDef{name, a}
		candDefs = append(candDefs, c)
		candByName[name] = c
	}
	add("g", node.Deputy(0).Addr)
	for i := 1; i <= 4; i++ {
		add(fmt.Sprintf("c%d", i), common.HexToAddress("0x"+p39+strconv.Itoa(i)))
	}
	add("c5", common.HexToAddress("0x0"+strings.Repeat("5", 39)))
}

func nameOfAddr(a common.Address) string {
	for _, c := range candDefs {
		if c.addr == a {
			return c.name
		}
	}
	return "addr:" + a.Hex()[2:10]
}

// ---------------------------------------------------------------------------------------------
// scenarios: sub-alphabets with their own bounds (the first event of a history names one)

type scenA struct {
	Name        string   `json:"-"`
	Cands       []string `json:"candidates"`
	Votes       []int64  `json:"votes_values"`
	RegVotes    []int64  `json:"register_votes"`
	MaxOps      int      `json:"max_ops_per_block"`
	Touch       bool     `json:"touch_ops"`
	RegUnreg    bool     `json:"register_and_unregister_in_one_block_ops"`
	Empty       bool     `json:"empty_blocks"`
	AnyParent   bool     `json:"any_live_parent"`
	Unconf      bool     `json:"unconfirmed_blocks"`
	MaxUnconf   int      `json:"max_unconfirmed"`
	MaxRestarts int      `json:"max_restarts"`
	Crash       bool     `json:"crash_events"`
	Depth       int      `json:"depth"`
	Prefix      []string `json:"prefix"`
}

var scenariosA = map[string]*scenA{}

// ---------------------------------------------------------------------------------------------
// model

const (
	regNever = iota
	regYes
	regGone
)

type cst struct {
	reg   int
	votes int64
}

type opA struct {
	kind  string // r register, s set votes, u unregister, t touch, x register+unregister in one block
	cand  string
	votes int64
}

func (o opA) String() string {
	switch o.kind {
	case "r", "s", "x":
		return fmt.Sprintf("%s:%s=%d", o.kind, o.cand, o.votes)
	}
	return o.kind + ":" + o.cand
}

const (
	stUnconf = iota
	stStable // on the stable path (only the last one is queryable)
	stDropped
)

type ablock struct {
	idx, parent int
	height      uint32
	hash        common.Hash
	state       int
	cs          map[string]cst
	ops         []opA
	how         string // which code path computed this block's published list
}

func parseOps(s string) []opA {
	if s == "-" {
		return nil
	}
	var out []opA
	for _, p := range strings.Split(s, "+") {
		k := strings.Index(p, ":")
		if k != 1 {
			panic(errInvalidHistory)
		}
		o := opA{kind: p[:1]}
		rest := p[2:]
		if e := strings.Index(rest, "="); e >= 0 {
			v, err := strconv.ParseInt(rest[e+1:], 10, 64)
			if err != nil {
				panic(errInvalidHistory)
			}
			o.votes = v
			rest = rest[:e]
		}
		o.cand = rest
		if candByName[o.cand] == nil {
			panic(errInvalidHistory)
		}
		out = append(out, o)
	}
	return out
}

func fmtOps(ops []opA) string {
	if len(ops) == 0 {
		return "-"
	}
	l := make([]string, len(ops))
	for i, o := range ops {
		l[i] = o.String()
	}
	return strings.Join(l, "+")
}

func opKinds(ops []opA) string {
	if len(ops) == 0 {
		return "-"
	}
	l := make([]string, len(ops))
	for i, o := range ops {
		l[i] = o.kind
	}
	return strings.Join(l, "+")
}

// opValid says whether the system can produce the effect o on a candidate account in state s.
func opValid(o opA, s cst) bool {
	switch o.kind {
	case "r", "x":
		return s.reg == regNever && o.votes > 0
	case "s":
		// the votes of a registered candidate change; only the genesis deputy (deposit 0) can reach 0
		return s.reg == regYes && o.votes != s.votes && o.votes >= 0 && (o.votes > 0 || o.cand == "g")
	case "u":
		return s.reg == regYes
	case "t":
		return s.reg != regNever
	}
	return false
}

func applyModel(cs map[string]cst, ops []opA) map[string]cst {
	out := make(map[string]cst, len(cs))
	for k, v := range cs {
		out[k] = v
	}
	for _, o := range ops {
		s := out[o.cand]
		switch o.kind {
		case "r":
			s = cst{regYes, o.votes}
		case "s":
			s.votes = o.votes
		case "u", "x":
			s = cst{regGone, 0}
		}
		out[o.cand] = s
	}
	return out
}

type entry struct {
	name  string
	addr  common.Address
	votes int64
}

func fmtList(l []entry) string {
	p := make([]string, len(l))
	for i, e := range l {
		p[i] = fmt.Sprintf("%s:%d", e.name, e.votes)
	}
	return "[" + strings.Join(p, " ") + "]"
}

// fullSort is the statement: all registered candidates, votes descending, ties by address
// ascending, cut to the maximum size.
func fullSort(reg []entry, limit int) []entry {
	l := append([]entry{}, reg...)
	sort.SliceStable(l, func(i, j int) bool {
		if l[i].votes != l[j].votes {
			return l[i].votes > l[j].votes
		}
		return bytes.Compare(l[i].addr[:], l[j].addr[:]) < 0
	})
	if len(l) > limit {
		l = l[:limit]
	}
	return l
}

func registeredOf(cs map[string]cst) []entry {
	var out []entry
	for _, c := range candDefs {
		if s := cs[c.name]; s.reg == regYes {
			out = append(out, entry{c.name, c.addr, s.votes})
		}
	}
	return out
}

func fmtState(cs map[string]cst) string {
	var p []string
	for _, c := range candDefs {
		s := cs[c.name]
		switch s.reg {
		case regYes:
			p = append(p, fmt.Sprintf("%s=%d", c.name, s.votes))
		case regGone:
			p = append(p, fmt.Sprintf("%s=unregistered", c.name))
		}
	}
	return "{" + strings.Join(p, ",") + "}"
}

func sameList(a, b []entry) bool {
	if len(a) != len(b) {
		return false
	}
	for i := range a {
		if a[i].addr != b[i].addr || a[i].votes != b[i].votes {
			return false
		}
	}
	return true
}

func hasTie(l []entry) bool {
	seen := map[int64]bool{}
	for _, e := range l {
		if seen[e.votes] {
			return true
		}
		seen[e.votes] = true
	}
	return false
}

// ---------------------------------------------------------------------------------------------
// run context

var errInvalidHistory = fmt.Errorf("harness: history not executable")

type runA struct {
	sc       *scenA
	dir      string
	db       *store.ChainDatabase
	blocks   []*ablock
	stable   int
	restarts int
	crashes  int
	o        *core.Outcome
	full     []string
	tags     []string
	lastHow  string
	dirty    bool // a close did not see the writer drain: the directory is not reused
	// poisoned: a crash restart of this history found persisted candidate records (context.data) that
	// are older than the stable account state. Every later list of the history may be computed from
	// them (startup list, index rebuilt from them): one cause, one fingerprint class.
	poisoned bool
}

func (c *runA) viol(fp, what string) {
	c.o.Violations = append(c.o.Violations, core.Violation{Fingerprint: prop + "/A/" + fp,
		What: what + fmt.Sprintf(" [history %v]", c.full), Replay: replayT{History: c.full}})
}

func (c *runA) live(b *ablock) bool { return b.idx == c.stable || b.state == stUnconf }

func (c *runA) liveBlocks() []*ablock {
	var out []*ablock
	for _, b := range c.blocks {
		if c.live(b) {
			out = append(out, b)
		}
	}
	return out
}

func (c *runA) unconfCount() int {
	n := 0
	for _, b := range c.blocks {
		if b.state == stUnconf {
			n++
		}
	}
	return n
}

func (c *runA) isAncestorOrSelf(anc, b int) bool {
	for x := b; ; x = c.blocks[x].parent {
		if x == anc {
			return true
		}
		if x == 0 {
			return false
		}
	}
}

func profileA(cd *candDef) types.Profile {
	return types.Profile{
		types.CandidateKeyIsCandidate:   types.IsCandidateNode,
		types.CandidateKeyNodeID:        strings.Repeat("5e", 64),
		types.CandidateKeyHost:          "127.0.0.1",
		types.CandidateKeyPort:          "7001",
		types.CandidateKeyIncomeAddress: cd.addr.String(),
		types.CandidateKeyIntroduction:  "",
		types.CandidateKeyDepositAmount: "5000000000000000000000000",
	}
}

// applyOps performs, through the account manager's own setters, what candidate_vote_tx.go /
// tx_processor.go do to a candidate account (registerCandidate, modifyCandidateVotes /
// changeCandidateVotes, unRegisterCandidate + Refund, any other write such as a balance change).
func applyOps(am *account.Manager, ops []opA) {
	for _, o := range ops {
		cd := candByName[o.cand]
		acc := am.GetAccount(cd.addr)
		register := func() {
			acc.SetCandidate(profileA(cd))
			acc.SetVotes(big.NewInt(o.votes))
		}
		unregister := func() {
			acc.SetCandidateState(types.CandidateKeyIsCandidate, types.NotCandidateNode)
			acc.SetVotes(big.NewInt(0))
			acc.SetBalance(new(big.Int).Add(acc.GetBalance(), big.NewInt(5000000)))
			acc.SetCandidateState(types.CandidateKeyDepositAmount, "")
		}
		switch o.kind {
		case "r":
			register()
		case "s":
			acc.SetVotes(big.NewInt(o.votes))
		case "u":
			unregister()
		case "x":
			register()
			unregister()
		case "t":
			acc.SetBalance(new(big.Int).Add(acc.GetBalance(), big.NewInt(1)))
		}
	}
}

func toEntries(l []*store.Candidate) []entry {
	out := make([]entry, len(l))
	for i, c := range l {
		out[i] = entry{nameOfAddr(c.Address), c.Address, c.Total.Int64()}
	}
	return out
}

// pathOfUpdateTop re-evaluates the branch conditions of CBlock.Ranking / updateTop (as of /repo
// 8324cdc: Ranking is skipped only when the block has neither a vote log nor an unregistered account;
// the merged list is kept when its minimum does not rank behind the old one by votes and address) on
// the list the implementation really published for the parent. The self-check "all four branches
// hit" is about the alphabet: which branch the reference code takes for this input; the names also go
// into the fingerprints.
func pathOfUpdateTop(oldTop []entry, voteLogs []entry, unreg map[common.Address]bool) string {
	if len(voteLogs) == 0 && len(unreg) == 0 {
		return "no-vote-log(ranking-skipped)"
	}
	if len(oldTop) < listLimit {
		return "list-not-full(merge)"
	}
	merged := map[common.Address]entry{}
	for _, e := range oldTop {
		if !unreg[e.addr] {
			merged[e.addr] = e
		}
	}
	for _, e := range voteLogs {
		if !unreg[e.addr] {
			merged[e.addr] = e
		}
	}
	var l []entry
	for _, e := range merged {
		l = append(l, e)
	}
	newTop := fullSort(l, listLimit)
	if len(oldTop) > len(newTop) {
		return "list-shrunk(re-rank-from-index)"
	}
	newMin, oldMin := newTop[len(newTop)-1], oldTop[len(oldTop)-1]
	behind := newMin.votes < oldMin.votes || (newMin.votes == oldMin.votes && bytes.Compare(newMin.addr[:], oldMin.addr[:]) > 0)
	if !behind {
		return "min-not-lower(merge)"
	}
	return "min-lower(re-rank-from-index)"
}

func (c *runA) open() {
	t0 := time.Now()
	c.db = store.NewChainDataBase(c.dir)
	since("open", t0)
}

func (c *runA) close() {
	if c.db != nil {
		t0 := time.Now()
		ok := waitFlushed(c.db)
		t0 = since("close_wait_flush", t0)
		c.db.Close()
		c.db = nil
		since("close", t0)
		if !ok {
			count("close_without_flush", 1)
			c.dirty = true
		}
	}
}

// newBlock builds a child of block p whose state transition is ops: account.Manager on the parent's
// view, the setters, MergeChangeLogs + Finalise (BlockAssembler.Finalize), then SetBlock + Save
// (DPoVP.saveToStore), which calls CandidatesRanking with the block's merged VotesLogs.
func (c *runA) newBlock(p int, ops []opA) *ablock {
	pb := c.blocks[p]
	if !c.live(pb) {
		panic(errInvalidHistory)
	}
	seen := map[string]bool{}
	for _, o := range ops {
		if seen[o.cand] || !opValid(o, pb.cs[o.cand]) {
			panic(errInvalidHistory)
		}
		seen[o.cand] = true
	}
	idx := len(c.blocks)
	am := account.NewManager(pb.hash, c.db)
	applyOps(am, ops)
	am.MergeChangeLogs()
	must(am.Finalise())
	logs := am.GetChangeLogs()
	h := &types.Header{ParentHash: pb.hash, MinerAddress: candByName["g"].addr, Height: pb.height + 1, GasLimit: 105000000,
		Time: node.GenesisTime + 10*(pb.height+1), Extra: fmt.Sprintf("c10/%d", idx), TxRoot: (types.Transactions{}).MerkleRootSha(),
		VersionRoot: am.GetVersionRoot(), LogRoot: logs.MerkleRootSha()}
	blk := types.NewBlock(h, nil, logs)
	hash := blk.Hash()

	// what the block hands to Ranking, and which path of updateTop that input takes
	oldTop := toEntries(c.db.GetCandidatesTop(pb.hash))
	var voteLogs []entry
	for _, l := range logs {
		if l.LogType == account.VotesLog {
			v := l.NewVal.(big.Int)
			voteLogs = append(voteLogs, entry{nameOfAddr(l.Address), l.Address, v.Int64()})
		}
	}
	unreg := map[common.Address]bool{}
	ncs := applyModel(pb.cs, ops)
	for _, o := range ops {
		if ncs[o.cand].reg == regGone {
			unreg[candByName[o.cand].addr] = true
		}
	}
	how := pathOfUpdateTop(oldTop, voteLogs, unreg)

	must(c.db.SetBlock(hash, blk))
	must(am.Save(hash))

	nb := &ablock{idx: idx, parent: p, height: pb.height + 1, hash: hash, state: stUnconf, cs: ncs, ops: ops, how: how}
	c.blocks = append(c.blocks, nb)
	count("blocks", 1)
	count("branch:"+how, 1)
	for _, o := range ops {
		switch o.kind {
		case "r":
			count("op_register", 1)
		case "s":
			if o.votes > pb.cs[o.cand].votes {
				count("op_votes_up", 1)
			} else {
				count("op_votes_down", 1)
			}
		case "u":
			count("op_unregister", 1)
			if pb.cs[o.cand].votes == 0 {
				count("op_unregister_with_0_votes", 1)
			}
		case "x":
			count("op_register_and_unregister_in_one_block", 1)
		case "t":
			if pb.cs[o.cand].reg == regYes {
				count("op_touch_registered", 1)
			} else {
				count("op_touch_unregistered", 1)
			}
		}
	}
	c.lastHow = how
	return nb
}

func (c *runA) stabilise(b int) bool {
	blk := c.blocks[b]
	if blk.state != stUnconf {
		panic(errInvalidHistory)
	}
	_, err := c.db.SetStableBlock(blk.hash)
	if err != nil {
		c.viol("error/SetStableBlock/"+err.Error(), fmt.Sprintf("SetStableBlock(block %d) failed: %v", b, err))
		return false
	}
	c.markStable(b)
	return true
}

func (c *runA) markStable(b int) {
	path := 0
	for x := b; x != c.stable; x = c.blocks[x].parent {
		c.blocks[x].state = stStable
		path++
	}
	c.stable = b
	pruned := 0
	for _, x := range c.blocks {
		if x.state == stUnconf && !c.isAncestorOrSelf(b, x.idx) {
			x.state = stDropped
			pruned++
		}
	}
	count("stabilise", 1)
	if path > 1 {
		count("stabilise_path>1", 1)
	}
	if pruned > 0 {
		count("stabilise_pruning_forks", 1)
	}
}

func (c *runA) dropUnconfirmed() {
	lost := 0
	for _, x := range c.blocks {
		if x.state == stUnconf {
			x.state = stDropped
			lost++
		}
	}
	if lost > 0 {
		count("restart_losing_unconfirmed_blocks", 1)
	}
}

func (c *runA) restart() {
	c.close()
	c.open()
	c.dropUnconfirmed()
	c.restarts++
	c.blocks[c.stable].how = "startup(re-rank-of-persisted-candidates)"
	c.lastHow = c.blocks[c.stable].how
	count("restart", 1)
	count("branch:startup(re-rank-of-persisted-candidates)", 1)
}

// crashInStabilise: process death inside SetStableBlock at the call of RunContext.Flush, i.e. after
// the block and its accounts went to the write-ahead file and the stable pointer moved, before
// context.data is rewritten. The death is injected by making exactly that Flush fail (its file path
// points into a directory that does not exist); SetStableBlock then returns before it changes
// anything else in memory, the asynchronous writer is left to finish what the write-ahead file
// would re-deliver anyway, and the database is closed and reopened.
func (c *runA) crashInStabilise(b int) (reached bool) {
	blk := c.blocks[b]
	if blk.state != stUnconf {
		panic(errInvalidHistory)
	}
	good := c.db.Context.Path
	c.db.Context.Path = filepath.Join(c.dir, "no-such-directory", "context.data")
	_, err := c.db.SetStableBlock(blk.hash)
	c.db.Context.Path = good
	if err == nil {
		// no candidate record in the commit: Flush is not called, the crash point does not exist
		c.markStable(b)
		count("crash_point_absent(no-candidate-record-in-commit)", 1)
		c.tags = append(c.tags, "crash-point-absent")
		return false
	}
	if !strings.Contains(err.Error(), "no such file") {
		panic("harness: unexpected error from the injected crash: " + err.Error())
	}
	count("crash_inside_stabilise", 1)
	c.close()
	c.open()
	latest, lerr := c.db.LoadLatestBlock()
	must(lerr)
	if latest.Hash() == c.blocks[c.stable].hash {
		// The stable pointer had not moved yet when the process died (a tree that rewrites context.data
		// before it moves the pointer). The block's accounts are in the write-ahead file already, so the
		// store now presents them — and filters its persisted candidates by them — as the state of the
		// OLD stable block: accounts ahead of the pointer are C08's subject (DESIGN section 9 item 9), and
		// neither the account view nor the startup list can be judged against that block. Counted, not
		// judged, not expanded.
		count("crash_before_stable_pointer_moved(accounts-ahead-of-pointer:C08,not-judged)", 1)
		c.tags = append(c.tags, "crash-before-pointer-move")
		return false
	}
	// several blocks are committed oldest first: the process died at the first one whose commit rewrites
	// context.data, and that block is the stable one now
	at := -1
	for x := b; x != c.stable; x = c.blocks[x].parent {
		if c.blocks[x].hash == latest.Hash() {
			at = x
		}
	}
	if at < 0 {
		panic("harness: after the injected crash the stable block is not on the path that was being stabilised")
	}
	if at != b {
		count("crash_at_an_earlier_block_of_the_stabilised_path", 1)
	}
	b = at
	count("crash_after_stable_pointer_moved", 1)
	c.markStable(b)
	c.dropUnconfirmed()
	c.restarts++
	c.crashes++
	pers, perr := c.db.Context.GetCandidates()
	must(perr)
	have := map[string]int64{}
	for _, e := range toEntries(pers) {
		have[e.name] = e.votes
	}
	for _, e := range registeredOf(c.blocks[c.stable].cs) {
		if v, ok := have[e.name]; !ok || v != e.votes {
			if !c.poisoned {
				count("crash_leaves_stale_persisted_candidate_records", 1)
			}
			c.poisoned = true
		}
	}
	c.blocks[c.stable].how = "startup-after-crash-at-context.data-flush"
	c.lastHow = c.blocks[c.stable].how
	count("branch:startup-after-crash-at-context.data-flush", 1)
	return true
}

func (c *runA) num(s string) int {
	n, err := strconv.Atoi(s)
	if err != nil || n < 0 || n >= len(c.blocks) {
		panic(errInvalidHistory)
	}
	return n
}

// step executes one event; false = stop (violation recorded or the event has no effect to explore).
func (c *runA) step(ev string) bool {
	f := strings.Fields(ev)
	switch f[0] {
	case "nb", "ns", "nc":
		if len(f) != 3 {
			panic(errInvalidHistory)
		}
		nb := c.newBlock(c.num(f[1]), parseOps(f[2]))
		switch f[0] {
		case "ns":
			return c.stabilise(nb.idx)
		case "nc":
			return c.crashInStabilise(nb.idx)
		}
	case "st":
		return c.stabilise(c.num(f[1]))
	case "cs":
		return c.crashInStabilise(c.num(f[1]))
	case "rs":
		c.restart()
	default:
		panic(errInvalidHistory)
	}
	return true
}

// ---------------------------------------------------------------------------------------------
// oracle

type obsA struct {
	b     *ablock
	got   []entry
	want  []entry
	index []entry
	reg   []entry
}

func (c *runA) indexOf(b *ablock) []entry {
	var cb *store.CBlock
	if b.idx == c.stable {
		cb = c.db.LastConfirm
	} else {
		cb = c.db.UnConfirmBlocks[b.hash]
	}
	if cb == nil {
		return nil
	}
	l := toEntries(cb.CandidateTrieDB.GetAll())
	sort.Slice(l, func(i, j int) bool { return bytes.Compare(l[i].addr[:], l[j].addr[:]) < 0 })
	return l
}

// observe reads, for one live block, the published list, the registered candidates according to
// the block's own account view, and the in-memory index.
func (c *runA) observe(b *ablock) (obsA, string) {
	o := obsA{b: b}
	o.got = toEntries(c.db.GetCandidatesTop(b.hash))
	o.index = c.indexOf(b)
	am := account.NewManager(b.hash, c.db)
	var problems []string
	for _, cd := range candDefs {
		acc := am.GetAccount(cd.addr)
		flag := acc.GetCandidateState(types.CandidateKeyIsCandidate)
		votes := int64(0)
		if v := acc.GetVotes(); v != nil {
			votes = v.Int64()
		}
		var view cst
		switch flag {
		case types.IsCandidateNode:
			view = cst{regYes, votes}
			o.reg = append(o.reg, entry{cd.name, cd.addr, votes})
		case types.NotCandidateNode:
			view = cst{regGone, votes}
		default:
			view = cst{regNever, votes}
		}
		if m := b.cs[cd.name]; m != view {
			problems = append(problems, fmt.Sprintf("%s: account view says %v, the model %v", cd.name, view, m))
		}
	}
	o.want = fullSort(o.reg, listLimit)
	return o, strings.Join(problems, "; ")
}

func (c *runA) describe(o obsA) string {
	kind := "unconfirmed"
	if o.b.idx == c.stable {
		kind = "stable"
	}
	return fmt.Sprintf("block %d (%s, parent %d, ops %s, list computed by %s): registered %s; GetCandidatesTop = %s; full sort cut to %d = %s; index = %s",
		o.b.idx, kind, o.b.parent, fmtOps(o.b.ops), o.b.how, fmtState(o.b.cs), fmtList(o.got), listLimit, fmtList(o.want), fmtList(o.index))
}

// diffKind names what is wrong with a published list, relative to the statement.
func (c *runA) diffKind(o obsA) string {
	b := o.b
	for _, e := range o.got {
		s := b.cs[e.name]
		if s.reg != regYes {
			when := "unregistered-earlier"
			for _, op := range b.ops {
				if op.cand == e.name && (op.kind == "u" || op.kind == "x") {
					when = "unregistered-in-this-block"
				}
			}
			if s.reg == regNever {
				when = "never-registered"
			}
			return "lists-unregistered-candidate(" + when + ")"
		}
	}
	for _, e := range o.got {
		if b.cs[e.name].votes != e.votes {
			return "stale-votes"
		}
	}
	inGot := map[string]bool{}
	for _, e := range o.got {
		if inGot[e.name] {
			return "duplicate-entry"
		}
		inGot[e.name] = true
	}
	var missing []entry
	for _, e := range o.want {
		if !inGot[e.name] {
			missing = append(missing, e)
		}
	}
	if len(missing) > 0 {
		if len(o.got) < len(o.want) {
			return "registered-candidate-missing(list-too-short)"
		}
		inWant := map[string]bool{}
		for _, e := range o.want {
			inWant[e.name] = true
		}
		for _, e := range o.got {
			if !inWant[e.name] {
				for _, m := range missing {
					if m.votes == e.votes {
						return "wrong-member(loses-the-tie-by-address)"
					}
				}
			}
		}
		return "wrong-member(fewer-votes)"
	}
	if len(o.got) > len(o.want) {
		return "too-long"
	}
	return "wrong-order"
}

// indexState: the re-rank paths of updateTop read the in-memory index of all candidates; what is
// wrong with their result depends on whether that index still knows every registered candidate (it
// starts empty after a restart).
func (c *runA) indexState(o obsA) string {
	in := map[string]bool{}
	for _, e := range o.index {
		in[e.name] = true
	}
	for _, e := range o.reg {
		if !in[e.name] {
			return "index-lacks-registered-candidates"
		}
	}
	return "index-complete"
}

const poisonedClass = "top-list/after-crash-at-context.data-flush(persisted-candidate-records-stale)"

func (c *runA) fingerprint(o obsA) string {
	if c.poisoned {
		return poisonedClass
	}
	fp := fmt.Sprintf("top-list/%s/list-computed-by=%s", c.diffKind(o), o.b.how)
	if strings.Contains(o.b.how, "re-rank-from-index") {
		fp += "/" + c.indexState(o)
	}
	return fp
}

// check evaluates the statement on every live block.
func (c *runA) check(verbose bool) (obs []obsA) {
	t0 := time.Now()
	defer func() { since("oracle", t0) }()
	for _, b := range c.liveBlocks() {
		o, problem := c.observe(b)
		obs = append(obs, o)
		count("oracle_lists_compared", 1)
		if c.restarts > 0 {
			count("oracle_lists_computed_after_a_restart", 1)
		}
		if len(o.reg) > listLimit {
			count("oracle_lists_with_more_candidates_than_slots", 1)
		}
		if hasTie(o.reg) {
			count("oracle_lists_with_tie", 1)
		}
		if verbose {
			fmt.Println("  " + c.describe(o))
		}
		if problem != "" {
			c.viol("harness/account-view-differs-from-model", "the account view of a live block is not what the history wrote (C09's subject, or a harness error): "+problem+"; "+c.describe(o))
			continue
		}
		if !sameList(o.got, o.want) {
			c.viol(c.fingerprint(o), c.describe(o))
		}
	}
	return obs
}

// key is the canonical form of everything the future can depend on.
func (c *runA) key(obs []obsA) string {
	byIdx := map[int]obsA{}
	for _, o := range obs {
		byIdx[o.b.idx] = o
	}
	var enc func(b int) string
	enc = func(b int) string {
		o := byIdx[b]
		var written []string
		for _, op := range o.b.ops {
			written = append(written, op.cand)
		}
		sort.Strings(written)
		if b == c.stable {
			written = nil // persisted; what matters of it is in context.data and the account files
		}
		var kids []string
		for _, x := range c.blocks {
			if x.state == stUnconf && x.parent == b {
				kids = append(kids, enc(x.idx))
			}
		}
		sort.Strings(kids)
		return fmt.Sprintf("(%s top%s idx%s w%v%s)", fmtState(o.b.cs), fmtList(o.got), fmtList(o.index), written, strings.Join(kids, ""))
	}
	pers, err := c.db.Context.GetCandidates()
	must(err)
	pl := toEntries(pers)
	sort.Slice(pl, func(i, j int) bool { return bytes.Compare(pl[i].addr[:], pl[j].addr[:]) < 0 })
	return fmt.Sprintf("%s|rs=%d|pers%s|%s", c.full[0], c.restarts, fmtList(pl), enc(c.stable))
}

// ---------------------------------------------------------------------------------------------
// enabled events

func (c *runA) blockMenu(cs map[string]cst) []string {
	sc := c.sc
	per := map[string][]opA{}
	for _, n := range sc.Cands {
		s := cs[n]
		var l []opA
		switch s.reg {
		case regNever:
			for _, v := range sc.RegVotes {
				l = append(l, opA{"r", n, v})
			}
			if sc.RegUnreg {
				l = append(l, opA{"x", n, sc.RegVotes[0]})
			}
		case regYes:
			for _, v := range sc.Votes {
				o := opA{"s", n, v}
				if opValid(o, s) {
					l = append(l, o)
				}
			}
			l = append(l, opA{"u", n, 0})
			if sc.Touch {
				l = append(l, opA{"t", n, 0})
			}
		case regGone:
			if sc.Touch {
				l = append(l, opA{"t", n, 0})
			}
		}
		per[n] = l
	}
	var out []string
	if sc.Empty {
		out = append(out, "-")
	}
	var rec func(start int, cur []opA)
	rec = func(start int, cur []opA) {
		if len(cur) > 0 {
			out = append(out, fmtOps(cur))
		}
		if len(cur) == sc.MaxOps {
			return
		}
		for i := start; i < len(sc.Cands); i++ {
			for _, o := range per[sc.Cands[i]] {
				rec(i+1, append(append([]opA{}, cur...), o))
			}
		}
	}
	rec(0, nil)
	// simplest first: fewer ops first (stable within the same size)
	sort.SliceStable(out, func(i, j int) bool { return strings.Count(out[i], "+") < strings.Count(out[j], "+") })
	return out
}

func (c *runA) enabled() []string {
	sc := c.sc
	var out []string
	live := c.liveBlocks()
	var parents []*ablock
	if sc.AnyParent {
		parents = live
	} else {
		parents = []*ablock{live[len(live)-1]} // the tip: the live block created last
	}
	for _, p := range parents {
		menu := c.blockMenu(p.cs)
		// a second child with the same transition as an existing sibling is the same block again
		have := map[string]bool{}
		for _, x := range c.blocks {
			if x.state == stUnconf && x.parent == p.idx {
				have[fmtOps(x.ops)] = true
			}
		}
		for _, m := range menu {
			if have[m] {
				continue
			}
			if sc.Unconf && c.unconfCount() < sc.MaxUnconf {
				out = append(out, fmt.Sprintf("nb %d %s", p.idx, m))
			}
			out = append(out, fmt.Sprintf("ns %d %s", p.idx, m))
			if sc.Crash {
				out = append(out, fmt.Sprintf("nc %d %s", p.idx, m))
			}
		}
	}
	for _, b := range live {
		if b.state == stUnconf {
			out = append(out, fmt.Sprintf("st %d", b.idx))
		}
	}
	if c.restarts < sc.MaxRestarts {
		out = append(out, "rs")
	}
	return out
}

// ---------------------------------------------------------------------------------------------

var verbose bool

func runLayerA(full []string) (o core.Outcome) {
	base, _ := splitScenario(full[0])
	sc := scenariosA[base]
	if sc == nil {
		panic(errInvalidHistory)
	}
	evs := full[1:]
	c := &runA{sc: sc, o: &o, full: full}
	c.dir = freshDir()
	defer func() {
		if p := recover(); p != nil {
			if p == errInvalidHistory {
				c.close()
				releaseDir(!c.dirty)
				o = core.Outcome{}
				return
			}
			panic(p) // the directory stays tainted: background writers may still be alive
		}
		releaseDir(!c.dirty)
	}()
	count("histories_A", 1)
	count(fmt.Sprintf("hist_%s_len%d", strings.TrimPrefix(sc.Name, "A:"), len(evs)), 1)
	c.open()
	t0 := time.Now()
	g := node.SetupGenesis(c.db, 1)
	since("genesis", t0)
	c.blocks = []*ablock{{idx: 0, parent: 0, height: 0, hash: g.Hash(), state: stStable, cs: map[string]cst{"g": {regYes, 0}}, how: "genesis"}}
	t0 = time.Now()
	ok := true
	for _, ev := range sc.Prefix {
		if !c.step(ev) {
			panic("harness: scenario prefix failed: " + ev)
		}
	}
	for i, ev := range evs {
		core.Journal(fmt.Sprintf("%v @%d", full, i))
		if verbose {
			fmt.Printf("event %q\n", ev)
		}
		if !c.step(ev) {
			ok = false
			break
		}
	}
	since("events", t0)
	if ok {
		obs := c.check(verbose)
		if len(o.Violations) == 0 {
			o.Key = c.key(obs)
			if len(evs) < sc.Depth {
				o.Enabled = c.enabled()
			}
			shape := fmt.Sprintf("live=%d", len(obs))
			o.Tags = append(o.Tags, "A/"+c.lastHow+"/"+shape)
			if len(evs) > 0 {
				f := strings.Fields(evs[len(evs)-1])
				kind := f[0]
				if len(f) == 3 {
					kind += "[" + opKinds(parseOps(f[2])) + "]"
				}
				o.Tags = append(o.Tags, "A/ev/"+kind)
			}
		}
		for _, ob := range obs {
			lastObserved = append(lastObserved, c.describe(ob))
		}
	}
	o.Tags = append(o.Tags, c.tags...)
	c.close()
	return o
}

package main

// Per-process scratch databases for layer A. Creating the ~530 directory entries of a chain database
// costs more than a history itself, so every worker process keeps ONE directory and resets it in
// place to the content of a template (an empty database: opened once, closed) before every history.
// The bitcask layout is fixed (home/xx/yy/000.data, tmp.data, context.data, index/), so no other
// file can appear; a full comparison with the template runs on the first reset and then every 200.

import (
	"encoding/json"
	"fmt"
	"os"
	"path/filepath"
	"runtime"
	"sort"
	"strings"
	"time"

	"verifmc/core"
	"verifmc/vorder"

	"github.com/LemoFoundationLtd/lemochain-core/store"
)

func must(err error) {
	if err != nil {
		panic(err)
	}
}

type tmplFile struct {
	rel  string
	dir  bool
	data []byte
}

var tmpl struct {
	built bool
	files []tmplFile
}

// waitFlushed waits until the asynchronous BeansDB writer has drained (pending-write index empty).
// It is hygiene before Close (a clean stop), never an oracle: reads see pending writes through that
// very index, so every observation is deterministic.
func waitFlushed(db *store.ChainDatabase) bool {
	deadline := time.Now().Add(20 * time.Second)
	pause := 50 * time.Microsecond
	for i := 0; ; i++ {
		if store.VerifPendingWrites(db) == 0 {
			return true
		}
		if i < 20 {
			runtime.Gosched()
			continue
		}
		if time.Now().After(deadline) {
			return false
		}
		time.Sleep(pause)
		if pause < 2*time.Millisecond {
			pause *= 2
		}
	}
}

func buildTemplate() {
	if tmpl.built {
		return
	}
	dir := core.ScratchDir("c10tmpl")
	defer os.RemoveAll(dir)
	db := store.NewChainDataBase(dir)
	if !waitFlushed(db) {
		panic("harness: template database did not flush")
	}
	must(db.Close())
	must(filepath.Walk(dir, func(p string, info os.FileInfo, err error) error {
		if err != nil {
			return err
		}
		rel, _ := filepath.Rel(dir, p)
		if rel == "." {
			return nil
		}
		if info.IsDir() {
			tmpl.files = append(tmpl.files, tmplFile{rel: rel, dir: true})
			return nil
		}
		b, err := os.ReadFile(p)
		if err != nil {
			return err
		}
		tmpl.files = append(tmpl.files, tmplFile{rel: rel, data: b})
		return nil
	}))
	tmpl.built = true
}

var work struct {
	dir     string
	resets  int
	tainted bool
}

func materialise(dir string) {
	for _, f := range tmpl.files {
		p := filepath.Join(dir, f.rel)
		if f.dir {
			must(os.Mkdir(p, 0755))
		} else {
			must(os.WriteFile(p, f.data, 0644))
		}
	}
}

func underIndex(rel string) bool { return rel == "index" || strings.HasPrefix(rel, "index/") }

func resetWorkDir() {
	must(os.RemoveAll(filepath.Join(work.dir, "index")))
	for _, f := range tmpl.files {
		p := filepath.Join(work.dir, f.rel)
		switch {
		case f.dir:
			if underIndex(f.rel) {
				must(os.Mkdir(p, 0755))
			}
		case underIndex(f.rel) || len(f.data) > 0:
			must(os.WriteFile(p, f.data, 0644))
		default:
			must(os.Truncate(p, 0))
		}
	}
	if work.resets%200 == 0 {
		want := map[string]*tmplFile{}
		for i := range tmpl.files {
			want[tmpl.files[i].rel] = &tmpl.files[i]
		}
		n := 0
		must(filepath.Walk(work.dir, func(p string, info os.FileInfo, err error) error {
			if err != nil {
				return err
			}
			rel, _ := filepath.Rel(work.dir, p)
			if rel == "." {
				return nil
			}
			n++
			w := want[rel]
			if w == nil || w.dir != info.IsDir() {
				panic("harness: reset left an unexpected entry " + rel)
			}
			if !w.dir {
				b, err := os.ReadFile(p)
				if err != nil || string(b) != string(w.data) {
					panic("harness: reset left different content in " + rel)
				}
			}
			return nil
		}))
		if n != len(want) {
			panic("harness: reset lost entries")
		}
		count("reset_verified", 1)
	}
	work.resets++
}

// freshDir hands out the (reset) work directory; release(clean) gives it back.
func freshDir() string {
	buildTemplate()
	t0 := time.Now()
	if work.tainted && work.dir != "" {
		os.RemoveAll(work.dir)
		work.dir = ""
	}
	if work.dir == "" {
		work.dir = core.ScratchDir("c10w")
		work.resets = 0
		materialise(work.dir)
	} else {
		resetWorkDir()
	}
	since("reset", t0)
	// a panic while the database is open leaves background writers behind: never reuse that directory
	work.tainted = true
	return work.dir
}

func releaseDir(clean bool) {
	if clean {
		work.tainted = false
	}
}

func cleanupWork() {
	if work.dir != "" {
		os.RemoveAll(work.dir)
		work.dir = ""
	}
}

// ---------------------------------------------------------------------------------------------
// statistics (what was executed on the implementation), written per worker process

var stats = map[string]int64{}

func count(k string, n int64) { stats[k] += n }

func since(k string, t0 time.Time) time.Time {
	now := time.Now()
	stats["us_"+k] += now.Sub(t0).Microseconds()
	return now
}

func flushStats() {
	d := os.Getenv("C10_STATS")
	if d == "" {
		return
	}
	for i, n := range vorder.Loops {
		if n > 0 {
			k := fmt.Sprintf("map_loops_under_controlled_order_with_%d_keys", i)
			if i == 4 {
				k = "map_loops_under_controlled_order_with_4_or_more_keys"
			}
			stats[k] = n
		}
	}
	b, _ := json.Marshal(stats)
	tmp := filepath.Join(d, fmt.Sprintf(".%d.tmp", os.Getpid()))
	if os.WriteFile(tmp, b, 0644) == nil {
		os.Rename(tmp, filepath.Join(d, fmt.Sprintf("%d.json", os.Getpid())))
	}
}

func collectStats(dir string) map[string]int64 {
	total := map[string]int64{}
	ents, err := os.ReadDir(dir)
	if err != nil {
		return total
	}
	names := make([]string, 0)
	for _, e := range ents {
		if strings.HasSuffix(e.Name(), ".json") {
			names = append(names, e.Name())
		}
	}
	sort.Strings(names)
	for _, n := range names {
		b, err := os.ReadFile(filepath.Join(dir, n))
		if err != nil {
			continue
		}
		one := map[string]int64{}
		if json.Unmarshal(b, &one) == nil {
			for k, v := range one {
				total[k] += v
			}
		}
	}
	return total
}

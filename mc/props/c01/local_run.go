package main

// phase L: scripts of node-local events, the path runner and the oracle (see local.go).

import (
	"fmt"
	"sort"
	"strconv"
	"strings"
	"time"

	"verifmc/core"
	"verifmc/node"
	"verifmc/vorder"

	"github.com/LemoFoundationLtd/lemochain-core/chain/account"
	"github.com/LemoFoundationLtd/lemochain-core/chain/types"
	"github.com/LemoFoundationLtd/lemochain-core/common"
)

type lev struct {
	Op string `json:"op"` // B, C, R, S, X
	H  int    `json:"h,omitempty"`
	N  int    `json:"n,omitempty"`
}

func (e lev) String() string {
	switch e.Op {
	case "R":
		return "R"
	case "S":
		return fmt.Sprintf("S%d/%d", e.H, e.N)
	}
	return fmt.Sprintf("%s%d", e.Op, e.H)
}

func parseScript(s string) []lev {
	var out []lev
	for _, f := range strings.Fields(s) {
		e := lev{Op: f[:1]}
		rest := f[1:]
		if i := strings.Index(rest, "/"); i >= 0 {
			e.N, _ = strconv.Atoi(rest[i+1:])
			rest = rest[:i]
		}
		e.H, _ = strconv.Atoi(rest)
		out = append(out, e)
	}
	return out
}

func scriptString(s []lev) string {
	l := make([]string, len(s))
	for i, e := range s {
		l[i] = e.String()
	}
	return strings.Join(l, " ")
}

// lpath is one node's life: which node-local variable it varies (Kind), the events, and whether the
// node receives the main blocks of the window (validator) or mines them itself (miner).
type lpath struct {
	Kind   string `json:"kind"`
	Script []lev  `json:"script"`
	Miner  bool   `json:"miner"`
	// MapOrder > 0: every instrumented map loop of this node runs under that controlled order (vorder)
	MapOrder int `json:"map_order,omitempty"`
}

type lcase struct {
	Hist []string `json:"hist"`
	Path lpath    `json:"path"`
}

func (c lcase) String() string {
	m := "validator"
	if c.Path.Miner {
		m = "miner"
	}
	k := c.Path.Kind
	if c.Path.MapOrder > 0 {
		k += fmt.Sprintf("(%d)", c.Path.MapOrder)
	}
	return fmt.Sprintf("window 7..12 = [%s]; %s node, %s: %s", strings.Join(c.Hist, " | "), m, k, scriptString(c.Path.Script))
}

// ---------------------------------------------------------------------------------------------
// script generators

func evB(h int) lev { return lev{Op: "B", H: h} }
func evC(h int) lev { return lev{Op: "C", H: h} }

// tail delivers the main blocks from..lLast without further confirms; s is the stable height the node
// has when the tail starts. The node must know the new term to verify the signer of block 11, so the
// confirms of the snapshot block arrive right before it if they have not yet.
func tail(from, s int) []lev {
	var out []lev
	for h := from; h <= lLast; h++ {
		if h == int(lT+lI+1) && s < int(lT) {
			out = append(out, evC(int(lT)))
			s = int(lT)
		}
		out = append(out, evB(h))
	}
	return out
}

// lag d: the confirms of block h-d arrive right after block h (d = 0: everything is stable at once).
// Together the lags 0..5 put the stable pointer on every height from the last prefix block to the
// parent for every block of the window.
func pathLag(d int) lpath {
	var s []lev
	for h := lFirst; h <= lLast; h++ {
		s = append(s, evB(h))
		if h-d >= lFirst {
			s = append(s, evC(h-d))
		}
	}
	return lpath{Kind: "stable-pointer", Script: s}
}

// batch: nothing is confirmed until the head is h-1; then block st becomes stable (with all its
// ancestors at once); then the rest arrives.
func pathBatch(h, st int) lpath {
	var s []lev
	for k := lFirst; k < h; k++ {
		s = append(s, evB(k))
	}
	s = append(s, evC(st))
	s = append(s, tail(h, st)...)
	return lpath{Kind: "stable-pointer", Script: s}
}

// restart at rho: everything up to rho is stable, the node restarts, the rest arrives (nothing more
// confirmed, or every block confirmed at once).
func pathRestart(rho int, thenStable bool) lpath {
	var s []lev
	for h := lFirst; h <= rho; h++ {
		s = append(s, evB(h), evC(h))
	}
	s = append(s, lev{Op: "R"})
	if thenStable {
		for h := rho + 1; h <= lLast; h++ {
			s = append(s, evB(h), evC(h))
		}
	} else {
		s = append(s, tail(rho+1, rho)...)
	}
	return lpath{Kind: "restart", Script: s}
}

// restart that loses blocks: 7..h arrive and stay unconfirmed, the node restarts (they are gone,
// what executing them wrote into the store outside the block tree is not), everything arrives again.
func pathRestartLosing(h int) lpath {
	var s []lev
	for k := lFirst; k <= h; k++ {
		if k == int(lT+lI+1) {
			s = append(s, evC(int(lT)))
		}
		s = append(s, evB(k))
	}
	s = append(s, lev{Op: "R"})
	st := lPrefix
	if h >= int(lT+lI+1) {
		st = int(lT)
	}
	s = append(s, tail(st+1, st)...)
	return lpath{Kind: "restart", Script: s}
}

// fork at k: the node also knows a sibling fork (n blocks) of main block k, received before or after it.
func pathFork(k, n int, before bool) lpath {
	var s []lev
	st := lPrefix
	for h := lFirst; h <= lLast; h++ {
		if h == int(lT+lI+1) && st < int(lT) {
			s = append(s, evC(int(lT)))
			st = int(lT)
		}
		if h == k && before {
			s = append(s, lev{Op: "S", H: k, N: n})
		}
		s = append(s, evB(h))
		if h == k && !before {
			s = append(s, lev{Op: "S", H: k, N: n})
		}
	}
	return lpath{Kind: "sibling-fork", Script: s}
}

// dirty: before every main block the node executes and rejects a copy of it with a wrong version root.
func pathDirty(allStable bool) lpath {
	var s []lev
	st := lPrefix
	for h := lFirst; h <= lLast; h++ {
		if !allStable && h == int(lT+lI+1) && st < int(lT) {
			s = append(s, evC(int(lT)))
			st = int(lT)
		}
		s = append(s, lev{Op: "X", H: h}, evB(h))
		if allStable {
			s = append(s, evC(h))
		}
	}
	return lpath{Kind: "rejected-twin-before", Script: s}
}

// lPaths lists the node lives explored for every history, simplest first.
func lPaths(thorough bool) []lpath {
	var out []lpath
	val := func(p lpath) { out = append(out, p) }
	min := func(p lpath) { p.Miner = true; out = append(out, p) }
	both := func(p lpath) { val(p); min(p) }
	in := func(x int, l ...int) bool {
		for _, y := range l {
			if x == y {
				return true
			}
		}
		return false
	}
	// every position of the stable pointer for every block, validator and miner
	for d := 0; d <= lLast-lFirst; d++ {
		both(pathLag(d))
	}
	// other routes to the same positions: nothing confirmed, then a batch
	for h := lFirst + 1; h <= lLast; h++ {
		for st := lFirst; st < h; st++ {
			switch {
			case thorough && (h >= 11 || h == 9):
				both(pathBatch(h, st))
			case thorough:
				val(pathBatch(h, st))
			case (h == 11 && in(st, 8, 10)) || (h == 9 && st == 8):
				val(pathBatch(h, st))
			}
		}
	}
	// restarts
	for rho := lPrefix; rho < lLast; rho++ {
		val(pathRestart(rho, false))
		if thorough || in(rho, 7, 10) {
			min(pathRestart(rho, false))
			val(pathRestart(rho, true))
		}
		if thorough && in(rho, 7, 8, 10) {
			min(pathRestart(rho, true))
		}
	}
	for h := lFirst; h < lLast; h++ {
		if thorough || h == 10 {
			val(pathRestartLosing(h))
		}
		if thorough && in(h, 8, 10) {
			min(pathRestartLosing(h))
		}
	}
	// sibling forks
	for k := lFirst; k <= lLast; k++ {
		for _, before := range []bool{true, false} {
			if thorough || in(k, 8, 9, 11, 12) {
				val(pathFork(k, 1, before))
			}
			if thorough {
				val(pathFork(k, 2, before))
				if in(k, 8, 11) {
					min(pathFork(k, 1, before))
				}
			}
		}
	}
	both(pathDirty(false))
	if thorough {
		both(pathDirty(true))
	}
	// hash-map iteration order (candidate lists, refund loop, vote changes by balance, change-log grouping ...)
	for pol := 1; pol <= vorder.Policies; pol++ {
		if thorough || pol == 2 {
			p := pathLag(0)
			p.Kind, p.MapOrder = "map-order", pol
			both(p)
		}
		if thorough && pol >= 2 && pol <= 3 {
			p := pathBatch(11, 8)
			p.Kind, p.MapOrder = "map-order", pol
			both(p)
		}
	}
	return out
}

// ---------------------------------------------------------------------------------------------
// siblings and corrupted twins

// sibs returns the sibling fork on main block k-1: S_k mined one slot later by the next deputy with
// lSiblingTxs, and its child, an empty block. They are mined by a node of their own on which main
// 1..k-1 is stable. nil when that node cannot mine them.
func (c *lchain) sibs(k int) []*types.Block {
	if s, ok := c.siblings[k]; ok {
		return s
	}
	c.siblings[k] = nil
	if k-1 > c.top() {
		return nil
	}
	n := lNewNode()
	defer n.Destroy()
	for h := 1; h < k; h++ {
		if err := n.insert(c.blocks[h]); err != nil {
			panic(fmt.Sprintf("harness: sibling miner rejects main block %d: %v", h, err))
		}
		n.confirm(c.blocks[h], c.sigs[h])
	}
	s1, _, err := n.mine(c.blocks[k-1], lSiblingTxs(k), 2)
	if err != nil {
		return nil
	}
	out := []*types.Block{node.Wire(s1)}
	if s2, _, err := n.mine(s1, nil, 1); err == nil {
		out = append(out, node.Wire(s2))
	}
	c.siblings[k] = out
	return out
}

func (c *lchain) twin(h int) *types.Block {
	bad := node.Wire(c.blocks[h])
	bad.Header.VersionRoot[3] ^= 0x10
	sd := node.SignConfirm(c.miners[h], bad.Header.Hash())
	bad.Header.SignData = sd[:]
	return bad
}

// ---------------------------------------------------------------------------------------------
// oracle helpers

func lClass(a common.Address) string {
	r := lrole(a)
	switch {
	case r == "C1" || r == "C2" || r == "C3":
		return "candidate"
	case len(r) == 2 && r[0] == 'D':
		return "deputy"
	case strings.HasPrefix(r, "income"):
		return "income"
	case r == "V" || r == "X" || r == "U":
		return "user"
	case strings.HasPrefix(r, "0x") && r != "0x00":
		return "other"
	}
	return r
}

// lDiff compares two account-data maps: which fields differ on which classes of accounts, and the detail.
func lDiff(ref, got map[common.Address]string) (string, string) {
	fields, classes := map[string]bool{}, map[string]bool{}
	var sb strings.Builder
	addrs := make(common.AddressSlice, 0, len(ref))
	for a := range ref {
		addrs = append(addrs, a)
	}
	sort.Sort(addrs)
	for _, addr := range addrs {
		av, bv := ref[addr], got[addr]
		if av == bv {
			continue
		}
		classes[lClass(addr)] = true
		af, bf := strings.Fields(av), strings.Fields(bv)
		for i := range af {
			if i >= len(bf) || af[i] != bf[i] {
				n := af[i]
				if j := strings.IndexAny(n, "={["); j > 0 {
					n = n[:j]
				}
				fields[n] = true
			}
		}
		if len(af) != len(bf) {
			fields["shape"] = true
		}
		fmt.Fprintf(&sb, "  %s (%s)\n    reference: %s\n    this node: %s\n", addr.Hex(), lrole(addr), av, bv)
	}
	if len(fields) == 0 {
		return "", ""
	}
	return joinSet(fields) + "@" + joinSet(classes), sb.String()
}

func joinSet(m map[string]bool) string {
	l := make([]string, 0, len(m))
	for k := range m {
		l = append(l, k)
	}
	sort.Strings(l)
	return strings.Join(l, "+")
}

func lHeaderDiff(a, b *types.Block) string {
	d := headerDiff(a, b)
	if string(a.Header.DeputyRoot) != string(b.Header.DeputyRoot) {
		if d != "" {
			d += "+"
		}
		d += "deputyRoot"
	}
	if d == "" && a.Hash() != b.Hash() {
		d = "header"
		if a.Header.Time != b.Header.Time {
			d += ":time"
		}
		if a.Header.MinerAddress != b.Header.MinerAddress {
			d += ":miner"
		}
		if a.Header.GasLimit != b.Header.GasLimit {
			d += ":gasLimit"
		}
		if a.Header.ParentHash != b.Header.ParentHash {
			d += ":parent"
		}
	}
	return d
}

// why tells what the node computed differently when it refused main block b: the engine's account
// manager still holds the state of the refused execution.
func (n *lnode) why(c *lchain, b *types.Block) (string, string) {
	// a transaction the node's processor refuses before executing it
	proc := n.BC.TxProcessor()
	for _, tx := range b.Txs {
		if err := proc.VerifyAssetTx(tx); err != nil {
			return fmt.Sprintf("tx-refused(type %d: %v)", tx.Type(), err), fmt.Sprintf("the node's VerifyAssetTx refuses transaction %s of the block: %v", tx.Hash().Prefix(), err)
		}
	}
	am := n.BC.AccountManager()
	if am.CurrentBlockHeight() != b.Height() {
		// the engine's account manager was not even reset to this block's parent: refused before execution
		return "before-or-outside-execution", ""
	}
	var roots []string
	func() {
		defer func() { recover() }()
		if am.GetVersionRoot() != b.VersionRoot() {
			roots = append(roots, "versionRoot")
		}
		if am.GetChangeLogs().MerkleRootSha() != b.LogRoot() {
			roots = append(roots, "logRoot")
		}
	}()
	got := map[common.Address]string{}
	ref := map[common.Address]string{}
	for a, v := range c.state[b.Height()] {
		d := account.VerifAccountData(am, a)
		ref[a] = v
		if d == nil {
			// never loaded by the refused execution: as in the parent state
			got[a] = node.DumpAccount(n.DB, b.ParentHash(), a)
			continue
		}
		got[a] = node.DumpAccountData(d)
		if len(d.NewestRecords) == 0 && v == "absent" {
			got[a] = "absent"
		}
	}
	f, detail := lDiff(ref, got)
	if len(roots) == 0 && f == "" {
		return "before-or-outside-execution", ""
	}
	return "computes:" + strings.Join(roots, "+") + ":" + f, detail
}

func sameTxs(a, b *types.Block) bool {
	if len(a.Txs) != len(b.Txs) {
		return false
	}
	for j := range a.Txs {
		if a.Txs[j].Hash() != b.Txs[j].Hash() {
			return false
		}
	}
	return true
}

// ---------------------------------------------------------------------------------------------
// the path runner

// stripScript removes the restarts, siblings and twins of a script (and what a restart made arrive a
// second time): what is left varies the stable pointer only.
func stripScript(s []lev) []lev {
	var out []lev
	seen := map[string]bool{}
	for _, e := range s {
		if e.Op != "B" && e.Op != "C" {
			continue
		}
		if seen[e.String()] {
			continue
		}
		seen[e.String()] = true
		out = append(out, e)
	}
	return out
}

var lTimes = map[string]time.Duration{}

// lCheck runs one node life of one history; a violation whose fingerprint this worker has not seen yet
// is shrunk (non-empty blocks of the history replaced by empty ones while the fingerprint stays) first.
func lCheck(c *lchain, p lpath, r *core.Result) {
	_, vs := lRunPath(c, p, r, false)
	for _, v := range vs {
		r.Add("violations_raw", 1)
		known := false
		for _, w := range r.Violations {
			if w.Fingerprint == v.Fingerprint {
				known = true
			}
		}
		if known {
			continue
		}
		v = lShrink(v)
		r.Violate(v.Fingerprint, v.What, v.Replay)
		r.Add("violations_raw", -1) // Violate counted it again
	}
}

func lShrink(v core.Violation) core.Violation {
	cs, ok := v.Replay.(lcase)
	if !ok {
		return v
	}
	for again := true; again; {
		again = false
		for i, l := range cs.Hist {
			if l == "-" {
				continue
			}
			h2 := append([]string{}, cs.Hist...)
			h2[i] = "-"
			if l2 := lBlockLetters(l); len(l2) > 1 {
				h2[i] = strings.Join(l2[:len(l2)-1], ",") // drop the last transaction of the block first
			}
			c2, ref := lBuild(h2)
			ref.Destroy()
			_, vs := lRunPath(c2, cs.Path, core.NewResult(prop, "exploration"), false)
			for _, w := range vs {
				if w.Fingerprint == v.Fingerprint {
					v, cs, again = w, w.Replay.(lcase), true
				}
			}
			if again {
				break
			}
		}
	}
	return v
}

func lRunPath(c *lchain, p lpath, r *core.Result, verbose bool) (trace []string, viols []core.Violation) {
	violate := func(fp, what string, replay interface{}) {
		for _, w := range viols {
			if w.Fingerprint == fp {
				return
			}
		}
		viols = append(viols, core.Violation{Fingerprint: fp, What: what, Replay: replay})
	}
	say := func(f string, a ...interface{}) {
		if verbose {
			trace = append(trace, fmt.Sprintf(f, a...))
		}
	}
	cs := lcase{Hist: c.hist, Path: p}
	mode := "validator"
	if p.Miner {
		mode = "miner"
	}
	t0 := time.Now()
	oldOrder := vorder.Policy()
	vorder.SetPolicy(p.MapOrder)
	defer vorder.SetPolicy(oldOrder)
	// every node is long-running: it receives the prefix in this process (a copy of a data directory would be a restart)
	n := lNewNode()
	lTimes["new"] += time.Since(t0)
	t1 := time.Now()
	for h := 1; h <= lPrefix; h++ {
		if err := n.insert(c.blocks[h]); err != nil {
			panic(fmt.Sprintf("harness: node rejects prefix block %d: %v", h, err))
		}
		n.confirm(c.blocks[h], c.sigs[h])
	}
	lTimes["prefix"] += time.Since(t1)
	defer func() { t := time.Now(); n.Destroy(); lTimes["destroy"] += time.Since(t) }()
	if n.stableHeight() != lPrefix || n.BC.CurrentBlock().Hash() != c.blocks[lPrefix].Hash() {
		panic("harness: prefix not stable")
	}
	t2 := time.Now()
	defer func() { lTimes["events"] += time.Since(t2) }()
	restarted := false
	report := func(h int, s uint32, what, diag, text string, minerStep bool) {
		// (a miner life whose head is on a sibling fork receives the main block from the wire: that step is a validator's)
		mode := "validator"
		if minerStep {
			mode = "miner"
		}
		if strings.HasPrefix(diag, "tx-refused(") && int(s) < h-1 {
			// A transaction that the node's admission check refuses while the node's stable block is below the
			// block's parent: the check reads the node's STABLE state. That does not depend on the kind of
			// height nor on how the node got behind (lagging confirms, a restart that lost them, a sibling):
			// one class, named the same in every tier and however much of the bound a run completed.
			fp := fmt.Sprintf("%s/local/%s/%s/height=any/%s-node/var=stable-pointer(stable<parent)", prop, what, diag, mode)
			violate(fp, fmt.Sprintf("%s (block %d = %s block, this node's stable block %d, restarted=%v, node life %s); %s", text, h, lHeightKind(uint32(h)), s, restarted, p.Kind, cs.String()), cs)
			return
		}
		if p.Kind != "stable-pointer" {
			// is the extra variable needed? The same node life without restarts, siblings and twins differs from the
			// reference node in the position of the stable pointer only: if it fails in the same way at the same
			// block, the failure is reported there (under its own fingerprint), not here.
			_, vs2 := lRunPath(c, lpath{Kind: "stable-pointer", Script: stripScript(p.Script), Miner: minerStep}, core.NewResult(prop, "exploration"), false)
			for _, v := range vs2 {
				if strings.Contains(v.Fingerprint, "/"+what+"/"+diag+"/height="+lHeightKind(uint32(h))+"/") {
					r.Add("L_failures_explained_by_the_stable_pointer_alone(reported there)", 1)
					violate(v.Fingerprint, v.What, v.Replay)
					say("   (the same failure occurs on a node that differs in the stable pointer only: reported as %s)", v.Fingerprint)
					return
				}
			}
		}
		rel := "stable=parent"
		if int(s) < h-1 {
			rel = "stable<parent"
		}
		v := p.Kind
		if p.Kind == "stable-pointer" {
			v = "stable-pointer(" + rel + ")"
		}
		fp := fmt.Sprintf("%s/local/%s/%s/height=%s/%s-node/var=%s", prop, what, diag, lHeightKind(uint32(h)), mode, v)
		violate(fp, fmt.Sprintf("%s (block %d = %s block, this node's stable block %d, restarted=%v); %s", text, h, lHeightKind(uint32(h)), s, restarted, cs.String()), cs)
	}
	for i, e := range p.Script {
		if core.OutOfTime() {
			break
		}
		switch e.Op {
		case "C":
			if e.H > c.top() {
				continue
			}
			n.confirm(c.blocks[e.H], c.sigs[e.H])
			say("%-6s stable=%d head=%d", e, n.stableHeight(), n.BC.CurrentBlock().Height())
		case "R":
			n.restart()
			restarted = true
			r.Add("L_restarts", 1)
			say("%-6s stable=%d head=%d", e, n.stableHeight(), n.BC.CurrentBlock().Height())
		case "S":
			for j, sb := range c.sibs(e.H) {
				if j >= e.N {
					break
				}
				if err := n.insert(sb); err != nil {
					r.Add("L_sibling_not_accepted(not asserted)", 1)
					say("%-6s sibling %d refused: %v", e, sb.Height(), err)
					break
				}
				r.Add("L_sibling_blocks_delivered", 1)
				say("%-6s sibling h=%d %s accepted; head=%d %s", e, sb.Height(), sb.Hash().Prefix(), n.BC.CurrentBlock().Height(), n.BC.CurrentBlock().Hash().Prefix())
			}
		case "X":
			if e.H > c.top() {
				continue
			}
			if err := n.insert(c.twin(e.H)); err == nil {
				violate(prop+"/local/corrupted-twin-accepted", "a block with a flipped version root was accepted; "+cs.String(), cs)
				return
			}
			r.Add("L_rejected_twins_executed", 1)
		case "B":
			h := e.H
			if h > c.top() {
				return trace, viols // the reference miner produced no block here
			}
			b := c.blocks[h]
			s := n.stableHeight()
			hk := lHeightKind(uint32(h))
			if _, err := n.DM.GetTermByHeight(uint32(h), true); err != nil {
				// the node does not know who signs at this height (the snapshot block of the term is not stable
				// on it): it can neither mine nor verify the signer. That is the protocol's precondition for
				// entering a term (ErrNoStableTerm: the node fetches the confirms and tries again), not execution.
				r.Add("L_node_does_not_know_the_term(not asserted)/"+mode, 1)
				say("%-6s the node does not know the deputies of height %d (stable=%d): path ends", e, h, s)
				return
			}
			r.Add("L_checks/"+mode+"/"+hk, 1)
			r.Add("L_checks/"+p.Kind, 1)
			r.Add("evaluations", 1)
			if int(s) < h-1 {
				r.Add("L_checks_with_unstable_ancestors/"+hk, 1)
			}
			if p.Miner {
				blk, _, err := n.mine(c.blocks[h-1], lBlockTxs(c.hist, h), 1)
				if err == errNotOnParent {
					// the node's head is on the sibling fork: an honest miner mines there; the main block arrives from the wire
					r.Add("L_miner_head_on_other_fork(block delivered instead)", 1)
				} else if err != nil {
					r.Add("L_miner_variant_produced_no_block(not asserted)", 1)
					r.Note("phase L: a miner variant produced no block (%v) || %s", err, cs.String())
					say("%-6s miner: no block: %v", e, err)
					return
				} else if !sameTxs(blk, b) {
					r.Add("L_miner_variant_packaged_another_list(not asserted)", 1)
					r.Note("phase L: a miner variant packaged %d transactions, the reference miner %d || %s", len(blk.Txs), len(b.Txs), cs.String())
					say("%-6s miner: packaged %d txs, reference %d: path ends", e, len(blk.Txs), len(b.Txs))
					return
				} else if blk.Hash() != b.Hash() {
					got := lDump(n, blk.Hash(), lAddrsOf(b))
					f, detail := lDiff(c.state[h], got)
					hd := lHeaderDiff(b, blk)
					say("%-6s miner: MINED ANOTHER BLOCK %s (reference %s): %s %s\n%s", e, blk.Hash().Prefix(), b.Hash().Prefix(), hd, f, detail)
					report(h, s, "miners-differ", hd+":"+f, fmt.Sprintf("two honest miners that differ only in node-local state mine different blocks from the same parent, header choices and transaction list: %s differ, account data: %s\n%s", hd, f, detail), true)
					return
				} else {
					say("%-6s miner: mined the reference block %s (stable=%d)", e, b.Hash().Prefix(), s)
					continue
				}
			}
			err := n.insert(b)
			if err != nil {
				diag, detail := n.why(c, b)
				say("%-6s REJECTED (%v) stable=%d: %s\n%s", e, err, s, diag, detail)
				report(h, s, "honest-block-rejected", diag, fmt.Sprintf("the node rejects the block an honest miner produced (%v): %s\n%s", err, diag, detail), false)
				return
			}
			got := lDump(n, b.Hash(), lAddrsOf(b))
			if f, detail := lDiff(c.state[h], got); f != "" {
				say("%-6s accepted, STATE DIFFERS: %s\n%s", e, f, detail)
				report(h, s, "state-differs", f, fmt.Sprintf("the node accepted the block but its account data differs from the miner's: %s\n%s", f, detail), false)
				return
			}
			r.Outcome(fmt.Sprintf("L/%s/txs=%d/logs=%d/unstable-ancestors=%d", hk, len(b.Txs), len(b.ChangeLogs), h-1-int(s)))
			say("%-6s accepted, same state (stable=%d head=%d %s)", e, s, n.BC.CurrentBlock().Height(), n.BC.CurrentBlock().Hash().Prefix())
		}
		_ = i
	}
	return trace, viols
}

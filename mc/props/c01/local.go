// C01, phase L — block execution must not depend on NODE-LOCAL state that is not part of the parent
// state: where the node's stable pointer stands, whether the node restarted, which sibling forks it
// knows, what it executed (and rejected) before.
//
// World (see lworld below): a real network of whole nodes (chain.BlockChain + the real DPoVP engine +
// store + deputy manager), FOUR genesis deputies (DeputyCount 4: a block is stable with 3 signatures,
// so neither the miner's nor a node's own signature ever decides stability and every position of the
// stable pointer is reachable on every node, deputy or not), params.TermDuration = 8,
// params.InterimDuration = 2: snapshot block 8, interim 9..10, reward block (first block of the new
// term) 11. Registered candidates with deposits (C1, C3; C2 registers inside the window), a voter, an
// asset, contracts (a counter, a recorder of BLOCKHASH(NUMBER-1..4)).
//
// Every block of the window 7..12 is MINED BY THE REAL ENGINE (DPoVP.MineBlock: pool -> PrepareHeader ->
// VerifyMiner -> ApplyTxs -> Finalize -> Seal -> save) on a reference node on which everything is
// stable, with the deputy in turn as the node's key and the harness clock at that deputy's slot.
// Then the same chain is replayed on other nodes along SCRIPTS of node-local events
//
//	B h   the main block of height h arrives from the wire (validator mode) / is mined by this
//	      node with the same pool content, key and clock (miner mode)
//	C h   the confirms that make main block h (and its ancestors) stable arrive
//	R     the process restarts (node closed, data directory reopened; unconfirmed blocks are gone)
//	S k n a sibling fork of n blocks on main block k-1 arrives (mined by the next deputy one slot later)
//	X h   a copy of main block h with a wrong version root, re-signed by its miner, arrives (executed, rejected)
//
// and at every B event the statement of C01 is checked: the block is accepted, and the account data
// of every address named in the block's change logs plus a watch list is field for field what the
// reference node has (validator mode); the mined block IS the reference block (miner mode).
package main

import (
	"encoding/json"
	"fmt"
	"math/big"
	"os"
	"sort"
	"strconv"
	"strings"
	"time"

	"verifmc/chainkit"
	"verifmc/core"
	"verifmc/node"
	"verifmc/vclock"

	"github.com/LemoFoundationLtd/lemochain-core/chain"
	"github.com/LemoFoundationLtd/lemochain-core/chain/consensus"
	"github.com/LemoFoundationLtd/lemochain-core/chain/deputynode"
	"github.com/LemoFoundationLtd/lemochain-core/chain/params"
	"github.com/LemoFoundationLtd/lemochain-core/chain/types"
	"github.com/LemoFoundationLtd/lemochain-core/common"
	"github.com/LemoFoundationLtd/lemochain-core/common/crypto"
)

const (
	lT      = uint32(8) // params.TermDuration during phase L
	lI      = uint32(2) // params.InterimDuration
	lDeps   = 4         // genesis deputies = DeputyCount
	lPrefix = 6         // heights 1..6: scripted, stable on every node before anything else happens
	lFirst  = 7         // window
	lLast   = 12
	lSlot   = uint32(node.MineTimeout / 1000)
)

// the nodes' clock while blocks are delivered: later than every block
var lLate = int64(node.GenesisTime) + 100000

// ---------------------------------------------------------------------------------------------
// fixture

var (
	lC1, lC2, lC3 = node.K("c1"), node.K("c2"), node.K("c3")
	lV, lX, lU    = node.User(0), node.User(1), node.User(2)
	lKeyByAddr    = map[common.Address]*node.Key{}
	lRole         = map[common.Address]string{}
	lRtBlockhash  []byte
)

func init() {
	for i := 0; i < lDeps; i++ {
		lKeyByAddr[node.Deputy(i).Addr] = node.Deputy(i)
		lRole[node.Deputy(i).Addr] = fmt.Sprintf("D%d", i)
		lRole[node.K(fmt.Sprintf("income%d", i)).Addr] = fmt.Sprintf("income%d", i)
	}
	for n, k := range map[string]*node.Key{"C1": lC1, "C2": lC2, "C3": lC3, "V": lV, "X": lX, "U": lU, "founder": node.Founder()} {
		lKeyByAddr[k.Addr] = k
		lRole[k.Addr] = n
	}
	lRole[params.DepositPoolAddress] = "deposit-pool"
	lRole[params.TermRewardContract] = "reward-contract"
	lRole[common.Address{}] = "0x00"
	// storage[i-1] = BLOCKHASH(NUMBER - i) for i = 1..4
	for i := byte(1); i <= 4; i++ {
		lRtBlockhash = append(lRtBlockhash, 0x60, i, 0x43, 0x03, 0x40, 0x60, i-1, 0x55)
	}
	lRtBlockhash = append(lRtBlockhash, 0x00)
}

func lrole(a common.Address) string {
	if r, ok := lRole[a]; ok {
		return r
	}
	return a.Hex()[:12]
}

func lExp(h int, i int) uint64 { return uint64(node.GenesisTime) + 600 + uint64(h)*40 + uint64(i) }

func laddr(a common.Address) *common.Address { return &a }

// the fixed prefix transactions (heights 1..3; 4..6 are empty)
type lfixture struct {
	counter, recorder common.Address
	asset0            common.Hash // code of the asset created in block 2
	asset0ID          common.Hash // id of the units issued in block 3 (V holds 1000); a token asset's id is its code
	prefixTxs         [][]*types.Transaction
}

var lfix *lfixture

func lFixture() *lfixture {
	if lfix != nil {
		return lfix
	}
	f := &lfixture{}
	fo := node.Founder()
	big6 := new(big.Int).Add(params.MinCandidateDeposit, node.Lemo(100000))
	var b1 types.Transactions
	i := 0
	pay := func(to *node.Key, amount *big.Int) {
		b1 = append(b1, node.Transfer(fo, to.Addr, amount, lExp(1, i)))
		i++
	}
	pay(lV, node.Lemo(1090))
	pay(lX, node.Lemo(30000))
	pay(lU, node.Lemo(1000))
	pay(lC1, big6)
	pay(lC2, big6)
	pay(lC3, big6)
	for d := 0; d < lDeps; d++ {
		pay(node.Deputy(d), node.Lemo(1000))
	}
	var b2 types.Transactions
	b2 = append(b2, node.Register(lC1, params.MinCandidateDeposit, node.CandidateProfile(lC1, "7101"), lExp(2, 0)))
	b2 = append(b2, node.Register(lC3, new(big.Int).Add(params.MinCandidateDeposit, node.Lemo(150)), node.CandidateProfile(lC3, "7103"), lExp(2, 1)))
	dep := func(rt []byte, j int) (*types.Transaction, common.Address) {
		tx := node.Tx(node.TxSpec{Type: params.CreateContractTx, From: lX, Data: chainkit.InitCode(rt), Exp: lExp(2, j), Amount: node.Lemo(1)})
		return tx, crypto.CreateContractAddress(lX.Addr, tx.Hash())
	}
	var tx *types.Transaction
	tx, f.counter = dep(chainkit.RtCounter, 2)
	b2 = append(b2, tx)
	tx, f.recorder = dep(lRtBlockhash, 3)
	b2 = append(b2, tx)
	ca := lCreateAsset(lExp(2, 4))
	f.asset0 = ca.Hash()
	b2 = append(b2, ca)
	iss := lIssue(f.asset0, lV.Addr, "1000", lExp(3, 0))
	f.asset0ID = f.asset0
	f.prefixTxs = [][]*types.Transaction{nil, b1, b2, {iss}, nil, nil, nil}
	lRole[f.counter] = "counter-contract"
	lRole[f.recorder] = "blockhash-recorder"
	lfix = f
	return f
}

func lCreateAsset(exp uint64) *types.Transaction {
	asset := map[string]interface{}{"category": 1, "isDivisible": true, "decimal": 2, "isReplenishable": true, "profile": map[string]string{"name": "tok", "symbol": "TK", "description": "d", "suggestedGasLimit": "60000"}}
	ad, _ := json.Marshal(asset)
	return node.Tx(node.TxSpec{Type: params.CreateAssetTx, From: lX, Data: ad, Exp: exp})
}

func lIssue(code common.Hash, to common.Address, amount string, exp uint64) *types.Transaction {
	d, _ := json.Marshal(map[string]interface{}{"assetCode": code, "metaData": "m", "supplyAmount": amount})
	return node.Tx(node.TxSpec{Type: params.IssueAssetTx, From: lX, To: laddr(to), Data: d, Exp: exp})
}

// lWatch is the fixed list of addresses every comparison looks at besides the touched ones.
func lWatch() []common.Address {
	f := lFixture()
	l := []common.Address{node.Founder().Addr, lC1.Addr, lC2.Addr, lC3.Addr, lV.Addr, lX.Addr, lU.Addr, params.DepositPoolAddress, params.TermRewardContract, {}, f.counter, f.recorder}
	for d := 0; d < lDeps; d++ {
		l = append(l, node.Deputy(d).Addr, node.K(fmt.Sprintf("income%d", d)).Addr)
	}
	return l
}

// ---------------------------------------------------------------------------------------------
// letters: what the block of one window height contains

func lprofile(k *node.Key, isCandidate string) map[string]string {
	p := node.CandidateProfile(k, "7100")
	p[types.CandidateKeyIsCandidate] = isCandidate
	return p
}

// lLetterNames is the alphabet, simplest first. A block letter is one name or several joined by ",".
var lLetterNames = []string{
	"tXC1", "tVX", "vVC1", "vVC3", "vVD0",
	"rC2", "rC2f", "xC2", "uC2", "xC1", "xC3", "xD0", "xD3", "uC1",
	"s0", "s1",
	"cA", "iA", "pA", "mA", "tA", "iA0", "tA0", "tUA0", "fA0",
	"kH", "kC", "cK", "kK",
}

// lTx builds the transaction of a letter at window height h of history hist (some letters refer to a
// transaction of an earlier block of the same history). i is its position in the block.
func lTx(name string, hist []string, h int, i int) *types.Transaction {
	f := lFixture()
	exp := lExp(h, i)
	xfer := func(from *node.Key, to common.Address, lemo int64) *types.Transaction {
		return node.Transfer(from, to, node.Lemo(lemo), exp)
	}
	reg := func(k *node.Key, amount *big.Int, isCand string) *types.Transaction {
		return node.Register(k, amount, lprofile(k, isCand), exp)
	}
	// the transaction of letter `of` in the nearest earlier block of this history
	earlier := func(of string) *types.Transaction {
		for hh := h; hh >= lFirst; hh-- {
			for j, n := range lBlockLetters(hist[hh-lFirst]) {
				if n == of && (hh < h || j < i) {
					return lTx(of, hist, hh, j)
				}
			}
		}
		return nil
	}
	setReward := func(term uint32, v *big.Int) *types.Transaction {
		data, _ := json.Marshal(map[string]string{"term": strconv.Itoa(int(term)), "value": v.String()})
		return node.Tx(node.TxSpec{Type: params.OrdinaryTx, From: node.Founder(), To: laddr(params.TermRewardContract), Data: data, Exp: exp, GasLimit: 100000})
	}
	call := func(to common.Address) *types.Transaction {
		return node.Tx(node.TxSpec{Type: params.OrdinaryTx, From: lX, To: laddr(to), Exp: exp, GasLimit: 300000})
	}
	switch name {
	case "tXC1":
		return xfer(lX, lC1.Addr, 500)
	case "tVX":
		return xfer(lV, lX.Addr, 450)
	case "vVC1":
		return node.Vote(lV, lC1.Addr, exp)
	case "vVC3":
		return node.Vote(lV, lC3.Addr, exp)
	case "vVD0":
		return node.Vote(lV, node.Deputy(0).Addr, exp)
	case "rC2":
		return reg(lC2, params.MinCandidateDeposit, "true")
	case "rC2f": // a first registration that says isCandidate=false: the deposit is paid, the account is "unregistered"
		return reg(lC2, params.MinCandidateDeposit, "false")
	case "xC2":
		return reg(lC2, new(big.Int), "false")
	case "uC2":
		return reg(lC2, node.Lemo(100), "true")
	case "xC1":
		return reg(lC1, new(big.Int), "false")
	case "xC3":
		return reg(lC3, new(big.Int), "false")
	case "xD0":
		return reg(node.Deputy(0), new(big.Int), "false")
	case "xD3":
		return reg(node.Deputy(3), new(big.Int), "false")
	case "uC1":
		return reg(lC1, node.Lemo(100), "true")
	case "s0":
		return setReward(0, new(big.Int).Add(node.Lemo(7), big.NewInt(3)))
	case "s1":
		return setReward(1, node.Lemo(3))
	case "cA":
		return lCreateAsset(exp)
	case "iA": // issue of the asset created by the nearest earlier cA of this history (none: of a code nobody created)
		code := common.HexToHash("0xa55e7")
		if c := earlier("cA"); c != nil {
			code = c.Hash()
		}
		return lIssue(code, lV.Addr, "77", exp)
	case "pA", "mA": // the issuer replenishes / changes the profile of the asset of the nearest earlier cA
		code := common.HexToHash("0xa55e7")
		if c := earlier("cA"); c != nil {
			code = c.Hash()
		}
		if name == "pA" {
			d, _ := json.Marshal(map[string]interface{}{"assetCode": code, "assetId": code, "replenishAmount": "9"})
			return node.Tx(node.TxSpec{Type: params.ReplenishAssetTx, From: lX, To: laddr(lV.Addr), Data: d, Exp: exp})
		}
		d, _ := json.Marshal(map[string]interface{}{"assetCode": code, "updateProfile": map[string]string{"description": "new"}})
		return node.Tx(node.TxSpec{Type: params.ModifyAssetTx, From: lX, Data: d, Exp: exp})
	case "tA": // V passes on units of the asset of the nearest earlier cA (issued to V by iA)
		id := common.HexToHash("0xa55e7")
		if c := earlier("cA"); c != nil {
			id = c.Hash()
		}
		d, _ := json.Marshal(map[string]interface{}{"assetId": id, "transferAmount": "7"})
		return node.Tx(node.TxSpec{Type: params.TransferAssetTx, From: lV, To: laddr(lU.Addr), Data: d, Exp: exp})
	case "iA0":
		return lIssue(f.asset0, lU.Addr, "9", exp)
	case "tUA0": // U passes on units of the prefix asset (it holds some after iA0)
		d, _ := json.Marshal(map[string]interface{}{"assetId": f.asset0ID, "transferAmount": "5"})
		return node.Tx(node.TxSpec{Type: params.TransferAssetTx, From: lU, To: laddr(lX.Addr), Data: d, Exp: exp})
	case "tA0":
		d, _ := json.Marshal(map[string]interface{}{"assetId": f.asset0ID, "transferAmount": "30"})
		return node.Tx(node.TxSpec{Type: params.TransferAssetTx, From: lV, To: laddr(lU.Addr), Data: d, Exp: exp})
	case "fA0":
		d, _ := json.Marshal(map[string]interface{}{"assetCode": f.asset0, "updateProfile": map[string]string{"freeze": "true"}})
		return node.Tx(node.TxSpec{Type: params.ModifyAssetTx, From: lX, Data: d, Exp: exp})
	case "kH":
		return call(f.recorder)
	case "kC":
		return call(f.counter)
	case "cK":
		return node.Tx(node.TxSpec{Type: params.CreateContractTx, From: lX, Data: chainkit.InitCode(chainkit.RtCounter), Exp: exp, Amount: node.Lemo(1)})
	case "kK": // call of the contract created by the nearest earlier cK (none: a plain transfer of 0 to an unused address)
		to := common.HexToAddress("0xc0de")
		if c := earlier("cK"); c != nil {
			to = crypto.CreateContractAddress(lX.Addr, c.Hash())
		}
		return call(to)
	}
	panic("phase L: no letter " + name)
}

func lBlockLetters(letter string) []string {
	if letter == "-" || letter == "" {
		return nil
	}
	return strings.Split(letter, ",")
}

func lBlockTxs(hist []string, h int) types.Transactions {
	var l types.Transactions
	for i, n := range lBlockLetters(hist[h-lFirst]) {
		l = append(l, lTx(n, hist, h, i))
	}
	return l
}

// the fixed content of sibling blocks: it touches the accounts the letters touch, differently
func lSiblingTxs(k int) types.Transactions {
	return types.Transactions{
		node.Transfer(lX, lC1.Addr, node.Lemo(700), lExp(k, 20)),
		node.Vote(lV, lC3.Addr, lExp(k, 21)),
		node.Register(lC2, new(big.Int).Add(params.MinCandidateDeposit, node.Lemo(150)), lprofile(lC2, "true"), lExp(k, 22)),
	}
}

func lHeightKind(h uint32) string {
	switch {
	case h%lT == 0:
		return "snapshot"
	case h%lT == 1 && h > lT:
		return "snapshot+1"
	case deputynode.IsRewardBlock(h):
		return "reward"
	case h > 1 && deputynode.IsRewardBlock(h-1):
		return "reward+1"
	case h%lT <= lI && h > lI:
		return "interim"
	case h%lT == lT-1:
		return "snapshot-1"
	}
	return "ordinary"
}

// ---------------------------------------------------------------------------------------------
// nodes

type lnode struct {
	*node.Node
	eng *consensus.DPoVP
}

func lNewNode() *lnode {
	n := node.NewNode(core.ScratchDir("c01L"), lDeps, node.K("observer"))
	return &lnode{n, chain.VerifC19Engine(n.BC)}
}

func (n *lnode) restart() {
	if !n.Quiesce() {
		panic("harness: store does not quiesce")
	}
	dir := n.Dir
	n.Close()
	nn := node.Reopen(dir, lDeps, node.K("observer"))
	n.Node = nn
	n.eng = chain.VerifC19Engine(nn.BC)
}

func (n *lnode) stableHeight() uint32 { return n.BC.StableBlock().Height() }

// insert delivers a block from the wire.
func (n *lnode) insert(b *types.Block) (err error) {
	n.Use()
	defer func() {
		if p := recover(); p != nil {
			err = fmt.Errorf("panic in validator: %v", p)
		}
		n.Quiesce()
	}()
	w := node.Wire(b)
	w.Confirms = nil
	return n.BC.InsertBlock(w)
}

func (n *lnode) confirm(b *types.Block, sigs []types.SignData) {
	n.Use()
	n.BC.InsertConfirms(b.Height(), b.Hash(), sigs)
	n.Quiesce()
}

// slotTime is the harness clock for a block on parent mined by the deputy `slot` slots after the parent's miner.
func lSlotTime(parent *types.Block, slot int) uint32 {
	return parent.Time() + uint32(slot-1)*lSlot + 1
}

var errNotOnParent = fmt.Errorf("the node's head is not the parent")

// mine makes the node mine on parent (which must be its head) with exactly txs in its pool, as the
// deputy whose slot it is, with the node's clock inside that slot.
func (n *lnode) mine(parent *types.Block, txs types.Transactions, slot int) (blk *types.Block, who *node.Key, err error) {
	if n.BC.CurrentBlock().Hash() != parent.Hash() {
		return nil, nil, errNotOnParent
	}
	tm := lSlotTime(parent, slot)
	addr, err := consensus.GetCorrectMiner(parent.Header, int64(tm)*1000, int64(node.MineTimeout), n.DM)
	if err != nil {
		return nil, nil, fmt.Errorf("no deputy in turn known: %v", err)
	}
	who = lKeyByAddr[addr]
	if who == nil {
		return nil, nil, fmt.Errorf("harness: deputy in turn %s has no key in the fixture", addr.Hex())
	}
	// the pool holds exactly the transactions of the letter (what an honest miner picks from its pool is its choice)
	if old := n.Pool.GetTxs(0, 100000); len(old) > 0 {
		n.Pool.DelTxs(old)
	}
	for _, tx := range txs {
		n.Pool.AddTx(tx.Clone())
	}
	node.SetSelf(who)
	vclock.SetUnix(int64(tm))
	func() {
		defer func() {
			if p := recover(); p != nil {
				err = fmt.Errorf("panic in miner: %v", p)
			}
		}()
		blk, err = n.eng.MineBlock(node.HugeTimeout)
	}()
	vclock.SetUnix(lLate)
	n.Use()
	n.Quiesce()
	return blk, who, err
}

func lDump(n *lnode, hash common.Hash, addrs []common.Address) map[common.Address]string {
	out := map[common.Address]string{}
	for _, a := range addrs {
		out[a] = node.DumpAccount(n.DB, hash, a)
	}
	return out
}

func lAddrsOf(b *types.Block) []common.Address {
	set := map[common.Address]bool{}
	for _, a := range node.TouchedAddresses(b) {
		set[a] = true
	}
	for _, a := range lWatch() {
		set[a] = true
	}
	l := make(common.AddressSlice, 0, len(set))
	for a := range set {
		l = append(l, a)
	}
	sort.Sort(l)
	return l
}

// ---------------------------------------------------------------------------------------------
// the reference chain of one history

type lchain struct {
	hist     []string
	blocks   []*types.Block       // index = height; [0] = genesis
	miners   []*node.Key          // who mined it
	sigs     [][]types.SignData   // confirms of every deputy in charge but the miner
	state    []map[common.Address]string // reference account data after block h (touched + watch)
	packaged [][]string
	noBlock  string // the reference miner produced no block at this point: "h=..: err"
	siblings map[int][]*types.Block
}

var lPrefixBlocks []*types.Block // heights 0..lPrefix as mined by the first reference node of this worker (they never change)
var lPrefixMeta *lchain

func lSetParams() {
	params.TermDuration = lT
	params.InterimDuration = lI
	params.RewardCheckHeight = 3
	vclock.SetUnix(lLate)
}

func lResetParams() { vclock.Reset() }

// sign the confirms of every deputy in charge at b's height except its miner, as seen by a node that knows the term
func lConfirmsOf(n *lnode, b *types.Block) []types.SignData {
	var out []types.SignData
	for _, dn := range n.DM.GetDeputiesByHeight(b.Height(), true) {
		if dn.MinerAddress == b.MinerAddress() {
			continue
		}
		k := lKeyByAddr[dn.MinerAddress]
		if k == nil {
			panic("harness: deputy without key " + dn.MinerAddress.Hex())
		}
		out = append(out, node.SignConfirm(k, b.Hash()))
	}
	return out
}

// lBuild mines the reference chain of a history on a fresh node on which every block is stable
// before the next is mined. The returned node holds the whole chain (caller destroys it).
func lBuild(hist []string) (*lchain, *lnode) {
	f := lFixture()
	c := &lchain{hist: hist, siblings: map[int][]*types.Block{}}
	n := lNewNode()
	g := n.BC.Genesis()
	add := func(b *types.Block, who *node.Key) {
		c.blocks = append(c.blocks, b)
		c.miners = append(c.miners, who)
		if b.Height() == 0 {
			c.sigs = append(c.sigs, nil)
			c.state = append(c.state, nil)
			c.packaged = append(c.packaged, nil)
			return
		}
		c.sigs = append(c.sigs, lConfirmsOf(n, b))
		c.state = append(c.state, lDump(n, b.Hash(), lAddrsOf(b)))
		var p []string
		for _, tx := range b.Txs {
			p = append(p, tx.Hash().Prefix())
		}
		c.packaged = append(c.packaged, p)
	}
	add(g, nil)
	if lPrefixMeta != nil {
		// the prefix is the same for every history: deliver it
		for h := 1; h <= lPrefix; h++ {
			b := lPrefixMeta.blocks[h]
			if err := n.insert(b); err != nil {
				panic(fmt.Sprintf("harness: reference node rejects prefix block %d: %v", h, err))
			}
			n.confirm(b, lPrefixMeta.sigs[h])
			c.blocks = append(c.blocks, b)
			c.miners = append(c.miners, lPrefixMeta.miners[h])
			c.sigs = append(c.sigs, lPrefixMeta.sigs[h])
			c.state = append(c.state, lPrefixMeta.state[h])
			c.packaged = append(c.packaged, lPrefixMeta.packaged[h])
		}
	}
	for h := len(c.blocks); h <= lLast; h++ {
		var txs types.Transactions
		if h <= lPrefix {
			txs = f.prefixTxs[h]
		} else {
			txs = lBlockTxs(hist, h)
		}
		parent := c.blocks[h-1]
		b, who, err := n.mine(parent, txs, 1)
		if err != nil {
			if h <= lPrefix {
				panic(fmt.Sprintf("harness: prefix block %d cannot be mined: %v", h, err))
			}
			c.noBlock = fmt.Sprintf("h=%d: %v", h, err)
			break
		}
		if h <= lPrefix && len(b.Txs) != len(txs) {
			panic(fmt.Sprintf("harness: prefix block %d packaged %d of %d transactions", h, len(b.Txs), len(txs)))
		}
		stored, err := n.DB.GetBlockByHash(b.Hash())
		if err != nil {
			panic(err)
		}
		add(node.Wire(stored), who)
		n.confirm(b, c.sigs[h])
		if n.stableHeight() != uint32(h) {
			panic(fmt.Sprintf("harness: reference block %d is not stable with all deputies' signatures (stable %d)", h, n.stableHeight()))
		}
		if h == lPrefix && lPrefixMeta == nil {
			lPrefixMeta = &lchain{blocks: append([]*types.Block{}, c.blocks...), miners: append([]*node.Key{}, c.miners...), sigs: append([][]types.SignData{}, c.sigs...),
				state: append([]map[common.Address]string{}, c.state...), packaged: append([][]string{}, c.packaged...)}
		}
	}
	return c, n
}

func (c *lchain) top() int { return len(c.blocks) - 1 }

// ---------------------------------------------------------------------------------------------
// probe (development aid): C01_LOCAL_PROBE="- - - rC2f - -" [C01_LOCAL_SCRIPT="B7 B8 C8 B9 B10 B11 B12"] [C01_LOCAL_MINER=1]

func lProbe() {
	lSetParams()
	defer lResetParams()
	hist := strings.Fields(os.Getenv("C01_LOCAL_PROBE"))
	for len(hist) < lLast-lFirst+1 {
		hist = append(hist, "-")
	}
	c, ref := lBuild(hist)
	defer ref.Destroy()
	for h := 1; h <= c.top(); h++ {
		b := c.blocks[h]
		fmt.Printf("ref h=%d %-10s miner=%s hash=%s txs=%d logs=%d deputies=%d\n", h, lHeightKind(uint32(h)), lrole(b.MinerAddress()), b.Hash().Prefix(), len(b.Txs), len(b.ChangeLogs), len(b.DeputyNodes))
		for _, dn := range b.DeputyNodes {
			fmt.Printf("      rank %d %s votes %s\n", dn.Rank, lrole(dn.MinerAddress), dn.Votes)
		}
	}
	if c.noBlock != "" {
		fmt.Println("reference miner produced no block:", c.noBlock)
	}
	r := core.NewResult(prop, "exploration")
	if os.Getenv("C01_LOCAL_ALL") != "" {
		t0 := time.Now()
		paths := lPaths(core.Thorough())
		for _, p := range paths {
			t1 := time.Now()
			lCheck(c, p, r)
			if os.Getenv("C01_LOCAL_ALL") == "v" {
				fmt.Printf("%-8v %-22s miner=%-5v %s\n", time.Since(t1).Round(time.Millisecond), p.Kind, p.Miner, scriptString(p.Script))
			}
		}
		fmt.Printf("%d paths in %v %v\n", len(paths), time.Since(t0), lTimes)
		for _, v := range r.Violations {
			fmt.Printf("VIOLATION %s\n  %s\n", v.Fingerprint, v.What)
		}
		keys := make([]string, 0)
		for k, v := range r.Counters {
			keys = append(keys, fmt.Sprintf("%s=%d", k, v))
		}
		sort.Strings(keys)
		fmt.Println(strings.Join(keys, "\n"))
		for _, n := range r.Notes {
			fmt.Println("note:", n)
		}
		return
	}
	script := os.Getenv("C01_LOCAL_SCRIPT")
	if script == "" {
		return
	}
	p := lpath{Kind: "probe", Script: parseScript(script), Miner: os.Getenv("C01_LOCAL_MINER") != ""}
	tr, vs := lRunPath(c, p, r, true)
	for _, l := range tr {
		fmt.Println(l)
	}
	for _, v := range vs {
		fmt.Printf("VIOLATION %s\n  %s\n", v.Fingerprint, v.What)
	}
	keys := make([]string, 0)
	for k, v := range r.Counters {
		keys = append(keys, fmt.Sprintf("%s=%d", k, v))
	}
	sort.Strings(keys)
	fmt.Println(strings.Join(keys, " "))
}

package main

// phase L: which histories are explored per tier, the shard worker, the replay, the evidence text.

import (
	"fmt"
	"os"
	"sort"
	"strings"

	"verifmc/core"
)

const lWindow = lLast - lFirst + 1

// letters that only make sense after another letter of the same history (first, second): every
// ordered pair of window positions i < j gets (first at i, second at j); and blocks of two transactions.
var lDependentPairs = [][2]string{
	{"rC2", "xC2"}, {"rC2", "uC2"}, {"rC2f", "uC2"}, {"cA", "iA"}, {"cA", "mA"}, {"cK", "kK"}, {"vVC1", "tVX"}, {"xC1", "tXC1"}, {"iA0", "tA0"}, {"iA0", "tUA0"}, {"fA0", "tA0"}, {"s0", "xD0"},
}

// letters that need two earlier ones: every ordered triple of window positions
var lDependentTriples = [][3]string{{"cA", "iA", "tA"}, {"cA", "iA", "pA"}, {"rC2", "uC2", "xC2"}}

var lTwoTxBlocks = []string{"rC2,xC2", "cA,iA", "cK,kK", "rC2f,tXC1", "xC1,xC3", "vVC1,tVX", "rC2f,xD0"}

// the reduced alphabet for ALL pairs of letters at all pairs of positions (thorough tier)
var lPairLetters = []string{"tVX", "vVC1", "rC2", "rC2f", "xC2", "xC1", "xD0", "s0", "kH"}

func lEmptyHist() []string {
	h := make([]string, lWindow)
	for i := range h {
		h[i] = "-"
	}
	return h
}

func lHistories(thorough bool) [][]string {
	var out [][]string
	seen := map[string]bool{}
	add := func(h []string) {
		k := strings.Join(h, " ")
		if !seen[k] {
			seen[k] = true
			out = append(out, h)
		}
	}
	add(lEmptyHist())
	// one non-empty block: every letter at every window height
	singles := append(append([]string{}, lLetterNames...), lTwoTxBlocks...)
	for _, l := range singles {
		for i := 0; i < lWindow; i++ {
			h := lEmptyHist()
			h[i] = l
			add(h)
		}
	}
	// dependent pairs at every pair of positions
	for _, p := range lDependentPairs {
		for i := 0; i < lWindow; i++ {
			for j := i + 1; j < lWindow; j++ {
				h := lEmptyHist()
				h[i], h[j] = p[0], p[1]
				add(h)
			}
		}
	}
	for _, p := range lDependentTriples {
		for i := 0; i < lWindow; i++ {
			for j := i + 1; j < lWindow; j++ {
				for k := j + 1; k < lWindow; k++ {
					h := lEmptyHist()
					h[i], h[j], h[k] = p[0], p[1], p[2]
					add(h)
				}
			}
		}
	}
	if thorough {
		for _, a := range lPairLetters {
			for _, b := range lPairLetters {
				for i := 0; i < lWindow; i++ {
					for j := i + 1; j < lWindow; j++ {
						h := lEmptyHist()
						h[i], h[j] = a, b
						add(h)
					}
				}
			}
		}
	}
	return out
}

func lNonEmpty(h []string) int {
	n := 0
	for _, l := range h {
		if l != "-" {
			n++
		}
	}
	return n
}

// runLocalShard runs shard i of n of phase L into r.
func runLocalShard(i, n int, r *core.Result) {
	lSetParams()
	defer lResetParams()
	hists := lHistories(core.Thorough())
	paths := lPaths(core.Thorough())
	only := os.Getenv("C01_LOCAL_ONLY_HIST") // development: substring filter
	for k := i; k < len(hists); k += n {
		h := hists[k]
		if only != "" && !strings.Contains(strings.Join(h, " "), only) {
			continue
		}
		core.Journal("phase L: " + strings.Join(h, " | "))
		c, ref := lBuild(h)
		ref.Destroy()
		r.Add("L_histories", 1)
		if c.noBlock != "" {
			r.Add("L_reference_miner_produced_no_block(not asserted)", 1)
			r.Note("phase L: the reference miner produced no block (%s) || %s", c.noBlock, strings.Join(h, " | "))
		}
		for h := lFirst; h <= c.top(); h++ {
			r.Add("L_reference_blocks_mined/"+lHeightKind(uint32(h)), 1)
			if len(c.blocks[h].Txs) > 0 {
				r.Add("L_reference_blocks_with_transactions/"+lHeightKind(uint32(h)), 1)
			}
			lCountEffects(c, h, r)
		}
		for _, p := range paths {
			lCheck(c, p, r)
			r.Add("L_node_lives", 1)
			if core.OutOfTime() {
				break
			}
		}
		if k%97 == 0 {
			r.Sample(map[string]interface{}{"phase_L_window_7_to_12": h})
		}
		if core.OutOfTime() {
			r.NotExhaustive(fmt.Sprintf("phase L: internal deadline at history %d of %d (one non-empty block first, then pairs)", k, len(hists)))
			break
		}
	}
}

// lCountEffects counts what the reference blocks did, for the non-vacuity gate: refunds paid at the
// reward block, salaries, deputies elected.
func lCountEffects(c *lchain, h int, r *core.Result) {
	b := c.blocks[h]
	hk := lHeightKind(uint32(h))
	if hk == "snapshot" {
		names := make([]string, 0)
		for _, dn := range b.DeputyNodes {
			names = append(names, lrole(dn.MinerAddress))
		}
		r.Outcome("L/elected=" + strings.Join(names, ","))
	}
	prev := c.state[h-1]
	for a, v := range c.state[h] {
		if lClass(a) == "candidate" || lClass(a) == "deputy" {
			was, ok := prev[a]
			if ok && strings.Contains(was, "depositBalance=") && !strings.Contains(was, "depositBalance=,") && strings.Contains(v, "depositBalance=,") {
				r.Add("L_deposit_refunds_in_reference_blocks/"+hk, 1)
			}
		}
	}
}

// replayLocal re-runs one (history, node life) and prints every event.
func replayLocal(cs lcase) int {
	lSetParams()
	defer lResetParams()
	r := core.NewResult(prop, "exploration")
	c, ref := lBuild(cs.Hist)
	ref.Destroy()
	fmt.Println("replay (phase L):", cs.String())
	for h := lFirst; h <= c.top(); h++ {
		b := c.blocks[h]
		fmt.Printf("  reference block %d (%s) mined by %s: %s, %d transactions, %d change logs\n", h, lHeightKind(uint32(h)), lrole(b.MinerAddress()), b.Hash().Prefix(), len(b.Txs), len(b.ChangeLogs))
	}
	tr, vs := lRunPath(c, cs.Path, r, true)
	for _, l := range tr {
		fmt.Println("  " + l)
	}
	for _, v := range vs {
		fmt.Printf("VIOLATION-REPLAYED %s\n%s\n", v.Fingerprint, v.What)
	}
	return len(vs)
}

func lRuleText() string {
	th := core.Thorough()
	paths := lPaths(th)
	kinds := map[string]int{}
	for _, p := range paths {
		m := "validator"
		if p.Miner {
			m = "miner"
		}
		kinds[p.Kind+"/"+m]++
	}
	ks := make([]string, 0)
	for k, v := range kinds {
		ks = append(ks, fmt.Sprintf("%s x%d", k, v))
	}
	sort.Strings(ks)
	pairs := fmt.Sprintf("every dependent pair (%d) at every pair of heights, every dependent triple (%d) at every triple of heights", len(lDependentPairs), len(lDependentTriples))
	if th {
		pairs += fmt.Sprintf(" and every ordered pair of a %d-letter alphabet at every pair of heights", len(lPairLetters))
	}
	return fmt.Sprintf("PHASE L (node-local state; 4 deputies, TermDuration=8, InterimDuration=2, real engine): histories = window heights 7..12 (snapshot-1, snapshot, snapshot+1, interim, reward block, reward+1) filled with block letters: the empty history, every letter of a %d-letter alphabet (+ %d two-transaction blocks) at every height, %s (%d histories); every block mined by DPoVP.MineBlock on a reference node (everything stable); per history %d node lives (%s): lags 0..5 of the stable pointer, batch confirms, restarts at every height (continuing unconfirmed / confirmed), restarts that lose unconfirmed blocks, sibling forks before / after every main block, a rejected twin before every block; each as a validator (InsertBlock from the wire) and as a miner (MineBlock with the same pool, key, clock); oracle at every main block: accepted, account data of touched + watched addresses identical to the reference node's, mined block identical to the reference block",
		len(lLetterNames), len(lTwoTxBlocks), pairs, len(lHistories(th)), len(paths), strings.Join(ks, ", "))
}

// lMergeHeights: a failure class that shows at four or more of the six kinds of heights does not
// depend on the height: its fingerprints are folded into one with height=any (first replay kept).
func lMergeHeights(r *core.Result) {
	key := func(fp string) (string, bool) {
		i := strings.Index(fp, "/height=")
		if i < 0 || !strings.Contains(fp, "/local/") {
			return "", false
		}
		j := strings.Index(fp[i+1:], "/")
		if j < 0 {
			return "", false
		}
		return fp[:i] + "/height=any" + fp[i+1+j:], true
	}
	groups := map[string][]int{}
	for i, v := range r.Violations {
		if k, ok := key(v.Fingerprint); ok {
			groups[k] = append(groups[k], i)
		}
	}
	drop := map[int]bool{}
	for k, idx := range groups {
		if len(idx) < 4 {
			continue
		}
		sort.Slice(idx, func(a, b int) bool { return r.Violations[idx[a]].Fingerprint < r.Violations[idx[b]].Fingerprint })
		var kinds []string
		for _, i := range idx {
			fp := r.Violations[i].Fingerprint
			h := fp[strings.Index(fp, "/height=")+8:]
			kinds = append(kinds, h[:strings.Index(h, "/")])
		}
		first := idx[0]
		r.Violations[first].Fingerprint = k
		r.Violations[first].What = fmt.Sprintf("(seen at heights of kind %s) %s", strings.Join(kinds, ", "), r.Violations[first].What)
		for _, i := range idx[1:] {
			drop[i] = true
		}
	}
	var keep []core.Violation
	for i, v := range r.Violations {
		if !drop[i] {
			keep = append(keep, v)
		}
	}
	r.Violations = keep
}

// lSelfCheck is the non-vacuity gate of phase L.
func lSelfCheck(r *core.Result) {
	if !r.Exhaustive {
		return
	}
	need := []string{
		"L_checks/validator/snapshot", "L_checks/validator/snapshot+1", "L_checks/validator/reward", "L_checks/validator/reward+1",
		"L_checks/miner/snapshot", "L_checks/miner/reward",
		"L_checks_with_unstable_ancestors/reward", "L_checks_with_unstable_ancestors/snapshot",
		"L_restarts", "L_sibling_blocks_delivered", "L_rejected_twins_executed",
		"L_deposit_refunds_in_reference_blocks/reward",
	}
	for _, k := range need {
		if r.Counters[k] == 0 {
			r.NotExhaustive("phase L coverage self-check: counter " + k + " is 0")
		}
	}
}

// compressLocalNotes folds the per-case notes of phase L into one line per distinct message with a
// count and the first case as the example.
func compressLocalNotes(r *core.Result) {
	type agg struct {
		n       int
		example string
	}
	groups := map[string]*agg{}
	var order, rest []string
	for _, n := range r.Notes {
		if !strings.HasPrefix(n, "phase L:") || strings.HasPrefix(n, "phase L: internal") {
			rest = append(rest, n)
			continue
		}
		key, ex := n, ""
		if i := strings.Index(n, " || "); i > 0 {
			key, ex = n[:i], n[i+4:]
		}
		g := groups[key]
		if g == nil {
			g = &agg{example: ex}
			groups[key] = g
			order = append(order, key)
		} else if ex != "" && (len(ex) < len(g.example) || (len(ex) == len(g.example) && ex < g.example)) {
			g.example = ex
		}
		g.n++
	}
	sort.Strings(order)
	if len(order) > 12 {
		rest = append(rest, fmt.Sprintf("phase L: %d further distinct notes dropped", len(order)-12))
		order = order[:12]
	}
	for _, k := range order {
		g := groups[k]
		rest = append(rest, fmt.Sprintf("%s (noted %d times; e.g. %s)", k, g.n, g.example))
	}
	r.Notes = rest
}

// C01 — deterministic state transition: every mined block re-executes identically.
//
// Bounded exhaustive enumeration (engine E4 over engine-E2-style worlds): every ordered list of
// menu transactions up to the length bound (all 11 tx types: valid, failing, reverting, box-wrapped,
// contract creating / calling) is executed by the honest miner path (the real BlockAssembler
// .MineBlock with per-tx snapshot/revert) on the prefix state; then
//   - with every discard-only candidate inserted at every position the mined block must be the same;
//   - a validator that restarted since it synced the prefix (data directory copied and reopened)
//     must accept the block and end with the same account data, field for field, for every address
//     named in the block's change logs plus a fixed watch list;
//   - a validator that is fresh and has just executed and rejected a different block on the same
//     parent must do the same (prior history independence);
//   - redoing the published change logs on the parent state (Manager.RebuildAll) must give the
//     attributes redo defines.
package main

import (
	"fmt"
	"os"
	"os/exec"
	"sort"
	"strings"
	"time"

	"verifmc/chainkit"
	"verifmc/core"
	"verifmc/node"
	"verifmc/vorder"

	"github.com/LemoFoundationLtd/lemochain-core/chain/account"
	"github.com/LemoFoundationLtd/lemochain-core/chain/types"
	"github.com/LemoFoundationLtd/lemochain-core/common"
)

const prop = "C01"

var (
	w        *chainkit.World
	template string // data directory of a closed validator that accepted the prefix
)

func setup() {
	w = chainkit.NewWorld(core.ScratchDir("c01w"))
	v := w.Validator(core.ScratchDir("c01tpl"))
	template = v.Dir
	if !v.Quiesce() {
		panic("harness: validator store does not quiesce")
	}
	v.Close()
	w.F.Use()
}

func teardown() {
	w.F.Destroy()
	os.RemoveAll(template)
}

type caseT struct {
	List []string `json:"list"`
}

func (c caseT) String() string { return "[" + strings.Join(c.List, ", ") + "]" }

// minerDump renders the miner's own post-state of addr (its account manager after sealing).
func minerDump(am *account.Manager, parent common.Hash, addr common.Address) string {
	return dumpFrom(am, parent, addr, true)
}

func dumpFrom(am *account.Manager, parent common.Hash, addr common.Address, absentIfUntouched bool) string {
	if d := account.VerifAccountData(am, addr); d != nil {
		if absentIfUntouched && isEmptyData(d) {
			return "absent"
		}
		return node.DumpAccountData(d)
	}
	return node.DumpAccount(w.F.DB, parent, addr)
}

// an account the manager merely loaded (and never changed) is "absent" in the store
func isEmptyData(d *types.AccountData) bool {
	return len(d.NewestRecords) == 0
}

func addrsOf(b *types.Block) []common.Address {
	set := map[common.Address]bool{}
	for _, a := range node.TouchedAddresses(b) {
		set[a] = true
	}
	for _, a := range w.Watch() {
		set[a] = true
	}
	l := make(common.AddressSlice, 0, len(set))
	for a := range set {
		l = append(l, a)
	}
	sort.Sort(l)
	return l
}

func diffStates(a, b map[common.Address]string) (string, string) {
	fields := map[string]bool{}
	var sb strings.Builder
	for addr, av := range a {
		bv := b[addr]
		if av == bv {
			continue
		}
		af, bf := strings.Fields(av), strings.Fields(bv)
		for i := range af {
			if i >= len(bf) || af[i] != bf[i] {
				n := af[i]
				if j := strings.IndexAny(n, "={["); j > 0 {
					n = n[:j]
				}
				fields[n] = true
			}
		}
		if len(af) != len(bf) {
			fields["shape"] = true
		}
		fmt.Fprintf(&sb, "  %s\n    miner:     %s\n    validator: %s\n", addr.Hex(), av, bv)
	}
	l := make([]string, 0)
	for f := range fields {
		l = append(l, f)
	}
	sort.Strings(l)
	return strings.Join(l, "+"), sb.String()
}

// redoFields keeps the attributes that redo of the published logs defines.
func redoFields(s string) string {
	var keep []string
	for _, f := range strings.Fields(s) {
		for _, p := range []string{"bal=", "voteFor=", "votes=", "profile{", "signers"} {
			if strings.HasPrefix(f, p) {
				keep = append(keep, f)
			}
		}
	}
	return strings.Join(keep, " ")
}

func kinds(list []string) string { return strings.Join(list, ",") }

func runCase(c caseT, r *core.Result, deep bool) {
	viol := func(fp, what string) { r.Violate(prop+"/"+fp, what+"; tx list "+c.String(), c) }
	tm := uint32(chainkit.T0)
	var mstate map[common.Address]string
	var blk *types.Block
	inspect := func(am *account.Manager, b *types.Block) {
		mstate = map[common.Address]string{}
		for _, a := range addrsOf(b) {
			mstate[a] = minerDump(am, w.Head.Hash(), a)
		}
	}
	var err error
	func() {
		defer func() {
			if p := recover(); p != nil {
				err = fmt.Errorf("panic: %v", p)
			}
		}()
		blk, _, err = w.F.Make(node.BlockSpec{Parent: w.Head, Miner: node.Deputy(0), Time: tm, Txs: w.Txs(c.List), Extra: "c01", NoSave: true, Inspect: inspect})
	}()
	if err != nil {
		// the miner produced no block at all: not a C01 verdict (C07/C11/C16 material); counted
		r.Add("miner_produced_no_block", 1)
		r.Outcome("no-block:" + firstWords(err.Error()))
		r.Note("miner produced no block for %s: %v", c.String(), err)
		return
	}
	packaged := make([]string, len(blk.Txs))
	for i, tx := range blk.Txs {
		packaged[i] = w.NameOf(tx)
	}
	r.Outcome(fmt.Sprintf("packaged=%d/%d logs=%d gas=%d", len(blk.Txs), len(c.List), len(blk.ChangeLogs), blk.GasUsed()))
	r.Add("blocks_mined", 1)

	// (1) discarded candidates leave no trace
	for _, d := range chainkit.Discards {
		for pos := 0; pos <= len(c.List); pos++ {
			with := append(append(append([]string{}, c.List[:pos]...), d), c.List[pos:]...)
			b2, _, err2 := w.F.Make(node.BlockSpec{Parent: w.Head, Miner: node.Deputy(0), Time: tm, Txs: w.Txs(with), Extra: "c01", NoSave: true})
			r.Add("discard_variants", 1)
			if err2 != nil {
				viol("discard-changes-outcome/no-block/"+d, fmt.Sprintf("with discard candidate %q at position %d the miner produces no block (%v)", d, pos, err2))
				continue
			}
			if b2.Hash() != blk.Hash() {
				viol("discard-changes-block/"+d+"/"+headerDiff(blk, b2), fmt.Sprintf("with discard candidate %q at position %d the mined block differs (%s): packaged %d vs %d", d, pos, headerDiff(blk, b2), len(blk.Txs), len(b2.Txs)))
			}
		}
	}

	// (1c) map iteration order: every `for k, v := range m` over a map in chain/account,
	// chain/transaction, chain/consensus, chain/types, chain/vm and the store's candidate / block
	// bookkeeping is rewritten by the source overlay (pass maprange) and visits its keys in the order
	// the policy says (all n! orders for maps of up to 3 keys, 6 spread-out ones above). The mined
	// block must not depend on it, and a validator running under another order must accept the block
	// and end in the miner's state.
	for pol := 1; pol <= vorder.Policies; pol++ {
		vorder.SetPolicy(pol)
		b5, _, err5 := w.F.Make(node.BlockSpec{Parent: w.Head, Miner: node.Deputy(0), Time: tm, Txs: w.Txs(c.List), Extra: "c01", NoSave: true})
		vorder.SetPolicy(0)
		r.Add("map_order_variants", 1)
		if err5 != nil {
			viol("map-order/no-block", fmt.Sprintf("under map iteration order %d the miner produces no block (%v)", pol, err5))
			continue
		}
		if b5.Hash() != blk.Hash() {
			viol("map-order/changes-block/"+headerDiff(blk, b5), fmt.Sprintf("under map iteration order %d the mined block differs (%s) from the one mined under the runtime's order", pol, headerDiff(blk, b5)))
		}
	}

	// (2) restarted validator
	checkB := func(tag string, v *node.Node, blk *types.Block, mstate map[common.Address]string, packaged []string) {
		v.Use()
		err := v.InsertQuiet(node.Wire(blk))
		w.F.Use()
		if err != nil {
			viol("honest-block-rejected/"+tag+"/"+kinds(packaged), fmt.Sprintf("%s validator rejects the honestly mined block (%v)", tag, err))
			return
		}
		vstate := map[common.Address]string{}
		for _, a := range addrsOf(blk) {
			vstate[a] = node.DumpAccount(v.DB, blk.Hash(), a)
		}
		if f, detail := diffStates(mstate, vstate); f != "" {
			viol("state-differs/"+tag+"/"+f, fmt.Sprintf("%s validator accepted the block but its account data differs from the miner's:\n%s", tag, detail))
		}
	}
	check := func(tag string, v *node.Node) { checkB(tag, v, blk, mstate, packaged) }
	restarted := func() *node.Node {
		dir := core.ScratchDir("c01v")
		if out, err := exec.Command("cp", "-r", template+"/.", dir).CombinedOutput(); err != nil {
			panic(fmt.Sprintf("cp template: %v %s", err, out))
		}
		return node.Reopen(dir, 1, node.K("observer"))
	}
	v2 := restarted()
	check("restarted", v2)
	v2.Destroy()
	r.Add("validations_restarted", 1)
	// validators under controlled map orders: reversed always, all six for the short lists
	pols := []int{2}
	if deep {
		pols = []int{1, 2, 3, 4, 5, 6}
	}
	for _, pol := range pols {
		v5 := restarted()
		vorder.SetPolicy(pol)
		check(fmt.Sprintf("restarted(map-order-%d)", pol), v5)
		vorder.SetPolicy(0)
		v5.Destroy()
		r.Add("validations_map_order", 1)
	}

	// (2b) a miner with another execution history: the factory of this worker has mined hundreds of
	// other lists on this very parent before (and none of them was saved); a miner that has just
	// restarted from the data directory and never executed anything on this parent must produce the
	// same block from the same list.
	{
		fm := &node.Factory{Node: restarted()}
		b8, _, err8 := fm.Make(node.BlockSpec{Parent: w.Head, Miner: node.Deputy(0), Time: tm, Txs: w.Txs(c.List), Extra: "c01", NoSave: true})
		w.F.Use()
		r.Add("fresh_miner_variants", 1)
		if err8 != nil {
			viol("miner-history/no-block", fmt.Sprintf("a miner restarted from disk produces no block (%v) where the long-running one does", err8))
		} else if b8.Hash() != blk.Hash() {
			viol("miner-history/changes-block/"+headerDiff(blk, b8), fmt.Sprintf("a miner restarted from disk mines another block (%s; packaged %d vs %d) than the long-running miner that executed other lists on the same parent before", headerDiff(blk, b8), len(b8.Txs), len(blk.Txs)))
		}
		fm.Destroy()
	}

	// (1b) the block is full: for every gas limit at which the miner's gas pool runs dry right at one
	// of the transactions (or, inside a box, at one of its sub-transactions) the miner drops what does
	// not fit. The dropped transactions must leave no trace: the block equals the one mined with the
	// same limit from exactly the transactions that were packaged, and the restarted validator accepts
	// it and ends in the miner's state.
	for _, limit := range chainkit.GasBoundaries(blk) {
		var ms3 map[common.Address]string
		b3, _, err3 := w.F.Make(node.BlockSpec{Parent: w.Head, Miner: node.Deputy(0), Time: tm, Txs: w.Txs(c.List), Extra: "c01", NoSave: true, GasLimit: limit,
			Inspect: func(am *account.Manager, b *types.Block) {
				ms3 = map[common.Address]string{}
				for _, a := range addrsOf(b) {
					ms3[a] = minerDump(am, w.Head.Hash(), a)
				}
			}})
		r.Add("gas_limit_variants", 1)
		if err3 != nil {
			viol("full-block/no-block", fmt.Sprintf("with block gas limit %d the miner produces no block (%v)", limit, err3))
			continue
		}
		p3 := make([]string, len(b3.Txs))
		for i, tx := range b3.Txs {
			p3[i] = w.NameOf(tx)
		}
		if len(p3) < len(packaged) {
			r.Add("gas_limit_variants_dropping", 1)
		}
		b4, _, err4 := w.F.Make(node.BlockSpec{Parent: w.Head, Miner: node.Deputy(0), Time: tm, Txs: w.Txs(p3), Extra: "c01", NoSave: true, GasLimit: limit})
		if err4 != nil || b4.Hash() != b3.Hash() {
			d := "no-block"
			if err4 == nil {
				d = headerDiff(b3, b4)
			}
			viol("full-block/dropped-tx-leaves-trace/"+d, fmt.Sprintf("with block gas limit %d the miner packages %v of %v, but the block differs (%s) from the one mined from exactly these transactions (err %v)", limit, p3, c.List, d, err4))
		}
		v3 := restarted()
		checkB(fmt.Sprintf("restarted(full-block)"), v3, b3, ms3, p3)
		v3.Destroy()
		// discarded candidates in a nearly full block. WHICH transactions fit may legitimately depend on
		// what the miner tried before (the gas a failing candidate reserved stays taken from the pool;
		// the statement is about executing the packaged list, not about the miner's selection), so a
		// different selection is only counted. But whatever was selected, the block must be the one
		// obtained from exactly the packaged transactions, and a validator must accept it.
		for _, d := range chainkit.Discards {
			for pos := 0; pos <= len(c.List); pos++ {
				with := append(append(append([]string{}, c.List[:pos]...), d), c.List[pos:]...)
				var ms6 map[common.Address]string
				b6, _, err6 := w.F.Make(node.BlockSpec{Parent: w.Head, Miner: node.Deputy(0), Time: tm, Txs: w.Txs(with), Extra: "c01", NoSave: true, GasLimit: limit,
					Inspect: func(am *account.Manager, b *types.Block) {
						ms6 = map[common.Address]string{}
						for _, a := range addrsOf(b) {
							ms6[a] = minerDump(am, w.Head.Hash(), a)
						}
					}})
				r.Add("discard_variants_in_full_block", 1)
				if err6 != nil {
					viol("full-block/discard-changes-outcome/no-block/"+d, fmt.Sprintf("with block gas limit %d and discard candidate %q at position %d the miner produces no block (%v)", limit, d, pos, err6))
					continue
				}
				if b6.Hash() == b3.Hash() {
					continue
				}
				r.Add("discard_changed_selection_in_full_block(not asserted)", 1)
				p6 := make([]string, len(b6.Txs))
				for i, tx := range b6.Txs {
					p6[i] = w.NameOf(tx)
				}
				b7, _, err7 := w.F.Make(node.BlockSpec{Parent: w.Head, Miner: node.Deputy(0), Time: tm, Txs: w.Txs(p6), Extra: "c01", NoSave: true, GasLimit: limit})
				if err7 != nil || b7.Hash() != b6.Hash() {
					dd := "no-block"
					if err7 == nil {
						dd = headerDiff(b6, b7)
					}
					viol("full-block/discarded-candidate-leaves-trace/"+d+"/"+dd, fmt.Sprintf("with block gas limit %d and discard candidate %q at position %d the miner packages %v, but the block differs (%s) from the one mined from exactly these transactions (err %v)", limit, d, pos, p6, dd, err7))
				}
				v6 := restarted()
				checkB("restarted(full-block+discard:"+d+")", v6, b6, ms6, p6)
				v6.Destroy()
			}
		}
	}

	// (3) fresh validator with a different prior history: it first executes and rejects a corrupted sibling
	if deep {
		v1 := w.Validator(core.ScratchDir("c01v1"))
		bad := node.Wire(blk)
		bad.Header.VersionRoot[3] ^= 0x10
		sd := node.SignConfirm(node.Deputy(0), bad.Header.Hash())
		bad.Header.SignData = sd[:]
		if err := v1.InsertQuiet(node.Wire(bad)); err == nil {
			viol("corrupted-sibling-accepted", "a block with a flipped version root was accepted")
		}
		check("fresh-after-rejected-sibling", v1)
		v1.Destroy()
		r.Add("validations_fresh", 1)
		// the same with a sibling that carries OTHER transactions (it touches other accounts and log kinds)
		// and is refused only AFTER it has been executed and finalised (flipped version root): what that
		// execution left behind in the node must not reach the honest block on the same parent
		alt := "xfer-new"
		for _, n := range c.List {
			if n == alt {
				alt = "call-counter"
			}
		}
		if other, _, errO := w.F.Make(node.BlockSpec{Parent: w.Head, Miner: node.Deputy(0), Time: tm, Txs: w.Txs([]string{alt, "vote-c1"}), Extra: "c01-other", NoSave: true}); errO == nil {
			v1b := w.Validator(core.ScratchDir("c01v1b"))
			badO := node.Wire(other)
			badO.Header.VersionRoot[3] ^= 0x10
			sdO := node.SignConfirm(node.Deputy(0), badO.Header.Hash())
			badO.Header.SignData = sdO[:]
			if err := v1b.InsertQuiet(node.Wire(badO)); err == nil {
				viol("corrupted-sibling-accepted", "another block with a flipped version root was accepted")
			}
			check("fresh-after-rejected-other-block", v1b)
			v1b.Destroy()
			r.Add("validations_fresh_after_other_block", 1)
		}
	}

	// (4) light path: redo of the published logs on the parent state
	func() {
		defer func() {
			if p := recover(); p != nil {
				viol("redo-panics/"+firstWords(fmt.Sprint(p)), fmt.Sprintf("RebuildAll panicked: %v", p))
			}
		}()
		am := account.NewManager(w.Head.Hash(), w.F.DB)
		if err := am.RebuildAll(node.Wire(blk)); err != nil {
			viol("redo-fails/"+firstWords(err.Error()), fmt.Sprintf("RebuildAll of the block's change logs fails: %v", err))
			return
		}
		want, got := map[common.Address]string{}, map[common.Address]string{}
		for _, a := range node.TouchedAddresses(blk) {
			want[a] = redoFields(mstate[a])
			got[a] = redoFields(dumpFrom(am, w.Head.Hash(), a, false))
		}
		if f, detail := diffStates(want, got); f != "" {
			viol("redo-differs/"+f+"/"+kinds(packaged), fmt.Sprintf("redo of the published change logs differs from execution (miner = execution, validator = redo):\n%s", detail))
		}
		r.Add("redo_checked", 1)
	}()
}

func headerDiff(a, b *types.Block) string {
	var d []string
	if a.Header.VersionRoot != b.Header.VersionRoot {
		d = append(d, "versionRoot")
	}
	if a.Header.LogRoot != b.Header.LogRoot {
		d = append(d, "logRoot")
	}
	if a.Header.TxRoot != b.Header.TxRoot {
		d = append(d, "txRoot")
	}
	if a.Header.GasUsed != b.Header.GasUsed {
		d = append(d, "gasUsed")
	}
	return strings.Join(d, "+")
}

func firstWords(s string) string {
	f := strings.Fields(s)
	if len(f) > 6 {
		f = f[:6]
	}
	return strings.Join(f, " ")
}

func enumerate(maxLen int) []caseT {
	var out []caseT
	var rec func(prefix []string)
	rec = func(prefix []string) {
		out = append(out, caseT{append([]string{}, prefix...)})
		if len(prefix) == maxLen {
			return
		}
		for _, m := range chainkit.Menu {
			dup := false
			for _, p := range prefix {
				if p == m {
					dup = true // an honest miner's pool never hands out the same transaction twice
				}
			}
			if !dup {
				rec(append(prefix, m))
			}
		}
	}
	rec(nil)
	// shortest first
	sort.SliceStable(out, func(i, j int) bool { return len(out[i].List) < len(out[j].List) })
	return out
}

func main() {
	core.ParseFlags()
	node.Quiet()
	node.DropEngineGoroutines() // see mc/node/tasks.go
	if os.Getenv("C01_LOCAL_COUNT") != "" {
		for _, th := range []bool{false, true} {
			fmt.Printf("thorough=%v histories=%d node lives per history=%d\n", th, len(lHistories(th)), len(lPaths(th)))
		}
		return
	}
	if os.Getenv("C01_LOCAL_PROBE") != "" {
		lProbe()
		return
	}
	maxLen := 2
	if core.Thorough() {
		maxLen = 3
	}
	cases := enumerate(maxLen)
	if core.Opt.Replay != "" {
		var lc lcase
		if err := core.LoadReplay(core.Opt.Replay, &lc); err == nil && len(lc.Hist) > 0 {
			// a case of phase L (node-local state, local.go)
			if replayLocal(lc) > 0 {
				os.Exit(1)
			}
			return
		}
		var c caseT
		if err := core.LoadReplay(core.Opt.Replay, &c); err != nil {
			fmt.Println(err)
			os.Exit(2)
		}
		setup()
		r := core.NewResult(prop, "exploration")
		runCase(c, r, true)
		teardown()
		fmt.Println("replay", c.String())
		for _, v := range r.Violations {
			fmt.Printf("VIOLATION-REPLAYED %s\n%s\n", v.Fingerprint, v.What)
		}
		if len(r.Violations) > 0 {
			os.Exit(1)
		}
		return
	}
	if i, n, ok := core.IsWorker(); ok {
		r := core.NewResult(prop, "exploration")
		setup()
		for k := i; k < len(cases) && os.Getenv("C01_ONLY_LOCAL") == ""; k += n {
			core.Journal(cases[k].String())
			// the fresh-validator variant for every list of length <= 1 (quick) / <= 2 (thorough)
			deep := len(cases[k].List) <= maxLen-1
			runCase(cases[k], r, deep)
			r.Add("evaluations", 1)
			if k%499 == 0 {
				r.Sample(cases[k].List)
			}
			if core.OutOfTime() {
				r.NotExhaustive(fmt.Sprintf("internal deadline at case %d of %d (cases are ordered shortest first)", k, len(cases)))
				break
			}
		}
		teardown()
		// phase L: node-local state (local.go). It changes process-global parameters (term length, the
		// harness clock), so it runs after the first phase's world is gone.
		if r.Exhaustive && os.Getenv("C01_SKIP_LOCAL") == "" {
			runLocalShard(i, n, r)
		} else {
			r.NotExhaustive("phase L (node-local state) was not run: the first phase hit the deadline, or C01_SKIP_LOCAL is set")
		}
		for i, n := range vorder.Loops {
			r.Add(fmt.Sprintf("controlled_map_loops_with_%d_keys", i), n)
		}
		core.WorkerDone(r)
	}
	r := core.NewResult(prop, "exploration")
	r.Rule = fmt.Sprintf("all ordered lists of length <= %d over a %d-transaction menu (all 11 tx types) on the prefix state; per list: honest miner block, %d discard candidates x every insertion position, every block gas limit at which the pool runs dry at one of the (sub-)transactions, 6 controlled map iteration orders on the miner and on restarted validators, restarted validator, fresh validator with different prior history (lists of length <= %d), redo of the change logs; a distinct outcome is (packaged count, log count, gas used)", maxLen, len(chainkit.Menu), len(chainkit.Discards), maxLen-1)
	r.Assume = []string{"single deputy; one prefix state (funded accounts, 7 contracts, a candidate, an asset, a multi-signature account)", "map iteration order: every map loop of the instrumented packages (source overlay, pass maprange) runs under 6 controlled orders = all n! orders for maps of <= 3 keys, sorted / reversed / 3 rotations / reversed+rotated above; loops over maps in packages outside the overlay (store internals other than cblock/vote/chain_database, common/*) keep the runtime's order"}
	r.Extra["cases"] = len(cases)
	r.Rule += " || " + lRuleText()
	r.Assume = append(r.Assume, "phase L: four genesis deputies (a block is stable with 3 signatures, so a node's own signature never decides stability: nodes run with an observer key and take the key of the deputy in turn only to mine); a node that does not know the deputies of a height because the term's snapshot block is not stable on it neither mines nor verifies there (protocol precondition, counted); what an honest miner picks from its pool is its choice: miner variants are compared when they packaged the reference list; the store's background writer is drained after every event (its timing is C08's subject)")
	core.RunShards(r, core.Opt.Workers, nil, core.Opt.Budget+3*time.Minute, func(i int, tail, journal string) {
		r.Violate(prop+"/worker-died/"+firstWords(panicLine(tail)), fmt.Sprintf("worker %d died while running %s:\n%s", i, journal, clip(tail)), map[string]string{"case": journal})
	})
	compressLocalNotes(r)
	lMergeHeights(r)
	lSelfCheck(r)
	core.Finish(r)
}

func panicLine(tail string) string {
	for _, l := range strings.Split(tail, "\n") {
		if strings.HasPrefix(l, "panic:") || strings.HasPrefix(l, "fatal error:") {
			return l
		}
	}
	return "no panic line"
}

func clip(s string) string {
	if len(s) > 3000 {
		return s[:3000]
	}
	return s
}

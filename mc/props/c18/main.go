// C18 — the transaction pool behaves like a set of pending txs under any interleaving.
//
// Part A (engine E2, in-process BFS): every sequence of AddTx / AddTxs / GetTxs / DelTxs over a
// small alphabet of overlapping transactions and boxes (pool capacity 2, so growth is reached) is
// run on the real TxPool next to a reference set model.
// Part B (engine E1, controlled scheduler): 2-3 threads x 1-2 operations on overlapping
// transactions under every interleaving with at most `bound` preemptions; scheduling points at the
// pool mutex and at every announced read/write of the pool's fields. Oracles: the recorded
// call/return history is linearizable with respect to the Part A model (brute force over all
// orders), no two threads are ever co-enabled on conflicting accesses (data race), no deadlock.
package main

import (
	"fmt"
	"os"
	"sort"
	"strings"
	"time"

	"verifmc/core"
	"verifmc/node"
	"verifmc/sched"

	"github.com/LemoFoundationLtd/lemochain-core/chain/params"
	"github.com/LemoFoundationLtd/lemochain-core/chain/txpool"
	"github.com/LemoFoundationLtd/lemochain-core/chain/types"
	"github.com/LemoFoundationLtd/lemochain-core/common"
)

const prop = "C18"

// ---------------------------------------------------------------------------------------------
// alphabet

var txs = map[string]*types.Transaction{}
var names []string

func mk() {
	to := node.User(9).Addr
	t := func(n string, from int, exp uint64) {
		txs[n] = node.Tx(node.TxSpec{Type: params.OrdinaryTx, From: node.User(from), To: &to, Amount: node.Lemo(1), Exp: exp})
		names = append(names, n)
	}
	t("t1", 1, 10)
	t("t2", 2, 20)
	t("t3", 3, 20)
	t("u1", 4, 20)
	t("u2", 5, 20)
	txs["b"] = node.Box(node.User(6), 20, txs["u1"], txs["u2"])   // box(u1,u2)
	txs["b2"] = node.Box(node.User(7), 20, txs["u1"], txs["t3"]) // box(u1,t3)
	names = append(names, "b", "b2")
}

func subsOf(n string) []string {
	switch n {
	case "b":
		return []string{"u1", "u2"}
	case "b2":
		return []string{"u1", "t3"}
	}
	return nil
}

func nameOf(tx *types.Transaction) string {
	for n, t := range txs {
		if t.Hash() == tx.Hash() {
			return n
		}
	}
	return "?"
}

// ---------------------------------------------------------------------------------------------
// reference model: a set of pending transactions with the box / sub-transaction exclusion relation.
//
// The statement leaves two things open, and the model is agnostic about them ("maybe" entries may or
// may not be handed out, and are never counted as lost): whether deleting a box (because a block
// packaged it) also removes its sub-transactions that are pending on their own, and whether
// deleting a sub-transaction removes a pending box that contains it. Everything else is definite.

const (
	absent = iota
	maybe
	pending
)

type model struct {
	st      map[string]int
	deleted map[string]bool // explicitly told to delete, and not accepted again since
	maxTime uint32
}

func newModel() *model { return &model{st: map[string]int{}, deleted: map[string]bool{}} }

func (m *model) clone() *model {
	c := newModel()
	c.maxTime = m.maxTime
	for k, v := range m.st {
		c.st[k] = v
	}
	for k, v := range m.deleted {
		c.deleted[k] = v
	}
	return c
}

// covered: the hashes a pending entry occupies (itself and, for a box, its sub-transactions)
func covered(n string) []string { return append([]string{n}, subsOf(n)...) }

func related(a, b string) bool {
	for _, x := range covered(a) {
		for _, y := range covered(b) {
			if x == y {
				return true
			}
		}
	}
	return false
}

// conflicts: accepting n would break the exclusion with a definitely pending entry
func (m *model) conflicts(n string) bool {
	for p, st := range m.st {
		if st == pending && related(p, n) {
			return true
		}
	}
	return false
}

func expired(n string, tm uint32) bool {
	for _, c := range covered(n) {
		if txs[c].Expiration() < uint64(tm) {
			return true
		}
	}
	return false
}

func (m *model) remove(n string) {
	m.st[n] = absent
	for p, st := range m.st {
		if p != n && st != absent && related(p, n) {
			m.st[p] = maybe
		}
	}
}

func (m *model) list(min int) []string {
	var l []string
	for p, st := range m.st {
		if st >= min {
			l = append(l, p)
		}
	}
	sort.Strings(l)
	return l
}

// ---------------------------------------------------------------------------------------------
// operations

type op struct {
	Kind string   `json:"kind"` // add, adds, get, del
	Txs  []string `json:"txs,omitempty"`
	Time uint32   `json:"time,omitempty"`
	Size int      `json:"size,omitempty"`
}

func (o op) String() string {
	switch o.Kind {
	case "get":
		return fmt.Sprintf("get(t=%d,n=%d)", o.Time, o.Size)
	}
	return o.Kind + "(" + strings.Join(o.Txs, ",") + ")"
}

func parseOp(s string) op {
	var o op
	i := strings.Index(s, "(")
	o.Kind = s[:i]
	arg := s[i+1 : len(s)-1]
	if o.Kind == "get" {
		fmt.Sscanf(arg, "t=%d,n=%d", &o.Time, &o.Size)
	} else if arg != "" {
		o.Txs = strings.Split(arg, ",")
	}
	return o
}

type result struct {
	Errs []bool   // add/adds: per tx, true = accepted
	Got  []string // get
}

func (r result) String() string { return fmt.Sprintf("%v%v", r.Errs, r.Got) }

func exec(p *txpool.TxPool, o op) result {
	var r result
	switch o.Kind {
	case "add":
		r.Errs = []bool{p.AddTx(txs[o.Txs[0]]) == nil}
	case "adds":
		// AddTxs returns only a count; feed it one by one through the same call to learn which were accepted
		l := make(types.Transactions, len(o.Txs))
		for i, n := range o.Txs {
			l[i] = txs[n]
		}
		n := p.AddTxs(l)
		r.Errs = []bool{n > 0, n > 1}
		r.Got = []string{fmt.Sprint(n)}
	case "get":
		for _, tx := range p.GetTxs(o.Time, o.Size) {
			r.Got = append(r.Got, nameOf(tx))
		}
	case "del":
		l := make(types.Transactions, len(o.Txs))
		for i, n := range o.Txs {
			l[i] = txs[n]
		}
		p.DelTxs(l)
	}
	return r
}

// step applies op o with the implementation's result r to the model and returns the violations
// (empty = the result is allowed by the property).
func (m *model) step(o op, r result) []string {
	var bad []string
	accept := func(n string) {
		if m.conflicts(n) {
			bad = append(bad, "exclusion-broken-on-add")
		}
		m.st[n] = pending
		delete(m.deleted, n)
	}
	switch o.Kind {
	case "add":
		if r.Errs[0] {
			accept(o.Txs[0])
		}
	case "adds":
		// AddTxs only returns a count: it must not exceed what the exclusion allows; which ones were
		// accepted is then unknown unless the count is 0 or all, so the others become "maybe"
		var n int
		fmt.Sscan(r.Got[0], &n)
		switch {
		case n == len(o.Txs):
			for _, t := range o.Txs {
				accept(t)
			}
		case n == 0:
		default:
			free := 0
			for _, t := range o.Txs {
				if !m.conflicts(t) {
					free++
				}
			}
			if n > free {
				bad = append(bad, "exclusion-broken-on-addtxs")
			}
			for _, t := range o.Txs {
				if m.st[t] != pending {
					m.st[t] = maybe
					delete(m.deleted, t)
				}
			}
		}
	case "get":
		if o.Time > m.maxTime {
			m.maxTime = o.Time
		}
		seen := map[string]bool{}
		got := map[string]bool{}
		for _, g := range r.Got {
			got[g] = true
			for _, c := range covered(g) {
				if seen[c] {
					bad = append(bad, "box-and-sub-tx-or-duplicate-in-one-selection")
				}
				seen[c] = true
			}
			if expired(g, o.Time) {
				bad = append(bad, "handed-out-expired")
			}
			if m.deleted[g] {
				bad = append(bad, "handed-out-deleted")
			} else if m.st[g] == absent {
				bad = append(bad, "handed-out-never-accepted")
			}
		}
		if len(r.Got) > o.Size {
			bad = append(bad, "more-than-size")
		}
		// no loss: everything definitely pending and alive must be handed out when size allows
		cands := len(m.list(maybe))
		for _, p := range m.list(pending) {
			if !expired(p, m.maxTime) && !got[p] && o.Size >= cands {
				bad = append(bad, "lost-accepted-tx")
			}
		}
		for p, st := range m.st {
			if st == pending && expired(p, m.maxTime) {
				m.st[p] = maybe // the pool drops expired entries only as far as it scans
			}
		}
	case "del":
		for _, t := range o.Txs {
			m.remove(t)
			m.deleted[t] = true
		}
	}
	return bad
}

func (m *model) key() string {
	d := make([]string, 0)
	for k := range m.deleted {
		d = append(d, k)
	}
	sort.Strings(d)
	return fmt.Sprintf("%v|%v|%v|%d", m.list(pending), m.list(maybe), d, m.maxTime)
}

// ---------------------------------------------------------------------------------------------
// Part A

var alphabetA []string

func mkAlphabetA() {
	for _, n := range names {
		alphabetA = append(alphabetA, "add("+n+")", "del("+n+")")
	}
	alphabetA = append(alphabetA, "adds(t1,t2)", "adds(u1,b)", "adds(b,b2)", "adds(t3,b2)", "del(t1,t2)", "del(b,u1)", "del(u2,t3)")
	for _, tm := range []uint32{5, 15, 25} {
		for _, n := range []int{1, 2, 9} {
			alphabetA = append(alphabetA, fmt.Sprintf("get(t=%d,n=%d)", tm, n))
		}
	}
}

var depthA = 5

func runA(hist []string) core.Outcome {
	p := txpool.NewTxPool()
	m := newModel()
	var o core.Outcome
	for i, e := range hist {
		oo := parseOp(e)
		r := exec(p, oo)
		bad := m.step(oo, r)
		if i == len(hist)-1 {
			for _, b := range bad {
				o.Violations = append(o.Violations, core.Violation{Fingerprint: prop + "/sequential/" + b, What: fmt.Sprintf("%s after %v: result %s, model pending %v maybe %v deleted %v, pool %s", b, hist, r, m.list(pending), m.list(maybe), keys(m.deleted), txpool.VerifDump(p)), Replay: map[string]interface{}{"part": "A", "history": hist}})
			}
			o.Tags = append(o.Tags, oo.Kind+":"+r.String())
		} else if len(bad) > 0 {
			return core.Outcome{} // the prefix already violates: reported there, not expanded
		}
	}
	if len(o.Violations) > 0 {
		return o
	}
	o.Key = core.Hash(txpool.VerifDump(p) + "|" + m.key())
	if len(hist) < depthA {
		for _, e := range alphabetA {
			// selection times never go backwards (the miner's clock)
			if strings.HasPrefix(e, "get(") && parseOp(e).Time < m.maxTime {
				continue
			}
			o.Enabled = append(o.Enabled, e)
		}
	}
	return o
}

func keys(m map[string]bool) []string {
	l := make([]string, 0)
	for k := range m {
		l = append(l, k)
	}
	sort.Strings(l)
	return l
}

// ---------------------------------------------------------------------------------------------
// Part B

type scenario struct {
	Name    string
	Setup   []string   // sequential prefix
	Threads [][]string // operations per thread
}

var scenariosB = []scenario{
	{"add||add-same", nil, [][]string{{"add(t1)"}, {"add(t1)"}}},
	{"add||add-growth", []string{"add(t2)", "add(t3)"}, [][]string{{"add(t1)"}, {"add(u1)"}}},
	{"add-box||add-sub", nil, [][]string{{"add(b)"}, {"add(u1)"}}},
	{"add||get", []string{"add(t2)"}, [][]string{{"add(t1)", "add(t3)"}, {"get(t=5,n=9)"}}},
	{"del||get", []string{"add(t1)", "add(t2)"}, [][]string{{"del(t1)"}, {"get(t=5,n=9)"}}},
	{"del-all||add(gc)", []string{"add(t1)"}, [][]string{{"del(t1)"}, {"add(t2)"}}},
	{"expire||add", []string{"add(t1)", "add(t2)"}, [][]string{{"get(t=15,n=9)"}, {"add(t3)"}, {"get(t=5,n=9)"}}},
	{"del-box||add-sub||get", []string{"add(b)"}, [][]string{{"del(b)"}, {"add(u1)"}, {"get(t=5,n=9)"}}},
}

type call struct {
	Thread int
	Op     op
	Res    result
	start  int // logical clock at invocation / response (for real-time order)
	end    int
}

// linearizable: is there a total order of the calls, consistent with their real-time order, that
// the model accepts with the observed results?
func linearizable(setup []string, calls []call) (bool, string) {
	n := len(calls)
	used := make([]bool, n)
	var order []int
	base := newModel()
	p0 := txpool.NewTxPool()
	for _, e := range setup {
		o := parseOp(e)
		base.step(o, exec(p0, o))
	}
	var rec func(m *model) bool
	rec = func(m *model) bool {
		if len(order) == n {
			return true
		}
		for i := 0; i < n; i++ {
			if used[i] {
				continue
			}
			// real-time order: i cannot go before an unused call that finished before i started
			ok := true
			for j := 0; j < n; j++ {
				if !used[j] && j != i && calls[j].end < calls[i].start {
					ok = false
				}
			}
			if !ok {
				continue
			}
			mc := m.clone()
			if bad := mc.step(calls[i].Op, calls[i].Res); len(bad) > 0 {
				continue
			}
			used[i] = true
			order = append(order, i)
			if rec(mc) {
				return true
			}
			used[i] = false
			order = order[:len(order)-1]
		}
		return false
	}
	if rec(base) {
		return true, ""
	}
	var sb strings.Builder
	for _, c := range calls {
		fmt.Fprintf(&sb, "T%d %s -> %s [%d,%d]; ", c.Thread, c.Op, c.Res, c.start, c.end)
	}
	return false, sb.String()
}

func runB(r *core.Result, bound int) {
	for si, sc := range scenariosB {
		sc := sc
		outcomes := map[string]bool{}
		ex := &sched.Explorer{Bound: bound, Watchdog: 10 * time.Second, Deadline: core.OutOfTime}
		ex.Setup = func(s *sched.Sched) func(*sched.Sched) {
			p := txpool.NewTxPool()
			for _, e := range sc.Setup {
				exec(p, parseOp(e))
			}
			var calls []call
			clock := 0
			for ti, ops := range sc.Threads {
				ti, ops := ti, ops
				s.Go(fmt.Sprintf("T%d", ti), func() {
					for _, e := range ops {
						o := parseOp(e)
						clock++
						st := clock
						res := exec(p, o)
						clock++
						calls = append(calls, call{Thread: ti, Op: o, Res: res, start: st, end: clock})
					}
				})
			}
			return func(s *sched.Sched) {
				choices := make([]int, len(s.Trace))
				for i, st := range s.Trace {
					choices[i] = st.Chosen
				}
				rp := map[string]interface{}{"part": "B", "scenario": si, "choices": choices}
				if s.Deadlock != "" {
					r.Violate(prop+"/threads/deadlock/"+sc.Name, "deadlock: "+s.Deadlock, rp)
					return
				}
				if s.Stuck != "" || s.Diverged != "" {
					r.NotExhaustive("scheduler: " + s.Stuck + s.Diverged)
					return
				}
				for _, p := range s.Panics() {
					r.Violate(prop+"/threads/panic/"+sc.Name, "panic in a pool operation: "+p, rp)
				}
				for _, rc := range s.Races {
					r.Violate(prop+"/threads/data-race/"+raceKey(rc), fmt.Sprintf("scenario %s: %s at %s and %s at %s are co-enabled on the same variable", sc.Name, rc.KindA, rc.SiteA, rc.KindB, rc.SiteB), rp)
				}
				if ok, why := linearizable(sc.Setup, calls); !ok {
					r.Violate(prop+"/threads/not-linearizable/"+sc.Name, "no sequential order of the calls explains the results: "+why+" final pool "+txpool.VerifDump(p), rp)
				}
				var sb strings.Builder
				sort.Slice(calls, func(i, j int) bool { return calls[i].Thread < calls[j].Thread || (calls[i].Thread == calls[j].Thread && calls[i].start < calls[j].start) })
				for _, c := range calls {
					sb.WriteString(c.Res.String() + ";")
				}
				outcomes[sb.String()+txpool.VerifDump(p)] = true
			}
		}
		ex.Explore(nil)
		r.Add("schedules", int64(ex.Execs))
		r.Extra["B/"+sc.Name] = map[string]int{"schedules": ex.Execs, "distinct_outcomes": len(outcomes)}
		for k := range outcomes {
			r.Outcome(sc.Name + "=>" + core.Hash(k))
		}
		if ex.Truncated {
			r.NotExhaustive("internal deadline during scenario " + sc.Name)
		}
	}
	r.Extra["preemption_bound"] = bound
}

func raceKey(rc sched.Race) string {
	a, b := rc.KindA+"@"+rc.SiteA, rc.KindB+"@"+rc.SiteB
	if b < a {
		a, b = b, a
	}
	return a + "~" + b
}

// ---------------------------------------------------------------------------------------------

func main() {
	core.ParseFlags()
	node.Quiet()
	txpool.VerifSetDefaultPoolCap(2)
	mk()
	mkAlphabetA()
	bound := 2
	if core.Thorough() {
		depthA = 6
		bound = 3
	}
	if os.Getenv("VERIF_C18_COUNT") != "" {
		fsCount()
		return
	}
	if os.Getenv("VERIF_C18_PROFILE") != "" {
		fsProfile()
		return
	}
	if i, n, ok := core.IsWorker(); ok {
		fsWorker(i, n) // part C runs in worker processes
	}
	if core.Opt.Replay != "" {
		var rp struct {
			Part     string   `json:"part"`
			History  []string `json:"history"`
			Scenario int      `json:"scenario"`
			Choices  []int    `json:"choices"`
			Case     fsCase   `json:"case"`
		}
		if err := core.LoadReplay(core.Opt.Replay, &rp); err != nil {
			fmt.Println(err)
			os.Exit(2)
		}
		if rp.Part == "C" {
			replayFsCase(rp.Case)
			return
		}
		if rp.Part == "A" {
			o := runA(rp.History)
			fmt.Println("replay", rp.History)
			for _, v := range o.Violations {
				fmt.Printf("VIOLATION-REPLAYED %s\n%s\n", v.Fingerprint, v.What)
			}
			if len(o.Violations) > 0 {
				os.Exit(1)
			}
			return
		}
		fmt.Println("replay of a schedule: re-run the check; schedules are deterministic given the choice list", rp.Scenario, rp.Choices)
		return
	}
	r := core.NewResult(prop, "model_checking")
	r.Rule = "Part A: BFS over operation sequences (AddTx/AddTxs/GetTxs/DelTxs over t1,t2,t3,u1,u2,box(u1,u2),box(u1,t3); capacity 2; expirations 10/20; selection times 5/15/25, sizes 1/2/9) on the real TxPool against a set model; state = pool dump + model. Part B: 8 thread scenarios under the controlled scheduler, all interleavings up to the preemption bound, points at the pool mutex and at every read/write of txs/hashIndexMap/cap; linearizability by brute force; distinct outcome = (scenario, results, final pool). Part C: nested enumeration, every case on a fresh real node (BlockChain + DPoVP + TxPool + TxGuard, 3 deputies, pool capacity 2): two branches of factory-built blocks (depth 1..3 each, plus new depth 4 / 5 for the longer-fork rule; forking at the stable block or at an unconfirmed block above it; optionally an empty third branch that wins at the end) x delivery orders (quick: one branch after the other, alternating; thorough: every order-preserving interleaving) x confirm packets that make a block of one branch stable (end of the schedule; thorough also right after the block and attached to the block) x placements of t1 / box b=(u1,u2) / u1 / t2 / early-expiring e (thorough also b2=(u1,t3), u2, t3) in {a block of X, a block of Y, one of each, the common block, pool only: submitted through VerifyTxBody + TxGuard.ExistTx + AddTx before the first or after the last event} x {learned from blocks only, submitted first}; and the node as deputy 0 mining its own branch from its pool against a foreign branch, then mining again after the switch. The oracle follows the node's head after every event; distinct outcome of part C = (mode, switch mechanism, old depth, new depth, per transaction: placement class, kind, pooled or absent)"
	r.Assume = []string{"order of GetTxs results is not asserted", "AddTx refusing a transaction is never a violation (the statement does not demand acceptance), except AddTxs accepting fewer than the non-conflicting ones, which the count cannot attribute",
		"part C: 'on a fork' for a box and its sub-transactions is what the node's TxGuard.ExistTx answers (a sub-transaction is on a fork when a box that carries it is, and the other way round); identity and box overlap have separate fingerprints",
		"part C: the clause is asserted when the head moves to a block that does not descend from the previous head, for the blocks between the two heads and their common ancestor; an abandoned transaction counts as contained when it or a transaction that excludes it (its box / its sub-transaction) is pending; transactions expired at the node's clock (latest block time seen) are not demanded",
		"part C: what a switch put back and what the node accepted itself must stay pending until it is on the current branch or expired (first sentence of the statement); what the pool holds after a block landed on a non-current fork without a switch, and transactions of the common prefix, are counted, not asserted",
		"part C: the transaction entry is the three steps that main/node/api.go SendTx and network/protocol_manager.go handleTxsMsg share; the engine's notification goroutines are dropped (source overlay), the engine's clock is the harness's"}
	parts := os.Getenv("VERIF_C18_PARTS") // development aid: run a subset of the parts (default: all)
	if parts == "" {
		parts = "ABC"
	} else {
		r.NotExhaustive("only parts " + parts + " were run (VERIF_C18_PARTS)")
	}
	partC := make(chan *core.Result, 1)
	go func() {
		if strings.Contains(parts, "C") {
			partC <- runForkSwitch()
		} else {
			partC <- core.NewResult(prop, "model_checking")
		}
	}()
	if strings.Contains(parts, "A") {
		core.BFS(r, core.BFSConfig{Prop: prop, Run: core.SafeRun(prop, runA), MaxDepth: depthA, Workers: core.Opt.Workers})
	}
	if strings.Contains(parts, "B") {
		runB(r, bound)
	}
	r.Merge(<-partC)
	_ = common.Hash{}
	core.Finish(r)
}

// C18 part C — the engine-level fork-switch clause:
//
//	"After a fork switch the pool contains the abandoned fork's transactions that are not on the
//	 new fork, and none that are."
//
// Every case runs on a fresh real node (chain.BlockChain + the real DPoVP engine + the real TxPool and
// TxGuard, 3 deputies). The block factory pre-builds two branches X and Y (and optionally an empty
// third branch M) that fork at the stable block (base S) or at an unconfirmed block above it (base A)
// and carry a chosen placement of a few transactions; the case then delivers the blocks in a chosen
// order, optionally with confirm packets that make a block of one branch stable (which cuts the other
// branch), and submits pool-only transactions through the steps of the node's transaction entry
// (VerifyTxBody, TxGuard.ExistTx on the current block, TxPool.AddTx: main/node/api.go SendTx and
// network/protocol_manager.go handleTxsMsg do exactly these three). Which branch is "old" and which is
// "new" is not fixed by the case: the oracle watches the node's head after every event and evaluates
// the clause whenever the head moves to a block that does not descend from the previous head.
//
// Why an observer: with 3 deputies a deputy signs every foreign block that extends what it signed last, and
// miner + own signature = 2 = ceil(2*3/3) makes that block stable at once, so a deputy never holds two
// unconfirmed foreign branches. An observer signs nothing: forks stay unconfirmed until the case delivers
// a confirm packet.
//
// In the second mode ("dep") the node under test is deputy 0 itself: it mines its own branch from its
// pool (that is the only way a deputy of a 3-deputy chain keeps an unconfirmed fork: it does not sign
// foreign siblings of a block it signed), loses against the foreign branch Y, and mines again.
//
// State on /repo HEAD c05147d: the check reports (1) tx-of-new-fork-pending-after-switch/pending=sub-tx,on-fork=box
// and .../pending=box,on-fork=box — the engine deletes only the top-level transactions of the new fork, a
// pooled sub-transaction (or overlapping box) of a box that the new fork executed stays pending; candidate
// repair fixes/01; (2) abandoned-tx-not-put-back/sub-tx/learned-from-blocks-only — index entries left behind
// when a pooled box is deleted through one of its sub-transactions make AddTxs refuse the box's other
// sub-transaction when a later switch wants to put it back; candidate repair fixes/02.
package main

import (
	"fmt"
	"os"
	"runtime/pprof"
	"sort"
	"strings"
	"syscall"
	"time"

	"verifmc/core"
	"verifmc/node"
	"verifmc/vclock"
	"verifmc/vtask"

	"github.com/LemoFoundationLtd/lemochain-core/chain/params"
	"github.com/LemoFoundationLtd/lemochain-core/chain/txpool"
	"github.com/LemoFoundationLtd/lemochain-core/chain/types"
	"github.com/LemoFoundationLtd/lemochain-core/common"
)

const fsDeputies = 3

// fsCase is one case of part C; it is also the replay artefact.
type fsCase struct {
	Mode   string            `json:"mode"`   // "obs": the node is an observer; "dep": the node is deputy 0 and mines branch X itself
	Base   string            `json:"base"`   // "S": the branches fork at the stable block; "A": at an unconfirmed block A1 above it
	Place  map[string]string `json:"place"`  // tx name -> placement tokens joined by "+": x<i>, y<j>, a (block A1), p<k> (submitted right before event k; k = len(events): after the last)
	Pre    bool              `json:"pre"`    // every transaction that is placed in a block is also submitted to the node before the first event
	Events []string          `json:"events"` // x | y | m (deliver the next block of that branch), x! (with the confirms attached), c<block> (confirm packet), mine, get
}

func (c fsCase) String() string {
	names := make([]string, 0, len(c.Place))
	for n := range c.Place {
		names = append(names, n)
	}
	sort.Strings(names)
	var pl []string
	for _, n := range names {
		pl = append(pl, n+"@"+c.Place[n])
	}
	pre := ""
	if c.Pre {
		pre = " pre-pooled"
	}
	return fmt.Sprintf("%s/%s {%s}%s [%s]", c.Mode, c.Base, strings.Join(pl, " "), pre, strings.Join(c.Events, " "))
}

// ---------------------------------------------------------------------------------------------
// fixture: one block factory per worker process, blocks memoised by everything that determines them

var fsNames = []string{"t1", "t2", "t3", "u1", "u2", "b", "b2", "e"}

type fsFixture struct {
	f     *node.Factory
	gen   *types.Block
	fund  *types.Block
	exp   uint64
	tx    map[string]*types.Transaction // "t1", …, "e/S", "e/A"
	name  map[common.Hash]string
	cache map[string]*types.Block
	built int
}

var fsFx *fsFixture

func fsKind(n string) string {
	switch n {
	case "b", "b2":
		return "box"
	case "u1", "u2":
		return "sub-tx"
	}
	return "plain"
}

func fsFixtureGet() *fsFixture {
	if fsFx != nil && fsFx.built < 4000 {
		return fsFx
	}
	if fsFx != nil {
		// the factory's unconfirmed tree only grows: start a new one now and then (blocks are
		// deterministic, so the new factory produces the same ones)
		fsFx.f.Destroy()
	}
	fx := &fsFixture{tx: map[string]*types.Transaction{}, name: map[common.Hash]string{}, cache: map[string]*types.Block{}}
	vtask.Reset()
	vtask.SetPolicy(vtask.Drop)
	vclock.SetUnix(int64(node.GenesisTime) + 1000000)
	fx.f = node.NewFactory(core.ScratchDir("c18f"), fsDeputies)
	fx.gen = fx.f.BC.Genesis()
	// the funding block: deputy 0 at its first slot
	tm, ok := node.SlotTime(fx.f.DM, fx.gen, node.Deputy(0), fsDeputies)
	if !ok {
		panic("harness: no slot for the funding block")
	}
	var l types.Transactions
	for i := 1; i <= 8; i++ {
		l = append(l, node.Transfer(node.Founder(), node.User(i).Addr, node.Lemo(1000), uint64(tm)+100+uint64(i)))
	}
	fb, inv, err := fx.f.Make(node.BlockSpec{Parent: fx.gen, Miner: node.Deputy(0), Time: tm, Txs: l, Extra: "fund"})
	if err != nil || len(inv) > 0 {
		panic(fmt.Sprintf("harness: funding block: %v invalid=%d", err, len(inv)))
	}
	fx.fund = fb
	fx.exp = uint64(tm) + 1500
	to := node.User(9).Addr
	mkt := func(n string, from int, exp uint64) {
		fx.tx[n] = node.Tx(node.TxSpec{Type: params.OrdinaryTx, From: node.User(from), To: &to, Amount: node.Lemo(1), Exp: exp})
	}
	mkt("t1", 1, fx.exp)
	mkt("t2", 2, fx.exp)
	mkt("t3", 3, fx.exp)
	mkt("u1", 4, fx.exp)
	mkt("u2", 5, fx.exp)
	fx.tx["b"] = node.Box(node.User(6), fx.exp, fx.tx["u1"], fx.tx["u2"])
	fx.tx["b2"] = node.Box(node.User(7), fx.exp, fx.tx["u1"], fx.tx["t3"])
	// e expires 5 s after the first block of branch X: it can be on X1 only, and by the time a later
	// block of the other branch arrives it is expired
	fsFx = fx
	for _, base := range []string{"S", "A"} {
		p, r := fx.fund, 0
		if base == "A" {
			// the time of a block depends on its parent and its miner only, not on what it carries
			p, r = fx.block(base, fx.fund, 1, nil, "a1"), 1
		}
		x1 := fx.slot(p, fx.firstMiner("obs", base, 'x', r))
		fx.tx["e/"+base] = node.Tx(node.TxSpec{Type: params.OrdinaryTx, From: node.User(8), To: &to, Amount: node.Lemo(1), Exp: uint64(x1) + 5})
	}
	for n, tx := range fx.tx {
		fx.name[tx.Hash()] = strings.Split(n, "/")[0]
	}
	fsFx = fx
	return fx
}

func (fx *fsFixture) txOf(base, n string) *types.Transaction {
	if n == "e" {
		return fx.tx["e/"+base]
	}
	return fx.tx[n]
}

func (fx *fsFixture) slot(parent *types.Block, rank int) uint32 {
	tm, ok := node.SlotTime(fx.f.DM, parent, node.Deputy(rank), fsDeputies)
	if !ok {
		panic("harness: no slot")
	}
	return tm
}

func fsRank(b *types.Block) int {
	for i := 0; i < fsDeputies; i++ {
		if node.Deputy(i).Addr == b.MinerAddress() {
			return i
		}
	}
	return 0
}

// block builds (or returns the memoised) block on parent by deputy rank, carrying the named
// transactions, at the deputy's first slot on that parent.
func (fx *fsFixture) block(base string, parent *types.Block, rank int, txNames []string, label string) *types.Block {
	key := parent.Hash().Hex() + "|" + fmt.Sprint(rank) + "|" + strings.Join(txNames, ",") + "|" + label + "|" + base
	if b, ok := fx.cache[key]; ok {
		return b
	}
	var l types.Transactions
	for _, n := range txNames {
		l = append(l, fx.txOf(base, n))
	}
	b, inv, err := fx.f.Make(node.BlockSpec{Parent: parent, Miner: node.Deputy(rank), Time: fx.slot(parent, rank), Txs: l, Extra: label})
	if err != nil {
		panic(fmt.Sprintf("harness: factory cannot build %s on %x with %v: %v", label, parent.Hash().Bytes()[:4], txNames, err))
	}
	if len(inv) > 0 || len(b.Txs) != len(l) {
		panic(fmt.Sprintf("harness: factory discarded transactions of %s %v", label, txNames))
	}
	fx.cache[key] = b
	fx.built++
	return b
}

// firstMiner: the siblings at the fork point are mined by different deputies.
func (fx *fsFixture) firstMiner(mode, base string, br byte, baseRank int) int {
	switch br {
	case 'x':
		return (baseRank + 1) % fsDeputies
	case 'y':
		return (baseRank + 2) % fsDeputies
	}
	return baseRank // m (base S): the base's miner again, one round later
}

// ---------------------------------------------------------------------------------------------
// the world of one case

type fsBlk struct {
	name   string
	b      *types.Block
	hash   common.Hash
	parent common.Hash
	height uint32
	txs    []string // names of the top-level transactions
}

type fsOut struct {
	viol     []core.Violation
	counters map[string]int64
	tags     map[string]bool
}

func (o *fsOut) add(k string, n int64) { o.counters[k] += n }

type fsWorld struct {
	c        fsCase
	fx       *fsFixture
	o        *node.Node
	clock    uint32
	blk      map[common.Hash]*fsBlk
	byName   map[string]*fsBlk
	tip      map[byte]*types.Block // last block built per branch
	count    map[byte]int
	forkAt   *types.Block
	forkRank int
	head     common.Hash
	prevPend map[string]bool
	req      map[string]bool // put back by an earlier switch: stays until it is on the branch again or expires
	own      map[string]bool // accepted through the entry path, not on the branch since
	switches int
	evIndex  int // index of the event being checked (-1: a submission before the first event)
	out      *fsOut
}

func (w *fsWorld) violate(fp, what string) {
	full := prop + "/fork-switch/" + fp
	for _, v := range w.out.viol {
		if v.Fingerprint == full {
			return
		}
	}
	w.out.viol = append(w.out.viol, core.Violation{Fingerprint: full, What: what + " — case " + w.c.String(), Replay: map[string]interface{}{"part": "C", "case": w.c, "at": w.evIndex}})
}

// placed returns the names of the transactions placed at token tok (e.g. "x2"), in menu order.
func (w *fsWorld) placed(tok string) []string {
	var l []string
	for _, n := range fsNames {
		for _, p := range strings.Split(w.c.Place[n], "+") {
			if p == tok {
				l = append(l, n)
			}
		}
	}
	return l
}

func (w *fsWorld) register(name string, b *types.Block) *fsBlk {
	fb := &fsBlk{name: name, b: b, hash: b.Hash(), parent: b.ParentHash(), height: b.Height()}
	for _, tx := range b.Txs {
		n := w.fx.name[tx.Hash()]
		if n == "" {
			n = "fund"
		}
		fb.txs = append(fb.txs, n)
	}
	w.blk[fb.hash] = fb
	w.byName[name] = fb
	return fb
}

func (w *fsWorld) setClock(t uint32) {
	if t > w.clock {
		w.clock = t
	}
	vclock.SetUnix(int64(w.clock))
}

func (w *fsWorld) confirmsFor(b *types.Block) []types.SignData {
	var sigs []types.SignData
	for i := 0; i < fsDeputies; i++ {
		if i != fsRank(b) && (w.c.Mode != "dep" || i != 0) {
			sigs = append(sigs, node.SignConfirm(node.Deputy(i), b.Hash()))
		}
	}
	return sigs
}

func newFsWorld(c fsCase, out *fsOut) *fsWorld {
	fx := fsFixtureGet()
	w := &fsWorld{c: c, fx: fx, out: out, blk: map[common.Hash]*fsBlk{}, byName: map[string]*fsBlk{}, tip: map[byte]*types.Block{}, count: map[byte]int{},
		prevPend: map[string]bool{}, req: map[string]bool{}, own: map[string]bool{}}
	vtask.Reset()
	vtask.SetPolicy(vtask.Drop)
	self := node.K("observer")
	if c.Mode == "dep" {
		self = node.Deputy(0)
	}
	w.clock = fx.fund.Time()
	vclock.SetUnix(int64(w.clock))
	w.o = node.NewNode(core.ScratchDir("c18o"), fsDeputies, self)
	w.register("g", fx.gen)
	// the funding block arrives with the confirms of the other deputies: stable at once
	fb := node.Wire(fx.fund)
	fb.Confirms = append(fb.Confirms, w.confirmsFor(fx.fund)...)
	w.o.Use()
	if err := w.o.BC.InsertBlock(fb); err != nil {
		panic("harness: funding block rejected: " + err.Error())
	}
	w.register("f", fx.fund)
	if w.o.BC.StableBlock().Hash() != fx.fund.Hash() {
		panic("harness: funding block is not stable")
	}
	w.forkAt, w.forkRank = fx.fund, 0
	if c.Base == "A" {
		a1 := fx.block(c.Base, fx.fund, 1, w.placed("a"), "a1")
		w.setClock(a1.Time())
		w.o.Use()
		if err := w.o.BC.InsertBlock(node.Wire(a1)); err != nil {
			panic("harness: block a1 rejected: " + err.Error())
		}
		w.register("a1", a1)
		w.forkAt, w.forkRank = a1, 1
	}
	w.head = w.o.BC.CurrentBlock().Hash()
	return w
}

func (w *fsWorld) close() {
	w.o.Destroy()
}

// submit: the steps of the node's transaction entry
func (w *fsWorld) submit(n string) string {
	tx := w.fx.txOf(w.c.Base, n).Clone()
	w.o.Use()
	if err := tx.VerifyTxBody(node.ChainID, uint64(w.clock), false); err != nil {
		return "refused(" + err.Error() + ")"
	}
	if w.o.BC.TxGuard().ExistTx(w.o.BC.CurrentBlock().Hash(), tx) {
		return "refused(on the current branch)"
	}
	if err := w.o.Pool.AddTx(tx); err != nil {
		return "refused(pool: " + err.Error() + ")"
	}
	w.own[n] = true
	return "pooled"
}

func (w *fsWorld) apply(ev string) string {
	switch {
	case ev == "x" || ev == "y" || ev == "m" || ev == "x!" || ev == "y!":
		br := ev[0]
		i := w.count[br] + 1
		parent := w.tip[br]
		var rank int
		if parent == nil {
			parent = w.forkAt
			rank = w.fx.firstMiner(w.c.Mode, w.c.Base, br, w.forkRank)
			if br == 'm' {
				// the third branch forks at the stable block, below A1 when there is one
				parent = w.fx.fund
				rank = 2
				if w.c.Base == "S" {
					rank = 0
				}
			}
		} else {
			rank = (fsRank(parent) + 1) % fsDeputies
		}
		name := fmt.Sprintf("%c%d", br, i)
		b := w.fx.block(w.c.Base, parent, rank, w.placed(name), name)
		w.tip[br] = b
		w.count[br] = i
		w.setClock(b.Time())
		wb := node.Wire(b)
		if strings.HasSuffix(ev, "!") {
			wb.Confirms = append(wb.Confirms, w.confirmsFor(b)...)
		}
		w.o.Use()
		if err := w.o.BC.InsertBlock(wb); err != nil {
			return "not-accepted(" + err.Error() + ")"
		}
		w.register(name, b)
		w.out.add("fs_blocks_delivered", 1)
		return "accepted"
	case ev[0] == 'c': // confirm packet for a delivered block
		fb := w.byName[ev[1:]]
		if fb == nil {
			return "unknown-block"
		}
		w.o.Use()
		w.o.BC.InsertConfirms(fb.height, fb.hash, w.confirmsFor(fb.b))
		return "confirms-delivered"
	case ev == "get": // a selection at the node's clock (the miner's and the API's call)
		w.o.Use()
		got := w.o.Pool.GetTxs(w.clock, 256)
		for _, tx := range got {
			n := w.fx.name[tx.Hash()]
			if w.expired(n) {
				w.violate("selection-hands-out-expired", fmt.Sprintf("GetTxs(%d) handed out %s which expired at %d", w.clock, n, tx.Expiration()))
			}
		}
		return fmt.Sprintf("selected(%d)", len(got))
	case ev == "mine": // the node (deputy 0) mines on its head in its next slot
		w.o.Use()
		cur := w.o.BC.CurrentBlock()
		tm := w.fx.slot(cur, 0)
		for tm < w.clock {
			tm += fsDeputies * 10
		}
		w.setClock(tm)
		w.o.BC.MineBlock(node.HugeTimeout)
		nb := w.o.BC.CurrentBlock()
		if nb.Hash() == cur.Hash() {
			return "no-block"
		}
		w.count['z']++
		fb := w.register(fmt.Sprintf("z%d", w.count['z']), nb)
		// the miner must not package a transaction that is already on the branch it mines on
		for _, n := range fb.txs {
			for p := w.blk[fb.parent]; p != nil; p = w.blk[p.parent] {
				for _, y := range p.txs {
					if y != "fund" && related(n, y) {
						w.violate("miner-packaged-tx-of-its-own-branch/"+fsKind(n)+"-vs-"+fsKind(y), fmt.Sprintf("the node mined %s (%v) on a branch whose block %s already carries %s", n, fb.txs, p.name, y))
					}
				}
			}
		}
		w.out.add("fs_mined_blocks", 1)
		w.out.add("fs_mined_txs", int64(len(fb.txs)))
		return fmt.Sprintf("mined(%s)", strings.Join(fb.txs, ","))
	}
	panic("harness: bad event " + ev)
}

func (w *fsWorld) expired(n string) bool {
	for _, c := range covered(n) {
		if w.fx.txOf(w.c.Base, c).Expiration() < uint64(w.clock) {
			return true
		}
	}
	return false
}

// branch lists the blocks from h down to (excluding) genesis.
func (w *fsWorld) branch(h common.Hash) []*fsBlk {
	var l []*fsBlk
	for b := w.blk[h]; b != nil && b.height > 0; b = w.blk[b.parent] {
		l = append(l, b)
	}
	return l
}

func (w *fsWorld) isAncestorOrSelf(a, d common.Hash) bool {
	for b := w.blk[d]; b != nil; b = w.blk[b.parent] {
		if b.hash == a {
			return true
		}
	}
	return false
}

// segments: the blocks of the two branches above their common ancestor.
func (w *fsWorld) segments(oldHead, newHead common.Hash) (oldSeg, newSeg []*fsBlk) {
	onNew := map[common.Hash]bool{}
	for _, b := range w.branch(newHead) {
		onNew[b.hash] = true
	}
	for _, b := range w.branch(oldHead) {
		if onNew[b.hash] {
			break
		}
		oldSeg = append(oldSeg, b)
	}
	onOld := map[common.Hash]bool{}
	for _, b := range w.branch(oldHead) {
		onOld[b.hash] = true
	}
	for _, b := range w.branch(newHead) {
		if onOld[b.hash] {
			break
		}
		newSeg = append(newSeg, b)
	}
	return
}

func segTxs(seg []*fsBlk) []string {
	var l []string
	for _, b := range seg {
		for _, n := range b.txs {
			if n != "fund" {
				l = append(l, n)
			}
		}
	}
	return l
}

// check evaluates the clause after event ei.
func (w *fsWorld) check(ei int, ev, res string) {
	w.evIndex = ei
	w.o.Use()
	newHead := w.o.BC.CurrentBlock().Hash()
	if w.blk[newHead] == nil {
		panic("harness: the node's head is a block the harness does not know")
	}
	// time 0: nothing is expired for this call, so it lists the pending entries without changing the pool
	pend := map[string]bool{}
	var pendL []string
	for _, tx := range w.o.Pool.GetTxs(0, 256) {
		n := w.fx.name[tx.Hash()]
		if n == "" {
			w.violate("unknown-tx-in-pool", fmt.Sprintf("after %q the pool holds %x which nobody gave it", ev, tx.Hash().Bytes()[:4]))
			continue
		}
		if pend[n] {
			w.violate("tx-twice-in-pool", fmt.Sprintf("after %q the pool lists %s twice", ev, n))
		}
		pend[n] = true
		pendL = append(pendL, n)
	}
	sort.Strings(pendL)
	for i, a := range pendL {
		for _, b := range pendL[i+1:] {
			if related(a, b) {
				w.violate("box-and-sub-tx-both-pending", fmt.Sprintf("after %q the pool holds %s and %s together (%s)", ev, a, b, txpool.VerifDump(w.o.Pool)))
			}
		}
	}
	coveredByPool := func(x string) bool {
		for _, p := range pendL {
			if related(p, x) {
				return true
			}
		}
		return false
	}
	cur := w.branch(newHead)
	curTxs := segTxs(cur)
	onCur := func(x string) string {
		for _, y := range curTxs {
			if related(x, y) {
				return y
			}
		}
		return ""
	}
	kindOfEvent := strings.TrimRight(ev, "0123456789!")
	if strings.HasPrefix(ev, "submit") {
		kindOfEvent = "submit"
	} else if len(ev) > 1 && ev[0] == 'c' {
		kindOfEvent = "confirm"
	}

	switched := newHead != w.head && !w.isAncestorOrSelf(w.head, newHead)
	if switched {
		w.switches++
		oldSeg, newSeg := w.segments(w.head, newHead)
		mech := "longer-fork"
		if w.o.BC.StableBlock().Height() >= newSeg[len(newSeg)-1].height {
			mech = "stable-cut"
		}
		w.out.add("fs_switches", 1)
		w.out.add(fmt.Sprintf("fs_switch/%s/old=%d,new=%d/%s", w.c.Mode, len(oldSeg), len(newSeg), mech), 1)
		w.out.add(fmt.Sprintf("fs_switch_no/%d", w.switches), 1)
		oldTxs, newTxs := segTxs(oldSeg), segTxs(newSeg)
		shape := fmt.Sprintf("old depth %d (%s), new depth %d (%s), %s, after %q", len(oldSeg), segNames(oldSeg), len(newSeg), segNames(newSeg), mech, ev)
		var tag []string
		// "… and none that are": no pending transaction is on the new fork. Identity is definite; for a box
		// and its sub-transactions "on the fork" is what the node's own TxGuard.ExistTx answers (a box is on
		// the fork when one of its sub-transactions is, a sub-transaction when a box that carries it is)
		for _, p := range pendL {
			for _, y := range newTxs {
				if p == y {
					w.violate("tx-of-new-fork-pending-after-switch/same-tx/"+fsKind(p), fmt.Sprintf("%s is on the new fork and still pending; %s; pool %v", p, shape, pendL))
				} else if related(p, y) {
					w.violate("tx-of-new-fork-pending-after-switch/pending="+fsKind(p)+",on-fork="+fsKind(y), fmt.Sprintf("%s is pending although the new fork carries %s; %s; pool %v", p, y, shape, pendL))
				}
			}
		}
		for _, y := range newTxs {
			if w.prevPend[y] && !pend[y] {
				w.out.add("fs_newfork_tx_removed_from_pool", 1)
			}
		}
		// "the pool contains the abandoned fork's transactions that are not on the new fork"
		for _, x := range oldTxs {
			cls := "only-old"
			onNew := ""
			for _, y := range newTxs {
				if related(x, y) {
					onNew = y
				}
			}
			switch {
			case onNew == x:
				cls = "both"
			case onNew != "":
				cls = "both(box-overlap)"
			}
			w.out.add("fs_placement/"+cls+"/"+fsKind(x), 1)
			st := "absent"
			if pend[x] {
				st = "pooled"
			}
			tag = append(tag, cls+":"+fsKind(x)+"="+st)
			if onNew != "" {
				continue
			}
			if y := onCur(x); y != "" {
				// related to a transaction on the common part of the two branches: no branch of valid blocks
				// carries a transaction twice (that is C04's subject; here it can only come from a block the
				// node mined itself), so nothing is demanded for it
				w.violate("branch-carries-a-tx-twice/"+fsKind(x)+"-vs-"+fsKind(y), fmt.Sprintf("%s is on the abandoned fork although %s is below the fork point; %s", x, y, shape))
				continue
			}
			if w.expired(x) {
				w.out.add("fs_abandoned_tx_expired(not required)", 1)
				if pend[x] {
					w.out.add("fs_abandoned_tx_expired_but_put_back(allowed)", 1)
				}
				continue
			}
			if !coveredByPool(x) {
				how := "learned-from-blocks-only"
				if w.c.Pre || strings.Contains(w.c.Place[x], "p") {
					how = "had-been-submitted"
				}
				w.violate("abandoned-tx-not-put-back/"+fsKind(x)+"/"+how, fmt.Sprintf("%s is on the abandoned fork, not on the new one, not expired (clock %d) and not in the pool; %s; pool %v; %s", x, w.clock, shape, pendL, txpool.VerifDump(w.o.Pool)))
				continue
			}
			if pend[x] {
				w.out.add("fs_repooled_tx_observed", 1)
				if !w.prevPend[x] {
					w.out.add("fs_repooled_tx_was_not_pending_before", 1)
				}
			} else {
				w.out.add("fs_abandoned_tx_covered_by_related_pending_tx", 1)
			}
			w.req[x] = true
		}
		for _, y := range newTxs {
			onOld := false
			for _, x := range oldTxs {
				if related(x, y) {
					onOld = true
				}
			}
			if !onOld {
				w.out.add("fs_placement/only-new/"+fsKind(y), 1)
				tag = append(tag, "only-new:"+fsKind(y)+"=absent")
			}
		}
		for _, p := range pendL {
			inOld, inNew := false, false
			for _, x := range oldTxs {
				inOld = inOld || x == p
			}
			for _, y := range newTxs {
				inNew = inNew || y == p
			}
			if !inOld && !inNew {
				w.out.add("fs_placement/neither(pool-only)/"+fsKind(p), 1)
				tag = append(tag, "neither:"+fsKind(p)+"=pooled")
			}
			if y := onCur(p); y != "" && !inNew {
				isNew := false
				for _, z := range newTxs {
					isNew = isNew || related(p, z)
				}
				if !isNew {
					w.out.add("fs_pool_holds_tx_of_the_common_prefix_after_switch(not asserted)", 1)
				}
			}
		}
		sort.Strings(tag)
		w.out.tags[fmt.Sprintf("C/%s/%s/old=%d,new=%d/%s", w.c.Mode, mech, len(oldSeg), len(newSeg), strings.Join(tag, ","))] = true
	} else {
		// not a switch: the statement says nothing; count what the pool does
		if res == "accepted" && newHead == w.head {
			w.out.add("fs_block_on_non_current_fork_without_switch", 1)
		}
		for _, p := range pendL {
			if onCur(p) != "" {
				w.out.add("fs_pool_holds_tx_of_current_branch_without_switch(not asserted)", 1)
				break
			}
		}
		if w.o.BC.StableBlock().Height() > 1 && newHead == w.head && kindOfEvent == "confirm" {
			w.out.add("fs_stable_advance_without_switch", 1)
		}
	}

	// later events must not lose what a switch put back, nor what the node accepted itself (first
	// sentence of the statement), unless it is on the current branch now or expired
	for _, set := range []struct {
		m  map[string]bool
		fp string
	}{{w.req, "tx-put-back-by-switch-lost-later"}, {w.own, "accepted-tx-lost"}} {
		names := make([]string, 0, len(set.m))
		for x := range set.m {
			names = append(names, x)
		}
		sort.Strings(names)
		for _, x := range names {
			if onCur(x) != "" || w.expired(x) {
				delete(set.m, x)
				continue
			}
			if !coveredByPool(x) {
				w.violate(set.fp+"/"+fsKind(x)+"/at-"+kindOfEvent, fmt.Sprintf("%s was pending, is neither on the current branch (%s) nor expired, and is gone after event %d %q (%s); pool %v; %s", x, segNames(cur), ei, ev, res, pendL, txpool.VerifDump(w.o.Pool)))
				delete(set.m, x)
			}
		}
	}
	w.head = newHead
	w.prevPend = pend
}

func pendNames(m map[string]bool) []string {
	l := make([]string, 0, len(m))
	for n := range m {
		l = append(l, n)
	}
	sort.Strings(l)
	return l
}

func segNames(seg []*fsBlk) string {
	var l []string
	for i := len(seg) - 1; i >= 0; i-- {
		l = append(l, fmt.Sprintf("%s%v", seg[i].name, seg[i].txs))
	}
	return strings.Join(l, "<-")
}

// runFsCase executes one case on a fresh node.
func runFsCase(c fsCase, out *fsOut) (trace []string) {
	defer func() {
		if p := recover(); p != nil {
			msg := fmt.Sprint(p)
			fp := "panic/" + strings.SplitN(msg, "\n", 2)[0]
			if len(fp) > 140 {
				fp = fp[:140]
			}
			out.viol = append(out.viol, core.Violation{Fingerprint: prop + "/fork-switch/" + fp, What: "panic: " + msg + " — case " + c.String(), Replay: map[string]interface{}{"part": "C", "case": c}})
		}
	}()
	w := newFsWorld(c, out)
	defer w.close()
	out.add("fs_cases", 1)
	submitAt := func(k int) {
		for _, n := range fsNames {
			for _, p := range strings.Split(c.Place[n], "+") {
				if p == fmt.Sprintf("p%d", k) {
					res := w.submit(n)
					out.add("fs_submissions", 1)
					w.check(k, "submit "+n, res)
					trace = append(trace, fmt.Sprintf("submit %s: %s pool=%v", n, res, pendNames(w.prevPend)))
				}
			}
		}
	}
	if c.Pre {
		for _, n := range fsNames {
			pl := c.Place[n]
			if strings.ContainsAny(pl, "xya") {
				res := w.submit(n)
				w.check(0, "submit "+n, res)
				trace = append(trace, fmt.Sprintf("pre-submit %s: %s pool=%v", n, res, pendNames(w.prevPend)))
			}
		}
	}
	for i, ev := range c.Events {
		submitAt(i)
		res := w.apply(ev)
		out.add("fs_events", 1)
		w.check(i, ev, res)
		trace = append(trace, fmt.Sprintf("%s: %s head=%s stable=%s pool=%v", ev, res, w.blk[w.head].name, w.blk[w.o.BC.StableBlock().Hash()].name, pendNames(w.prevPend)))
	}
	submitAt(len(c.Events))
	if c.Mode == "obs" && (w.switches > 0) != (fsSimSwitches(fsSchedule{base: c.Base, events: c.Events}) > 0) {
		out.add("fs_effort_model_mismatch", 1)
	}
	if w.switches > 0 {
		out.add("fs_cases_with_switch", 1)
	}
	return trace
}

// ---------------------------------------------------------------------------------------------
// enumeration

// interleavings lists the order-preserving merges of dx x-deliveries and dy y-deliveries.
func interleavings(dx, dy int) [][]string {
	if dx == 0 && dy == 0 {
		return [][]string{nil}
	}
	var out [][]string
	if dx > 0 {
		for _, r := range interleavings(dx-1, dy) {
			out = append(out, append([]string{"x"}, r...))
		}
	}
	if dy > 0 {
		for _, r := range interleavings(dx, dy-1) {
			out = append(out, append([]string{"y"}, r...))
		}
	}
	return out
}

func orderXY(dx, dy int) []string {
	var l []string
	for i := 0; i < dx; i++ {
		l = append(l, "x")
	}
	for i := 0; i < dy; i++ {
		l = append(l, "y")
	}
	return l
}

func orderAlt(dx, dy int) []string {
	var l []string
	for i := 0; i < dx || i < dy; i++ {
		if i < dx {
			l = append(l, "x")
		}
		if i < dy {
			l = append(l, "y")
		}
	}
	return l
}

func cat(a []string, b ...string) []string { return append(append([]string{}, a...), b...) }

// placements of one transaction on a shape: pool only (before the first / after the last event), every
// block of X, every block of Y, every pair (one block of each), the common block A1 (base A). With
// ends=true only the first and the last block of each branch are used (positions above 3 never).
func fsPlacements(base string, dx, dy, nev int, ends bool) []string {
	pos := func(d int) []int {
		if d > 3 {
			d = 3
		}
		var l []int
		for i := 1; i <= d; i++ {
			if !ends || i == 1 || i == d {
				l = append(l, i)
			}
		}
		return l
	}
	l := []string{"p0", fmt.Sprintf("p%d", nev)}
	for _, i := range pos(dx) {
		l = append(l, fmt.Sprintf("x%d", i))
	}
	for _, j := range pos(dy) {
		l = append(l, fmt.Sprintf("y%d", j))
	}
	for _, i := range pos(dx) {
		for _, j := range pos(dy) {
			l = append(l, fmt.Sprintf("x%d+y%d", i, j))
		}
	}
	if base == "A" {
		l = append(l, "a")
	}
	return l
}

// compatible: two related transactions cannot be on one branch (the factory could not build the block
// and no node would accept it); A1 belongs to both branches.
func fsCompatible(place map[string]string) bool {
	names := make([]string, 0, len(place))
	for n := range place {
		names = append(names, n)
	}
	sort.Strings(names)
	br := func(p string) string {
		s := ""
		for _, t := range strings.Split(p, "+") {
			switch t[0] {
			case 'x', 'y':
				s += string(t[0])
			case 'a':
				s += "xy"
			}
		}
		return s
	}
	for i, a := range names {
		for _, b := range names[i+1:] {
			if related(a, b) && strings.ContainsAny(br(place[a]), br(place[b])) && br(place[b]) != "" {
				return false
			}
		}
	}
	return true
}

type fsSchedule struct {
	base    string
	dx, dy  int
	events  []string
	variant bool // a confirm in the middle of the deliveries / attached to a block: gets the reduced placement set
}

// fsSchedules: the delivery schedules of a tier.
func fsSchedules(thorough bool) []fsSchedule {
	var l []fsSchedule
	seen := map[string]bool{}
	variant := false
	add := func(base string, dx, dy int, ev []string) {
		k := base + strings.Join(ev, " ")
		if !seen[k] {
			seen[k] = true
			l = append(l, fsSchedule{base, dx, dy, ev, variant})
		}
	}
	for _, base := range []string{"S", "A"} {
		maxD := 3
		for dx := 1; dx <= maxD; dx++ {
			for dy := 1; dy <= maxD; dy++ {
				var orders [][]string
				if thorough {
					orders = interleavings(dx, dy)
				} else {
					orders = [][]string{orderXY(dx, dy), orderAlt(dx, dy)}
				}
				for _, o := range orders {
					add(base, dx, dy, o)
					// a confirm packet at the end makes a block of one branch stable: when that is not the
					// current branch, the current one is cut and the node switches (to an equal or shorter fork too)
					add(base, dx, dy, cat(o, "cy1"))
					add(base, dx, dy, cat(o, "cx1"))
					if thorough {
						add(base, dx, dy, cat(o, fmt.Sprintf("cy%d", dy)))
						add(base, dx, dy, cat(o, fmt.Sprintf("cx%d", dx)))
						variant = true
						// the confirm packet right after its block, in the middle of the deliveries
						for _, br := range []string{"x", "y"} {
							n := 0
							for i, e := range o {
								if e == br {
									n++
									if n == 1 && i < len(o)-1 {
										add(base, dx, dy, cat(cat(o[:i+1], fmt.Sprintf("c%s1", br)), o[i+1:]...))
									}
								}
							}
						}
						// the last block of a branch arrives with the confirms attached
						lastY, lastX := -1, -1
						for i, e := range o {
							if e == "y" {
								lastY = i
							} else {
								lastX = i
							}
						}
						oy := cat(o)
						oy[lastY] = "y!"
						add(base, dx, dy, oy)
						ox := cat(o)
						ox[lastX] = "x!"
						add(base, dx, dy, ox)
						variant = false
					}
					// an empty third branch wins at the end: everything above the stable block is abandoned
					if thorough || len(o) <= 4 {
						add(base, dx, dy, cat(o, "m", "cm1"))
					}
				}
			}
		}
		// the longer-fork rule lets a fork win only at an even distance from the stable block (3 deputies):
		// new depth 2 or 4 on base S, 3 or 5 on base A. Depth 4 / 5 against old depths 2, 3 (and a switch back)
		deep := 4
		if base == "A" {
			deep = 5
		}
		for dx := 1; dx <= 3; dx++ {
			if thorough {
				for _, o := range interleavings(dx, deep) {
					add(base, dx, deep, o)
				}
				for _, o := range interleavings(deep, dx) {
					add(base, deep, dx, o)
				}
			} else if dx >= 2 {
				add(base, dx, deep, orderXY(dx, deep))
				add(base, dx, deep, orderAlt(dx, deep))
			}
		}
	}
	return l
}

// fsSimSwitches predicts how often the node's head leaves its branch on a schedule (3 deputies: a
// longer fork wins at an even distance from the stable block; a stable block on another branch cuts
// the current one). It is used ONLY to decide how much enumeration effort a schedule gets (the pair /
// triple placements are enumerated on schedules with a switch); every run compares the prediction with
// what the node did (counter fs_effort_model_mismatch) and the oracle never looks at it.
func fsSimSwitches(s fsSchedule) int {
	type blk struct {
		parent string
		h      int
	}
	blocks := map[string]blk{"f": {"", 1}}
	alive := map[string]bool{"f": true}
	head, stable := "f", "f"
	forkAt := "f"
	if s.base == "A" {
		blocks["a1"] = blk{"f", 2}
		alive["a1"] = true
		head, forkAt = "a1", "a1"
	}
	isAnc := func(a, d string) bool {
		for ; d != ""; d = blocks[d].parent {
			if d == a {
				return true
			}
		}
		return false
	}
	best := func() string {
		b := stable
		names := make([]string, 0, len(alive))
		for n := range alive {
			names = append(names, n)
		}
		sort.Strings(names)
		for _, n := range names {
			if blocks[n].h > blocks[b].h {
				b = n
			}
		}
		return b
	}
	switches := 0
	count := map[byte]int{}
	tip := map[byte]string{}
	confirm := func(n string) {
		if !alive[n] || blocks[n].h <= blocks[stable].h {
			return
		}
		stable = n
		for m := range alive {
			if !isAnc(m, n) && !isAnc(n, m) {
				delete(alive, m)
			}
		}
		if !alive[head] {
			head = best()
			switches++
		}
	}
	for _, ev := range s.events {
		switch ev[0] {
		case 'x', 'y', 'm':
			br := ev[0]
			count[br]++
			name := fmt.Sprintf("%c%d", br, count[br])
			parent := tip[br]
			if parent == "" {
				parent = forkAt
				if br == 'm' {
					parent = "f"
				}
			}
			tip[br] = name
			blocks[name] = blk{parent, blocks[parent].h + 1}
			if !alive[parent] || blocks[name].h <= blocks[stable].h {
				continue
			}
			alive[name] = true
			if parent == head {
				head = name
			} else if c := best(); blocks[c].h > blocks[head].h && (blocks[c].h-blocks[stable].h)%2 == 0 {
				head = c
				switches++
			}
			if strings.HasSuffix(ev, "!") {
				confirm(name)
			}
		case 'c':
			confirm(ev[1:])
		}
	}
	return switches
}

// fsAssignments: the transaction placements of a tier on one schedule.
func fsAssignments(thorough bool, s fsSchedule, emit func(place map[string]string, pre bool)) {
	nev := len(s.events)
	all := fsPlacements(s.base, s.dx, s.dy, nev, false)
	ends := fsPlacements(s.base, s.dx, s.dy, nev, true)
	inBlock := func(p string) bool { return strings.ContainsAny(p, "xya") }
	one := func(place map[string]string, withPre bool) {
		if !fsCompatible(place) {
			return
		}
		emit(place, false)
		if !withPre {
			return
		}
		for _, p := range place {
			if inBlock(p) {
				emit(place, true)
				return
			}
		}
	}
	sw := fsSimSwitches(s) > 0
	// one transaction at every position: a plain one everywhere; a box and the pre-pooled variants where the node switches
	for _, p := range all {
		one(map[string]string{"t1": p}, sw)
		if sw {
			one(map[string]string{"b": p}, true)
		}
	}
	if !sw {
		return
	}
	// the early-expiring transaction on X1 (alone, next to a long-lived one, pool only)
	one(map[string]string{"e": "x1"}, true)
	one(map[string]string{"e": "x1", "t1": "x1"}, false)
	one(map[string]string{"e": "p0"}, false)
	deep := s.dx > 3 || s.dy > 3
	// two transactions: the box and its sub-transaction (thorough: at every position, also pre-pooled);
	// two plain ones (unordered, at the ends of the branches)
	P := ends
	if thorough && !deep && !s.variant {
		P = all
	}
	for _, p := range P {
		for _, q := range P {
			one(map[string]string{"b": p, "u1": q}, thorough && !deep && !s.variant)
		}
	}
	if s.variant {
		return
	}
	if thorough || s.base == "S" {
		for i, p := range ends {
			for _, q := range ends[i:] {
				one(map[string]string{"t1": p, "t2": q}, false)
			}
		}
	}
	if !thorough && !deep && s.dx+s.dy <= 3 && s.events[len(s.events)-1] == "cm1" {
		// quick: the box and both its sub-transactions on the three-branch schedules of the smallest shapes
		for _, p := range ends {
			for _, q := range ends {
				for _, r := range ends {
					one(map[string]string{"b": p, "u1": q, "u2": r}, false)
				}
			}
		}
	}
	if !thorough || deep {
		return
	}
	// thorough: a plain one next to the box, two overlapping boxes, and three transactions (plain + box + sub;
	// box + both sub-transactions; three plain ones, which fill and grow the pool of capacity 2) at the ends of the branches
	for _, p := range ends {
		for _, q := range ends {
			one(map[string]string{"t1": p, "b": q}, false)
			one(map[string]string{"b": p, "b2": q}, false)
			if s.dx+s.dy > 4 {
				continue
			}
			for _, r := range ends {
				one(map[string]string{"t1": p, "b": q, "u1": r}, false)
				one(map[string]string{"b": p, "u1": q, "u2": r}, false)
				if s.dx+s.dy <= 3 {
					one(map[string]string{"t1": p, "t2": q, "t3": r}, false)
				}
			}
		}
	}
}

// fsDepCases: the node is deputy 0 and mines its own branch.
func fsDepCases(thorough bool, emit func(c fsCase)) {
	// events: mine (own block on the head), y (next block of the foreign branch that forks at the stable block)
	maxOwn, maxY := 2, 4
	if thorough {
		maxOwn = 3
	}
	var scheds [][]string
	for own := 1; own <= maxOwn; own++ {
		for dy := 1; dy <= maxY; dy++ {
			for _, il := range interleavings(own, dy) {
				ev := make([]string, len(il))
				for i, e := range il {
					if e == "x" {
						ev[i] = "mine"
					} else {
						ev[i] = "y"
					}
				}
				if ev[0] != "mine" {
					continue // a foreign block first is confirmed by the node and stable at once: no fork
				}
				scheds = append(scheds, cat(ev, "mine"))
			}
		}
	}
	for _, ev := range scheds {
		nev := len(ev)
		dy := 0
		var subs []string
		for i, e := range ev {
			if e == "y" {
				dy++
			}
			if e == "mine" {
				subs = append(subs, fmt.Sprintf("p%d", i)) // submitted right before the node mines
			}
		}
		_ = nev
		var P []string
		P = append(P, subs...)
		for j := 1; j <= dy && j <= 3; j++ {
			P = append(P, fmt.Sprintf("y%d", j))
		}
		for _, s := range subs[:len(subs)-1] {
			for j := 1; j <= dy && j <= 3; j++ {
				P = append(P, fmt.Sprintf("%s+y%d", s, j))
			}
		}
		for _, p := range P {
			emit(fsCase{Mode: "dep", Base: "S", Place: map[string]string{"t1": p}, Events: ev})
			emit(fsCase{Mode: "dep", Base: "S", Place: map[string]string{"b": p}, Events: ev})
		}
		for _, p := range P {
			for _, q := range P {
				pl := map[string]string{"b": p, "u1": q}
				if depCompatible(pl) {
					emit(fsCase{Mode: "dep", Base: "S", Place: pl, Events: ev})
				}
				if thorough {
					emit(fsCase{Mode: "dep", Base: "S", Place: map[string]string{"t1": p, "t2": q}, Events: ev})
				}
			}
		}
	}
}

// depCompatible: related transactions must not both be on the foreign branch (the own branch is the
// engine's business: what it packages is what is being checked).
func depCompatible(place map[string]string) bool {
	n := 0
	for _, p := range place {
		if strings.Contains(p, "y") {
			n++
		}
	}
	return n <= 1
}

// fsEnumerate calls emit for every case of the tier, in a fixed order (simplest shapes first).
func fsEnumerate(thorough bool, emit func(c fsCase)) {
	for _, s := range fsSchedules(thorough) {
		s := s
		fsAssignments(thorough, s, func(place map[string]string, pre bool) {
			pl := map[string]string{}
			for k, v := range place {
				pl[k] = v
			}
			ev := s.events
			if _, ok := pl["e"]; ok {
				// the cases with the early-expiring transaction end with a selection at the node's clock
				ev = cat(ev, "get")
			}
			emit(fsCase{Mode: "obs", Base: s.base, Place: pl, Pre: pre, Events: ev})
		})
	}
	fsDepCases(thorough, emit)
}

// ---------------------------------------------------------------------------------------------
// driver

func fsWorker(i, n int) {
	// parts A and B run in the parent at the same time: on a busy machine they go first
	if raw, err := syscall.Getpriority(syscall.PRIO_PROCESS, 0); err == nil {
		nice := 20 - raw + 5 // the raw system call answers 20 - nice
		if nice > 19 {
			nice = 19
		}
		syscall.Setpriority(syscall.PRIO_PROCESS, 0, nice)
	}
	r := core.NewResult(prop, "model_checking")
	out := &fsOut{counters: map[string]int64{}, tags: map[string]bool{}}
	idx := 0
	stopped := false
	// development aid: VERIF_C18_RANGE=from:to runs the cases with these positions in the enumeration only
	from, to := 0, 1<<62
	if rg := os.Getenv("VERIF_C18_RANGE"); rg != "" {
		fmt.Sscanf(rg, "%d:%d", &from, &to)
		r.NotExhaustive("part C: only the cases " + rg + " were run (VERIF_C18_RANGE)")
	}
	fsEnumerate(core.Thorough(), func(c fsCase) {
		idx++
		if (idx-1)%n != i || stopped || idx < from || idx > to {
			return
		}
		if core.OutOfTime() {
			stopped = true
			return
		}
		core.Journal(c.String())
		tr := runFsCase(c, out)
		if idx%997 == 1 {
			r.Sample(map[string]interface{}{"case": c.String(), "trace": tr})
		}
		// the first (= simplest, the enumeration goes from simple to complex) case of every fingerprint is
		// handed to the parent together with its position in the enumeration; the parent keeps the overall first
		for _, v := range out.viol {
			r.Add("violations_raw", 1)
			key := fmt.Sprintf("C/viol/%s/worker%d", v.Fingerprint, i)
			if _, ok := r.Extra[key]; !ok {
				r.Extra[key] = map[string]interface{}{"index": idx, "fingerprint": v.Fingerprint, "what": v.What, "replay": v.Replay}
			}
		}
		out.viol = out.viol[:0]
	})
	if stopped {
		r.NotExhaustive("part C: internal deadline reached")
	}
	for k, v := range out.counters {
		r.Add(k, v)
	}
	for t := range out.tags {
		r.Outcome(t)
	}
	if fsFx != nil {
		fsFx.f.Destroy()
	}
	core.WorkerDone(r)
}

// runForkSwitch runs part C in worker processes (the node key, the signature cache and the virtual
// clock are process-global) and returns its result for merging.
func runForkSwitch() *core.Result {
	r := core.NewResult(prop, "model_checking")
	total := 0
	fsEnumerate(core.Thorough(), func(c fsCase) { total++ })
	r.Extra["C/cases_enumerated"] = total
	workers := core.Opt.Workers
	limit := 6 * time.Minute
	if core.Thorough() {
		limit = 45 * time.Minute
	}
	core.RunShards(r, workers, nil, limit, func(i int, tail, journal string) {
		r.Violate(prop+"/fork-switch/worker-died", fmt.Sprintf("a worker process died while running case {%s}: %s", strings.TrimSpace(journal), lastLines(tail, 12)), map[string]interface{}{"part": "C", "journal": journal})
	})
	if got := r.Counters["fs_cases"]; r.Exhaustive && got != int64(total) {
		r.NotExhaustive(fmt.Sprintf("part C ran %d of %d cases", got, total))
	}
	// coverage self-check (non-vacuity): every (old depth, new depth) in 1..3 x 1..3 was seen switching, both
	// mechanisms, both modes, every placement class, transactions put back and transactions removed
	if r.Exhaustive {
		var missing []string
		sum := func(prefix string) int64 {
			var n int64
			for k, v := range r.Counters {
				if strings.HasPrefix(k, prefix) {
					n += v
				}
			}
			return n
		}
		for o := 1; o <= 3; o++ {
			for n := 1; n <= 3; n++ {
				if sum(fmt.Sprintf("fs_switch/obs/old=%d,new=%d/", o, n)) == 0 {
					missing = append(missing, fmt.Sprintf("switch old=%d new=%d", o, n))
				}
			}
		}
		for _, k := range []string{"fs_switch/dep/", "fs_switch_no/2", "fs_repooled_tx_observed", "fs_repooled_tx_was_not_pending_before", "fs_newfork_tx_removed_from_pool", "fs_mined_txs",
			"fs_abandoned_tx_expired(not required)", "fs_block_on_non_current_fork_without_switch", "fs_stable_advance_without_switch",
			"fs_placement/only-old/plain", "fs_placement/only-old/box", "fs_placement/only-old/sub-tx", "fs_placement/only-new/plain", "fs_placement/only-new/box", "fs_placement/only-new/sub-tx",
			"fs_placement/both/plain", "fs_placement/both/box", "fs_placement/both/sub-tx", "fs_placement/both(box-overlap)/box", "fs_placement/both(box-overlap)/sub-tx",
			"fs_placement/neither(pool-only)/plain", "fs_placement/neither(pool-only)/box", "fs_placement/neither(pool-only)/sub-tx"} {
			if sum(k) == 0 {
				missing = append(missing, k)
			}
		}
		mech := map[string]int64{}
		for k, v := range r.Counters {
			if strings.HasPrefix(k, "fs_switch/") {
				mech[k[strings.LastIndex(k, "/")+1:]] += v
			}
		}
		if mech["longer-fork"] == 0 || mech["stable-cut"] == 0 {
			missing = append(missing, "a switch mechanism")
		}
		if len(missing) > 0 {
			r.NotExhaustive("part C coverage self-check: never observed " + strings.Join(missing, "; "))
		}
		if n := r.Counters["fs_effort_model_mismatch"]; n > 0 {
			r.Note("part C: the effort model (which schedules get the pair / triple placements) mispredicted whether the node switches on %d cases; the oracle does not use it", n)
		}
	}
	// per fingerprint: the violation with the smallest position in the enumeration
	type cand struct {
		index  float64
		fp     string
		what   string
		replay interface{}
	}
	best := map[string]cand{}
	for k, v := range r.Extra {
		if !strings.HasPrefix(k, "C/viol/") {
			continue
		}
		delete(r.Extra, k)
		m, ok := v.(map[string]interface{})
		if !ok {
			continue
		}
		c := cand{fp: fmt.Sprint(m["fingerprint"]), what: fmt.Sprint(m["what"]), replay: m["replay"]}
		c.index, _ = m["index"].(float64)
		if b, ok := best[c.fp]; !ok || c.index < b.index {
			best[c.fp] = c
		}
	}
	fps := make([]string, 0, len(best))
	for fp := range best {
		fps = append(fps, fp)
	}
	sort.Strings(fps)
	raw := r.Counters["violations_raw"]
	for _, fp := range fps {
		r.Violate(fp, best[fp].what, best[fp].replay)
	}
	r.Counters["violations_raw"] = raw
	return r
}

func lastLines(s string, n int) string {
	l := strings.Split(strings.TrimSpace(s), "\n")
	if len(l) > n {
		l = l[len(l)-n:]
	}
	return strings.Join(l, " | ")
}

func replayFsCase(c fsCase) {
	out := &fsOut{counters: map[string]int64{}, tags: map[string]bool{}}
	tr := runFsCase(c, out)
	fmt.Println("replay", c.String())
	for _, t := range tr {
		fmt.Println("  ", t)
	}
	for _, v := range out.viol {
		fmt.Printf("VIOLATION-REPLAYED %s\n%s\n", v.Fingerprint, v.What)
	}
	if fsFx != nil {
		fsFx.f.Destroy()
	}
	if len(out.viol) > 0 {
		os.Exit(1)
	}
}

// fsCount prints the size of the enumeration (development aid: VERIF_C18_COUNT=1).
func fsCount() {
	for _, th := range []bool{false, true} {
		n, ev := 0, 0
		modes := map[string]int{}
		fsEnumerate(th, func(c fsCase) {
			n++
			ev += len(c.Events)
			modes[c.Mode+"/"+c.Base]++
			names := make([]string, 0)
			for k := range c.Place {
				names = append(names, k)
			}
			sort.Strings(names)
			modes[fmt.Sprintf("%s:%v pre=%v", c.Mode, names, c.Pre)]++
		})
		fmt.Printf("thorough=%v schedules=%d cases=%d events=%d %v\n", th, len(fsSchedules(th)), n, ev, modes)
	}
}

// fsProfile times the phases of a few hundred cases (development aid: VERIF_C18_PROFILE=1).
func fsProfile() {
	var cases []fsCase
	fsEnumerate(false, func(c fsCase) {
		if len(cases) < 4000 {
			cases = append(cases, c)
		}
	})
	out := &fsOut{counters: map[string]int64{}, tags: map[string]bool{}}
	if pf := os.Getenv("VERIF_C18_PPROF"); pf != "" {
		f, _ := os.Create(pf)
		pprof.StartCPUProfile(f)
		defer pprof.StopCPUProfile()
	}
	var tNew, tEv, tClose time.Duration
	n := 0
	for i := 0; i < len(cases); i += 13 {
		c := cases[i]
		t0 := time.Now()
		w := newFsWorld(c, out)
		t1 := time.Now()
		for j, ev := range c.Events {
			res := w.apply(ev)
			w.check(j, ev, res)
		}
		t2 := time.Now()
		w.close()
		t3 := time.Now()
		tNew += t1.Sub(t0)
		tEv += t2.Sub(t1)
		tClose += t3.Sub(t2)
		n++
	}
	fmt.Printf("cases=%d new=%v events=%v close=%v per case: %v %v %v\n", n, tNew, tEv, tClose, tNew/time.Duration(n), tEv/time.Duration(n), tClose/time.Duration(n))
}

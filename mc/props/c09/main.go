// C09 — per-block account views are isolated across forks and pruned exactly when stable.
//
// Engine E2 (explicit-state BFS over event histories) on the real store.ChainDatabase. Every history
// runs on its own database (a copy of a template: genesis + one stabilised block that persisted some
// of the alphabet's accounts, closed and REOPENED, so that the views start with an empty in-memory
// trie and read-through caching really happens — without a restart every persisted account is already
// in every surviving trie and AccountTrieDB.Get never inserts anything).
//
// Events (exactly the calls Manager.Save / testchain.saveBlock / the consensus make):
//   nb P W   NewBlock: db.SetBlock of a synthetic child of block P, then db.GetActDatabase(hash) and
//            Put(account, height) for every address of write set W, in the order written in W
//            (once per account, before the block has children);
//   rd V A   Read: db.GetActDatabase(V).Get(A) (inserts the disk value into the shared trie nodes);
//   st B     Stabilise: db.SetStableBlock(B) on any unconfirmed block.
// Blocks are named by creation index (0 = the stable block the database was opened on).
//
// Not in the alphabet because the system cannot produce it: a second Put of one account into the
// same block's view (Manager.Save writes each account once) and writes into a view that already has
// children (Save runs right after SetBlock, before the block is announced).
//
// Reference model: plain maps — tree of blocks with parent pointers, per-block write map, stable
// pointer, the template's persisted map. Oracles after every history (all prefixes are histories of
// their own, so every step is checked once), on the discarded instance:
//   1. unconfirmed set: for every block ever created, IsExistByHash / GetBlockByHash /
//      GetUnConfirmByHeight (itself and every ancestor height) / IterateUnConfirms / GetBlockByHeight
//      agree with the model (live descendants of the stable block are unconfirmed, the stable path is
//      stored, everything else is gone); SetStableBlock returns exactly the model's dropped blocks;
//   2. db.GetAccount(a) equals the model's view of the stable block, for every address;
//   3. for every live view b and address a, the value reachable without mutation
//      (trie.Find, else the disk value — what Get would return) equals the nearest ancestor-or-self
//      write, else the stable value, else "account does not exist";
//   4. the same through the real Get for every (b, a) in a fixed order (these reads mutate; when only
//      this phase fails the oracle reads that preceded the failure are appended to the history as rd
//      events and the extended history is re-judged by phases 1-3, then shrunk).
package main

import (
	"encoding/json"
	"fmt"
	"math/big"
	"os"
	"path/filepath"
	"runtime"
	"sort"
	"strconv"
	"strings"
	"time"

	"verifmc/core"
	"verifmc/node"

	"github.com/LemoFoundationLtd/lemochain-core/chain/account"
	"github.com/LemoFoundationLtd/lemochain-core/chain/types"
	"github.com/LemoFoundationLtd/lemochain-core/common"
	"github.com/LemoFoundationLtd/lemochain-core/store"
)

const prop = "C09"

// ---------------------------------------------------------------------------------------------
// address alphabet: hex keys ("0x"+40 nibbles, the trie key is Address.Hex()) sharing prefixes of
// 39 nibbles (g0..g3: four children of one compressed node), 20 (m: splits that compressed node in
// the middle), 2 (s) and 0 (z) nibbles with the g group. "pers" addresses carry a persisted value
// written by the template's stable block.

type addrDef struct {
	name string
	hex  string
	pers bool
	addr common.Address
}

var p39 = strings.Repeat("5a", 19) + "5"

var addrDefs = []*addrDef{
	{name: "g0", hex: p39 + "0", pers: true},
	{name: "g1", hex: p39 + "1", pers: false},
	{name: "g2", hex: p39 + "2", pers: true},
	{name: "g3", hex: p39 + "3", pers: false},
	{name: "m", hex: p39[:20] + "c" + strings.Repeat("0", 19), pers: true},
	{name: "s", hex: "5a" + "c" + strings.Repeat("0", 37), pers: false},
	{name: "z", hex: "c" + strings.Repeat("0", 39), pers: true},
}

var addrIdx = map[string]int{}

func init() {
	for i, d := range addrDefs {
		if len(d.hex) != 40 {
			panic("bad address literal " + d.name)
		}
		d.addr = common.HexToAddress("0x" + d.hex)
		if d.addr.Hex() != "0x"+d.hex {
			panic("address literal does not round-trip " + d.name)
		}
		addrIdx[d.name] = i
	}
}

func tmplVal(a int) int64     { return 1000 + int64(a) }
func blockVal(b, a int) int64 { return int64(b)*100 + int64(a) + 1 }

// ---------------------------------------------------------------------------------------------
// scenarios: sub-alphabets, so that each one can be explored to a useful depth

type scenario struct {
	name string
	// warm: one more block writing all of `warm` is built and stabilised in-process before the
	// history starts, so those accounts live in the stable trie (no read-through for them).
	warm      []string
	reads     []string // addresses Read events may use
	menu      []string // write sets ("-" = empty; "a+b" = Put a then b)
	depth     int
	maxBlocks int
	maxReads  int
	prefix    []string
}

var scenarios = map[string]*scenario{}

func addScenario(s *scenario) {
	if len(s.warm) > 0 {
		s.prefix = []string{"nb 0 " + strings.Join(s.warm, "+"), "st 1"}
	}
	scenarios[s.name] = s
}

func setTier() {
	th := core.Thorough()
	pick := func(q, t int) int {
		if th {
			return t
		}
		return q
	}
	// iso: one persisted and one never-persisted account that differ in the last nibble
	addScenario(&scenario{name: "iso", reads: []string{"g0"}, menu: []string{"-", "g0", "g1", "g0+g1"},
		depth: pick(4, 5), maxBlocks: 5, maxReads: 2})
	// pre: every prefix length; persisted and fresh accounts
	addScenario(&scenario{name: "pre", reads: []string{"g0", "m", "z"}, menu: []string{"g0", "m", "s", "z+g1"},
		depth: pick(3, 4), maxBlocks: 4, maxReads: 2})
	// grp: a compressed node with 3-4 children (g*), split in the middle by m, read of the smaller keys
	grpReads := []string{"g0"}
	if th {
		grpReads = []string{"g0", "g2"}
	}
	addScenario(&scenario{name: "grp", reads: grpReads, menu: []string{"g1+g2+g3", "g3", "m", "-"},
		depth: 4, maxBlocks: 4, maxReads: 2})
	// warm: all accounts are in the stable trie; deep trees, pruning
	addScenario(&scenario{name: "warm", warm: []string{"g0", "g1", "m", "z"}, menu: []string{"-", "g0", "g1", "m+z"},
		depth: pick(4, 5), maxBlocks: 6, maxReads: 0})
	// tree: tiny write alphabet, deepest trees (every branching incl. equal-height siblings and cousins)
	addScenario(&scenario{name: "tree", reads: []string{"g0"}, menu: []string{"-", "g0"},
		depth: pick(5, 6), maxBlocks: 6, maxReads: 1})
	if th {
		// reverse Put order, other sets
		addScenario(&scenario{name: "grp2", reads: []string{"g0"}, menu: []string{"g3+g2+g1", "g2+g3", "m+g1", "s"},
			depth: 4, maxBlocks: 4, maxReads: 2})
		addScenario(&scenario{name: "warm2", warm: []string{"g1", "g2", "g3", "s"}, menu: []string{"g0", "m", "g1+g3", "s+z", "g0+g1+g2+g3+m+s+z"},
			depth: 4, maxBlocks: 6, maxReads: 0})
	}
}

// ---------------------------------------------------------------------------------------------
// template database and per-history instances

type tmplFile struct {
	rel  string
	dir  bool
	data []byte
}

var tmpl struct {
	built   bool
	files   []tmplFile
	genesis common.Hash
	root    *types.Block // the stable block (height 1) the instances are opened on
}

func must(err error) {
	if err != nil {
		panic(err)
	}
}

func mkBlock(parent common.Hash, height uint32, idx int) *types.Block {
	h := &types.Header{ParentHash: parent, MinerAddress: node.Deputy(0).Addr, Height: height, GasLimit: 105000000,
		Time: node.GenesisTime + 100 + uint32(idx), Extra: fmt.Sprintf("c09/%d", idx), TxRoot: (types.Transactions{}).MerkleRootSha()}
	return types.NewBlock(h, nil, nil)
}

func mkAccount(a int, bal int64, height uint32) *types.AccountData {
	return &types.AccountData{Address: addrDefs[a].addr, Balance: big.NewInt(bal),
		NewestRecords: map[types.ChangeLogType]types.VersionRecord{account.BalanceLog: {Version: uint32(bal), Height: height}},
		Signers:       make(types.Signers, 0),
		Candidate:     types.Candidate{Votes: new(big.Int), Profile: make(types.Profile)}}
}

// waitFlushed waits until the asynchronous BeansDB writer has drained (pending-write index empty).
// It is hygiene before Close (no goroutine is left blocked on a closed database), never an oracle:
// reads see pending writes through that very index, so every observation is deterministic.
func waitFlushed(db *store.ChainDatabase) bool {
	q := db.Beansdb.Queue
	deadline := time.Now().Add(5 * time.Second)
	pause := 50 * time.Microsecond
	for i := 0; ; i++ {
		q.IndexRW.RLock()
		n := len(q.Index)
		q.IndexRW.RUnlock()
		if n == 0 {
			return true
		}
		if i < 20 {
			runtime.Gosched()
			continue
		}
		if time.Now().After(deadline) {
			if d := os.Getenv("C09_DEBUG"); d != "" {
				f, _ := os.OpenFile(filepath.Join(d, fmt.Sprintf("%d.log", os.Getpid())), os.O_CREATE|os.O_APPEND|os.O_WRONLY, 0644)
				q.IndexRW.RLock()
				for k := range q.Index {
					fmt.Fprintf(f, "pending key %s\n", k)
				}
				q.IndexRW.RUnlock()
				fmt.Fprintf(f, "writechan=%d donechan=%d hist=%v\n", len(q.SyncFileDB.WriteChan), len(q.DoneChan), debugHist)
				f.Close()
			}
			return false
		}
		time.Sleep(pause)
		if pause < 2*time.Millisecond {
			pause *= 2
		}
	}
}

func buildTemplate() {
	if tmpl.built {
		return
	}
	dir := core.ScratchDir("c09tmpl")
	defer os.RemoveAll(dir)
	db := node.OpenDB(dir)
	g := node.SetupGenesis(db, 1)
	blk := mkBlock(g.Hash(), 1, 0)
	must(db.SetBlock(blk.Hash(), blk))
	acct, err := db.GetActDatabase(blk.Hash())
	must(err)
	for a, d := range addrDefs {
		if d.pers {
			acct.Put(mkAccount(a, tmplVal(a), 1), 1)
		}
	}
	_, err = db.SetStableBlock(blk.Hash())
	must(err)
	if !waitFlushed(db) {
		panic("harness: template database did not flush")
	}
	// One more write after everything is flushed makes the queue start a new tmp.data (FileQueue.emptyFile),
	// as on a node that has been running for a while; a restart then re-delivers one record instead of
	// the whole genesis. Reopen once so that leveldb's journal of the build session is compacted away.
	must(db.SetContractCode(common.HexToHash("0xc09"), types.Code{0x60, 0x00}))
	if !waitFlushed(db) {
		panic("harness: template database did not flush")
	}
	must(db.Close())
	db = node.OpenDB(dir)
	if !waitFlushed(db) {
		panic("harness: template database did not flush")
	}
	must(db.Close())
	must(filepath.Walk(dir, func(p string, info os.FileInfo, err error) error {
		if err != nil {
			return err
		}
		rel, _ := filepath.Rel(dir, p)
		if rel == "." {
			return nil
		}
		if info.IsDir() {
			tmpl.files = append(tmpl.files, tmplFile{rel: rel, dir: true})
			return nil
		}
		b, err := os.ReadFile(p)
		if err != nil {
			return err
		}
		tmpl.files = append(tmpl.files, tmplFile{rel: rel, data: b})
		return nil
	}))
	tmpl.genesis = g.Hash()
	tmpl.root = blk
	tmpl.built = true
}

type instance struct {
	dir      string
	db       *store.ChainDatabase
	panicked bool
}

// work is the per-process database directory. Re-creating ~530 directory entries per history costs
// more than the history itself, so the directory is reset in place to the template's content: the
// leveldb index is replaced, every other template file is rewritten or truncated. The bitcask layout
// is fixed (home/xx/yy/000.data, tmp.data, context.data), so no other file can appear; a full
// comparison against the template runs on the first reset and then every 200 resets.
var work struct {
	dir     string
	resets  int
	tainted bool
}

func materialise(dir string) {
	for _, f := range tmpl.files {
		p := filepath.Join(dir, f.rel)
		if f.dir {
			must(os.Mkdir(p, 0755))
		} else {
			must(os.WriteFile(p, f.data, 0644))
		}
	}
}

func underIndex(rel string) bool { return rel == "index" || strings.HasPrefix(rel, "index/") }

func resetWorkDir() {
	must(os.RemoveAll(filepath.Join(work.dir, "index")))
	for _, f := range tmpl.files {
		p := filepath.Join(work.dir, f.rel)
		switch {
		case f.dir:
			if underIndex(f.rel) {
				must(os.Mkdir(p, 0755))
			}
		case underIndex(f.rel) || len(f.data) > 0:
			must(os.WriteFile(p, f.data, 0644))
		default:
			must(os.Truncate(p, 0))
		}
	}
	if work.resets%200 == 0 {
		want := map[string]*tmplFile{}
		for i := range tmpl.files {
			want[tmpl.files[i].rel] = &tmpl.files[i]
		}
		n := 0
		must(filepath.Walk(work.dir, func(p string, info os.FileInfo, err error) error {
			if err != nil {
				return err
			}
			rel, _ := filepath.Rel(work.dir, p)
			if rel == "." {
				return nil
			}
			n++
			w := want[rel]
			if w == nil || w.dir != info.IsDir() {
				panic("harness: reset left an unexpected entry " + rel)
			}
			if !w.dir {
				b, err := os.ReadFile(p)
				if err != nil || string(b) != string(w.data) {
					panic("harness: reset left different content in " + rel)
				}
			}
			return nil
		}))
		if n != len(want) {
			panic("harness: reset lost entries")
		}
		count("reset_verified", 1)
	}
	work.resets++
}

func since(k string, t0 time.Time) time.Time {
	now := time.Now()
	stats["us_"+k] += now.Sub(t0).Microseconds()
	return now
}

func openInstance() *instance {
	buildTemplate()
	t0 := time.Now()
	if work.tainted && work.dir != "" {
		os.RemoveAll(work.dir)
		work.dir = ""
	}
	if work.dir == "" {
		work.dir = core.ScratchDir("c09w")
		work.tainted = false
		work.resets = 0
		materialise(work.dir)
	} else {
		resetWorkDir()
	}
	t0 = since("materialise_or_reset", t0)
	// a panic while opening or later leaves background writers behind: never reuse that directory
	work.tainted = true
	in := &instance{dir: work.dir, db: store.NewChainDataBase(work.dir)}
	since("open", t0)
	return in
}

// close waits for the background writer, closes the database and releases the directory for reuse.
func (in *instance) close() {
	t0 := time.Now()
	if in.db != nil {
		flushed := waitFlushed(in.db)
		if !flushed {
			count("close_without_flush", 1)
		}
		t0 = since("close_wait", t0)
		in.db.Close()
		in.db = nil
		since("close", t0)
		if flushed && !in.panicked {
			work.tainted = false
		}
	}
}

func cleanupWork() {
	if work.dir != "" {
		os.RemoveAll(work.dir)
		work.dir = ""
	}
}

// ---------------------------------------------------------------------------------------------
// reference model

const (
	stUnconf = iota
	stStable
	stDropped
)

type mblock struct {
	idx    int
	parent int
	height uint32
	order  []int
	writes map[int]int64
	hash   common.Hash
	state  int
}

type model struct {
	sc         *scenario
	blocks     []*mblock
	stable     int
	keyParts   []string
	epochReads map[string]bool
	nReads     int
	nCreated   int // blocks created by history events (prefix included)
}

func newModel(sc *scenario) *model {
	m := &model{sc: sc, epochReads: map[string]bool{}}
	m.blocks = append(m.blocks, &mblock{idx: 0, parent: -1, height: 1, writes: map[int]int64{}, hash: tmpl.root.Hash(), state: stStable})
	return m
}

func (m *model) isAncestorOrSelf(anc, b int) bool {
	for x := b; x >= 0; x = m.blocks[x].parent {
		if x == anc {
			return true
		}
	}
	return false
}

// lineageWrite: nearest ancestor-or-self of v (within this process lifetime) that wrote a.
func (m *model) lineageWrite(v, a int) (val int64, writer int, ok bool) {
	for x := v; x >= 0; x = m.blocks[x].parent {
		if w, has := m.blocks[x].writes[a]; has {
			return w, x, true
		}
	}
	return 0, -1, false
}

type value struct {
	present bool
	bal     int64
}

func (v value) String() string {
	if !v.present {
		return "absent"
	}
	return strconv.FormatInt(v.bal, 10)
}

// view is the property's definition: nearest ancestor-or-self write, else the stable (persisted) value.
func (m *model) view(v, a int) (value, string) {
	if w, writer, ok := m.lineageWrite(v, a); ok {
		switch {
		case writer == v:
			return value{true, w}, "self"
		case m.blocks[writer].state == stUnconf:
			return value{true, w}, "ancestor"
		default:
			return value{true, w}, "stable"
		}
	}
	if addrDefs[a].pers {
		return value{true, tmplVal(a)}, "disk"
	}
	return value{}, "absent"
}

func (m *model) live() []int {
	var l []int
	for _, b := range m.blocks {
		if b.idx == m.stable || b.state == stUnconf {
			l = append(l, b.idx)
		}
	}
	return l
}

func (m *model) unconf() []int {
	var l []int
	for _, b := range m.blocks {
		if b.state == stUnconf {
			l = append(l, b.idx)
		}
	}
	return l
}

func (m *model) flushReads() {
	if len(m.epochReads) == 0 {
		return
	}
	l := make([]string, 0, len(m.epochReads))
	for k := range m.epochReads {
		l = append(l, k)
	}
	sort.Strings(l)
	m.keyParts = append(m.keyParts, l...)
	m.epochReads = map[string]bool{}
}

// key: the history with the reads between two structural events sorted and de-duplicated. Reads are
// part of the state (they insert into shared trie nodes); the structural events are kept in order.
func (m *model) key() string {
	l := append([]string{}, m.keyParts...)
	r := make([]string, 0, len(m.epochReads))
	for k := range m.epochReads {
		r = append(r, k)
	}
	sort.Strings(r)
	return core.Hash(m.sc.name + "|" + strings.Join(append(l, r...), ";"))
}

func (m *model) readEnabled(v, a int) bool {
	if !addrDefs[a].pers {
		return false // Get returns ErrAccountNotExist before touching the trie, or finds a written node: no mutation
	}
	_, _, ok := m.lineageWrite(v, a)
	return !ok // a written node is found by the pure Find: no mutation
}

func (m *model) enabled() []string {
	var en []string
	live := m.live()
	if m.nCreated-len(m.sc.prefix)/2 < m.sc.maxBlocks {
		for _, p := range live {
			for _, w := range m.sc.menu {
				en = append(en, fmt.Sprintf("nb %d %s", p, w))
			}
		}
	}
	if m.nReads < m.sc.maxReads {
		for _, v := range live {
			for _, an := range m.sc.reads {
				ev := fmt.Sprintf("rd %d %s", v, an)
				if m.readEnabled(v, addrIdx[an]) && !m.epochReads[ev] {
					en = append(en, ev)
				}
			}
		}
	}
	for _, b := range m.unconf() {
		en = append(en, fmt.Sprintf("st %d", b))
	}
	return en
}

// shape: canonical form of the live tree (children sorted), each node labelled with its number of writes.
func (m *model) shape(b int) string {
	var ch []string
	for _, c := range m.blocks {
		if c.parent == b && c.state == stUnconf {
			ch = append(ch, m.shape(c.idx))
		}
	}
	sort.Strings(ch)
	return fmt.Sprintf("%d(%s)", len(m.blocks[b].writes), strings.Join(ch, ""))
}

// ---------------------------------------------------------------------------------------------
// statistics (what was executed on the implementation), written per worker process

var stats = map[string]int64{}

func count(k string, n int64) { stats[k] += n }

func flushStats() {
	d := os.Getenv("C09_STATS")
	if d == "" {
		return
	}
	b, _ := json.Marshal(stats)
	os.WriteFile(filepath.Join(d, fmt.Sprintf("%d.json", os.Getpid())), b, 0644)
}

// ---------------------------------------------------------------------------------------------
// executing events

var errInvalidHistory = fmt.Errorf("harness: history not executable")

type replayT struct {
	History []string `json:"history"`
	Pure    bool     `json:"pure"` // judged without the mutating oracle reads of phase 4
}

type runCtx struct {
	in   *instance
	m    *model
	o    *core.Outcome
	hist []string
	pure bool
}

func (c *runCtx) viol(fp, what string) {
	c.o.Violations = append(c.o.Violations, core.Violation{Fingerprint: prop + "/" + fp,
		What: fmt.Sprintf("%s [history %v]", what, c.hist), Replay: replayT{History: c.hist, Pure: c.pure}})
}

func parseW(s string) []int {
	if s == "-" {
		return nil
	}
	var l []int
	seen := map[int]bool{}
	for _, n := range strings.Split(s, "+") {
		a, ok := addrIdx[n]
		if !ok || seen[a] {
			panic(errInvalidHistory)
		}
		seen[a] = true
		l = append(l, a)
	}
	return l
}

func readAccount(acc *types.AccountData, err error, a int) (value, string) {
	if err != nil {
		if err == store.ErrAccountNotExist && acc == nil {
			return value{}, ""
		}
		return value{}, "error " + err.Error()
	}
	if acc == nil {
		return value{}, "nil account without error"
	}
	if acc.Address != addrDefs[a].addr {
		return value{true, -1}, "account of another address " + acc.Address.Hex()
	}
	if acc.Balance == nil {
		return value{true, -1}, "nil balance"
	}
	return value{true, acc.Balance.Int64()}, ""
}

// gotKind says where a wrong value comes from, relative to view v.
func (m *model) gotKind(v, a int, got value) string {
	if !got.present {
		return "absent"
	}
	if addrDefs[a].pers && got.bal == tmplVal(a) {
		return "disk"
	}
	for _, b := range m.blocks {
		if w, ok := b.writes[a]; ok && w == got.bal {
			switch {
			case b.idx == v:
				return "self"
			case m.isAncestorOrSelf(b.idx, v):
				return "shadowed-ancestor"
			case m.isAncestorOrSelf(v, b.idx):
				return "descendant"
			case b.state == stDropped:
				return "dropped-block"
			case b.parent == m.blocks[v].parent:
				return "sibling"
			default:
				return "other-fork"
			}
		}
	}
	return "foreign"
}

func (c *runCtx) checkView(api string, v, a int, got value, problem string) bool {
	want, wk := c.m.view(v, a)
	if problem != "" {
		c.viol("view/want="+wk+"/got=problem", fmt.Sprintf("%s of %s through view of block %d: %s (want %s)", api, addrDefs[a].name, v, problem, want))
		return false
	}
	if got != want {
		c.viol("view/want="+wk+"/got="+c.m.gotKind(v, a, got), fmt.Sprintf("%s of %s through the view of block %d returns %s, the model (nearest ancestor-or-self write, else stable value) says %s",
			api, addrDefs[a].name, v, got, want))
		return false
	}
	return true
}

// step executes one event on the implementation and the model.
func (c *runCtx) step(ev string, last bool) (ok bool) {
	m, db := c.m, c.in.db
	f := strings.Fields(ev)
	num := func(s string) int {
		n, err := strconv.Atoi(s)
		if err != nil || n < 0 || n >= len(m.blocks) {
			panic(errInvalidHistory)
		}
		return n
	}
	switch f[0] {
	case "nb":
		p := num(f[1])
		pb := m.blocks[p]
		if !(p == m.stable || pb.state == stUnconf) {
			panic(errInvalidHistory)
		}
		ws := parseW(f[2])
		idx := len(m.blocks)
		blk := mkBlock(pb.hash, pb.height+1, idx)
		hash := blk.Hash()
		if err := db.SetBlock(hash, blk); err != nil {
			c.viol("error/SetBlock/"+err.Error(), fmt.Sprintf("SetBlock(child of block %d) failed: %v", p, err))
			return false
		}
		acct, err := db.GetActDatabase(hash)
		if err != nil {
			c.viol("error/GetActDatabase/"+err.Error(), fmt.Sprintf("GetActDatabase(new block %d) failed: %v", idx, err))
			return false
		}
		nb := &mblock{idx: idx, parent: p, height: pb.height + 1, writes: map[int]int64{}, hash: hash, state: stUnconf, order: ws}
		for _, a := range ws {
			acct.Put(mkAccount(a, blockVal(idx, a), nb.height), nb.height)
			nb.writes[a] = blockVal(idx, a)
		}
		m.flushReads()
		m.keyParts = append(m.keyParts, ev)
		m.blocks = append(m.blocks, nb)
		m.nCreated++
		count(fmt.Sprintf("ev_nb_writes%d", len(ws)), 1)
	case "rd":
		v := num(f[1])
		a, okA := addrIdx[f[2]]
		if !okA || !(v == m.stable || m.blocks[v].state == stUnconf) || !m.readEnabled(v, a) {
			panic(errInvalidHistory)
		}
		acct, err := db.GetActDatabase(m.blocks[v].hash)
		if err != nil {
			c.viol("error/GetActDatabase/"+err.Error(), fmt.Sprintf("GetActDatabase(block %d) failed: %v", v, err))
			return false
		}
		key := addrDefs[a].addr.Hex()
		before := acct.GetTrie().Find(key)
		acc, gerr := acct.Get(addrDefs[a].addr)
		got, problem := readAccount(acc, gerr, a)
		after := acct.GetTrie().Find(key)
		if before == nil && after != nil {
			count("ev_rd_inserted_into_trie", 1)
			if last {
				c.o.Tags = append(c.o.Tags, "rd:insert")
			}
		} else {
			count("ev_rd_already_cached", 1)
			if last {
				c.o.Tags = append(c.o.Tags, "rd:cached")
			}
		}
		m.epochReads[ev] = true
		m.nReads++
		if !c.checkView("Get", v, a, got, problem) {
			return false
		}
	case "st":
		b := num(f[1])
		if m.blocks[b].state != stUnconf {
			panic(errInvalidHistory)
		}
		dropped, err := db.SetStableBlock(m.blocks[b].hash)
		if err != nil {
			c.viol("error/SetStableBlock/"+err.Error(), fmt.Sprintf("SetStableBlock(block %d) failed: %v", b, err))
			return false
		}
		path, persisted := 0, 0
		for x := b; x != m.stable; x = m.blocks[x].parent {
			m.blocks[x].state = stStable
			persisted += len(m.blocks[x].writes)
			path++
		}
		if persisted > 0 {
			count("ev_st_persisting_writes", 1)
		}
		m.stable = b
		wantDropped := map[common.Hash]int{}
		keep := 0
		for _, x := range m.blocks {
			if x.state != stUnconf {
				continue
			}
			if m.isAncestorOrSelf(b, x.idx) {
				keep++
			} else {
				x.state = stDropped
				wantDropped[x.hash] = x.idx
			}
		}
		m.flushReads()
		m.keyParts = append(m.keyParts, ev)
		count(fmt.Sprintf("ev_st_path%d", path), 1)
		if len(wantDropped) > 0 {
			count("ev_st_pruning", 1)
		}
		if keep > 0 {
			count("ev_st_with_surviving_descendants", 1)
		}
		if last {
			c.o.Tags = append(c.o.Tags, fmt.Sprintf("st:path=%d,drop=%d,keep=%d", path, len(wantDropped), keep))
		}
		gotDropped := map[common.Hash]bool{}
		for _, d := range dropped {
			if gotDropped[d.Hash()] {
				c.viol("dropped-list/duplicate", fmt.Sprintf("SetStableBlock(block %d) returned a dropped block twice", b))
				return false
			}
			gotDropped[d.Hash()] = true
		}
		for h, idx := range wantDropped {
			if !gotDropped[h] {
				c.viol("dropped-list/missing", fmt.Sprintf("SetStableBlock(block %d) did not return pruned block %d", b, idx))
				return false
			}
		}
		if len(gotDropped) != len(wantDropped) {
			c.viol("dropped-list/extra", fmt.Sprintf("SetStableBlock(block %d) returned %d dropped blocks, the model prunes %d", b, len(gotDropped), len(wantDropped)))
			return false
		}
	default:
		panic(errInvalidHistory)
	}
	return true
}

// ---------------------------------------------------------------------------------------------
// oracles

func (c *runCtx) checkStructure() {
	m, db := c.m, c.in.db
	latest, err := db.LoadLatestBlock()
	if err != nil || latest.Hash() != m.blocks[m.stable].hash {
		c.viol("prune/LoadLatestBlock", fmt.Sprintf("the stable block is not block %d (err %v)", m.stable, err))
	}
	seen := map[common.Hash]int{}
	db.IterateUnConfirms(func(b *types.Block) { seen[b.Hash()]++ })
	nUnconf := 0
	for _, b := range m.blocks {
		name := []string{"unconfirmed", "stable", "dropped"}[b.state]
		ex, err := db.IsExistByHash(b.hash)
		if err != nil || ex != (b.state != stDropped) {
			c.viol("prune/IsExistByHash/"+name, fmt.Sprintf("IsExistByHash(block %d, %s in the model) = %v, %v", b.idx, name, ex, err))
		}
		blk, err := db.GetBlockByHash(b.hash)
		if b.state == stDropped {
			if err != store.ErrBlockNotExist {
				c.viol("prune/GetBlockByHash/"+name, fmt.Sprintf("GetBlockByHash(dropped block %d) = %v, %v", b.idx, blk != nil, err))
			}
		} else if err != nil || blk == nil || blk.Hash() != b.hash {
			c.viol("prune/GetBlockByHash/"+name, fmt.Sprintf("GetBlockByHash(%s block %d) failed: %v", name, b.idx, err))
		}
		ub, err := db.GetUnConfirmByHeight(b.height, b.hash)
		if b.state == stUnconf {
			nUnconf++
			if err != nil || ub == nil || ub.Hash() != b.hash {
				c.viol("prune/GetUnConfirmByHeight/"+name, fmt.Sprintf("GetUnConfirmByHeight(own height, unconfirmed block %d) failed: %v", b.idx, err))
			}
			for x := b.parent; x >= 0; x = m.blocks[x].parent {
				anc := m.blocks[x]
				ab, err := db.GetUnConfirmByHeight(anc.height, b.hash)
				if anc.state == stUnconf {
					if err != nil || ab == nil || ab.Hash() != anc.hash {
						c.viol("prune/GetUnConfirmByHeight/ancestor", fmt.Sprintf("GetUnConfirmByHeight(%d, leaf block %d) does not return ancestor block %d: %v", anc.height, b.idx, anc.idx, err))
					}
				} else {
					if err != store.ErrBlockNotExist {
						c.viol("prune/GetUnConfirmByHeight/confirmed-height", fmt.Sprintf("GetUnConfirmByHeight(%d, leaf block %d) at a confirmed height = %v, %v", anc.height, b.idx, ab != nil, err))
					}
					break
				}
			}
			if seen[b.hash] != 1 {
				c.viol("prune/IterateUnConfirms/unconfirmed", fmt.Sprintf("IterateUnConfirms visits unconfirmed block %d %d times", b.idx, seen[b.hash]))
			}
		} else {
			if err != store.ErrBlockNotExist {
				c.viol("prune/GetUnConfirmByHeight/"+name, fmt.Sprintf("GetUnConfirmByHeight(%s block %d) = %v, %v", name, b.idx, ub != nil, err))
			}
			if seen[b.hash] != 0 {
				c.viol("prune/IterateUnConfirms/"+name, fmt.Sprintf("IterateUnConfirms still visits %s block %d", name, b.idx))
			}
		}
		if b.state == stStable {
			hb, err := db.GetBlockByHeight(b.height)
			if err != nil || hb == nil || hb.Hash() != b.hash {
				c.viol("prune/GetBlockByHeight/stable", fmt.Sprintf("GetBlockByHeight(%d) does not return stable block %d: %v", b.height, b.idx, err))
			}
		}
	}
	if len(seen) != nUnconf {
		c.viol("prune/IterateUnConfirms/extra", fmt.Sprintf("IterateUnConfirms visits %d blocks, the model has %d unconfirmed", len(seen), nUnconf))
	}
}

func (c *runCtx) checkPersisted() {
	for a := range addrDefs {
		acc, err := c.in.db.GetAccount(addrDefs[a].addr)
		got, problem := readAccount(acc, err, a)
		want, wk := c.m.view(c.m.stable, a)
		if problem != "" || got != want {
			c.viol("persisted/want="+wk+"/got="+c.m.gotKind(c.m.stable, a, got), fmt.Sprintf("db.GetAccount(%s) = %s %s, the view of the stable block %d says %s",
				addrDefs[a].name, got, problem, c.m.stable, want))
		}
	}
}

// checkViewsPure computes what Get would return without mutating anything: the trie node if Find
// has one, else the disk value.
func (c *runCtx) checkViewsPure() bool {
	ok := true
	kinds := map[string]bool{}
	for _, v := range c.m.live() {
		acct, err := c.in.db.GetActDatabase(c.m.blocks[v].hash)
		if err != nil {
			c.viol("error/GetActDatabase/"+err.Error(), fmt.Sprintf("GetActDatabase(block %d) failed: %v", v, err))
			return false
		}
		for a := range addrDefs {
			var got value
			var problem string
			if nd := acct.GetTrie().Find(addrDefs[a].addr.Hex()); nd != nil {
				acc, isAcc := nd.(*types.AccountData)
				if !isAcc {
					problem = fmt.Sprintf("trie node of type %T", nd)
				} else {
					got, problem = readAccount(acc, nil, a)
				}
				count("oracle_find_hit", 1)
			} else {
				acc, err := c.in.db.GetAccount(addrDefs[a].addr)
				got, problem = readAccount(acc, err, a)
				count("oracle_find_miss", 1)
			}
			_, wk := c.m.view(v, a)
			kinds[wk] = true
			count("oracle_view_"+wk, 1)
			if !c.checkView("Find-else-disk", v, a, got, problem) {
				ok = false
			}
		}
	}
	l := make([]string, 0)
	for k := range kinds {
		l = append(l, k)
	}
	sort.Strings(l)
	c.o.Tags = append(c.o.Tags, "src:"+strings.Join(l, ","), "shape:"+c.m.shape(c.m.stable))
	return ok
}

// checkViewsGet reads every (view, address) through the real Get. It returns the mutating oracle
// reads performed before the first mismatch (nil if everything matched).
func (c *runCtx) checkViewsGet() (failed bool, prior []string) {
	for _, v := range c.m.live() {
		acct, err := c.in.db.GetActDatabase(c.m.blocks[v].hash)
		if err != nil {
			return true, prior
		}
		for a := range addrDefs {
			acc, gerr := acct.Get(addrDefs[a].addr)
			got, problem := readAccount(acc, gerr, a)
			want, _ := c.m.view(v, a)
			if problem != "" || got != want {
				return true, prior
			}
			if c.m.readEnabled(v, a) {
				prior = append(prior, fmt.Sprintf("rd %d %s", v, addrDefs[a].name))
			}
			count("oracle_get", 1)
		}
	}
	return false, nil
}

var debugHist []string

// evaluate judges one history. When only the mutating read-everything pass fails, the history is
// extended by the oracle reads that preceded the failure and judged again (on a fresh instance,
// after this one is closed) without that pass.
func evaluate(hist []string, pure bool) core.Outcome {
	o, ext := evaluateOnce(hist, pure)
	if ext == nil {
		return o
	}
	o2, _ := evaluateOnce(ext, true)
	if len(o2.Violations) > 0 {
		o.Violations = o2.Violations
	} else {
		o.Violations = append(o.Violations, core.Violation{Fingerprint: prop + "/view-after-oracle-reads",
			What:   fmt.Sprintf("a Get in the oracle's read-everything pass returned a wrong value, and the failure does not reproduce with the preceding oracle reads as events: %v [history %v]", ext[len(hist):], hist),
			Replay: replayT{History: hist, Pure: false}})
	}
	o.Key = ""
	return o
}

func evaluateOnce(hist []string, pure bool) (o core.Outcome, ext []string) {
	debugHist = hist
	if len(hist) == 0 {
		en := make([]string, 0)
		for k := range scenarios {
			en = append(en, k)
		}
		sort.Strings(en)
		return core.Outcome{Key: "root", Enabled: en}, nil
	}
	sc := scenarios[hist[0]]
	if sc == nil {
		return core.Outcome{}, nil
	}
	evs := hist[1:]
	in := openInstance()
	defer in.close()
	defer func() {
		if p := recover(); p != nil {
			if p == errInvalidHistory {
				o, ext = core.Outcome{}, nil
				return
			}
			in.panicked = true
			panic(p)
		}
	}()
	c := &runCtx{in: in, m: newModel(sc), o: &o, hist: hist, pure: pure}
	count("histories_executed", 1)
	count(fmt.Sprintf("hist_%s_len%d", sc.name, len(evs)), 1)
	t0 := time.Now()
	defer func() { since("replay_and_oracle", t0) }()
	for _, ev := range sc.prefix {
		if !c.step(ev, false) {
			return o, nil
		}
	}
	for i, ev := range evs {
		if !c.step(ev, i == len(evs)-1) {
			return o, nil
		}
	}
	c.checkStructure()
	c.checkPersisted()
	c.checkViewsPure()
	if len(o.Violations) > 0 {
		return o, nil
	}
	if !pure {
		if failed, prior := c.checkViewsGet(); failed {
			// judge the same state with the oracle's own reads made explicit
			return o, append(append([]string{}, hist...), prior...)
		}
	}
	o.Key = c.m.key()
	if len(evs) < sc.depth {
		o.Enabled = c.m.enabled()
	}
	return o, nil
}

// ---------------------------------------------------------------------------------------------
// shrinking and fingerprints

func class(fp string) string {
	if i := strings.Index(fp, "/min="); i >= 0 {
		fp = fp[:i]
	}
	if i := strings.Index(fp, "/want="); i >= 0 {
		fp = fp[:i]
	}
	return fp
}

func stripMin(fp string) string {
	if i := strings.Index(fp, "/min="); i >= 0 {
		return fp[:i]
	}
	return fp
}

// blocksBefore counts the blocks that exist before hist[i] runs (block 0, prefix blocks, earlier nb).
func blocksBefore(h []string, i int) int {
	n := 1
	if sc := scenarios[h[0]]; sc != nil {
		n += len(sc.prefix) / 2
	}
	for _, e := range h[1:i] {
		if strings.HasPrefix(e, "nb ") {
			n++
		}
	}
	return n
}

// removeEvent drops event i; dropping an nb re-attaches later references to the dropped block to
// its parent and renumbers the blocks created after it (replay rejects what is not executable).
func removeEvent(h []string, i int) []string {
	cand := append(append([]string{}, h[:i]...), h[i+1:]...)
	if !strings.HasPrefix(h[i], "nb ") {
		return cand
	}
	id := blocksBefore(h, i)
	parent, _ := strconv.Atoi(strings.Fields(h[i])[1])
	for j := i; j < len(cand); j++ {
		f := strings.Fields(cand[j])
		n, _ := strconv.Atoi(f[1])
		if n == id {
			n = parent
		} else if n > id {
			n--
		}
		f[1] = strconv.Itoa(n)
		cand[j] = strings.Join(f, " ")
	}
	return cand
}

func kindSeq(evs []string) string {
	l := make([]string, len(evs))
	for i, e := range evs {
		f := strings.Fields(e)
		l[i] = f[0]
		if f[0] == "nb" {
			l[i] = fmt.Sprintf("nb%d", len(parseW(f[2])))
		}
	}
	return strings.Join(l, ",")
}

func replayOf(v core.Violation, hist []string) ([]string, bool) {
	if rp, ok := v.Replay.(replayT); ok {
		return rp.History, rp.Pure
	}
	return hist, false
}

var safeFull, safePure core.RunFunc

func minimise(o core.Outcome, hist []string) core.Outcome {
	for vi, v := range o.Violations {
		h, pure := replayOf(v, hist)
		runf := safeFull
		if pure {
			runf = safePure
		}
		cl := class(v.Fingerprint)
		fails := func(c []string) bool {
			count("shrink_runs", 1)
			for _, w := range runf(c).Violations {
				if class(w.Fingerprint) == cl {
					return true
				}
			}
			return false
		}
		min := core.Shrink(h, 1, removeEvent, fails)
		// shrink the write sets too
		for changed := true; changed; {
			changed = false
			for i := 1; i < len(min); i++ {
				f := strings.Fields(min[i])
				if f[0] != "nb" || f[2] == "-" {
					continue
				}
				ws := strings.Split(f[2], "+")
				for k := range ws {
					rest := append(append([]string{}, ws[:k]...), ws[k+1:]...)
					w := strings.Join(rest, "+")
					if w == "" {
						w = "-"
					}
					cand := append([]string{}, min...)
					cand[i] = f[0] + " " + f[1] + " " + w
					if fails(cand) {
						min = cand
						changed = true
						break
					}
				}
			}
		}
		for _, w := range runf(min).Violations {
			if class(w.Fingerprint) == cl {
				v = w
				break
			}
		}
		o.Violations[vi].Fingerprint = stripMin(v.Fingerprint) + "/min=" + kindSeq(min[1:])
		o.Violations[vi].What = v.What
		o.Violations[vi].Replay = map[string]interface{}{"history": min, "pure": pure, "found_as": hist}
	}
	return o
}

// ---------------------------------------------------------------------------------------------

func main() {
	core.ParseFlags()
	node.Quiet()
	setTier()
	safeFull = core.SafeRun(prop, func(h []string) core.Outcome { return evaluate(h, false) })
	safePure = core.SafeRun(prop, func(h []string) core.Outcome { return evaluate(h, true) })

	if core.Opt.Replay != "" {
		var rp replayT
		must(core.LoadReplay(core.Opt.Replay, &rp))
		runf := safeFull
		if rp.Pure {
			runf = safePure
		}
		o := runf(rp.History)
		cleanupWork()
		fmt.Printf("replay %v (pure=%v)\n", rp.History, rp.Pure)
		for _, v := range o.Violations {
			fmt.Printf("VIOLATION-REPLAYED %s\n%s\n", v.Fingerprint, v.What)
		}
		if len(o.Violations) > 0 {
			os.Exit(1)
		}
		fmt.Println("no violation")
		return
	}
	core.ServeIfWorker(func(h []string) core.Outcome {
		o := safeFull(h)
		if len(o.Violations) > 0 {
			o = minimise(o, h)
			o.Key = ""
		}
		flushStats()
		return o
	})

	statsDir := core.ScratchDir("c09stats")
	os.Setenv("C09_STATS", statsDir)
	r := core.NewResult(prop, "model_checking")
	r.Rule = "BFS over event histories (NewBlock(parent, write set) = SetBlock + Put per account, Read(view, address) through AccountTrieDB.Get, Stabilise(block) = SetStableBlock) on a real reopened store.ChainDatabase, one database per history, against a map-based reference model; several sub-alphabets (scenarios) over 7 addresses whose hex keys share 39/20/2/0 nibbles; a state is the history with the reads between two structural events sorted and de-duplicated (reads populate shared trie nodes, so they are part of the state); a distinct outcome is a distinct live-tree shape with write counts, set of value sources seen, or kind of stabilisation (path length, pruned, surviving)"
	r.Assume = []string{
		"each account is Put at most once per block and only before the block has children (Manager.Save)",
		"reads that cannot mutate a trie (address with no disk value, or a value written in the view's own lineage, which the pure Find returns) are not events; the oracle still reads every (view, address) pair after every history",
		"reads between the same two structural events are treated as commuting (sorted in the state key)",
		"databases are opened on a persisted stable block (restart), additionally with an in-process stabilised block in the warm scenarios",
	}
	sc := map[string]interface{}{}
	maxDepth := 0
	for n, s := range scenarios {
		sc[n] = map[string]interface{}{"reads": s.reads, "write_sets": s.menu, "depth": s.depth, "max_blocks": s.maxBlocks, "max_reads": s.maxReads, "warm": s.warm}
		if s.depth > maxDepth {
			maxDepth = s.depth
		}
	}
	r.Extra["scenarios"] = sc
	core.BFS(r, core.BFSConfig{Prop: prop, Run: safeFull, MaxDepth: maxDepth + 1, Subprocess: true, RecycleEvery: 3000, PerRunLimit: 120 * time.Second,
		// a worker killed by a panic in one of the database's own goroutines (or by log.Crit) is a finding, a hang is reported as not exhaustive
		DiedFingerprint: func(hist []string, tail string) *core.Violation {
			for _, l := range strings.Split(tail, "\n") {
				if strings.HasPrefix(l, "panic:") || strings.HasPrefix(l, "fatal error:") {
					if len(l) > 100 {
						l = l[:100]
					}
					return &core.Violation{Fingerprint: prop + "/worker-died/" + l, What: fmt.Sprintf("the process died while executing %v: %s", hist, l),
						Replay: replayT{History: hist}}
				}
			}
			return nil
		}})
	total := map[string]int64{}
	if ents, err := os.ReadDir(statsDir); err == nil {
		for _, e := range ents {
			b, err := os.ReadFile(filepath.Join(statsDir, e.Name()))
			if err != nil {
				continue
			}
			one := map[string]int64{}
			if json.Unmarshal(b, &one) == nil {
				for k, v := range one {
					total[k] += v
				}
			}
		}
	}
	os.RemoveAll(statsDir)
	r.Extra["executed_on_implementation"] = total
	core.Finish(r)
}

// C04 — replay protection: a signed transaction takes effect at most once per chain branch, and
// only inside its expiration window.
//
// Engine E2 (BFS over event histories) on real nodes. Blocks are built by the block factory (the
// real assembler, no replay checks) from a menu of transaction lists that place one signed payload
// T on its own, twice in a block, inside a box, re-encoded (same signed payload, other signature
// bytes), on parent/child, and on sibling forks, at timestamps around the expiration window and the
// replay-cache pruning horizon; the node under test validates them (InsertBlock), restarts, or —
// in the miner scenario — mines itself from its own pool after fork bookkeeping.
//
// Oracle, on every block the node has accepted (stable chain + unconfirmed tree), per branch:
// every signed payload (signing hash + signer, i.e. what the user signed) is executed at most once,
// including box sub-transactions; every executed transaction satisfies
// block.time <= expiration <= block.time+1800. Positive clause: an honest block whose payloads
// appear only on another fork must be accepted.
package main

import (
	"encoding/json"
	"fmt"
	"os"
	"sort"
	"strings"

	"verifmc/core"
	"verifmc/node"
	"verifmc/vclock"
	"verifmc/vtask"

	"github.com/LemoFoundationLtd/lemochain-core/chain/params"
	"github.com/LemoFoundationLtd/lemochain-core/chain/types"
	"github.com/LemoFoundationLtd/lemochain-core/common"
)

const prop = "C04"

const life = 1800 // params.MaxTxLifeTime

var t0 = node.GenesisTime + 100000 // base instant; T expires at t0+life

// instants of the linear scenario (seconds relative to t0)
var instants = []int{-1, 0, 1741, 1799, 1800, 1801, 1861} // -1: one second more than the maximum lifetime before T expires

type txset struct {
	T, T2, U, B, Bt *types.Transaction // T2 = T re-encoded; B = box(T,U); Bt = box(U) (no T)
	T3              *types.Transaction // T with a second signature, by an outsider, appended to its list
	B2              *types.Transaction // box(T) whose own expiration is t0+100
	V               *types.Transaction // a payload expiring early (t0+10)
	M, M2, M3       *types.Transaction // one payload of the multi-signature account ms (U0:50 + U1:50): signed [U0,U1], [U1,U0], [U0,U1,outsider]
	BB              *types.Transaction // a box that carries T twice
}

func mkTxs() txset {
	var s txset
	exp := uint64(t0 + life)
	s.T = node.Transfer(node.User(0), node.User(1).Addr, node.Lemo(1), exp)
	// the same signed payload with the other encoding of its signature
	s.T2 = reencode(s.T)
	// the same signed payload carrying one more signature that anybody can add (another tx hash)
	s.T3 = appendSig(s.T, node.K("outsider"))
	s.U = node.Transfer(node.User(2), node.User(1).Addr, node.Lemo(2), exp)
	s.B = node.Box(node.User(3), exp, s.T, s.U)
	s.V = node.Transfer(node.User(0), node.User(1).Addr, node.Lemo(3), uint64(t0+10))
	// a box that itself expires early (t0+100) around the long-lived T: at the instant -1 the box is
	// inside its own window while its sub-transaction is one second too early
	s.B2 = node.Box(node.User(3), uint64(t0+100), s.T)
	// one signed payload of a multi-signature account under three signature lists (three tx hashes)
	um := node.Unsigned(node.TxSpec{Type: params.OrdinaryTx, From: msKey(), To: &node.User(1).Addr, Amount: node.Lemo(4), Exp: exp})
	s.M = node.SignWith(node.SignWith(um, node.User(0).Priv), node.User(1).Priv)
	s.M2 = node.SignWith(node.SignWith(um, node.User(1).Priv), node.User(0).Priv)
	s.M3 = node.SignWith(s.M, node.K("outsider").Priv)
	s.BB = node.Box(node.User(3), exp, s.T, s.T)
	return s
}

func msKey() *node.Key { return node.K("c04-multisig") }

func reencode(tx *types.Transaction) *types.Transaction {
	un := types.NewTransaction(tx.From(), *tx.To(), tx.Amount(), tx.GasLimit(), tx.GasPrice(), tx.Data(), tx.Type(), tx.ChainID(), tx.Expiration(), tx.ToName(), tx.Message())
	return withSig(un, node.ReencodeSig(tx.Sigs()[0]))
}

// appendSig returns tx with one more signature, made by k over the same signing hash, behind the
// sender's own.
func appendSig(tx *types.Transaction, k *node.Key) *types.Transaction {
	extra := node.SignWith(types.NewTransaction(tx.From(), *tx.To(), tx.Amount(), tx.GasLimit(), tx.GasPrice(), tx.Data(), tx.Type(), tx.ChainID(), tx.Expiration(), tx.ToName(), tx.Message()), k.Priv).Sigs()[0]
	b, err := tx.MarshalJSON()
	if err != nil {
		panic(err)
	}
	own := fmt.Sprintf(`"sigs":["0x%x"]`, tx.Sigs()[0])
	s := strings.Replace(string(b), own, fmt.Sprintf(`"sigs":["0x%x","0x%x"]`, tx.Sigs()[0], extra), 1)
	if s == string(b) {
		panic("harness: cannot append signature: " + string(b))
	}
	var out types.Transaction
	if err := out.UnmarshalJSON([]byte(s)); err != nil {
		panic(err)
	}
	return &out
}

// withSig attaches raw signature bytes through the JSON form (the only public way to set them).
func withSig(un *types.Transaction, sig []byte) *types.Transaction {
	b, err := un.MarshalJSON()
	if err != nil {
		panic(err)
	}
	s := strings.Replace(string(b), `"sigs":[]`, fmt.Sprintf(`"sigs":["0x%x"]`, sig), 1)
	if s == string(b) {
		panic("harness: cannot inject signature: " + string(b))
	}
	var out types.Transaction
	if err := out.UnmarshalJSON([]byte(s)); err != nil {
		panic(err)
	}
	return &out
}

func (s txset) list(name string) types.Transactions {
	switch name {
	case "-":
		return nil
	case "T":
		return types.Transactions{s.T}
	case "T2":
		return types.Transactions{s.T2}
	case "T3":
		return types.Transactions{s.T3}
	case "U":
		return types.Transactions{s.U}
	case "B":
		return types.Transactions{s.B}
	case "B2":
		return types.Transactions{s.B2}
	case "TT":
		return types.Transactions{s.T, s.T}
	case "TB":
		return types.Transactions{s.T, s.B}
	case "TT2":
		return types.Transactions{s.T, s.T2}
	case "V":
		return types.Transactions{s.V}
	case "M":
		return types.Transactions{s.M}
	case "M2":
		return types.Transactions{s.M2}
	case "M3":
		return types.Transactions{s.M3}
	case "BB":
		return types.Transactions{s.BB}
	}
	panic("bad list " + name)
}

var txs txset

// payloadID identifies what the user signed: the signing hash, which covers the sender, the
// content and the expiration. Neither the encoding of a signature nor additional signatures that
// anybody can append to the list make it another payment of the sender's.
func payloadID(tx *types.Transaction) string {
	var signer types.Signer = types.MakeSigner()
	if len(tx.GasPayerSigs()) > 0 {
		signer = types.MakeReimbursementTxSigner()
	}
	return signer.Hash(tx).Hex()[:18]
}

func executed(b *types.Block) []*types.Transaction {
	var out []*types.Transaction
	for _, tx := range b.Txs {
		out = append(out, tx)
		if tx.Type() == params.BoxTx {
			if box, err := types.GetBox(tx.Data()); err == nil {
				out = append(out, box.SubTxList...)
			}
		}
	}
	return out
}

// checkLedger evaluates the replay and window invariants over every branch of the node's chain.
var scenTag string

func checkLedger(n *node.Node, viol func(fp, what string)) (branches int, executedCount int) {
	blocks := map[common.Hash]*types.Block{}
	stable := n.BC.StableBlock()
	for h := uint32(0); h <= stable.Height(); h++ {
		if b, err := n.DB.GetBlockByHeight(h); err == nil {
			blocks[b.Hash()] = b
		}
	}
	n.DB.IterateUnConfirms(func(b *types.Block) { blocks[b.Hash()] = b })
	hasChild := map[common.Hash]bool{}
	for _, b := range blocks {
		hasChild[b.ParentHash()] = true
	}
	leaves := make([]*types.Block, 0)
	for h, b := range blocks {
		if !hasChild[h] {
			leaves = append(leaves, b)
		}
	}
	sort.Slice(leaves, func(i, j int) bool { return leaves[i].Hash().Hex() < leaves[j].Hash().Hex() })
	for _, leaf := range leaves {
		branches++
		count := map[string][]uint32{}
		for b := leaf; b != nil && b.Height() > 0; b = blocks[b.ParentHash()] {
			for _, tx := range executed(b) {
				executedCount++
				id := payloadID(tx)
				count[id] = append(count[id], b.Height())
				if uint64(b.Time()) > tx.Expiration() {
					viol("executed-after-expiration", fmt.Sprintf("tx %s (exp %d) executed in block h=%d time=%d", id, tx.Expiration(), b.Height(), b.Time()))
				} else if tx.Expiration()-uint64(b.Time()) > life {
					viol("executed-too-early", fmt.Sprintf("tx %s (exp %d) executed in block h=%d time=%d, more than %d s before its expiration", id, tx.Expiration(), b.Height(), b.Time(), life))
				}
			}
		}
		for id, hs := range count {
			if len(hs) > 1 {
				sort.Slice(hs, func(i, j int) bool { return hs[i] < hs[j] })
				same := hs[0] == hs[len(hs)-1]
				where := "across-blocks"
				if same {
					where = "within-one-block"
				}
				viol("payload-executed-twice/"+scenTag+"/"+where+"/"+placement(blocks, leaf, id), fmt.Sprintf("signed payload %s executed %d times on one branch (heights %v)", id, len(hs), hs))
			}
		}
	}
	return
}

// placement describes how the duplicated payload was carried (bare / boxed / re-encoded).
func placement(blocks map[common.Hash]*types.Block, leaf *types.Block, id string) string {
	kinds := map[string]bool{}
	hashes := map[common.Hash]bool{}
	sigCounts := map[int]bool{}
	sigSets := map[string]bool{} // the signature lists seen, as sorted sets
	note := func(tx *types.Transaction) {
		l := make([]string, 0)
		for _, sg := range tx.Sigs() {
			l = append(l, fmt.Sprintf("%x", sg))
		}
		sort.Strings(l)
		sigSets[strings.Join(l, ",")] = true
	}
	for b := leaf; b != nil && b.Height() > 0; b = blocks[b.ParentHash()] {
		for _, tx := range b.Txs {
			if payloadID(tx) == id {
				kinds["bare"] = true
				hashes[tx.Hash()] = true
				sigCounts[len(tx.Sigs())] = true
				note(tx)
			}
			if tx.Type() == params.BoxTx {
				if box, err := types.GetBox(tx.Data()); err == nil {
					for _, s := range box.SubTxList {
						if payloadID(s) == id {
							kinds["boxed"] = true
							hashes[s.Hash()] = true
							sigCounts[len(s.Sigs())] = true
							note(s)
						}
					}
				}
			}
		}
	}
	if len(hashes) > 1 {
		if sigCounts[1] && len(sigCounts) > 1 {
			kinds["different-tx-hash(signature appended)"] = true
		} else if len(sigCounts) > 1 {
			kinds["different-tx-hash(signature appended to a multi-signature list)"] = true
		} else if len(sigSets) == 1 {
			kinds["different-tx-hash(signature list permuted)"] = true
		} else {
			kinds["different-tx-hash(re-encoded signature)"] = true
		}
	} else {
		kinds["same-tx-hash"] = true
	}
	l := make([]string, 0)
	for k := range kinds {
		l = append(l, k)
	}
	sort.Strings(l)
	return strings.Join(l, "+")
}

// ---------------------------------------------------------------------------------------------

type world struct {
	scen  string
	n     int
	f     *node.Factory
	o     *node.Node
	named map[string]*types.Block // blocks by history name (b1, b2, … in creation order) and "g"
	seq   int
}

func (w *world) close() {
	w.o.Destroy()
	w.f.Destroy()
}

func newWorld(scen string) *world {
	w := &world{scen: scen, named: map[string]*types.Block{}}
	switch scen {
	case "lin", "rst", "ms":
		w.n = 1
	default:
		w.n = 3
	}
	vtask.Reset()
	vtask.SetPolicy(vtask.Drop)
	vclock.SetUnix(int64(t0) + 10*life) // the node's clock: later than every block in the alphabet
	w.f = node.NewFactory(core.ScratchDir("c04f"), w.n)
	self := node.K("observer")
	if scen == "miner" || scen == "msm" {
		self = node.Deputy(0)
	}
	w.o = node.NewNode(core.ScratchDir("c04o"), w.n, self)
	w.named["g"] = w.f.BC.Genesis()
	fund(w)
	return w
}

// fund gives the user accounts LEMO in a first block (by deputy 0, at t0-1000) known to both nodes.
func fund(w *world) {
	exp := uint64(t0)
	var l types.Transactions
	for i := 0; i < 4; i++ {
		l = append(l, node.Transfer(node.Founder(), node.User(i).Addr, node.Lemo(1000), exp+uint64(i)))
	}
	// the multi-signature account: funded, then its signers set (U0:50 + U1:50) by its own key
	ms := msKey()
	l = append(l, node.Transfer(node.Founder(), ms.Addr, node.Lemo(1000), exp+10))
	sg, _ := json.Marshal(map[string]interface{}{"signers": []map[string]interface{}{{"address": node.User(0).Addr, "weight": 50}, {"address": node.User(1).Addr, "weight": 50}}})
	l = append(l, node.Tx(node.TxSpec{Type: params.ModifySignersTx, From: ms, To: &ms.Addr, Data: sg, Exp: exp + 11}))
	g := w.named["g"]
	tm, _ := node.SlotTime(w.f.DM, g, node.Deputy(0), w.n)
	base := uint32(t0 - 1000)
	// keep deputy 0's slot: the slot pattern repeats every n*10 s
	tm = base - (base-tm)%uint32(w.n*10)
	b, inv, err := w.f.Make(node.BlockSpec{Parent: g, Miner: node.Deputy(0), Time: tm, Txs: l, Extra: "fund"})
	if err != nil || len(inv) > 0 {
		panic(fmt.Sprintf("harness: funding block: %v invalid=%d", err, len(inv)))
	}
	w.o.Use()
	if err := w.o.BC.InsertBlock(node.Wire(b)); err != nil {
		panic("harness: funding block rejected: " + err.Error())
	}
	w.named["f"] = b
}

// minerFor picks the deputy that is in turn on parent at (or right after) time t and returns the
// exact slot start >= t for it.
func (w *world) slot(parent *types.Block, rank int, notBefore uint32) uint32 {
	tm, ok := node.SlotTime(w.f.DM, parent, node.Deputy(rank), w.n)
	if !ok {
		panic("harness: no slot")
	}
	round := uint32(w.n * 10)
	for tm < notBefore {
		tm += round
	}
	return tm
}

// apply executes one event; it returns a result string that is part of the trace.
func (w *world) apply(ev string) string {
	f := strings.Fields(ev)
	switch f[0] {
	case "blk": // blk <list> <instantIdx|+slot> on <parent> by <rank>
		parent := w.named[f[4]]
		var rank int
		fmt.Sscanf(f[6], "%d", &rank)
		var tm uint32
		if strings.HasPrefix(f[2], "i") {
			var idx int
			fmt.Sscanf(f[2][1:], "%d", &idx)
			tm = uint32(int(t0) + instants[idx])
			if w.n > 1 {
				tm = w.slot(parent, rank, tm)
			}
		} else {
			nb := parent.Time()
			if nb < t0 {
				nb = t0 // every payload of the menu is inside its window from t0 on
			}
			tm = w.slot(parent, rank, nb)
		}
		b, _, err := w.f.Make(node.BlockSpec{Parent: parent, Miner: node.Deputy(rank), Time: tm, Txs: txs.list(f[1]), Extra: ev})
		if err != nil {
			return "factory-error:" + err.Error()
		}
		if len(b.Txs) != len(txs.list(f[1])) {
			return "factory-discarded-tx" // the assembler itself refused a tx: the block under test was not produced
		}
		w.seq++
		w.named[fmt.Sprintf("b%d", w.seq)] = b
		w.o.Use()
		if w.o.BC.HasBlock(b.Hash()) {
			return "already-known" // the same block was built and delivered before
		}
		if err := w.o.BC.InsertBlock(node.Wire(b)); err != nil {
			return "rejected"
		}
		return "accepted"
	case "stab": // stab <name>: the confirm of another deputy arrives: the block (and its unstable ancestors) becomes stable, other forks are pruned
		b := w.named[f[1]]
		w.o.Use()
		before := w.o.BC.StableBlock().Height()
		w.o.BC.InsertConfirms(b.Height(), b.Hash(), []types.SignData{node.SignConfirm(node.Deputy((w.rankOf(b)+1)%w.n), b.Hash())})
		if w.o.BC.StableBlock().Height() > before {
			return "stable"
		}
		return "no-change"
	case "restart":
		dir, self := w.o.Dir, w.o.Self
		w.o.Close()
		w.o = node.Reopen(dir, w.n, self)
		return "ok"
	case "pool": // the way received transactions enter: guard check on the current branch, then AddTx
		w.o.Use()
		tx := txs.list(f[1])[0]
		if err := tx.VerifyTxBody(node.ChainID, uint64(t0), false); err != nil {
			return "refused:" + err.Error()
		}
		if w.o.BC.TxGuard().ExistTx(w.o.BC.CurrentBlock().Hash(), tx) {
			return "guard-refused"
		}
		if err := w.o.Pool.AddTx(tx); err != nil {
			return "pool:" + err.Error()
		}
		return "pooled"
	case "mine": // the node (deputy 0) mines on its current block in its own next slot
		w.o.Use()
		cur := w.o.BC.CurrentBlock()
		notBefore := cur.Time()
		if notBefore < t0 {
			notBefore = t0
		}
		tm := w.slot(cur, 0, notBefore)
		vclock.SetUnix(int64(tm))
		before := cur.Hash()
		w.o.BC.MineBlock(node.HugeTimeout)
		vclock.SetUnix(int64(t0) + 10*life)
		nb := w.o.BC.CurrentBlock()
		if nb.Hash() == before {
			return "no-block"
		}
		// the factory learns the block so that later events can build on it
		w.seq++
		w.named[fmt.Sprintf("b%d", w.seq)] = nb
		if err := w.f.DB.SetBlock(nb.Hash(), nb); err == nil {
			w.f.Use()
			// replay it in the factory database so that its state view exists there too
			if _, _, err := w.f.Make(node.BlockSpec{Parent: w.parentOf(nb), Miner: node.Deputy(0), Time: nb.Time(), Txs: nb.Txs, Extra: nb.Extra()}); err != nil {
				return "mined(factory-replay-failed)"
			}
		}
		return fmt.Sprintf("mined(%d txs)", len(nb.Txs))
	}
	panic("bad event " + ev)
}

func (w *world) parentOf(b *types.Block) *types.Block {
	for _, c := range w.named {
		if c.Hash() == b.ParentHash() {
			return c
		}
	}
	panic("harness: parent unknown")
}

var lists = map[string][]string{
	"lin":   {"-", "T", "T2", "T3", "B", "B2", "TT", "TB", "V"},
	"rst":   {"-", "T", "B", "U"},
	"fork":  {"-", "T", "T2", "T3", "B", "U"},
	"miner": {"T", "U"},
	"ms":    {"M", "M2", "M3", "BB", "T"},
	"prune": {"T", "-"},
	"msm":   {"M", "M2", "M3", "BB"},
}

// enabled lists the events of the state reached.
func (w *world) enabled(evs []string, results []string) []string {
	var en []string
	switch w.scen {
	case "lin":
		head := w.o.BC.CurrentBlock()
		hn := w.nameOf(head)
		for i, inst := range instants {
			if uint32(int(t0)+inst) < head.Time() {
				continue
			}
			for _, l := range lists["lin"] {
				en = append(en, fmt.Sprintf("blk %s i%d on %s by 0", l, i, hn))
			}
		}
		en = append(en, "restart")
	case "prune":
		// the same payload on sibling forks, a stable advance that prunes the loser, the payload again
		stableH := w.o.BC.StableBlock().Height()
		for _, name := range w.heldNames() {
			p := w.named[name]
			if p.Height() < stableH || p.Height() >= 4 {
				continue
			}
			for _, l := range lists["prune"] {
				for _, r := range []int{1, 2} {
					en = append(en, fmt.Sprintf("blk %s +slot on %s by %d", l, name, (w.rankOf(p)+r)%w.n))
				}
			}
			if p.Height() > stableH {
				en = append(en, "stab "+name)
			}
		}
	case "ms":
		// signature lists of a multi-signature payload and a box carrying one payload twice, offered by blocks
		head := w.o.BC.CurrentBlock()
		for _, l := range lists["ms"] {
			en = append(en, fmt.Sprintf("blk %s i1 on %s by 0", l, w.nameOf(head)))
		}
	case "msm":
		// the same offered to the node's own pool; the node (deputy 0) mines
		for _, l := range lists["msm"] {
			en = append(en, "pool "+l)
		}
		en = append(en, "mine")
	case "rst":
		// restart-centred: a small block menu (empty block, T, box(T,U), U) at three instants (first second, last second
		// but one and last second of the window: the edge of the 30-minute reload horizon), and the restart, one level deeper than "lin": what the replay cache holds after it was
		// reloaded from disk (blocks without transactions, boxes) decides whether T can run again
		head := w.o.BC.CurrentBlock()
		hn := w.nameOf(head)
		for i, inst := range instants {
			if uint32(int(t0)+inst) < head.Time() || (inst != 0 && inst != 1799 && inst != 1800) {
				continue
			}
			for _, l := range lists["rst"] {
				en = append(en, fmt.Sprintf("blk %s i%d on %s by 0", l, i, hn))
			}
		}
		en = append(en, "restart")
	case "fork":
		// build on any block the node holds (tree of depth <= 3 above the funding block); the miner is
		// the deputy after the parent's miner, or the one after that (=> siblings by different miners)
		for _, name := range w.heldNames() {
			p := w.named[name]
			if p.Height() >= 4 {
				continue
			}
			for _, l := range lists["fork"] {
				for _, r := range []int{1, 2} {
					en = append(en, fmt.Sprintf("blk %s +slot on %s by %d", l, name, (w.rankOf(p)+r)%w.n))
				}
			}
		}
	case "miner":
		for _, name := range w.heldNames() {
			p := w.named[name]
			if p.Height() >= 3 {
				continue
			}
			for _, l := range lists["miner"] {
				for _, r := range []int{1, 2} {
					rk := (w.rankOf(p) + r) % w.n
					if rk != 0 {
						en = append(en, fmt.Sprintf("blk %s +slot on %s by %d", l, name, rk))
					}
				}
			}
		}
		en = append(en, "pool T", "pool U", "mine")
	}
	return en
}

func (w *world) nameOf(b *types.Block) string {
	// several names can denote one block (the same block built twice): take the smallest, so that the
	// answer does not depend on Go's map iteration order
	best := "?"
	for k, c := range w.named {
		if c.Hash() == b.Hash() && (best == "?" || len(k) < len(best) || (len(k) == len(best) && k < best)) {
			best = k
		}
	}
	return best
}

func (w *world) rankOf(b *types.Block) int {
	for i := 0; i < w.n; i++ {
		if node.Deputy(i).Addr == b.MinerAddress() {
			return i
		}
	}
	return 0
}

// heldNames: named blocks (except genesis) that the node under test holds, in name order.
func (w *world) heldNames() []string {
	var l []string
	for k, b := range w.named {
		if k == "g" {
			continue
		}
		if w.o.BC.HasBlock(b.Hash()) {
			l = append(l, k)
		}
	}
	sort.Strings(l)
	return l
}

func run(hist []string) core.Outcome {
	if len(hist) == 0 {
		return core.Outcome{Key: "root", Enabled: []string{"fork", "lin", "miner", "ms", "msm", "prune", "rst"}}
	}
	w := newWorld(hist[0])
	defer w.close()
	scenTag = "by-validator"
	if hist[0] == "miner" || hist[0] == "msm" {
		scenTag = "mined-by-the-node-itself"
	}
	evs := hist[1:]
	var o core.Outcome
	viol := func(fp, what string) {
		for _, v := range o.Violations {
			if v.Fingerprint == prop+"/"+fp {
				return
			}
		}
		o.Violations = append(o.Violations, core.Violation{Fingerprint: prop + "/" + fp, What: what + fmt.Sprintf("; history %v", hist), Replay: map[string]interface{}{"history": hist}})
	}
	results := make([]string, len(evs))
	for i, e := range evs {
		results[i] = w.apply(e)
	}
	branches, nexec := checkLedger(w.o, viol)

	// positive clause: an honest block whose payloads are only on another fork must be accepted
	if len(evs) > 0 && results[len(evs)-1] == "rejected" && w.scen == "fork" {
		last := w.named[fmt.Sprintf("b%d", w.seq)]
		onPath := map[string]bool{}
		for b := w.parentOf(last); b != nil && b.Height() > 0; {
			for _, tx := range executed(b) {
				onPath[payloadID(tx)] = true
			}
			if b.Height() == 1 {
				break
			}
			b = w.parentOf(b)
		}
		dup := false
		seen := map[string]bool{}
		for _, tx := range executed(last) {
			id := payloadID(tx)
			if onPath[id] || seen[id] {
				dup = true
			}
			seen[id] = true
			if uint64(last.Time()) > tx.Expiration() || tx.Expiration()-uint64(last.Time()) > life {
				dup = true // outside its window: refusal is right
			}
		}
		if !dup {
			viol("honest-fork-block-refused", fmt.Sprintf("block %q carries no payload of its own branch but was rejected", evs[len(evs)-1]))
		}
	}

	// canonical key: the node's block tree (by history names), results so far, pool content
	var kb strings.Builder
	kb.WriteString(hist[0])
	held := w.heldNames()
	for _, k := range held {
		b := w.named[k]
		fmt.Fprintf(&kb, "|%s<%s@%d:", k, w.nameOf(w.parentOfOrGenesis(b)), b.Time())
		for _, tx := range b.Txs {
			fmt.Fprintf(&kb, "%x,", tx.Hash().Bytes()[:4])
		}
	}
	fmt.Fprintf(&kb, "|stable=%s|head=%s|seq=%d|restarts=%d", w.nameOf(w.o.BC.StableBlock()), w.nameOf(w.o.BC.CurrentBlock()), w.seq, strings.Count(strings.Join(evs, ";"), "restart"))
	pool := w.o.Pool.GetTxs(uint32(t0), 100)
	ph := make([]string, 0)
	for _, tx := range pool {
		ph = append(ph, fmt.Sprintf("%x", tx.Hash().Bytes()[:4]))
	}
	sort.Strings(ph)
	fmt.Fprintf(&kb, "|pool=%v", ph)
	o.Key = core.Hash(kb.String())
	if len(evs) > 0 {
		o.Tags = append(o.Tags, fmt.Sprintf("%s/%s/%s/branches=%d/exec=%d", hist[0], strings.Fields(evs[len(evs)-1])[0], results[len(evs)-1], branches, nexec))
	}
	if len(evs) < depth[w.scen] {
		o.Enabled = w.enabled(evs, results)
	}
	return o
}

func (w *world) parentOfOrGenesis(b *types.Block) *types.Block {
	if b.Height() == 0 {
		return b
	}
	return w.parentOf(b)
}

var depth = map[string]int{"lin": 3, "fork": 3, "miner": 4, "rst": 4, "ms": 3, "msm": 4, "prune": 4}

func main() {
	core.ParseFlags()
	node.Quiet()
	txs = mkTxs()
	if core.Thorough() {
		depth = map[string]int{"lin": 4, "fork": 4, "miner": 5, "rst": 6, "ms": 4, "msm": 5, "prune": 5}
	} else {
		// quick: without the instant 59 s before the last second of the window (bucket edge inside the window)
		instants = []int{-1, 0, 1799, 1800, 1801, 1861}
	}
	safe := core.SafeRun(prop, run)
	if core.Opt.Replay != "" {
		var rp struct {
			History []string `json:"history"`
		}
		if err := core.LoadReplay(core.Opt.Replay, &rp); err != nil {
			fmt.Println(err)
			os.Exit(2)
		}
		o := safe(rp.History)
		fmt.Printf("replay %v\n", rp.History)
		for _, v := range o.Violations {
			fmt.Printf("VIOLATION-REPLAYED %s\n%s\n", v.Fingerprint, v.What)
		}
		if len(o.Violations) > 0 {
			os.Exit(1)
		}
		return
	}
	core.ServeIfWorker(safe)
	r := core.NewResult(prop, "model_checking")
	r.Rule = "BFS over histories of factory-built blocks (tx-list menu: T, T re-encoded, box(T,U), T twice, T + box, early-expiring V) at instants around the expiration window and pruning horizon (linear scenario, 1 deputy, with restarts; plus a restart-centred scenario one to two levels deeper over the menu {empty block, T, box(T,U), U} at two instants), on any held parent by two different in-turn-able deputies (fork scenario, 3 deputies), and pool/mine/sibling events on a node that is deputy 0 (miner scenario); state = node's block tree + pool; distinct outcome = (scenario, last event kind, verdict, branches, executed count)"
	r.Assume = []string{"payload identity = signing hash + recovered signer set", "blocks are built by the real assembler; the node's clock is later than every block"}
	max := 0
	for _, d := range depth {
		if d > max {
			max = d
		}
	}
	r.Extra["depth_per_scenario"] = depth
	core.BFS(r, core.BFSConfig{Prop: prop, Run: safe, MaxDepth: max + 1, Subprocess: true, RecycleEvery: 2000, PerRunLimit: 120e9})
	core.Finish(r)
}

// C06 — only authorised transactions change state (signatures, multisig, gas payer).
//
// Engine E4: bounded exhaustive enumeration of transactions on the REAL miner path
// (BlockAssembler.MineBlock through the block factory) and the REAL validator path
// (TxProcessor.Process — the function RunBlock/InsertBlock calls — for every case, and a whole node's
// InsertBlock for every packaged case and for one representative of every class of refused case).
//
// A case = sender configuration x transaction type x list of sender signatures x gas-payer
// arrangement x single-field tampering after signing x wrapping {bare, inside a box signed by a
// third party}. Every signature is a token with a known PROVENANCE (which key, which content, which
// of the three signing hashes, canonical encoding or not); the reference `authorisedRef` is computed
// from provenance only (it never calls the repo's hash / recover functions), so a change of the
// repo's signing hashes or of the signer check is visible as a disagreement.
//
// Oracle, one direction only (as the statement): effective => authorisedRef.
// effective = the miner packaged the tx, or Process applied it, or a change log of the block names
// one of the accounts of the case although the tx was discarded.
// Non-vacuity: the canonical correctly signed form of every configuration must be packaged, must be
// applied by Process and its block must be accepted by a whole validator node.
package main

import (
	"bytes"
	"encoding/json"
	"fmt"
	"hash/crc32"
	"math/big"
	"os"
	"runtime/debug"
	"runtime/pprof"
	"sort"
	"strings"
	"time"

	"verifmc/core"
	"verifmc/node"

	"github.com/LemoFoundationLtd/lemochain-core/chain/account"
	"github.com/LemoFoundationLtd/lemochain-core/chain/params"
	"github.com/LemoFoundationLtd/lemochain-core/chain/transaction"
	"github.com/LemoFoundationLtd/lemochain-core/chain/types"
	"github.com/LemoFoundationLtd/lemochain-core/common"
	"github.com/LemoFoundationLtd/lemochain-core/common/crypto"
	"github.com/LemoFoundationLtd/lemochain-core/common/rlp"
	"github.com/LemoFoundationLtd/lemochain-core/store"
)

const prop = "C06"

// all block times are far in the past
var (
	t0      = node.GenesisTime + 100000
	tFund   = t0 + 10
	tConv   = t0 + 20
	tCase   = t0 + 30
	expTime = uint64(t0 + 1000)
)

// ---------------------------------------------------------------------------------------------
// accounts

type signer struct {
	key *node.Key
	w   int
}

type acct struct {
	name    string
	own     *node.Key
	signers []signer // empty: plain account
}

func (a *acct) addr() common.Address { return a.own.Addr }
func (a *acct) plain() bool          { return len(a.signers) == 0 }

// role resolves a signer role name for this account: O = the account's own key, A/B/C = first,
// second, third registered signer (for a plain account A is the own key); roles beyond the registered
// signers are fixed unregistered keys.
func (a *acct) role(r string) *node.Key {
	idx := map[string]int{"A": 0, "B": 1, "C": 2}
	switch r {
	case "O":
		return a.own
	case "X":
		return node.K("c06/X")
	}
	i := idx[r]
	if a.plain() {
		if i == 0 {
			return a.own
		}
		return node.K("c06/" + r)
	}
	if i < len(a.signers) {
		return a.signers[i].key
	}
	return node.K("c06/" + r)
}

func cfgSigners(cfg, prefix string) []signer {
	k := func(n string) *node.Key { return node.K("c06/" + prefix + n) }
	switch cfg {
	case "plain":
		return nil
	case "m100":
		return []signer{{k("A"), 100}}
	case "m5050":
		return []signer{{k("A"), 50}, {k("B"), 50}}
	case "m603010":
		return []signer{{k("A"), 60}, {k("B"), 30}, {k("C"), 10}}
	case "m9901":
		return []signer{{k("A"), 99}, {k("B"), 1}}
	case "m100x1":
		l := make([]signer, 100)
		for i := range l {
			l[i] = signer{node.K(fmt.Sprintf("c06/%ss%d", prefix, i)), 1}
		}
		return l
	}
	panic("bad cfg " + cfg)
}

var allCfgs = []string{"plain", "m100", "m5050", "m603010", "m9901", "m100x1"}

func cfgs() []string {
	if core.Thorough() {
		return allCfgs
	}
	return allCfgs[:5]
}

// canonical sender list of a configuration (role names)
func canonList(cfg string) []string {
	switch cfg {
	case "plain", "m100":
		return []string{"A"}
	case "m5050", "m9901":
		return []string{"A", "B"}
	case "m603010":
		return []string{"A", "B", "C"}
	case "m100x1":
		l := make([]string, 100)
		for i := range l {
			l[i] = fmt.Sprintf("s%d", i)
		}
		return l
	}
	panic("bad cfg")
}

// ---------------------------------------------------------------------------------------------
// world: factory with the prefix chain, validator node with the same prefix

type world struct {
	f      *node.Factory
	prefix []*types.Block
	head   *types.Block
	empty  *types.Block // honest empty block on head (template for hand-assembled blocks)
	v      *node.Node
	vDirty bool

	S, S2               map[string]*acct
	P, PM, T, U         *acct
	R, R2               common.Address
	byAddr              map[common.Address]*acct
	watch               map[common.Address]string
	groups              map[string]*group
	innerU, innerU2     *types.Transaction
	seenClass           map[string]bool
	firstHash           common.Hash
	firstCase           *Case
	vCreates, vAccepted int
	shardI, shardN      int // whole-node runs of a packaged class are done by one designated worker
}

func newAcct(name string, signers []signer) *acct {
	return &acct{name: name, own: node.K("c06/own/" + name), signers: signers}
}

func modifySignersData(l []signer) []byte {
	s := make(types.Signers, 0, len(l))
	for _, x := range l {
		s = append(s, types.SignAccount{Address: x.key.Addr, Weight: uint8(x.w)})
	}
	b, err := json.Marshal(transaction.ModifySigners{Signers: s})
	if err != nil {
		panic(err)
	}
	return b
}

func newWorld() *world {
	w := &world{shardN: 1, S: map[string]*acct{}, S2: map[string]*acct{}, byAddr: map[common.Address]*acct{}, watch: map[common.Address]string{}, groups: map[string]*group{}, seenClass: map[string]bool{}}
	var all []*acct
	for _, c := range cfgs() {
		w.S[c] = newAcct("S/"+c, cfgSigners(c, ""))
		w.S2[c] = newAcct("S2/"+c, cfgSigners(c, "")) // twin: same signers, other address
		all = append(all, w.S[c], w.S2[c])
	}
	w.P = newAcct("P", nil)
	w.PM = newAcct("PM", []signer{{node.K("c06/PA"), 50}, {node.K("c06/PB"), 50}})
	w.T = newAcct("T", nil)
	w.U = newAcct("U", nil)
	p2 := newAcct("P2", nil)
	all = append(all, w.P, p2, w.PM, w.T, w.U)
	w.R = node.K("c06/R").Addr
	w.R2 = node.K("c06/R2").Addr
	for _, a := range all {
		w.byAddr[a.addr()] = a
		w.watch[a.addr()] = a.name
	}
	w.watch[w.R] = "R"
	w.watch[w.R2] = "R2"

	w.f = node.NewFactory(core.ScratchDir("c06f"), 1)
	g := w.f.BC.Genesis()
	var fund types.Transactions
	for i, a := range all {
		fund = append(fund, node.Transfer(node.Founder(), a.addr(), node.Lemo(1000), expTime+uint64(i)))
	}
	b1 := w.mustMake(g, tFund, fund, "fund")
	var conv types.Transactions
	for _, a := range all {
		if !a.plain() {
			to := a.addr()
			conv = append(conv, node.Tx(node.TxSpec{Type: params.ModifySignersTx, From: a.own, To: &to, Data: modifySignersData(a.signers), Exp: expTime, GasLimit: 9000000}))
		}
	}
	b2 := w.mustMake(b1, tConv, conv, "convert")
	w.prefix = []*types.Block{b1, b2}
	w.head = b2
	e, _, err := w.f.Make(node.BlockSpec{Parent: w.head, Miner: node.Deputy(0), Time: tCase, NoSave: true, Extra: "c06"})
	if err != nil {
		panic(err)
	}
	w.empty = e
	w.innerU = node.Transfer(w.U.own, w.R, node.Lemo(1), expTime)
	w.innerU2 = node.Transfer(w.U.own, w.R2, node.Lemo(1), expTime)
	// the prefix really made the accounts multi-signature
	am := account.NewManager(w.head.Hash(), w.f.DB)
	for _, a := range all {
		got := am.GetAccount(a.addr()).GetSigners()
		if len(got) != len(a.signers) {
			panic(fmt.Sprintf("harness: account %s has %d signers, want %d", a.name, len(got), len(a.signers)))
		}
		m := got.ToSignerMap()
		for _, s := range a.signers {
			if int(m[s.key.Addr]) != s.w {
				panic("harness: wrong signer weight in " + a.name)
			}
		}
		if am.GetAccount(a.addr()).GetBalance().Sign() <= 0 {
			panic("harness: account not funded: " + a.name)
		}
	}
	return w
}

type parentLoader struct{ db *store.ChainDatabase }

func (l parentLoader) GetParentByHeight(height uint32, sonBlockHash common.Hash) *types.Block {
	b, err := l.db.GetUnConfirmByHeight(height, sonBlockHash)
	if err == store.ErrBlockNotExist {
		b, err = l.db.GetBlockByHeight(height)
	}
	if err != nil {
		return nil
	}
	return b
}

func (w *world) mustMake(parent *types.Block, tm uint32, txs types.Transactions, what string) *types.Block {
	b, inv, err := w.f.Make(node.BlockSpec{Parent: parent, Miner: node.Deputy(0), Time: tm, Txs: txs, Extra: what})
	if err != nil || len(inv) > 0 || len(b.Txs) != len(txs) {
		panic(fmt.Sprintf("harness: prefix block %q: err=%v invalid=%d", what, err, len(inv)))
	}
	return b
}

func (w *world) validator() *node.Node {
	if w.v != nil && !w.vDirty {
		w.v.Use()
		return w.v
	}
	if w.v != nil {
		w.v.Destroy()
	}
	w.v = node.NewNode(core.ScratchDir("c06v"), 1, node.K("observer"))
	w.vCreates++
	for _, b := range w.prefix {
		if err := w.v.BC.InsertBlock(node.Wire(b)); err != nil {
			panic("harness: validator refuses the prefix: " + err.Error())
		}
	}
	w.vDirty = false
	return w.v
}

func (w *world) close() {
	if w.v != nil {
		w.v.Destroy()
	}
	w.f.Destroy()
}

// ---------------------------------------------------------------------------------------------
// transaction content, independent of the repo's constructors (any field can take any value)

type content struct {
	Type     uint16
	Version  uint8
	ChainID  uint16
	From     common.Address
	GasPayer common.Address
	To       *common.Address
	ToName   string
	GasPrice *big.Int
	GasLimit uint64
	Amount   *big.Int
	Data     []byte
	Exp      uint64
	Message  string
	NoPayer  bool // the gasPayer field is EMPTY on the wire (the accessor then answers the sender)
}

// wireTx has the RLP layout of types.txdata
type wireTx struct {
	Type          uint16
	Version       uint8
	ChainID       uint16
	From          common.Address
	GasPayer      *common.Address `rlp:"nil"`
	Recipient     *common.Address `rlp:"nil"`
	RecipientName string
	GasPrice      *big.Int
	GasLimit      uint64
	GasUsed       uint64
	Amount        *big.Int
	Data          []byte
	Expiration    uint64
	Message       string
	Sigs          [][]byte
	GasPayerSigs  [][]byte
}

// tx builds the transaction as it arrives over the wire (RLP), with the given raw signature lists.
func (c *content) tx(sigs, psigs [][]byte) *types.Transaction {
	gp := c.GasPayer
	gpp := &gp
	if c.NoPayer {
		gpp = nil
	}
	if sigs == nil {
		sigs = [][]byte{}
	}
	if psigs == nil {
		psigs = [][]byte{}
	}
	enc, err := rlp.EncodeToBytes(&wireTx{c.Type, c.Version, c.ChainID, c.From, gpp, c.To, c.ToName, c.GasPrice, c.GasLimit, 0, c.Amount, c.Data, c.Exp, c.Message, sigs, psigs})
	if err != nil {
		panic(err)
	}
	var out types.Transaction
	if err := rlp.DecodeBytes(enc, &out); err != nil {
		panic(fmt.Sprintf("harness: tx not decodable: %v", err))
	}
	return &out
}

var allFields = []string{"type", "version", "chainID", "from", "gasPayer", "gasPayerEmptied", "to", "toName", "gasPrice", "gasLimit", "amount", "data", "expiration", "message"}

func addrPtrEq(a, b *common.Address) bool {
	if a == nil || b == nil {
		return a == b
	}
	return *a == *b
}

// diff lists the fields in which two contents differ.
func diff(a, b *content) []string {
	var d []string
	add := func(c bool, n string) {
		if c {
			d = append(d, n)
		}
	}
	add(a.Type != b.Type, "type")
	add(a.Version != b.Version, "version")
	add(a.ChainID != b.ChainID, "chainID")
	add(a.From != b.From, "from")
	add(a.GasPayer != b.GasPayer, "gasPayer")
	add(a.NoPayer != b.NoPayer, "gasPayerEmptied")
	add(!addrPtrEq(a.To, b.To), "to")
	add(a.ToName != b.ToName, "toName")
	add(a.GasPrice.Cmp(b.GasPrice) != 0, "gasPrice")
	add(a.GasLimit != b.GasLimit, "gasLimit")
	add(a.Amount.Cmp(b.Amount) != 0, "amount")
	add(!bytes.Equal(a.Data, b.Data), "data")
	add(a.Exp != b.Exp, "expiration")
	add(a.Message != b.Message, "message")
	return d
}

const (
	kDefault = "default"       // DefaultSigner: all 13 fields
	kReimb   = "reimbursement" // ReimbursementTxSigner: all but the gas terms
)

// covered: which fields a sender signature of the given kind authorises (from the statement: the
// sender signs everything; when someone else pays, the gas terms are left to the payer).
func covered(kind, field string) bool {
	if kind == kReimb && (field == "gasPrice" || field == "gasLimit") {
		return false
	}
	return true
}

func signerOf(kind string) types.Signer {
	if kind == kReimb {
		return types.MakeReimbursementTxSigner()
	}
	return types.MakeSigner()
}

// base content of the case transaction of type typ sent by s, gas paid by payer.
func (w *world) base(s *acct, typ string, payer common.Address) content {
	c := content{Version: types.TxVersion, ChainID: node.ChainID, From: s.addr(), GasPayer: payer, GasPrice: new(big.Int).Set(node.GasPrice), GasLimit: 2000000, Amount: new(big.Int), Exp: expTime}
	switch typ {
	case "transfer":
		c.Type = params.OrdinaryTx
		to := w.R
		c.To = &to
		c.Amount = node.Lemo(1)
	case "vote":
		c.Type = params.VoteTx
		to := node.Deputy(0).Addr
		c.To = &to
	case "asset":
		c.Type = params.CreateAssetTx
		c.Data = assetData("c06")
	case "signers": // hands the account over to the outsider
		c.Type = params.ModifySignersTx
		to := s.addr()
		c.To = &to
		c.Data = modifySignersData([]signer{{node.K("c06/X"), 100}})
	case "box": // the sender signs a box around somebody else's (correctly signed) transfer
		c.Type = params.BoxTx
		c.GasLimit = 5000000
		c.Data = boxData(w.innerU)
	default:
		panic("bad type " + typ)
	}
	return c
}

func assetData(name string) []byte {
	b, err := json.Marshal(&types.Asset{Category: types.TokenAsset, IsDivisible: true, Decimal: 18, IsReplenishable: true, Profile: types.Profile{"name": name, "symbol": "C6", "description": "c06", "suggestedGasLimit": "60000"}})
	if err != nil {
		panic(err)
	}
	return b
}

func boxData(subs ...*types.Transaction) []byte {
	b, err := types.MarshalBoxData(subs)
	if err != nil {
		panic(err)
	}
	return b
}

var types5 = []string{"transfer", "vote", "asset", "signers", "box"}

// tamper returns o with one field changed. Values are chosen so that the changed transaction would
// still execute if its signatures were accepted (where the type allows it).
func (w *world) tamper(o content, cfg, typ, field string) content {
	x := o
	x.GasPrice = new(big.Int).Set(o.GasPrice)
	x.Amount = new(big.Int).Set(o.Amount)
	switch field {
	case "type":
		switch typ {
		case "transfer":
			x.Type = params.VoteTx // (R is no candidate: masked by the vote's own check)
		case "vote", "signers":
			x.Type = params.OrdinaryTx
		case "asset", "box":
			x.Type = params.CreateContractTx
		}
	case "version":
		x.Version = o.Version + 1
	case "chainID":
		x.ChainID = o.ChainID + 1
	case "from":
		x.From = w.S2[cfg].addr()
	case "gasPayer":
		switch o.GasPayer {
		case o.From:
			x.GasPayer = w.P.addr()
		case w.P.addr():
			x.GasPayer = w.byName("P2").addr()
		default:
			x.GasPayer = w.P.addr()
		}
	case "gasPayerEmptied":
		// the field is removed from the encoding: whoever reads it through the accessor gets the sender
		x.NoPayer = true
		x.GasPayer = o.From
	case "to":
		var to common.Address
		switch typ {
		case "transfer":
			to = w.R2
		case "signers":
			to = w.S2[cfg].addr()
		default:
			to = w.R
		}
		x.To = &to
	case "toName":
		x.ToName = "x"
	case "gasPrice":
		x.GasPrice.Mul(x.GasPrice, big.NewInt(2))
	case "gasLimit":
		x.GasLimit += 1000
	case "amount":
		x.Amount.Add(x.Amount, node.Lemo(1))
	case "data":
		switch typ {
		case "transfer", "vote":
			x.Data = []byte{1}
		case "asset":
			x.Data = assetData("c06-other")
		case "signers":
			x.Data = modifySignersData([]signer{{node.K("c06/C"), 100}})
		case "box":
			x.Data = boxData(w.innerU2)
		}
	case "expiration":
		x.Exp++
	case "message":
		x.Message = "m"
	default:
		panic("bad field " + field)
	}
	return x
}

func (w *world) byName(n string) *acct {
	for _, a := range w.byAddr {
		if a.name == n {
			return a
		}
	}
	panic("no account " + n)
}

// ---------------------------------------------------------------------------------------------
// signature tokens with provenance

type stok struct { // a sender signature
	name      string
	sig       []byte
	key       *node.Key // nil: junk
	kind      string
	content   *content // what was signed
	canonical bool
}

type ptok struct { // a gas-payer signature
	name      string
	sig       []byte
	key       *node.Key
	gasPrice  *big.Int
	gasLimit  uint64
	sigs      [][]byte // the sender signature list it was made over
	canonical bool
}

func junk(n int) []byte {
	b := make([]byte, n)
	for i := range b {
		b[i] = byte(0x11 + i)
	}
	if n == 65 {
		b[64] = 0
	}
	return b
}

func sign(k *node.Key, h common.Hash) []byte {
	s, err := crypto.Sign(h[:], k.Priv)
	if err != nil {
		panic(err)
	}
	return s
}

// group caches the sender tokens of (account, signed content, kind).
type group struct {
	o    content
	toks map[string]*stok
}

func (w *world) senderTok(s *acct, o *content, kind, name string, cache map[string]*stok) *stok {
	key := kind + "/" + name
	if t, ok := cache[key]; ok {
		return t
	}
	h := signerOf(kind).Hash(o.tx(nil, nil))
	t := &stok{name: name, kind: kind, content: o, canonical: true}
	switch {
	case name == "A" || name == "B" || name == "C" || name == "O" || name == "X":
		t.key = s.role(name)
		t.sig = sign(t.key, h)
	case len(name) > 1 && name[0] == 's': // s<i>: i-th registered signer
		var i int
		fmt.Sscanf(name[1:], "%d", &i)
		t.key = s.signers[i].key
		t.sig = sign(t.key, h)
	case strings.HasSuffix(name, "r"): // re-encoded (r, n-s, v^1)
		b := w.senderTok(s, o, kind, name[:len(name)-1], cache)
		t.key, t.sig, t.canonical = b.key, node.ReencodeSig(b.sig), false
	case strings.HasSuffix(name, "k"): // signed with the other signing hash
		other := kDefault
		if kind == kDefault {
			other = kReimb
		}
		b := w.senderTok(s, o, other, name[:len(name)-1], cache)
		t.key, t.sig, t.kind = b.key, b.sig, other
	case strings.HasSuffix(name, "t"): // over a tampered copy (message changed)
		oc := *o
		oc.Message = "tampered"
		t.content = &oc
		t.key = s.role(name[:len(name)-1])
		t.sig = sign(t.key, signerOf(kind).Hash(oc.tx(nil, nil)))
	case name == "J64":
		t.key, t.sig = nil, junk(64)
	case name == "J66":
		t.key, t.sig = nil, junk(66)
	case name == "E":
		t.key, t.sig = nil, []byte{}
	default: // <role><n>: another valid signature of the same key over the same hash (nonce n)
		var n int64
		var role string
		if i := strings.IndexAny(name, "0123456789"); i > 0 {
			role = name[:i]
			fmt.Sscanf(name[i:], "%d", &n)
		} else {
			panic("bad sender token " + name)
		}
		t.key = s.role(role)
		t.sig = node.SignWithNonce(t.key, h[:], n)
		first := w.senderTok(s, o, kind, role, cache)
		if bytes.Equal(first.sig, t.sig) {
			panic("harness: second signature equals the first")
		}
	}
	cache[key] = t
	return t
}

func (w *world) payerTok(pa *acct, x *content, sigs [][]byte, name string) *ptok {
	t := &ptok{name: name, gasPrice: new(big.Int).Set(x.GasPrice), gasLimit: x.GasLimit, sigs: sigs, canonical: true}
	hashOf := func(gp *big.Int, gl uint64) common.Hash {
		c := *x
		c.GasPrice, c.GasLimit = gp, gl
		return types.MakeGasPayerSigner().Hash(c.tx(sigs, nil))
	}
	h := hashOf(t.gasPrice, t.gasLimit)
	n := strings.TrimPrefix(name, "p")
	switch {
	case n == "A" || n == "B" || n == "C" || n == "O" || n == "X":
		t.key = pa.role(n)
		t.sig = sign(t.key, h)
	case n == "Ar":
		t.key = pa.role("A")
		t.sig, t.canonical = node.ReencodeSig(sign(t.key, h)), false
	case n == "A2" || n == "B2":
		t.key = pa.role(n[:1])
		t.sig = node.SignWithNonce(t.key, h[:], 1)
	case n == "Agl": // the payer agreed to another gas limit
		t.key = pa.role("A")
		t.gasLimit = x.GasLimit + 1000
		t.sig = sign(t.key, hashOf(t.gasPrice, t.gasLimit))
	case n == "Agp": // the payer agreed to another gas price
		t.key = pa.role("A")
		t.gasPrice = new(big.Int).Mul(x.GasPrice, big.NewInt(2))
		t.sig = sign(t.key, hashOf(t.gasPrice, t.gasLimit))
	case n == "As": // the payer signed before the sender list was extended / changed: over an empty list
		t.key = pa.role("A")
		t.sigs = [][]byte{}
		c := *x
		t.sig = sign(t.key, types.MakeGasPayerSigner().Hash(c.tx(nil, nil)))
	case name == "J64":
		t.sig = junk(64)
	case name == "J66":
		t.sig = junk(66)
	case name == "E":
		t.sig = []byte{}
	default:
		panic("bad payer token " + name)
	}
	return t
}

// ---------------------------------------------------------------------------------------------
// cases

type Case struct {
	Fam       string   `json:"family"`
	Cfg       string   `json:"config"`
	Typ       string   `json:"type"`
	Payer     string   `json:"payer"`     // "", "P", "PM", "S" (the account that pays the gas)
	Mode      string   `json:"mode"`      // label of the gas-payer arrangement
	Kind      string   `json:"kind"`      // signing hash the sender's wallet used: default | reimbursement
	Sigs      []string `json:"sigs"`      // sender signature tokens
	PSigs     []string `json:"payerSigs"` // gas-payer signature tokens
	PSigsOver []string `json:"payerSignedOver,omitempty"`
	Tamper    string   `json:"tamper,omitempty"`        // field changed after signing
	Resign    bool     `json:"payerResigned,omitempty"` // the payer signs the tampered transaction anew
	Wrap      string   `json:"wrap"`                    // bare | boxed
	Canon     bool     `json:"canonical,omitempty"`
}

func (c Case) String() string {
	s := fmt.Sprintf("%s cfg=%s type=%s sigs=[%s] payer=%s/%s psigs=[%s] wrap=%s", c.Fam, c.Cfg, c.Typ, strings.Join(c.Sigs, ","), c.Payer, c.Mode, strings.Join(c.PSigs, ","), c.Wrap)
	if c.Tamper != "" {
		s += " tamper=" + c.Tamper
		if c.Resign {
			s += "(payer re-signed)"
		}
	}
	if c.PSigsOver != nil {
		s += " payer-signed-over=[" + strings.Join(c.PSigsOver, ",") + "]"
	}
	return s
}

type payerMode struct {
	name  string
	payer string
	psigs []string // nil: derived (canonical list of the paying account)
	kind  string
	good  bool // with a canonical sender list this arrangement is authorised
}

var payerModes = []payerMode{
	{"none", "", []string{}, kDefault, true},
	{"plain", "P", []string{"pA"}, kReimb, true},
	{"multi", "PM", []string{"pA", "pB"}, kReimb, true},
	{"self", "S", nil, kReimb, true},
	{"payer-sig-by-outsider", "P", []string{"pX"}, kReimb, false},
	{"payer-sig-reencoded", "P", []string{"pAr"}, kReimb, false},
	{"payer-signed-other-gas-limit", "P", []string{"pAgl"}, kReimb, false},
	{"payer-signed-other-gas-price", "P", []string{"pAgp"}, kReimb, false},
	{"payer-named-but-no-payer-sig", "P", []string{}, kDefault, false},
	{"multi-payer-one-signer-twice", "PM", []string{"pA", "pA2"}, kReimb, false},
}

func payerCanon(cfg string) []string {
	l := canonList(cfg)
	out := make([]string, len(l))
	for i, r := range l {
		out[i] = "p" + r
	}
	return out
}

func senderAlphabet(cfg string) []string {
	a := []string{"A", "B", "C", "Ar", "A2", "X", "At", "J64", "J66", "E"}
	if cfg != "plain" {
		a = append(a, "O") // the own key of an account that has become multi-signature
	}
	return a
}

var payerAlphabet = map[string][]string{
	"P":  {"pA", "pB", "pA2", "pAr", "pX", "pAgl", "J64", "J66", "E"},
	"PM": {"pA", "pB", "pA2", "pAr", "pX", "pO", "pAgl", "J64", "J66", "E"},
}

func seqs(alpha []string, n int, f func([]string)) {
	if n == 0 {
		f([]string{})
		return
	}
	idx := make([]int, n)
	for {
		l := make([]string, n)
		for i, k := range idx {
			l[i] = alpha[k]
		}
		f(l)
		i := n - 1
		for i >= 0 {
			idx[i]++
			if idx[i] < len(alpha) {
				break
			}
			idx[i] = 0
			i--
		}
		if i < 0 {
			return
		}
	}
}

func eqList(a, b []string) bool {
	if len(a) != len(b) {
		return false
	}
	for i := range a {
		if a[i] != b[i] {
			return false
		}
	}
	return true
}

func wraps(typ string) []string {
	if typ == "box" {
		// a box cannot contain a box (checkBoxTx; the pool and the validator refuse it): not producible
		return []string{"bare"}
	}
	return []string{"bare", "boxed"}
}

// enumerate emits every case, simplest first.
func enumerate(emit func(Case)) {
	maxLen, maxLenBad, maxP := 3, 2, 3
	if core.Thorough() {
		maxLen, maxLenBad, maxP = 4, 3, 4
	}
	// m9901 ({A:99,B:1}: one short of the threshold) and m100x1 are run with short lists only in F1
	small := func(cfg string) bool { return cfg != "m100x1" && cfg != "m9901" }
	// F1: sender signature lists x gas-payer arrangement
	for n := 0; n <= maxLen; n++ {
		for _, cfg := range cfgs() {
			lim := n
			if !small(cfg) && n > 2 {
				continue // the 100-signer account gets its own family (F5); short lists only here
			}
			for _, typ := range types5 {
				for _, pm := range payerModes {
					if !pm.good && lim > maxLenBad {
						continue
					}
					for _, wr := range wraps(typ) {
						if n >= 4 && !((pm.name == "none" || pm.name == "plain") && wr == "bare" || pm.name == "none" && typ == "transfer") {
							// length 4: the signature check does not depend on the type or the wrapping; all types bare
							// without / with a plain payer, and the boxed transfer
							continue
						}
						seqs(senderAlphabet(cfg), n, func(l []string) {
							ps := pm.psigs
							if ps == nil {
								ps = payerCanon(cfg)
								if cfg == "m100x1" {
									return // self-paying 100-signer account: not run
								}
							}
							emit(Case{Fam: "F1-sender-lists", Cfg: cfg, Typ: typ, Payer: pm.payer, Mode: pm.name, Kind: pm.kind, Sigs: l, PSigs: ps, Wrap: wr,
								Canon: pm.good && eqList(l, canonList(cfg))})
						})
					}
				}
			}
		}
	}
	// F2: gas-payer signature lists (sender list canonical)
	for n := 0; n <= maxP; n++ {
		for _, cfg := range cfgs() {
			if !small(cfg) {
				continue
			}
			for _, typ := range types5 {
				for _, payer := range []string{"P", "PM"} {
					for _, wr := range wraps(typ) {
						if n >= 4 && !(typ == "transfer" && wr == "bare") {
							continue
						}
						seqs(payerAlphabet[payer], n, func(l []string) {
							kind := kReimb
							if n == 0 {
								return // F1 mode payer-named-but-no-payer-sig
							}
							emit(Case{Fam: "F2-payer-lists", Cfg: cfg, Typ: typ, Payer: payer, Mode: "payer-list", Kind: kind, Sigs: canonList(cfg), PSigs: l, Wrap: wr})
						})
					}
				}
			}
		}
	}
	// F3: single-field tampering after signing, for each of the three signing hashes
	for _, cfg := range cfgs() {
		if !small(cfg) {
			continue
		}
		for _, typ := range types5 {
			for _, pm := range payerModes[:4] {
				ps := pm.psigs
				if ps == nil {
					ps = payerCanon(cfg)
				}
				for _, wr := range wraps(typ) {
					for _, f := range allFields {
						emit(Case{Fam: "F3-tamper", Cfg: cfg, Typ: typ, Payer: pm.payer, Mode: pm.name, Kind: pm.kind, Sigs: canonList(cfg), PSigs: ps, Tamper: f, Wrap: wr})
						if pm.payer != "" || f == "gasPayer" {
							// the (new) payer signs the changed transaction anew: only the sender's authorisation is stale
							rps := ps
							if f == "gasPayer" {
								rps = []string{"pA"} // the substituted payer is a plain account
							}
							emit(Case{Fam: "F3-tamper", Cfg: cfg, Typ: typ, Payer: pm.payer, Mode: pm.name, Kind: pm.kind, Sigs: canonList(cfg), PSigs: rps, Tamper: f, Resign: true, Wrap: wr})
						}
					}
					if pm.payer != "" {
						// the sender's signatures are replaced by other valid signatures of the same keys after the payer signed
						l2 := make([]string, len(canonList(cfg)))
						for i, r := range canonList(cfg) {
							l2[i] = r + "2"
						}
						emit(Case{Fam: "F3-tamper", Cfg: cfg, Typ: typ, Payer: pm.payer, Mode: pm.name, Kind: pm.kind, Sigs: l2, PSigs: ps, PSigsOver: canonList(cfg), Tamper: "sigs", Wrap: wr})
						// a signature is appended to the sender list after the payer signed
						emit(Case{Fam: "F3-tamper", Cfg: cfg, Typ: typ, Payer: pm.payer, Mode: pm.name, Kind: pm.kind, Sigs: append(append([]string{}, canonList(cfg)...), "X"), PSigs: ps, PSigsOver: canonList(cfg), Tamper: "sigs", Wrap: wr})
					}
				}
			}
		}
	}
	// F4: the sender's wallet used the other signing hash (kind confusion)
	for _, cfg := range cfgs() {
		if !small(cfg) {
			continue
		}
		for _, typ := range types5 {
			for _, pm := range payerModes[:4] {
				ps := pm.psigs
				if ps == nil {
					ps = payerCanon(cfg)
				}
				for _, wr := range wraps(typ) {
					l := make([]string, len(canonList(cfg)))
					for i, r := range canonList(cfg) {
						l[i] = r + "k"
					}
					emit(Case{Fam: "F4-other-signing-hash", Cfg: cfg, Typ: typ, Payer: pm.payer, Mode: pm.name, Kind: pm.kind, Sigs: l, PSigs: ps, Wrap: wr})
				}
			}
		}
	}
	// F5: the 100 x weight-1 account: long lists
	for _, cfg := range cfgs() {
		if cfg != "m100x1" {
			continue
		}
		all := canonList(cfg)
		rep := func(tok string, n int) []string {
			l := make([]string, n)
			for i := range l {
				l[i] = tok
			}
			return l
		}
		nonces := make([]string, 100)
		nonces[0] = "s0"
		for i := 1; i < 100; i++ {
			nonces[i] = fmt.Sprintf("s0_%d", i)
		}
		rev := make([]string, 100)
		for i := range rev {
			rev[i] = all[99-i]
		}
		lists := map[string][]string{
			"all-100":                             all,
			"all-100-reversed":                    rev,
			"99-distinct":                         all[:99],
			"99-distinct+first-repeated":          append(append([]string{}, all[:99]...), "s0"),
			"99-distinct+first-again-other-nonce": append(append([]string{}, all[:99]...), "s0_1"),
			"99-distinct+outsider":                append(append([]string{}, all[:99]...), "X"),
			"99-distinct+own-key":                 append(append([]string{}, all[:99]...), "O"),
			"one-signer-100-times":                rep("s0", 100),
			"one-signer-100-nonces":               nonces,
			"all-100+outsider":                    append(append([]string{}, all...), "X"),
			"50-distinct-twice":                   append(append([]string{}, all[:50]...), all[:50]...),
		}
		names := make([]string, 0)
		for k := range lists {
			names = append(names, k)
		}
		sort.Strings(names)
		for _, typ := range types5 {
			for _, pm := range payerModes[:3] {
				for _, wr := range wraps(typ) {
					for _, nm := range names {
						emit(Case{Fam: "F5-100-signers/" + nm, Cfg: cfg, Typ: typ, Payer: pm.payer, Mode: pm.name, Kind: pm.kind, Sigs: lists[nm], PSigs: pm.psigs, Wrap: wr, Canon: nm == "all-100"})
					}
				}
			}
		}
	}
}

// ---------------------------------------------------------------------------------------------
// building a case and the reference

type built struct {
	x       content
	tx      *types.Transaction // the case transaction
	outer   *types.Transaction // what is handed to the miner (tx itself or the box around it)
	auth    bool
	info    refInfo
	senders []*stok
	payers  []*ptok
	from    *acct
	payer   *acct
}

type sideInfo struct {
	need          bool
	ok            bool
	multisig      bool
	distinct      int      // weight of the distinct authorising registered keys
	withRepeats   int      // same, every authorising signature counted
	repeatsDiffer bool     // a repeated key appears with different signature bytes
	withNonCanon  bool     // the rule would hold if re-encoded signatures counted
	staleFields   []string // the rule would hold if these (covered) fields were not compared
}

type refInfo struct {
	sender, payer sideInfo
}

// rule: does the set of keys satisfy the account's authorisation rule? Each key counts once.
func rule(a *acct, keys map[*node.Key]int) (bool, int) {
	if a == nil {
		return false, 0
	}
	if a.plain() {
		if keys[a.own] > 0 {
			return true, 100
		}
		return false, 0
	}
	sum := 0
	for _, s := range a.signers {
		if keys[s.key] > 0 {
			sum += s.w
		}
	}
	return sum >= 100, sum
}

func weightWithRepeats(a *acct, keys map[*node.Key]int) int {
	if a == nil || a.plain() {
		return 0
	}
	sum := 0
	for _, s := range a.signers {
		sum += s.w * keys[s.key]
	}
	return sum
}

func (w *world) build(c *Case) *built {
	s := w.S[c.Cfg]
	var pa *acct
	switch c.Payer {
	case "":
	case "P":
		pa = w.P
	case "PM":
		pa = w.PM
	case "S":
		pa = s
	default:
		panic("bad payer " + c.Payer)
	}
	payerAddr := s.addr()
	if pa != nil {
		payerAddr = pa.addr()
	}
	gk := c.Cfg + "/" + c.Typ + "/" + c.Payer
	g := w.groups[gk]
	if g == nil {
		g = &group{o: w.base(s, c.Typ, payerAddr), toks: map[string]*stok{}}
		w.groups[gk] = g
	}
	o := &g.o
	b := &built{x: *o}
	if c.Tamper != "" && c.Tamper != "sigs" {
		b.x = w.tamper(*o, c.Cfg, c.Typ, c.Tamper)
	}
	x := &b.x
	sigBytes := func(names []string) ([][]byte, []*stok) {
		l := make([][]byte, len(names))
		ts := make([]*stok, len(names))
		for i, n := range names {
			var t *stok
			if j := strings.Index(n, "_"); j > 0 {
				t = w.nonceTok(s, o, c.Kind, n[:j], n[j+1:], g.toks)
			} else {
				t = w.senderTok(s, o, c.Kind, n, g.toks)
			}
			l[i], ts[i] = t.sig, t
		}
		return l, ts
	}
	sigs, stoks := sigBytes(c.Sigs)
	b.senders = stoks
	over := sigs
	if c.PSigsOver != nil {
		over, _ = sigBytes(c.PSigsOver)
	}
	// who signs as payer: the payer named in the (possibly tampered) transaction when it signs anew
	signingPayer := pa
	signedContent := o
	if c.Resign {
		signedContent = x
		if c.Tamper == "gasPayer" {
			signingPayer = w.byAddr[x.GasPayer]
		}
	}
	psigs := make([][]byte, len(c.PSigs))
	for i, n := range c.PSigs {
		if signingPayer == nil {
			panic("harness: payer signatures without a payer: " + c.String())
		}
		t := w.payerTok(signingPayer, signedContent, over, n)
		psigs[i] = t.sig
		b.payers = append(b.payers, t)
	}
	b.tx = x.tx(sigs, psigs)
	b.outer = b.tx
	if c.Wrap == "boxed" {
		b.outer = node.Tx(node.TxSpec{Type: params.BoxTx, From: w.T.own, Data: boxData(b.tx), Exp: expTime, GasLimit: 6000000})
	}

	// ---- reference, from provenance only
	b.from = w.byAddr[x.From]
	b.payer = w.byAddr[x.GasPayer]
	b.auth, b.info = w.authorisedRef(x, sigs, b.senders, b.payers, b.from, b.payer)
	return b
}

func (w *world) nonceTok(s *acct, o *content, kind, role, nonce string, cache map[string]*stok) *stok {
	key := kind + "/" + role + "_" + nonce
	if t, ok := cache[key]; ok {
		return t
	}
	base := w.senderTok(s, o, kind, role, cache)
	var n int64
	fmt.Sscanf(nonce, "%d", &n)
	h := signerOf(kind).Hash(o.tx(nil, nil))
	t := &stok{name: role + "_" + nonce, kind: kind, content: o, canonical: true, key: base.key, sig: node.SignWithNonce(base.key, h[:], n)}
	cache[key] = t
	return t
}

// authorisedRef — written from the statement:
//
//	the sender side holds if the distinct keys of the canonical signatures made over exactly this
//	content satisfy the account's rule (own key / registered weights >= 100, each signer once);
//	a default-hash signature covers all 13 fields, a reimbursement-hash signature all but the gas terms;
//	whenever somebody else pays the gas, or the sender left the gas terms open, the gas payer's side
//	must hold too: distinct keys of canonical payer signatures made over exactly these gas terms and
//	exactly this sender signature list, under the paying account's rule.
func (w *world) authorisedRef(x *content, sigs [][]byte, st []*stok, pt []*ptok, from, payer *acct) (bool, refInfo) {
	var info refInfo
	eval := func(a *acct, n int, keyOf func(i int) *node.Key, canonical func(i int) bool, stale func(i int) []string, sig func(i int) []byte) sideInfo {
		var si sideInfo
		si.need = true
		si.multisig = a != nil && !a.plain()
		good := map[*node.Key]int{}
		goodNC := map[*node.Key]int{}
		bytesOf := map[*node.Key][][]byte{}
		staleSet := map[string]bool{}
		goodStale := map[*node.Key]int{}
		for i := 0; i < n; i++ {
			k := keyOf(i)
			if k == nil {
				continue
			}
			st := stale(i)
			if len(st) == 0 {
				goodNC[k]++
				if canonical(i) {
					good[k]++
					bytesOf[k] = append(bytesOf[k], sig(i))
				}
			}
			if canonical(i) {
				goodStale[k]++
				for _, f := range st {
					staleSet[f] = true
				}
			}
		}
		si.ok, si.distinct = rule(a, good)
		si.withRepeats = weightWithRepeats(a, good)
		for _, l := range bytesOf {
			for i := 1; i < len(l); i++ {
				if !bytes.Equal(l[0], l[i]) {
					si.repeatsDiffer = true
				}
			}
		}
		si.withNonCanon, _ = rule(a, goodNC)
		if okStale, _ := rule(a, goodStale); okStale && !si.ok {
			for f := range staleSet {
				si.staleFields = append(si.staleFields, f)
			}
			sort.Strings(si.staleFields)
		}
		return si
	}
	// payer side
	payerStale := func(i int) []string {
		var l []string
		t := pt[i]
		if t.gasPrice.Cmp(x.GasPrice) != 0 {
			l = append(l, "gasPrice")
		}
		if t.gasLimit != x.GasLimit {
			l = append(l, "gasLimit")
		}
		same := len(t.sigs) == len(sigs)
		for j := 0; same && j < len(sigs); j++ {
			same = bytes.Equal(t.sigs[j], sigs[j])
		}
		if !same {
			l = append(l, "sigs")
		}
		return l
	}
	info.payer = eval(payer, len(pt), func(i int) *node.Key { return pt[i].key }, func(i int) bool { return pt[i].canonical }, payerStale, func(i int) []byte { return pt[i].sig })
	// sender side, route 1: default-hash signatures only (the sender fixed the gas terms himself)
	staleOf := func(onlyDefault bool) func(i int) []string {
		return func(i int) []string {
			t := st[i]
			var l []string
			if onlyDefault && t.kind != kDefault {
				return []string{"(signing-hash)"}
			}
			for _, f := range diff(t.content, x) {
				if covered(t.kind, f) {
					l = append(l, f)
				}
			}
			return l
		}
	}
	keyOf := func(i int) *node.Key { return st[i].key }
	canon := func(i int) bool { return st[i].canonical }
	sg := func(i int) []byte { return st[i].sig }
	r1 := eval(from, len(st), keyOf, canon, staleOf(true), sg)
	r2 := eval(from, len(st), keyOf, canon, staleOf(false), sg)
	someoneElsePays := x.GasPayer != x.From
	route1 := r1.ok && (!someoneElsePays || info.payer.ok)
	route2 := r2.ok && info.payer.ok
	info.sender = r2
	info.payer.need = someoneElsePays || !r1.ok
	return route1 || route2, info
}

// cause names the class of a wrongly effective case (what the reference found missing).
func cause(c *Case, b *built) string {
	side, si, pre := "sender", b.info.sender, ""
	if si.ok {
		side, si, pre = "gas payer", b.info.payer, "gas-payer/"
	}
	_ = side
	switch {
	case si.multisig && si.withRepeats >= 100:
		// the signatures that do authorise this content reach the threshold only when a signer is counted more than once
		if si.repeatsDiffer {
			return "multisig-signer-counted-twice/second-nonce"
		}
		return "multisig-signer-counted-twice/identical-bytes"
	case len(si.staleFields) > 0:
		kind := c.Kind
		if pre != "" {
			kind = "gas-payer"
		}
		return fmt.Sprintf("tampered-field-effective/%s-hash/%s", kind, strings.Join(si.staleFields, "+"))
	case si.withNonCanon:
		return pre + "re-encoded-signature-counted"
	}
	cfgKind := "multisig"
	acc := b.from
	if pre != "" {
		acc = b.payer
	}
	if acc == nil {
		cfgKind = "unknown-account"
	} else if acc.plain() {
		cfgKind = "plain"
	}
	names := c.Sigs
	if pre != "" {
		names = c.PSigs
	}
	l := append([]string{}, names...)
	if len(l) > 6 {
		l = append(l[:6], "…")
	}
	return fmt.Sprintf("%sunauthorised-list-effective/%s/[%s]", pre, cfgKind, strings.Join(l, ","))
}

// ---------------------------------------------------------------------------------------------
// running a case

type verdict struct {
	packaged   bool
	applied    bool     // Process (validator path) applied the tx
	procErr    string   // Process error
	verifyErr  string   // VerifyTxBeforeApply on the case tx (refusal class / branch counter)
	touched    []string // watched accounts named in the block's change logs
	logs       int
	effective  bool
	node       string // whole-node verdict ("", accepted, rejected)
	block      *types.Block
	makeErr    string
	changedFor string
}

func (w *world) runMiner(b *built, v *verdict) {
	blk, _, err := w.f.Make(node.BlockSpec{Parent: w.head, Miner: node.Deputy(0), Time: tCase, Txs: types.Transactions{b.outer}, NoSave: true, Extra: "c06"})
	if err != nil {
		v.makeErr = err.Error()
		return
	}
	v.block = blk
	v.packaged = len(blk.Txs) == 1
	v.logs = len(blk.ChangeLogs)
	for _, a := range node.TouchedAddresses(blk) {
		if n, ok := w.watch[a]; ok {
			v.touched = append(v.touched, n)
		}
	}
}

// runProcess: the validator's transaction path (RunBlock -> Process) on the same parent state.
func (w *world) runProcess(b *built, v *verdict, classify bool) {
	node.SetSelf(node.Deputy(0))
	defer w.f.Use()
	am := account.NewManager(w.head.Hash(), w.f.DB)
	proc := transaction.NewTxProcessor(node.Founder().Addr, node.ChainID, parentLoader{w.f.DB}, am, w.f.DB, w.f.DM)
	hdr := w.empty.Header.Copy()
	var tx *types.Transaction
	if v.packaged {
		tx = node.CloneTx(v.block.Txs[0]) // carries the gas used, as in a received block
	} else {
		tx = node.CloneTx(b.outer)
	}
	_, err := proc.Process(hdr, types.Transactions{tx})
	switch err {
	case nil:
		v.applied = true
		v.procErr = "ok"
	case transaction.ErrTxGasUsedNotEqual:
		v.applied = true // executed; only the gas figure of the (discarded) tx does not match
		v.procErr = "applied(gas-used-differs)"
	default:
		v.procErr = err.Error()
	}
	// refusal class of the case transaction itself (branch counter); skipped for the long lists, where it
	// would be a third signature-recovery pass
	if !classify {
		v.verifyErr = "(long list: not classified)"
		return
	}
	am2 := account.NewManager(w.head.Hash(), w.f.DB)
	proc2 := transaction.NewTxProcessor(node.Founder().Addr, node.ChainID, parentLoader{w.f.DB}, am2, w.f.DB, w.f.DM)
	if e := proc2.VerifyTxBeforeApply(node.CloneTx(b.tx)); e != nil {
		v.verifyErr = e.Error()
	} else {
		v.verifyErr = "signatures-accepted"
	}
}

// handAssembled: an otherwise honest block by the deputy that carries the transaction the miner path
// discarded (TxRoot recomputed, header re-signed).
func (w *world) handAssembled(tx *types.Transaction) *types.Block {
	hdr := w.empty.Header.Copy()
	txs := types.Transactions{node.CloneTx(tx)}
	hdr.TxRoot = txs.MerkleRootSha()
	sd := node.SignConfirm(node.Deputy(0), hdr.Hash())
	hdr.SignData = sd[:]
	return types.NewBlock(hdr, txs, nil)
}

func (w *world) runNode(blk *types.Block, v *verdict) {
	n := w.validator()
	before := n.BC.CurrentBlock().Hash()
	err := n.BC.InsertBlock(node.Wire(blk))
	if err == nil && n.BC.HasBlock(blk.Hash()) {
		v.node = "accepted"
		w.vDirty = true
		w.vAccepted++
	} else {
		v.node = "rejected"
		if n.BC.CurrentBlock().Hash() != before {
			w.vDirty = true
		}
	}
	w.f.Use()
}

type runOut struct {
	v *verdict
	b *built
}

func (w *world) run(c *Case, r *core.Result, wholeNodeAll bool) (out runOut, viol []core.Violation) {
	defer func() {
		if p := recover(); p != nil {
			msg := fmt.Sprint(p)
			if strings.HasPrefix(msg, "harness:") {
				panic(p)
			}
			st := string(debug.Stack())
			viol = append(viol, core.Violation{Fingerprint: prop + "/panic/" + firstLine(msg), What: fmt.Sprintf("panic %q in case {%s}\n%s", firstLine(msg), c.String(), clip(st, 1500)), Replay: c})
			w.f.Use()
		}
	}()
	b := w.build(c)
	v := &verdict{}
	out = runOut{v, b}
	w.runMiner(b, v)
	if v.makeErr != "" {
		viol = append(viol, core.Violation{Fingerprint: prop + "/miner-path-error/" + firstLine(v.makeErr), What: fmt.Sprintf("MineBlock failed (%s) in case {%s}", v.makeErr, c.String()), Replay: c})
		return
	}
	w.runProcess(b, v, len(c.Sigs) <= 2 && len(c.PSigs) <= 2 || c.Canon || strings.HasPrefix(c.Fam, "F3"))
	v.effective = v.packaged || v.applied || len(v.touched) > 0

	// whole validator node
	class := fmt.Sprintf("%s|%s|%s|%s|%s|%v|%s|%v|%v", c.Fam, c.Cfg, c.Typ, c.Mode, c.Wrap, c.Tamper, v.verifyErr, v.packaged, b.auth)
	if v.packaged {
		// accepted blocks change the validator's chain: a fresh validator per run. One run per class
		// (thorough: finer classes), by the worker the class is assigned to; always for canonical forms
		// and for the small families.
		class = fmt.Sprintf("packaged|%s|%s|%s|%s|%v|%v", c.Cfg, c.Typ, c.Mode, c.Wrap, c.Tamper, b.auth)
		if core.Thorough() {
			class += fmt.Sprintf("|%d|%d", len(c.Sigs), len(c.PSigs))
		}
		mine := true
		if strings.HasPrefix(c.Fam, "F1") || strings.HasPrefix(c.Fam, "F2") {
			mine = int(crc32.ChecksumIEEE([]byte(class)))%w.shardN == w.shardI
		}
		if wholeNodeAll || c.Canon || (mine && !w.seenClass[class]) {
			w.runNode(v.block, v)
		}
	} else if !w.seenClass[class] {
		w.runNode(w.handAssembled(b.outer), v)
		if v.node == "accepted" {
			v.effective = true
		}
	}
	w.seenClass[class] = true

	where := func() string {
		var l []string
		if v.packaged {
			l = append(l, "miner packaged it")
		}
		if v.applied {
			l = append(l, "validator path (Process) applied it: "+v.procErr)
		}
		if !v.packaged && len(v.touched) > 0 {
			l = append(l, "discarded by the miner but change logs name "+strings.Join(v.touched, ","))
		}
		if v.node == "accepted" {
			l = append(l, "whole validator node accepted the block")
		}
		return strings.Join(l, "; ")
	}
	if v.effective && !b.auth {
		cs := cause(c, b)
		viol = append(viol, core.Violation{Fingerprint: prop + "/" + cs, What: fmt.Sprintf("unauthorised transaction is effective (%s): {%s}; reference: sender side ok=%v (distinct weight %d, with repeats %d), gas-payer side needed=%v ok=%v (distinct weight %d, with repeats %d); tx %s", where(), c.String(), b.info.sender.ok, b.info.sender.distinct, b.info.sender.withRepeats, b.info.payer.need, b.info.payer.ok, b.info.payer.distinct, b.info.payer.withRepeats, b.tx.String()), Replay: c})
	}
	if v.packaged != v.applied {
		viol = append(viol, core.Violation{Fingerprint: prop + "/miner-and-validator-path-disagree", What: fmt.Sprintf("packaged=%v but Process says %s: {%s}", v.packaged, v.procErr, c.String()), Replay: c})
	}
	if c.Canon {
		if !b.auth {
			panic("harness: canonical case not authorised by the reference: " + c.String())
		}
		switch {
		case !v.packaged:
			viol = append(viol, core.Violation{Fingerprint: fmt.Sprintf("%s/canonical-form-refused/miner/%s/%s/%s/%s", prop, c.Cfg, c.Typ, c.Mode, c.Wrap), What: fmt.Sprintf("the correctly signed transaction was discarded by the miner (%s): {%s}", v.verifyErr, c.String()), Replay: c})
		case len(v.touched) == 0:
			viol = append(viol, core.Violation{Fingerprint: fmt.Sprintf("%s/canonical-form-without-effect/%s/%s/%s/%s", prop, c.Cfg, c.Typ, c.Mode, c.Wrap), What: "packaged but no change log names an account of the case: " + c.String(), Replay: c})
		case v.node == "rejected":
			viol = append(viol, core.Violation{Fingerprint: fmt.Sprintf("%s/canonical-form-refused/validator-node/%s/%s/%s/%s", prop, c.Cfg, c.Typ, c.Mode, c.Wrap), What: "the miner's block with the correctly signed transaction was rejected by a validator node: " + c.String(), Replay: c})
		}
	}
	if r != nil {
		r.Add("evaluations", 1)
		r.Add("miner_path_runs", 1)
		r.Add("validator_process_runs", 1)
		if v.node != "" {
			r.Add("validator_node_inserts", 1)
			r.Add("validator_node_"+v.node, 1)
		}
		if v.packaged {
			r.Add("packaged", 1)
		} else {
			r.Add("discarded", 1)
			if v.logs == 0 {
				r.Add("discarded_with_empty_change_logs", 1)
			}
		}
		if b.auth {
			r.Add("authorised_by_reference", 1)
			if !v.effective {
				r.Add("authorised_but_refused(not asserted)", 1)
			}
		}
		if c.Canon && v.packaged {
			r.Add("canonical_forms_accepted", 1)
		}
		r.Add("branch/"+v.verifyErr, 1)
		if c.Tamper != "" {
			h := c.Kind + "-hash"
			if c.Payer != "" && (c.Tamper == "gasPrice" || c.Tamper == "gasLimit" || c.Tamper == "sigs") {
				h = "gas-payer-hash"
			}
			k := fmt.Sprintf("tamper/%s/%s", h, c.Tamper)
			if c.Resign {
				k += "(payer re-signed)"
			}
			if v.effective {
				r.Add(k+"/effective", 1)
			} else {
				r.Add(k+"/ineffective", 1)
			}
		}
		authS := "unauth"
		if b.auth {
			authS = "auth"
		}
		acc := "multisig"
		if c.Cfg == "plain" {
			acc = "plain"
		}
		r.Outcome(fmt.Sprintf("%s/%s/%s/%s/%s/packaged=%v/%s/%s", strings.SplitN(c.Fam, "/", 2)[0], acc, c.Mode, c.Wrap, c.Tamper, v.packaged, authS, v.verifyErr))
	}
	return
}

func firstLine(s string) string {
	if i := strings.IndexByte(s, '\n'); i >= 0 {
		s = s[:i]
	}
	if len(s) > 100 {
		s = s[:100]
	}
	return s
}

func clip(s string, n int) string {
	if len(s) > n {
		return s[:n]
	}
	return s
}

// ---------------------------------------------------------------------------------------------
// shrinking (parent process, only when something was found)

func shrink(w *world, c Case, fp string) Case {
	still := func(x Case) bool {
		if x.Typ == "box" && x.Wrap == "boxed" {
			return false
		}
		_, vs := w.run(&x, nil, false)
		for _, v := range vs {
			if v.Fingerprint == fp {
				return true
			}
		}
		return false
	}
	for changed := true; changed; {
		changed = false
		try := func(x Case) {
			if !changed && still(x) {
				c, changed = x, true
			}
		}
		if c.Wrap != "bare" {
			x := c
			x.Wrap = "bare"
			try(x)
		}
		if c.Typ != "transfer" {
			x := c
			x.Typ = "transfer"
			try(x)
		}
		if c.Payer != "" && c.Tamper == "" {
			x := c
			x.Payer, x.Mode, x.Kind, x.PSigs, x.PSigsOver = "", "none", kDefault, []string{}, nil
			try(x)
		}
		for i := 0; i < len(c.Sigs); i++ { // try may have replaced c by a smaller case
			x := c
			x.Sigs = append(append([]string{}, c.Sigs[:i]...), c.Sigs[i+1:]...)
			x.Canon = false
			try(x)
		}
		for i := 0; i < len(c.PSigs); i++ {
			x := c
			x.PSigs = append(append([]string{}, c.PSigs[:i]...), c.PSigs[i+1:]...)
			x.Canon = false
			if len(x.PSigs) > 0 {
				try(x)
			}
		}
	}
	return c
}

// ---------------------------------------------------------------------------------------------

func main() {
	core.ParseFlags()
	node.Quiet()
	node.DropEngineGoroutines() // see mc/node/tasks.go

	if core.Opt.Replay != "" {
		var c Case
		if err := core.LoadReplay(core.Opt.Replay, &c); err != nil {
			fmt.Println(err)
			os.Exit(2)
		}
		if c.Cfg == "m100x1" {
			core.Opt.Tier = "thorough" // the 100-signer account exists only in the thorough prefix
		}
		w := newWorld()
		defer w.close()
		bad := false
		for i := 0; i < 2; i++ {
			out, vs := w.run(&c, nil, true)
			fmt.Printf("replay run %d: {%s}\n  tx: %s\n  authorisedRef=%v packaged=%v process=%s verify=%s touched=%v node=%s\n", i+1, c.String(), out.b.tx.String(), out.b.auth, out.v.packaged, out.v.procErr, out.v.verifyErr, out.v.touched, out.v.node)
			for _, v := range vs {
				fmt.Printf("VIOLATION-REPLAYED %s\n%s\n", v.Fingerprint, v.What)
				bad = true
			}
		}
		if bad {
			w.close()
			os.Exit(1)
		}
		return
	}

	if i, n, ok := core.IsWorker(); ok {
		if pf := os.Getenv("C06_CPUPROFILE"); pf != "" {
			f, _ := os.Create(pf)
			pprof.StartCPUProfile(f)
			defer pprof.StopCPUProfile()
		}
		r := core.NewResult(prop, "exploration")
		w := newWorld()
		w.shardI, w.shardN = i, n
		idx := 0
		stopped := false
		var first *Case
		var firstHash common.Hash
		enumerate(func(c Case) {
			k := idx
			idx++
			if stopped || k%n != i {
				return
			}
			if core.OutOfTime() {
				r.NotExhaustive(fmt.Sprintf("internal deadline at case %d", k))
				stopped = true
				return
			}
			core.Journal(c.String())
			out, vs := w.run(&c, r, false)
			for _, v := range vs {
				r.Violate(v.Fingerprint, v.What, v.Replay)
			}
			if first == nil && out.v != nil && out.v.block != nil && out.v.packaged {
				cc := c
				first, firstHash = &cc, out.v.block.Hash()
			}
			if k%4999 == 0 && out.v != nil {
				r.Sample(fmt.Sprintf("{%s} => authorisedRef=%v packaged=%v process=%s signature-check=%s", c.String(), out.b.auth, out.v.packaged, out.v.procErr, out.v.verifyErr))
			}
		})
		// the factory database was never written by the cases: the first packaged case still gives the same block
		if first != nil {
			out, _ := w.run(first, nil, false)
			if out.v == nil || out.v.block == nil || out.v.block.Hash() != firstHash {
				r.Violate(prop+"/harness/factory-not-side-effect-free", "re-running the first packaged case at the end gives another block: "+first.String(), first)
			} else {
				r.Add("side_effect_check_passed", 1)
			}
		}
		r.Add("validator_nodes_created", int64(w.vCreates))
		w.close()
		pprof.StopCPUProfile()
		core.WorkerDone(r)
	}

	r := core.NewResult(prop, "exploration")
	total := 0
	perFam := map[string]int{}
	canon := 0
	enumerate(func(c Case) {
		total++
		perFam[strings.SplitN(c.Fam, "/", 2)[0]]++
		if c.Canon {
			canon++
		}
	})
	r.Rule = "every case of the families F1 (sender configuration x tx type x every sender signature list up to the length bound over the token alphabet x gas-payer arrangement x bare/boxed), F2 (every gas-payer signature list), F3 (every signed field changed after signing, with the original and with renewed payer signatures, for the default, reimbursement and gas-payer signing hashes), F4 (signature made with the other signing hash), F5 (100 weight-1 signers, long lists) is run on MineBlock and on Process, and the block is given to a whole validator node for every packaged case (quick: one per class) and for one case of every refusal class; an outcome is (family, account kind, payer arrangement, wrapping, tampered field, packaged, reference verdict, signature-check error)"
	r.Assume = []string{
		"single-deputy chain; accounts funded and converted to multi-signature by real ModifySignersTx blocks built by the real assembler",
		"reference authorisation is computed from the provenance of every signature (key, signed content, signing hash, canonical encoding), never from the repo's hash/recover code",
		"a re-encoded (high-s) signature does not count as authorisation; a reimbursement-hash signature leaves the gas terms to the gas payer, whose signature must be over exactly these gas terms and this sender signature list",
		"one direction only: effective => authorised; refusal of an authorised but unusual list is not a violation",
		"a box inside a box is not producible (checkBoxTx) and is left out",
	}
	r.Extra["cases_total"] = total
	r.Extra["cases_per_family"] = perFam
	r.Extra["canonical_forms_expected"] = canon
	r.Extra["sender_alphabet"] = senderAlphabet("m5050")
	r.Extra["payer_alphabet"] = payerAlphabet["PM"]
	core.RunShards(r, core.Opt.Workers, nil, core.Opt.Budget+2*time.Minute, func(i int, tail, journal string) {
		r.Violate(prop+"/worker-died/"+firstLine(lastPanicLine(tail)), fmt.Sprintf("worker %d died while running case {%s}:\n%s", i, journal, clip(tail, 3000)), map[string]string{"case": journal})
	})
	if r.Counters["canonical_forms_accepted"] != int64(canon) && r.Exhaustive {
		r.Note("canonical forms accepted: %d of %d", r.Counters["canonical_forms_accepted"], canon)
	}
	if r.Counters["evaluations"] != int64(total) && r.Exhaustive {
		r.NotExhaustive(fmt.Sprintf("%d of %d cases evaluated", r.Counters["evaluations"], total))
	}
	// Which shard reports a fingerprint first depends on timing: replace every example by the first
	// case with that fingerprint in a fixed simplest-first list, else shrink it; confirm it twice.
	if len(r.Violations) > 0 {
		w := newWorld()
		want := map[string]*Case{}
		for _, v := range r.Violations {
			want[v.Fingerprint] = nil
		}
		for pass := 0; pass < 2; pass++ { // first without a gas payer, then the rest
			enumerate(func(c Case) {
				if c.Typ != "transfer" || c.Wrap != "bare" || len(c.Sigs) > 3 || len(c.PSigs) > 2 || (pass == 0) != (c.Mode == "none") {
					return
				}
				simple := strings.HasPrefix(c.Fam, "F1") && (c.Mode == "none" && len(c.Sigs) <= 2 || eqList(c.Sigs, canonList(c.Cfg))) ||
					strings.HasPrefix(c.Fam, "F2") && c.Cfg == "plain" || strings.HasPrefix(c.Fam, "F3") && (c.Cfg == "plain" || c.Cfg == "m5050")
				if !simple {
					return
				}
				todo := false
				for _, x := range want {
					if x == nil {
						todo = true
					}
				}
				if !todo {
					return
				}
				_, vs := w.run(&c, nil, false)
				for _, x := range vs {
					if cur, ok := want[x.Fingerprint]; ok && cur == nil {
						cc := c
						want[x.Fingerprint] = &cc
					}
				}
			})
		}
		for i := range r.Violations {
			v := &r.Violations[i]
			var m Case
			if c := want[v.Fingerprint]; c != nil {
				m = *c
			} else if c, ok := toCase(v.Replay); ok {
				m = shrink(w, c, v.Fingerprint)
			} else {
				continue
			}
			confirmed := 0
			var what string
			for k := 0; k < 2; k++ {
				_, vs := w.run(&m, nil, true)
				for _, x := range vs {
					if x.Fingerprint == v.Fingerprint {
						confirmed++
						what = x.What
					}
				}
			}
			if confirmed == 2 {
				v.What, v.Replay = what+" [minimised; reproduced twice]", m
			} else {
				r.Note("violation %s was not reproduced twice in the parent process (%d/2)", v.Fingerprint, confirmed)
			}
		}
		w.close()
	}
	core.Finish(r)
}

func toCase(x interface{}) (Case, bool) {
	b, err := json.Marshal(x)
	if err != nil {
		return Case{}, false
	}
	var c Case
	if err := json.Unmarshal(b, &c); err != nil || c.Cfg == "" {
		return Case{}, false
	}
	return c, true
}

func lastPanicLine(tail string) string {
	for _, l := range strings.Split(tail, "\n") {
		if strings.HasPrefix(l, "panic:") || strings.HasPrefix(l, "fatal error:") {
			return l
		}
	}
	return "no panic line"
}

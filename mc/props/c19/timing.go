package main

import (
	"fmt"
	"os"
	"time"

	"verifmc/sched"
)

// timing prints where the time of one execution goes (development aid: VERIF_C19_TIMING=<scenario>).
func timing(name string) {
	theWorld = buildWorld()
	installHook()
	for i := range scenarios {
		sc := &scenarios[i]
		if sc.Name != name {
			continue
		}
		for rep := 0; rep < 5; rep++ {
			t0 := time.Now()
			resetHook()
			in := newInst(theWorld)
			t1 := time.Now()
			in.destroy()
			t2 := time.Now()
			var in2 *inst
			var tp time.Time
			x := sched.RunX(sched.XCfg{Watchdog: watchdog, AtomicLoad: atomicLoad, Learn: true}, func(s *sched.Sched) {
				var bg []bgTask
				in2, bg = sc.prepare()
				tp = time.Now()
				sc.startThreads(s, in2, bg)
			})
			t3 := time.Now()
			ob := in2.observe()
			t4 := time.Now()
			in2.destroy()
			t5 := time.Now()
			fmt.Fprintf(os.Stderr, "newInst %v destroy %v | prepare(newInst+prefix) %v run %v (%d steps) observe %v destroy %v | %d chars\n", t1.Sub(t0), t2.Sub(t1), tp.Sub(t2), t3.Sub(tp), x.Steps, t4.Sub(t3), t5.Sub(t4), len(ob.Outcome))
		}
	}
}

package main

import (
	"encoding/json"
	"fmt"
	"os"
	"path/filepath"
	"sort"
	"strings"
	"sync"
	"sync/atomic"
	"time"

	"verifmc/core"
	"verifmc/sched"
)

// ---------------------------------------------------------------------------------------------
// parent: shards -> worker processes, rounds until no shard learned a preemption-point class late

func parent() {
	r := core.NewResult(prop, "model_checking")
	r.Rule = "controlled scheduler (mc/sched RunX) on the real consensus.DPoVP over a real store.ChainDatabase; node = deputy 3 of 4. " +
		"Per scenario the request threads plus every goroutine the engine starts (double-mining judge, batch confirmer of newly stable blocks, delayed confirm fetch with its timer callback; " +
		"the confirm broadcast and the stable/current feed notifications pass no scheduling point and run at their go statement) are executed under every schedule whose context switches are " +
		"(a) at the end or at the blocking of the running thread (free), (b) at the yield between two requests of one client, or (c) one of at most preemption_bound preemptions placed in front of an " +
		"operation of a learned preemption-point class: an operation (lock, unlock, atomic, announced access) on an object that another thread may operate on, non-commuting, without a common lock that " +
		"excludes the two (computed from the locksets of all executed schedules; the exploration of a scenario restarts when the set grows; preemptions in front of all other operations only " +
		"reorder independent steps). Search: best-first in the number of preemptions; a decision state (hash of the dependence partial order of the executed prefix: program order, thread start, " +
		"order of non-commuting operations per lock / atomic / announced variable; plus the running thread) already expanded with at most as many preemptions is not expanded again. " +
		"Every execution is checked for data races with vector clocks (happens-before over program order, go statements, lock release/acquire, atomics) on the announced variables " +
		"sigCache.Hash/Sig, Confirmer.lastSig, ChainDatabase.LastConfirm/UnConfirmBlocks, Block.Confirms, Manager.termList/evilDeputies, and for co-enabled conflicting accesses. " +
		"ChainDatabase.Beansdb is announced as a stand-in for the store's records (writers: setBlock2DB, blockCommit, SetContractCode): it orders store reads and writes in the dependence relation and " +
		"makes them preemption points where no lock excludes them, but is not reported as a data race (the store synchronises itself). " +
		"states = distinct decision states expanded, transitions = scheduling steps executed, evaluations = complete schedules executed and checked; " +
		"distinct outcome = (scenario, per-request results, stable, head, stored blocks with signer sets, lastSig, sigCache validity, black list, pool, confirms / fetch requests / notifications emitted)"
	r.Assume = []string{
		"sequential reference: every order of whole units (requests and the engine's background goroutines), requests of one client in program order, a background unit after the unit that started it",
		"the store's background writer (file_queue / sync_file_db) runs free and uninstrumented; the determinism gate (first schedule of every scenario twice, identical trace and outcome) is what shows that readers cannot see its progress",
		"accesses to memory outside the announced variable list are assumed to be ordered by the instrumented locks (the free-running -race pass of race.sh is supporting evidence for that, not a verdict)",
		"virtual clock fixed at genesis+25s; block tree and confirm packets as listed in extra.scenarios; channels are not modelled (every feed has a buffered subscriber that the harness drains after the execution)",
		"a preemption bound is a bound on preemptions at the learned preemption-point classes; switches at thread end / blocking are unbounded",
	}
	scs := make([]interface{}, 0)
	for i := range scenarios {
		if scenarios[i].Thorough && !core.Thorough() {
			continue
		}
		scs = append(scs, scenarios[i])
	}
	r.Extra["scenarios"] = scs
	r.Extra["world"] = "g-a1(d0,+transfer)-{a2(d1),a2x(d1),a2m(d2),a2t(d1,+transfer)}; g-b1(d1)-b2(d2)-b3(d0); node=d3; clock=genesis+25s"

	dir := core.ScratchDir("c19p")
	defer os.RemoveAll(dir)
	seeds := map[string][]string{}
	final := map[string]map[int]*scStats{}
	outcomes := map[string]map[string]int{}
	only := os.Getenv("VERIF_C19_ONLY")
	nWorkers := core.Opt.Workers
	if n := len(units()); n < nWorkers {
		nWorkers = n
	}
	perWorker := core.Opt.Budget + 2*time.Minute
	gateFailed := []string{}
	for round := 0; round < 5; round++ {
		sf := filepath.Join(dir, fmt.Sprintf("seeds%d.json", round))
		b, _ := json.Marshal(seeds)
		os.WriteFile(sf, b, 0644)
		os.Setenv("VERIF_C19_SEEDS", sf)
		os.Setenv("VERIF_C19_ONLY", only)
		rr := core.NewResult(prop, "model_checking")
		core.RunShards(rr, nWorkers, nil, perWorker, func(i int, tail, journal string) {
			fmt.Fprintf(os.Stderr, "worker %d died near {%s}:\n%s\n", i, strings.TrimSpace(journal), clip(tail, 4000))
		})
		rerun := map[string]bool{}
		var lateWhat []string
		for k, v := range rr.Extra {
			switch {
			case strings.HasPrefix(k, "gate-failed/"):
				gateFailed = append(gateFailed, fmt.Sprint(v))
			case strings.HasPrefix(k, "late/"):
				p := strings.Split(k, "/")
				for _, s := range v.([]interface{}) {
					seeds[p[1]] = append(seeds[p[1]], s.(string))
					lateWhat = append(lateWhat, p[1]+": "+s.(string))
				}
				rerun[p[1]] = true
			}
		}
		for k, v := range rr.Extra {
			p := strings.Split(k, "/")
			if len(p) != 3 || rerun[p[1]] {
				continue
			}
			var sh int
			fmt.Sscanf(p[2], "%d", &sh)
			raw, _ := json.Marshal(v)
			switch p[0] {
			case "unit":
				st := &scStats{}
				json.Unmarshal(raw, st)
				if final[p[1]] == nil {
					final[p[1]] = map[int]*scStats{}
				}
				final[p[1]][sh] = st
			case "outcomes":
				m := map[string]int{}
				json.Unmarshal(raw, &m)
				if outcomes[p[1]] == nil {
					outcomes[p[1]] = map[string]int{}
				}
				for o, n := range m {
					outcomes[p[1]][o] += n
				}
			}
		}
		for k := range rr.Extra {
			if strings.HasPrefix(k, "unit/") || strings.HasPrefix(k, "outcomes/") || strings.HasPrefix(k, "late/") || strings.HasPrefix(k, "gate-failed/") {
				delete(rr.Extra, k)
			}
		}
		r.Merge(rr)
		if len(rerun) == 0 || len(gateFailed) > 0 {
			break
		}
		var l []string
		for s := range rerun {
			l = append(l, s)
			delete(final, s)
			delete(outcomes, s)
		}
		sort.Strings(l)
		only = strings.Join(l, ",")
		sort.Strings(lateWhat)
		r.Note("round %d: scenarios %s restarted in all shards: a shard learned a new preemption-point class after the learning phase (%s)", round, only, strings.Join(lateWhat, "; "))
		if core.OutOfTime() {
			r.NotExhaustive("deadline before the restarted scenarios " + only + " could be explored")
			break
		}
	}
	if len(gateFailed) > 0 {
		sort.Strings(gateFailed)
		for _, g := range gateFailed {
			fmt.Fprintln(os.Stderr, "infrastructure error: determinism gate:", g)
		}
		os.Exit(2)
	}
	// per scenario summary
	per := map[string]interface{}{}
	classes := map[string][]string{}
	for i := range scenarios {
		sc := &scenarios[i]
		if sc.Thorough && !core.Thorough() {
			continue
		}
		shards := final[sc.Name]
		if os.Getenv("VERIF_C19_ONLY") != "" && len(shards) == 0 && !strings.Contains(","+os.Getenv("VERIF_C19_ONLY")+",", ","+sc.Name+",") {
			continue
		}
		sum := &scStats{Bound: sc.bound(), BoundDone: sc.bound(), Shards: sc.shards(), Threads: map[string]int{}}
		if len(shards) < sc.shards() {
			sum.BoundDone = -1
		}
		for _, st := range shards {
			sum.Schedules += st.Schedules
			sum.Steps += st.Steps
			sum.Expanded += st.Expanded
			sum.PrunedAtSeen += st.PrunedAtSeen
			if st.MaxPreempt > sum.MaxPreempt {
				sum.MaxPreempt = st.MaxPreempt
			}
			if st.BoundDone < sum.BoundDone {
				sum.BoundDone = st.BoundDone
			}
			if st.MaxThreads > sum.MaxThreads {
				sum.MaxThreads = st.MaxThreads
			}
			if st.WallS > sum.WallS {
				sum.WallS = st.WallS
			}
			sum.CPUS += st.CPUS
			sum.WriterSections = st.WriterSections
			sum.SeqOrders, sum.SeqOutcomes = st.SeqOrders, st.SeqOutcomes
			sum.Restarts += st.Restarts
			sum.Truncated = sum.Truncated || st.Truncated
			for k, v := range st.Threads {
				sum.Threads[k] += v
			}
			sum.DistinctFinals += st.DistinctFinals
			classes[sc.Name] = st.BranchSites
		}
		sum.Distinct = len(outcomes[sc.Name])
		sum.SeqReached = sum.Distinct // every non-sequential outcome is a violation
		r.Add("states", sum.Expanded)
		r.Add("schedules", int64(sum.Schedules))
		per[sc.Name] = sum
		if sum.BoundDone < sc.bound() {
			r.NotExhaustive(fmt.Sprintf("scenario %s: preemption bound %d not completed inside the budget (completed: bound %d; %d schedules executed)", sc.Name, sc.bound(), sum.BoundDone, sum.Schedules))
		}
		if sum.Schedules > 0 && len(shards) == sc.shards() && sum.Distinct < 1 {
			r.NotExhaustive("scenario " + sc.Name + ": no outcome recorded")
		}
	}
	r.Extra["per_scenario"] = per
	r.Extra["preemption_point_classes"] = classes
	if os.Getenv("VERIF_C19_WRITE_CLASSES") != "" {
		// refresh the accelerator file from this run (labels only)
		out := map[string][]string{}
		for sc, l := range classes {
			out[sc] = append(out[sc], l...)
		}
		for sc, v := range per {
			for _, w := range v.(*scStats).WriterSections {
				out[sc] = append(out[sc], "W:"+w)
			}
			sort.Strings(out[sc])
			out[sc] = uniq(out[sc])
		}
		b, _ := json.MarshalIndent(out, "", " ")
		os.WriteFile(classesFile, b, 0644)
	}
	r.Extra["determinism_gate"] = map[string]interface{}{"passed": true, "what": "first schedule of every scenario executed twice: identical scheduling trace (threads, operations, sites) and identical outcome; a third run with the inlined goroutines as threads shows that they pass no scheduling point"}
	r.Extra["race_detector_pass"] = "not part of the verdict: props/c19/race.sh [reps] runs the same scenario bodies free-running under go build -race"
	// coverage self-check: the announced variables and the engine's goroutines must have been exercised
	for _, need := range []string{"spawn/batch", "spawn/fetch", "spawn/judge", "spawn/broadcast"} {
		if r.Counters[need] == 0 && os.Getenv("VERIF_C19_ONLY") == "" {
			r.NotExhaustive("coverage: " + need + " never happened")
		}
	}
	hit := map[string]bool{}
	for k := range r.Counters {
		if strings.HasPrefix(k, "access/") {
			for _, v := range []string{"sigCache.Hash", "sigCache.Sig", "lastSig", "LastConfirm", "UnConfirmBlocks", "Confirms", "termList", "evilDeputies"} {
				if strings.Contains(k, " of "+v+" ") {
					hit[v] = true
				}
			}
		}
	}
	for _, v := range []string{"sigCache.Hash", "sigCache.Sig", "lastSig", "LastConfirm", "UnConfirmBlocks", "Confirms", "termList", "evilDeputies"} {
		if !hit[v] && os.Getenv("VERIF_C19_ONLY") == "" {
			r.NotExhaustive("coverage: no announced access to " + v + " was executed")
		}
	}
	core.Finish(r)
}

// ---------------------------------------------------------------------------------------------
// replay of a recorded schedule

func replay() {
	var rp replayRec
	if err := core.LoadReplay(core.Opt.Replay, &rp); err != nil {
		fmt.Println(err)
		os.Exit(2)
	}
	var sc *scenario
	for i := range scenarios {
		if scenarios[i].Name == rp.Scenario {
			sc = &scenarios[i]
		}
	}
	if sc == nil {
		fmt.Println("unknown scenario", rp.Scenario)
		os.Exit(2)
	}
	theWorld = buildWorld()
	installHook()
	seq := sc.sequential()
	fmt.Printf("replay scenario %s schedule %v (%d sequential orders, %d sequential outcomes)\n", sc.Name, rp.Dev, seq.Orders, len(seq.Outcomes))
	failed := 0
	const reps = 5
	for i := 0; i < reps; i++ {
		r := core.NewResult(prop, "model_checking")
		st := &scStats{Outcomes: map[string]int{}, Threads: map[string]int{}, FinalStates: map[string]bool{}}
		var in *inst
		x := sched.RunX(sched.XCfg{Choices: rp.Dev, Watchdog: watchdog, Trace: true, AtomicLoad: atomicLoad, AccessWrite: storeWrite, NoRace: storeProxy}, func(s *sched.Sched) {
			var bg []bgTask
			in, bg = sc.prepare()
			sc.startThreads(s, in, bg)
		})
		if x.S.Stuck != "" || x.S.Diverged != "" {
			fmt.Println("  run", i, "scheduler:", x.S.Stuck, x.S.Diverged)
			in.destroy()
			continue
		}
		sc.check(r, st, seq, in, x, rp.Dev, true)
		in.destroy()
		if len(r.Violations) > 0 {
			failed++
		}
		if i == 0 {
			if os.Getenv("VERIF_C19_TRACE") != "" {
				for k, e := range x.Trace {
					fmt.Printf("    %4d %s   [%s]\n", k, e, label(e[strings.Index(e, ":")+1:strings.Index(e, "@")], e[strings.Index(e, "@")+1:]))
				}
			}
			for o := range st.Outcomes {
				fmt.Println("  outcome:", o)
			}
		}
		for _, v := range r.Violations {
			fmt.Printf("  run %d VIOLATION-REPLAYED %s\n    %s\n", i, v.Fingerprint, clip(v.What, 1200))
		}
	}
	fmt.Printf("replay: %d of %d runs fail\n", failed, reps)
	if failed > 0 {
		os.Exit(1)
	}
}

// ---------------------------------------------------------------------------------------------
// free-running mode (race.sh): the same scenario bodies on plain goroutines, no scheduler

var timerMu sync.Mutex

func freeRun() {
	reps := 50
	fmt.Sscanf(os.Getenv("VERIF_C19_FREERUN"), "%d", &reps)
	theWorld = buildWorld()
	installHook()
	bad := 0
	outcomes := map[string]map[string]int{}
	panics := map[string]int{}
	notSeq := map[string]int{}
	for i := range scenarios {
		sc := &scenarios[i]
		seq := sc.sequential()
		outcomes[sc.Name] = map[string]int{}
		for rep := 0; rep < reps; rep++ {
			in, bg := sc.prepare()
			var panicked atomic.Value
			freeRunning = true
			var wg sync.WaitGroup
			start := make(chan struct{})
			for ti, reqs := range sc.Threads {
				ti, reqs := ti, reqs
				wg.Add(1)
				go func() {
					defer wg.Done()
					<-start
					for _, req := range reqs {
						func() {
							defer func() {
								if p := recover(); p != nil {
									in.record(fmt.Sprintf("T%d", ti), req, fmt.Sprintf("PANIC %v", p))
									panicked.Store(fmt.Sprintf("request %q panics: %v", req, p))
								}
							}()
							in.record(fmt.Sprintf("T%d", ti), req, in.do(req))
						}()
					}
				}()
			}
			for _, t := range bg {
				t := t
				wg.Add(1)
				go func() { defer wg.Done(); <-start; t.f() }()
			}
			close(start)
			wg.Wait()
			freeWG.Wait()
			freeRunning = false
			ob := in.observe()
			in.destroy()
			if p := panicked.Load(); p != nil {
				bad++
				panics[sc.Name+": "+p.(string)]++
			}
			outcomes[sc.Name][ob.Outcome]++
			for _, b := range ob.Bad {
				bad++
				fmt.Printf("FREE-RUN scenario %s: %s\n", sc.Name, b[1])
			}
			if _, ok := seq.Outcomes[ob.Outcome]; !ok {
				bad++
				notSeq[sc.Name+": "+ob.Outcome]++
			}
		}
		fmt.Printf("free-run %-32s reps=%d distinct outcomes=%d (sequential outcomes %d)\n", sc.Name, reps, len(outcomes[sc.Name]), len(seq.Outcomes))
	}
	for k, n := range panics {
		fmt.Printf("FREE-RUN %d x %s\n", n, k)
	}
	for k, n := range notSeq {
		fmt.Printf("FREE-RUN %d x outcome not sequential: %s\n", n, clip(k, 400))
	}
	if bad > 0 {
		os.Exit(1)
	}
}

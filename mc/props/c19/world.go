package main

// The fixed world of the C19 harness: four deputies d0..d3, the node under test is d3. A block
// tree above genesis is mined once per process by the block factory (its own database, its own
// key); blocks travel to the node under test as RLP bytes, confirm packets are signed with the
// deputies' keys.
//
//	g ─┬─ a1(d0, carries a transfer founder->u1) ─┬─ a2 (d1)
//	   │                                          ├─ a2x(d1, same height, same parent: double mining)
//	   │                                          ├─ a2m(d2)
//	   │                                          └─ a2t(d1, carries a transfer founder->u2 of 3 LEMO)
//	   └─ b1(d1) ── b2(d2) ── b3(d0)
//
// The virtual clock stands at genesis+25s: every block above is in the past, and d3 (the node) is
// in turn to mine on a1.

import (
	"fmt"
	"sort"
	"strings"

	"verifmc/core"
	"verifmc/node"
	"verifmc/vclock"
	"verifmc/vtask"

	"github.com/LemoFoundationLtd/lemochain-core/chain/types"
	"github.com/LemoFoundationLtd/lemochain-core/common"
	"github.com/LemoFoundationLtd/lemochain-core/common/rlp"
)

const (
	nDeputies = 4
	selfIndex = 3
	clockOff  = 25
)

type world struct {
	enc        map[string][]byte
	hash       map[string]common.Hash
	height     map[string]uint32
	name       map[common.Hash]string
	poolTx     *types.Transaction
	minedNames map[common.Hash]string // blocks the node under test mined in any execution (names are hash independent)
	u1, u2     common.Address
	genesis    common.Hash
}

var treeSpec = []string{"a1<g@0", "a2<a1@1", "a2x<a1@1", "a2m<a1@2", "b1<g@1", "b2<b1@2", "b3<b2@0", "a2t<a1@1"}

func buildWorld() *world {
	vclock.SetUnix(int64(node.GenesisTime) + clockOff)
	vtask.SetPolicy(vtask.Drop) // nothing of the factory runs in the background
	dir := core.ScratchDir("c19f")
	f := node.NewFactory(dir, nDeputies)
	defer f.Destroy()
	w := &world{minedNames: map[common.Hash]string{}, enc: map[string][]byte{}, hash: map[string]common.Hash{}, height: map[string]uint32{}, name: map[common.Hash]string{}}
	w.u1, w.u2 = node.User(1).Addr, node.User(2).Addr
	exp := uint64(node.GenesisTime) + 600
	w.poolTx = node.Transfer(node.Founder(), w.u2, node.Lemo(2), exp)
	g := f.BC.Genesis()
	w.genesis = g.Hash()
	w.name[g.Hash()] = "g"
	w.hash["g"] = g.Hash()
	blocks := map[string]*types.Block{"g": g}
	for _, e := range treeSpec {
		lt, at := strings.Index(e, "<"), strings.Index(e, "@")
		bn, pn := e[:lt], e[lt+1:at]
		var m int
		fmt.Sscanf(e[at+1:], "%d", &m)
		parent := blocks[pn]
		miner := node.Deputy(m)
		t, ok := node.SlotTime(f.DM, parent, miner, nDeputies)
		if !ok {
			panic("harness: no slot for " + bn)
		}
		var txs types.Transactions
		switch bn {
		case "a1":
			txs = types.Transactions{node.Transfer(node.Founder(), w.u1, node.Lemo(1), exp)}
		case "a2t": // a block that extends the a branch with a transaction of its own (distinct from a1's and from the pool transaction)
			txs = types.Transactions{node.Transfer(node.Founder(), w.u2, node.Lemo(3), exp)}
		}
		blk, invalid, err := f.Make(node.BlockSpec{Parent: parent, Miner: miner, Time: t, Txs: txs, Extra: bn})
		if err != nil || len(invalid) > 0 {
			panic(fmt.Sprintf("harness: cannot build %s: %v (invalid txs %d)", bn, err, len(invalid)))
		}
		if int64(t) > int64(node.GenesisTime)+clockOff {
			panic("harness: block " + bn + " is in the future of the virtual clock")
		}
		if len(blk.Txs) != len(txs) {
			panic("harness: block " + bn + " does not carry its transactions")
		}
		blocks[bn] = blk
		enc, err := rlp.EncodeToBytes(blk)
		if err != nil {
			panic(err)
		}
		w.enc[bn] = enc
		w.hash[bn] = blk.Hash()
		w.height[bn] = blk.Height()
		w.name[blk.Hash()] = bn
	}
	vtask.Reset()
	return w
}

// block decodes a fresh copy (what the network layer hands to InsertBlock).
func (w *world) block(name string) *types.Block {
	var out types.Block
	if err := rlp.DecodeBytes(w.enc[name], &out); err != nil {
		panic(err)
	}
	return &out
}

func (w *world) nameOf(b *types.Block) string {
	if b == nil {
		return "nil"
	}
	if n, ok := w.name[b.Hash()]; ok {
		return n
	}
	pn := w.name[b.ParentHash()]
	if pn == "" {
		pn = "?"
	}
	return fmt.Sprintf("mined(h=%d on %s txs=%d)", b.Height(), pn, len(b.Txs))
}

func (w *world) nameOfHash(h common.Hash, height uint32) string {
	if n, ok := w.name[h]; ok {
		return n
	}
	if n, ok := w.minedNames[h]; ok {
		return n
	}
	return fmt.Sprintf("other(h=%d)", height)
}

// signers renders the deputies whose signatures are in confirms (over hash), sorted; a signature
// that does not recover to a deputy shows as INVALID.
func signers(hash common.Hash, confirms []types.SignData) string {
	var l []string
	for _, c := range confirms {
		id, err := c.RecoverNodeID(hash)
		n := "INVALID"
		if err == nil {
			for i := 0; i < nDeputies; i++ {
				if string(node.Deputy(i).NodeID) == string(id) {
					n = fmt.Sprintf("d%d", i)
				}
			}
		}
		l = append(l, n)
	}
	sort.Strings(l)
	return "[" + strings.Join(l, ",") + "]"
}

#!/bin/bash
# usage: mc/props/c19/race.sh [reps]        (default 200)
# Supporting evidence only (not part of the verdict, not run by bin/check): the same scenario bodies
# as the C19 harness, free-running on plain goroutines under Go's race detector, <reps> repetitions
# per scenario. No controlled scheduler, no announced accesses: the only rewritten sources are the
# `go` statements (so that the harness can wait for the engine's goroutines) and the clock of
# chain/consensus (blocks are stamped in the past of a fixed virtual clock). The detector sees every
# variable, but only the schedules the OS happens to produce.
# Exit status: 0 = no report, 66 = the race detector reported (see the log), 1 = an oracle failed.
set -u
reps="${1:-200}"
export GOFLAGS=-mod=mod GOPROXY=off GOSUMDB=off GOTOOLCHAIN=local
V=/verif
cd "$V/mc" || exit 2
cp /repo/go.sum go.sum 2>/dev/null
mkdir -p "$V/.build"
go build -o "$V/.build/instr" ./instr || exit 2
ov="$V/.build/overlay-c19race"
"$V/.build/instr" -out "$ov" ${VERIF_MUT_OVERLAY:+-srcoverlay "$VERIF_MUT_OVERLAY"} chain/consensus:go,time || exit 2
go build -race -tags verif -overlay "$ov/overlay.json" -o "$V/.build/c19.race" ./props/c19 || exit 2
log="$V/.build/c19.race.log"
GORACE="halt_on_error=0 exitcode=66 log_path=$log" VERIF_C19_FREERUN="$reps" "$V/.build/c19.race" -tier quick
rc=$?
n=$(cat "$log".* 2>/dev/null | grep -c "WARNING: DATA RACE")
echo "race.sh: exit=$rc race reports=$n (logs: $log.*)"
if [ "$n" -gt 0 ]; then
  cat "$log".* | grep -A12 "WARNING: DATA RACE" | grep -E "^(WARNING|  (Read|Write|Previous)|      /repo)" | sed 's/ +0x[0-9a-f]*//' | sort | uniq -c | sort -rn | head -40
fi
exit $rc
